#!/bin/sh
# Run the repository's own test suite with the guard OFF on a scratch copy of the working tree and
# compare with BASELINE.json (25 tests).  Prints one line per test and a summary; exit 0 iff all pass.
set -e
T=$(mktemp -d /tmp/libvna-baseline.XXXXXX)
trap 'rm -rf "$T"' EXIT
rsync -a --exclude .git /repo/ "$T/repo/"
cd "$T/repo"
# make sure objects older than edited sources are rebuilt; never regenerate autotools files
touch aclocal.m4 configure Makefile.in src/Makefile.in src/tests/Makefile.in config.h.in 2>/dev/null || true
touch config.status Makefile src/Makefile src/tests/Makefile config.h stamp-h1 2>/dev/null || true
find . -name "*.trs" -delete; make -j8 check >"$T/log" 2>&1 || true
pass=0; fail=0
for t in $(python3 -c "import json;print(' '.join(json.load(open('/root/.vp/BASELINE.json'))['stable_pass']))"); do
  if grep -q '^:test-result: PASS' "$t.trs" 2>/dev/null; then pass=$((pass+1)); echo "PASS $t"; else fail=$((fail+1)); echo "FAIL $t"; fi
done
echo "baseline (guard off): $pass passed, $fail failed"
[ "$fail" -eq 0 ]
