#!/bin/sh
# mkseedtree.sh <name>: scratch git worktree of /repo under /tmp/seed-<name> with the build configuration
# (untracked autotools output) copied in, ready for `make -j8 check`.  Remove with:
#   git -C /repo worktree remove --force /tmp/seed-<name>
set -e
D=/tmp/seed-$1
git -C /repo worktree add -q --detach "$D" HEAD
rsync -a --ignore-existing --exclude .git --exclude '*.o' --exclude '*.lo' --exclude '*.la' --exclude .libs --exclude '*.trs' --exclude '*.log' /repo/ "$D/"
cd "$D"
touch aclocal.m4 configure Makefile.in src/Makefile.in src/tests/Makefile.in config.h.in 2>/dev/null || true
touch config.status Makefile src/Makefile src/tests/Makefile config.h stamp-h1 2>/dev/null || true
echo "$D"
