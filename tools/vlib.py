"""Shared machinery for the property checks (see DESIGN.md §3, §4).

build_c()      compile /repo/src of the *current working tree* (content-hash keyed cache under
               /verif/.cache) with ASan+UBSan and -DLIBVNA_VERIF, link the line-protocol harness
lake_build()   serialised `lake build` of the needed Lean targets
audit()        forbidden-token grep + `#print axioms` of every property theorem
Runner         drives harness and model over the same script and returns both output streams
Evidence       writes /verif/evidence/<id>.json
"""
import fcntl, glob, hashlib, json, os, random, re, shutil, struct, subprocess, sys, tempfile, time
from concurrent.futures import ThreadPoolExecutor

VERIF = os.path.dirname(os.path.dirname(os.path.abspath(__file__)))
REPO = os.environ.get('VERIF_REPO', '/repo')
LEAN = os.path.join(VERIF, 'lean')
CACHE = os.path.join(VERIF, '.cache')
GUARD = 'LIBVNA_VERIF'
ALLOWED_AXIOMS = {'propext', 'Classical.choice', 'Quot.sound'}
WRAPS = ['malloc', 'calloc', 'realloc', 'free', 'strdup', 'vasprintf']


def log(*a):
    print(*a, file=sys.stderr, flush=True)


def sh(cmd, **kw):
    return subprocess.run(cmd, capture_output=True, text=True, **kw)


# --------------------------------------------------------------------------- C build

def lib_sources():
    out = []
    for f in sorted(glob.glob(REPO + '/src/*.c')):
        b = os.path.basename(f)
        if 'example' in b or b == 'convert-parameters.c':
            continue
        out.append(f)
    return out


def tree_hash(extra=()):
    h = hashlib.sha256()
    files = sorted(glob.glob(REPO + '/src/*.[ch]')) + [REPO + '/config.h'] + list(extra)
    for f in files:
        h.update(f.encode())
        try:
            h.update(open(f, 'rb').read())
        except OSError:
            h.update(b'<missing>')
    return h.hexdigest()[:20]


CFLAGS = ['-O1', '-g', '-fno-omit-frame-pointer', '-fsanitize=address,undefined',
          '-fno-sanitize-recover=all', '-fno-sanitize=nonnull-attribute', '-I' + REPO, '-I' + REPO + '/src', '-DHAVE_CONFIG_H', '-D' + GUARD,
          '-Wno-unused-result']


def build_c():
    """returns (path to harness binary, build dir). Rebuilds when any source differs."""
    os.makedirs(CACHE, exist_ok=True)
    hfiles = sorted(glob.glob(VERIF + '/harness/*.[ch]')) + [VERIF + '/gen/conv2_table.inc']
    key = tree_hash(hfiles) + hashlib.sha256(' '.join(CFLAGS).encode()).hexdigest()[:6]
    d = os.path.join(CACHE, 'c-' + key)
    exe = os.path.join(d, 'vh')
    lock = open(os.path.join(CACHE, 'c.lock'), 'w')
    fcntl.flock(lock, fcntl.LOCK_EX)
    try:
        if os.path.exists(exe):
            os.utime(d)
            return exe, d
        # drop older builds (disk is limited), but never one a concurrent check of another tree may still be running
        olds = sorted(glob.glob(CACHE + '/c-*'), key=lambda q: os.path.getmtime(q), reverse=True)
        for k, old in enumerate(olds):
            if k >= 3 or time.time() - os.path.getmtime(old) > 3600 or old.endswith('.tmp'):
                shutil.rmtree(old, ignore_errors=True)
        tmp = d + '.tmp'
        shutil.rmtree(tmp, ignore_errors=True)
        os.makedirs(tmp)
        srcs = lib_sources()

        def cc(f):
            o = os.path.join(tmp, os.path.basename(f)[:-2] + '.o')
            r = sh(['gcc'] + CFLAGS + ['-c', f, '-o', o])
            return f, r.returncode, r.stderr
        with ThreadPoolExecutor(16) as ex:
            res = list(ex.map(cc, srcs))
        bad = [(f, e) for f, rc, e in res if rc != 0]
        if bad:
            raise BuildError('libvna does not compile: %s\n%s' % (bad[0][0], bad[0][1][:2000]))
        objs = [os.path.join(tmp, os.path.basename(f)[:-2] + '.o') for f in srcs]
        r = sh(['ar', 'rcs', os.path.join(tmp, 'libvna.a')] + objs)
        if r.returncode:
            raise BuildError('ar failed: ' + r.stderr)
        hsrc = sorted(glob.glob(VERIF + '/harness/*.c'))
        wraps = ['-Wl,' + ','.join('--wrap=' + w for w in WRAPS)]
        r = sh(['gcc'] + CFLAGS + ['-I' + VERIF + '/harness', '-I' + VERIF + '/gen'] + hsrc +
               [os.path.join(tmp, 'libvna.a'), '-lyaml', '-lm', '-o', os.path.join(tmp, 'vh')] + wraps)
        if r.returncode:
            raise BuildError('harness does not link:\n' + r.stderr[:4000])
        for o in objs:
            os.remove(o)
        os.rename(tmp, d)
        return exe, d
    finally:
        fcntl.flock(lock, fcntl.LOCK_UN)
        lock.close()


MSAN_CFLAGS = ['-O1', '-g', '-fno-omit-frame-pointer', '-fsanitize=memory', '-fsanitize-memory-track-origins=2', '-I' + REPO, '-I' + REPO + '/src',
               '-DHAVE_CONFIG_H', '-D' + GUARD, '-DVH_MSAN', '-Wno-everything',
               # clang 14 with these glibc headers has no CMPLX
               '-DCMPLX(x,y)=__builtin_complex((double)(x),(double)(y))']


def build_msan():
    """the same harness and library built by clang with MemorySanitizer (reads of uninitialised memory that decide a branch, an
    address or a system call).  libyaml and libc are not instrumented: scripts for this binary must not reach libyaml."""
    os.makedirs(CACHE, exist_ok=True)
    hfiles = sorted(glob.glob(VERIF + '/harness/*.[ch]')) + [VERIF + '/gen/conv2_table.inc']
    key = tree_hash(hfiles) + hashlib.sha256(' '.join(MSAN_CFLAGS).encode()).hexdigest()[:6]
    d = os.path.join(CACHE, 'm-' + key)
    exe = os.path.join(d, 'vh')
    lock = open(os.path.join(CACHE, 'm.lock'), 'w')
    fcntl.flock(lock, fcntl.LOCK_EX)
    try:
        if os.path.exists(exe):
            os.utime(d)
            return exe
        olds = sorted(glob.glob(CACHE + '/m-*'), key=lambda q: os.path.getmtime(q), reverse=True)
        for k, old in enumerate(olds):
            if k >= 2 or time.time() - os.path.getmtime(old) > 3600 or old.endswith('.tmp'):
                shutil.rmtree(old, ignore_errors=True)
        tmp = d + '.tmp'
        shutil.rmtree(tmp, ignore_errors=True)
        os.makedirs(tmp)
        srcs = lib_sources()

        def cc(f):
            o = os.path.join(tmp, os.path.basename(f)[:-2] + '.o')
            r = sh(['clang'] + MSAN_CFLAGS + ['-c', f, '-o', o])
            return f, r.returncode, r.stderr
        with ThreadPoolExecutor(16) as ex:
            res = list(ex.map(cc, srcs))
        bad = [(f, e) for f, rc, e in res if rc != 0]
        if bad:
            raise BuildError('libvna does not compile (clang, MemorySanitizer): %s\n%s' % (bad[0][0], bad[0][1][:2000]))
        objs = [os.path.join(tmp, os.path.basename(f)[:-2] + '.o') for f in srcs]
        r = sh(['ar', 'rcs', os.path.join(tmp, 'libvna.a')] + objs)
        if r.returncode:
            raise BuildError('ar failed: ' + r.stderr)
        hsrc = sorted(glob.glob(VERIF + '/harness/*.c'))
        wraps = ['-Wl,' + ','.join('--wrap=' + w for w in WRAPS)]
        r = sh(['clang'] + MSAN_CFLAGS + ['-I' + VERIF + '/harness', '-I' + VERIF + '/gen'] + hsrc +
               [os.path.join(tmp, 'libvna.a'), '-lyaml', '-lm', '-o', os.path.join(tmp, 'vh')] + wraps)
        if r.returncode:
            raise BuildError('MemorySanitizer harness does not link:\n' + r.stderr[:4000])
        for o in objs:
            os.remove(o)
        os.remove(os.path.join(tmp, 'libvna.a'))
        os.rename(tmp, d)
        return exe
    finally:
        fcntl.flock(lock, fcntl.LOCK_UN)
        lock.close()


class BuildError(Exception):
    pass


# --------------------------------------------------------------------------- Lean build

def lake_build(targets, timeout=3000):
    """serialised lake build; returns (ok, output)"""
    os.makedirs(CACHE, exist_ok=True)
    lock = open(os.path.join(CACHE, 'lake.lock'), 'w')
    fcntl.flock(lock, fcntl.LOCK_EX)
    try:
        r = sh(['lake', 'build'] + list(targets), cwd=LEAN, timeout=timeout)
        return r.returncode == 0, r.stdout + r.stderr
    finally:
        fcntl.flock(lock, fcntl.LOCK_UN)
        lock.close()


def failed_modules(out):
    return sorted(set(re.findall(r'^✖ \[\d+/\d+\] Building (\S+)', out, re.M)) |
                  set(m for m in re.findall(r'^- (Libvna\S+)', out, re.M)))


FORBIDDEN = re.compile(r'\b(sorry|admit|native_decide|bv_decide|implemented_by|unsafe)\b|^\s*axiom\s|maxHeartbeats\s+0')


def strip_comments(text):
    # remove /- ... -/ (nested) and -- comments
    out = []
    i = 0
    depth = 0
    n = len(text)
    while i < n:
        if text.startswith('/-', i):
            depth += 1
            i += 2
        elif depth and text.startswith('-/', i):
            depth -= 1
            i += 2
        elif depth:
            i += 1
        elif text.startswith('--', i):
            while i < n and text[i] != '\n':
                i += 1
        else:
            out.append(text[i])
            i += 1
    return ''.join(out)


def grep_forbidden(paths):
    hits = []
    for p in paths:
        try:
            t = strip_comments(open(p).read())
        except OSError:
            continue
        for ln, line in enumerate(t.split('\n'), 1):
            if FORBIDDEN.search(line):
                hits.append('%s:%d: %s' % (os.path.relpath(p, VERIF), ln, line.strip()[:120]))
    return hits


def transitive_imports(mod, _memo={}):
    if mod in _memo:
        return _memo[mod]
    _memo[mod] = set()
    path = os.path.join(LEAN, *mod.split('.')) + '.lean'
    res = set()
    try:
        for line in open(path):
            m = re.match(r'import (Libvna\S*)', line)
            if m:
                res.add(m.group(1))
                res |= transitive_imports(m.group(1))
    except OSError:
        pass
    _memo[mod] = res
    return res


def print_axioms(imports, theorems):
    """returns dict theorem -> set of axioms, or None entry when the theorem does not exist.
    Modules whose compiled file is missing or stale (because they or something they import no
    longer checks) are dropped from the import list and their theorems come back as None."""
    res = {}
    imports = list(imports)
    CH = 400
    k = 0
    tries = 0
    while k < len(theorems):
        chunk = theorems[k:k + CH]
        src = ''.join('import %s\n' % i for i in imports) + ''.join('#print axioms %s\n' % t for t in chunk)
        with tempfile.NamedTemporaryFile('w', suffix='.lean', dir=CACHE, delete=False) as f:
            f.write(src)
            path = f.name
        try:
            r = sh(['lake', 'env', 'lean', path], cwd=LEAN, timeout=1200)
        finally:
            os.remove(path)
        out = r.stdout + r.stderr
        m = re.search(r"object file '[^']*' of module (\S+) does not exist|unknown module prefix '([^']+)'", out)
        if m and tries < 200:
            bad = m.group(1) or m.group(2)
            tries += 1
            drop = [i for i in imports if i == bad or bad in transitive_imports(i)]
            if drop:
                imports = [i for i in imports if i not in drop]
                continue
        # "'name' depends on axioms: [a, b]" or "'name' does not depend on any axioms"
        for m in re.finditer(r"'([^']+)' depends on axioms: \[([^\]]*)\]", out, re.S):
            res[m.group(1)] = set(a.strip() for a in m.group(2).replace('\n', ' ').split(',') if a.strip())
        for m in re.finditer(r"'([^']+)' does not depend on any axioms", out):
            res[m.group(1)] = set()
        for t in chunk:
            if t not in res:
                res[t] = None
        k += CH
    return res


def audit(files, imports, theorems):
    """returns (n_ok, problems:list[str], axioms_seen:set)"""
    problems = grep_forbidden(files)
    ax = print_axioms(imports, theorems)
    seen = set()
    ok = 0
    for t in theorems:
        v = ax.get(t)
        if v is None:
            problems.append('theorem %s is missing or failed to check' % t)
            continue
        extra = v - ALLOWED_AXIOMS
        seen |= v
        if extra:
            problems.append('theorem %s depends on non-standard axioms %s' % (t, sorted(extra)))
        else:
            ok += 1
    return ok, problems, seen


def leanchecker(module):
    r = sh(['lake', 'env', 'leanchecker', module], cwd=LEAN, timeout=3000)
    return r.returncode == 0, (r.stdout + r.stderr)[-2000:]


# --------------------------------------------------------------------------- runners

def model_exe():
    return os.path.join(LEAN, '.lake', 'build', 'bin', 'vmodel')


# every script a check feeds to the ASan/UBSan harness is also fed to the MemorySanitizer build (without the calls that reach the
# uninstrumented libyaml); a read of memory the library never wrote is reported by the check at its end.  Enabled by check.py.
SHADOW = {'exe': None, 'reports': [], 'runs': 0, 'calls': 0}
YAML_LINE = re.compile(r'^(cal (savestr|loadstr|save|load|resave) |pt .*\b(export|import|importf|yamltree)\b)')
MSAN_ENV = {'MSAN_OPTIONS': 'exitcode=98:halt_on_error=1:print_stats=0:allocator_may_return_null=1:check_printf=1'}


def msan_lines(lines, timeout=600):
    """(reached, stderr) of the script under the MemorySanitizer harness; stderr is '' when it reports no uninitialised read"""
    ls = [l for l in lines if not YAML_LINE.match(l)]
    out, rc, err = run_lines(SHADOW['exe'], ls, timeout=timeout, env=MSAN_ENV)
    SHADOW['runs'] += 1
    SHADOW['calls'] += len(out)
    return ls[:len(out) + 1], (err if 'use-of-uninitialized-value' in err else '')


def run_lines(exe, lines, timeout=600, env=None):
    """feed lines, return (list of output lines, returncode, stderr)"""
    if SHADOW['exe'] and exe != SHADOW['exe'] and os.path.basename(exe) == 'vh' and len(SHADOW['reports']) < 3:
        reached, err = msan_lines(lines, timeout)
        if err:
            SHADOW['reports'].append((reached, err))
    e = dict(os.environ)
    e.setdefault('ASAN_OPTIONS', 'detect_leaks=1:abort_on_error=0:exitcode=99:allocator_may_return_null=1:max_allocation_size_mb=1024')
    e.setdefault('UBSAN_OPTIONS', 'print_stacktrace=1:halt_on_error=1')
    if env:
        e.update(env)
    try:
        r = subprocess.run([exe], input='\n'.join(lines) + '\n', capture_output=True, text=True,
                           timeout=timeout, env=e)
        return r.stdout.split('\n')[:-1] if r.stdout.endswith('\n') else r.stdout.split('\n'), r.returncode, r.stderr
    except subprocess.TimeoutExpired as ex:
        out = ex.stdout.decode() if isinstance(ex.stdout, bytes) else (ex.stdout or '')
        return out.split('\n'), -9, 'TIMEOUT after %ss' % timeout


def d2h(x):
    return '%016x' % struct.unpack('<Q', struct.pack('<d', float(x)))[0]


def h2d(s):
    return struct.unpack('<d', struct.pack('<Q', int(s, 16)))[0]


def c2h(z):
    z = complex(z)
    return d2h(z.real) + ' ' + d2h(z.imag)


def hs2c(words):
    return [complex(h2d(words[i]), h2d(words[i + 1])) for i in range(0, len(words) - 1, 2)]


def hexbytes(b):
    if isinstance(b, str):
        b = b.encode()
    return 'x' + b.hex()


# --------------------------------------------------------------------------- results

def known_findings():
    try:
        return json.load(open(os.path.join(VERIF, 'known_findings.json')))
    except OSError:
        return {'findings': [], 'fixed': []}


class Check:
    """collects what one check run did and writes evidence / prints the verdict"""

    def __init__(self, pid, tier, seed):
        self.pid = pid
        self.tier = tier
        self.seed = seed
        self.t0 = time.time()
        self.obligations = 0
        self.discharged = 0
        self.theorems = []
        self.trusted = []
        self.samples = []
        self.evaluations = 0
        self.distinct = set()
        self.rule = ''
        self.hist = {}
        self.violations = []   # (replay path, text, nofail)
        self.known = []
        self.extra = {}
        self.assumptions = []
        self.checker_cmd = ''

    def count(self, key, n=1):
        self.hist[key] = self.hist.get(key, 0) + n

    def replay_path(self, tag):
        d = os.path.join(VERIF, 'replays')
        os.makedirs(d, exist_ok=True)
        return os.path.join(d, '%s-%s-%s.txt' % (self.pid, tag, self.seed))

    def violation(self, tag, text, script=None, nofail=False):
        """record a violation unless it matches a known finding"""
        for kf in known_findings().get('findings', []):
            if kf['property'] == self.pid and kf['match'] in text:
                if kf['id'] not in [k['id'] for k in self.known]:
                    self.known.append(kf)
                return
        p = self.replay_path(tag)
        if any(q == p for q, _, _ in self.violations):
            return
        with open(p, 'w') as f:
            f.write('# property=%s seed=%s tier=%s\n# %s\n' % (self.pid, self.seed, self.tier, text.replace('\n', '\n# ')))
            if script:
                f.write('\n'.join(script) + '\n')
        self.violations.append((p, text, nofail))

    def finish(self):
        wall = time.time() - self.t0
        ev = {
            'property_id': self.pid, 'tier': self.tier, 'seed': int(self.seed), 'level': 'proof',
            'coverage': {
                'obligations': self.obligations, 'discharged': self.discharged,
                'checker_cmd': self.checker_cmd or 'cd /verif/lean && lake build <targets> && lake env lean <#print axioms file>',
                'trusted_base': self.trusted,
                'theorems': self.theorems[:400],
                'evaluations': self.evaluations, 'distinct_nontrivial': len(self.distinct),
                'rule': self.rule, 'samples': self.samples[:12],
                'histogram': self.hist,
            },
            'assumptions': self.assumptions, 'wall_s': round(wall, 2),
            'violations': len(self.violations),
        }
        ev['coverage'].update(self.extra)
        os.makedirs(os.path.join(VERIF, 'evidence'), exist_ok=True)
        with open(os.path.join(VERIF, 'evidence', self.pid + '.json'), 'w') as f:
            json.dump(ev, f, indent=1, sort_keys=True, default=str)
        for kf in self.known:
            print('KNOWN-FINDING: property=%s %s' % (self.pid, kf['what']))
        for p, text, nofail in self.violations:
            log('violation: ' + text[:2000])
            print('VIOLATION property=%s replay=%s%s' % (self.pid, p, ' no-failing-input-found' if nofail else ''))
        print('%s %s: obligations %d/%d, evaluations %d (%d distinct), %.1fs, %s' % (
            self.pid, self.tier, self.discharged, self.obligations, self.evaluations, len(self.distinct), wall,
            'FAIL' if self.violations else 'pass'))
        return 1 if self.violations else 0


# --------------------------------------------------------------------------- history correspondence

def same_line(a, b, tol=0.0):
    """exact equality, or (tol > 0) token-wise with hex doubles compared to relative tolerance"""
    if a == b:
        return True
    if tol <= 0:
        return False
    ta, tb = a.split(), b.split()
    if len(ta) != len(tb):
        return False
    import math
    vals = []
    for x, y in zip(ta, tb):
        if x == y:
            continue
        if len(x) == 16 and len(y) == 16:
            try:
                vals.append((h2d(x), h2d(y)))
                continue
            except ValueError:
                return False
        return False
    scale = max([1e-300] + [abs(p) for p, q in vals if p == p and abs(p) != float('inf')])
    for p, q in vals:
        if p != p and q != q:
            continue
        if p == q:
            continue
        if not abs(p - q) <= tol * max(scale, abs(p)):
            return False
    return True


def first_diff(xs, ys, tol=0.0):
    for i, (a, b) in enumerate(zip(xs, ys)):
        if not same_line(a, b, tol):
            return i
    if len(xs) != len(ys):
        return min(len(xs), len(ys))
    return None


def shrink(lines, failing, budget=120):
    """greedy delta debugging: remove chunks while `failing(lines)` stays true"""
    cur = list(lines)
    n = 2
    tries = 0
    while len(cur) >= 2 and tries < budget:
        chunk = max(1, len(cur) // n)
        removed = False
        for i in range(0, len(cur), chunk):
            cand = cur[:i] + cur[i + chunk:]
            tries += 1
            if cand and failing(cand):
                cur = cand
                n = max(n - 1, 2)
                removed = True
                break
            if tries >= budget:
                break
        if not removed:
            if chunk == 1:
                break
            n = min(n * 2, len(cur))
    return cur


class Session:
    """interactive line-protocol session with the harness: one line out, one line back"""

    def __init__(self, exe, env=None):
        e = dict(os.environ)
        e.setdefault('ASAN_OPTIONS', 'detect_leaks=1:abort_on_error=0:exitcode=99:allocator_may_return_null=1:max_allocation_size_mb=1024')
        e.setdefault('UBSAN_OPTIONS', 'print_stacktrace=1:halt_on_error=1')
        if env:
            e.update(env)
        self.p = subprocess.Popen([exe], stdin=subprocess.PIPE, stdout=subprocess.PIPE, stderr=subprocess.PIPE, text=True, env=e, bufsize=1)
        self.lines = []
        self.outs = []
        self.dead = False

    def send(self, line):
        self.lines.append(line)
        if self.dead:
            self.outs.append('<died>')
            return '<died>'
        try:
            self.p.stdin.write(line + '\n')
            self.p.stdin.flush()
            o = self.p.stdout.readline()
        except (BrokenPipeError, OSError):
            o = ''
        if o == '':
            self.dead = True
            o = '<died>'
        o = o.rstrip('\n')
        self.outs.append(o)
        return o

    def close(self):
        """returns (returncode, stderr)"""
        try:
            self.p.stdin.close()
        except OSError:
            pass
        try:
            err = self.p.stderr.read()
            rc = self.p.wait(timeout=120)
        except Exception:
            self.p.kill()
            rc, err = -9, 'timeout'
        return rc, err
