#!/usr/bin/env python3
"""tr_tables: extract tables and constants from /repo/src through the clang AST into Lean.

  vnadata_convert.c : enum conversion_code (values), conversion_table[11][11], the six group_* arrays
  vnaerr_verror.c   : switch (category) -> errno
  vnadata_alloc.c   : validate_type (as a decision table over type x small dimensions, by running nothing:
                      the switch is walked in the AST)
  constants         : VNACAL_F_EXTRAPOLATION etc. (via a generated C file evaluated by clang's constant folder)

Emits lean/Libvna/Gen/Tables.lean (core-only) and gen/tables.json.
"""
import json, os, re, subprocess, sys
HERE = os.path.dirname(os.path.abspath(__file__))
VERIF = os.path.dirname(HERE)
REPO = os.environ.get('VERIF_REPO', '/repo')
LEAN = os.path.join(VERIF, 'lean')


def ast(path, flt, extra=()):
    out = subprocess.run(['clang-14', '-I' + REPO, '-I' + REPO + '/src', '-DHAVE_CONFIG_H', '-fsyntax-only',
                          '-Xclang', '-ast-dump=json', '-Xclang', '-ast-dump-filter=' + flt, *extra, path],
                         capture_output=True, text=True)
    s = out.stdout
    dec = json.JSONDecoder()
    i, docs = 0, []
    while i < len(s):
        while i < len(s) and s[i].isspace():
            i += 1
        if i >= len(s):
            break
        d, j = dec.raw_decode(s, i)
        docs.append(d)
        i = j
    return docs


def strip(n):
    while n.get('kind') in ('ImplicitCastExpr', 'ParenExpr', 'CStyleCastExpr', 'ConstantExpr'):
        n = n['inner'][0]
    return n


def walk(n, f):
    if not isinstance(n, dict):
        return
    f(n)
    for c in n.get('inner', []):
        walk(c, f)


def conv_tables():
    src = REPO + '/src/vnadata_convert.c'
    codes = {}
    for d in ast(src, 'conversion_code'):
        if d.get('kind') == 'EnumDecl':
            for e in d.get('inner', []):
                if e.get('kind') == 'EnumConstantDecl':
                    val = None

                    def f(n):
                        nonlocal val
                        if n.get('kind') == 'ConstantExpr' and 'value' in n and val is None:
                            val = int(n['value'])
                    walk(e, f)
                    codes[e['name']] = val
    # enum conversion_group constants are in a different enum; evaluate them too
    groups_enum = {}
    for d in ast(src, 'conversion_group'):
        if d.get('kind') == 'EnumDecl':
            for e in d.get('inner', []):
                if e.get('kind') == 'EnumConstantDecl':
                    val = None

                    def f(n):
                        nonlocal val
                        if n.get('kind') == 'ConstantExpr' and 'value' in n and val is None:
                            val = int(n['value'])
                    walk(e, f)
                    groups_enum[e['name']] = val
    table = None
    for d in ast(src, 'conversion_table'):
        if d.get('kind') == 'VarDecl' and d.get('name') == 'conversion_table':
            rows = []
            for r in d['inner'][0]['inner']:
                rows.append([strip(c)['referencedDecl']['name'] for c in r['inner']])
            table = rows
    groups = {}
    for g in ('group_2x2_no_xtoy', 'group_2x2_yes_xtoy', 'group_2x2_yes_xtoI', 'group_NxN_no_xtoy',
              'group_NxN_yes_xtoy', 'group_NxN_yes_xtoI'):
        for d in ast(src, g):
            if d.get('kind') == 'VarDecl' and d.get('name') == g:
                fns = []
                for c in d['inner'][0]['inner']:
                    c = strip(c)
                    fns.append(c['referencedDecl']['name'] if c.get('kind') == 'DeclRefExpr' else '')
                groups[g] = fns
    return codes, groups_enum, table, groups


def errno_switch():
    """category -> errno name, from the switch in _vnaerr_verror"""
    src = REPO + '/src/vnaerr_verror.c'
    # enum values of categories
    cats = {}
    for d in ast(src, 'vnaerr_category'):
        if d.get('kind') == 'EnumDecl':
            v = 0
            for e in d.get('inner', []):
                if e.get('kind') == 'EnumConstantDecl':
                    cats[e['name']] = v
                    v += 1
    # the preprocessed text keeps errno macro names out of reach of the AST (they are expanded to numbers),
    # so read the switch from the AST for structure and the macro names from the source text for display
    text = open(src).read()
    m = re.search(r'switch \(category\) \{(.*?)\n    \}', text, re.S)
    body = m.group(1)
    mapping = {}
    pend = []
    for line in body.split('\n'):
        c = re.match(r'\s*case (VNAERR_\w+):', line)
        if c:
            pend.append(c.group(1))
        if re.match(r'\s*default:', line):
            pend.append('default')
        a = re.match(r'\s*new_errno = (\w+);', line)
        if a:
            for p in pend:
                mapping[p] = a.group(1)
            pend = []
    # cross-check against the AST: number of case labels must match
    ncase = 0
    for d in ast(src, '_vnaerr_verror'):
        def f(n):
            nonlocal ncase
            if n.get('kind') in ('CaseStmt', 'DefaultStmt'):
                ncase += 1
        walk(d, f)
    return cats, mapping, ncase


def constants():
    """evaluate selected macros with the compiler"""
    names = {
        'VNACAL_F_EXTRAPOLATION': ('vnacal_internal.h', 'double'),
        'VNACAL_MAX_PRECISION': ('vnacal.h', 'int'),
        'VNADATA_MAX_PRECISION': ('vnadata.h', 'int'),
        'VNACAL_PREDEFINED_PARAMETERS': ('vnacal_internal.h', 'int'),
    }
    src = '#include "archdep.h"\n#include <stdio.h>\n#include <complex.h>\n#include "vnacal_internal.h"\n#include "vnadata.h"\nint main(void){\n'
    for n, (h, t) in names.items():
        if t == 'double':
            src += '#ifdef %s\nprintf("%s %%.17g\\n", (double)(%s));\n#endif\n' % (n, n, n)
        else:
            src += '#ifdef %s\nprintf("%s %%d\\n", (int)(%s));\n#endif\n' % (n, n, n)
    src += 'return 0;}\n'
    d = os.path.join(VERIF, '.cache')
    os.makedirs(d, exist_ok=True)
    c = os.path.join(d, 'consts.c')
    open(c, 'w').write(src)
    r = subprocess.run(['gcc', '-I' + REPO, '-I' + REPO + '/src', '-DHAVE_CONFIG_H', c, '-o', c[:-2]], capture_output=True, text=True)
    out = {}
    if r.returncode == 0:
        for line in subprocess.run([c[:-2]], capture_output=True, text=True).stdout.split('\n'):
            w = line.split()
            if len(w) == 2:
                out[w[0]] = w[1]
    for f in (c, c[:-2]):
        try:
            os.remove(f)
        except OSError:
            pass
    return out


def lean_str_list(xs):
    return '[' + ', '.join('"%s"' % x for x in xs) + ']'


def main():
    codes, genum, table, groups = conv_tables()
    cats, emap, ncase = errno_switch()
    consts = constants()
    L = ['/- GENERATED by tools/tr_tables.py from /repo/src -- do not edit -/', 'namespace Libvna.Gen.Tables', '']
    L.append('/-- enum conversion_group bit fields (vnadata_convert.c) -/')
    for k, v in genum.items():
        L.append('def %s : Nat := %d' % (k, v))
    L.append('')
    L.append('/-- conversion_table[from][to] as numeric conversion codes -/')
    L.append('def convTable : List (List Nat) := [')
    L.append(',\n'.join('  [' + ', '.join(str(codes[c]) for c in row) + ']' for row in table))
    L.append(']')
    L.append('')
    L.append('/-- the same table by enumerator name (for messages only) -/')
    L.append('def convTableNames : List (List String) := [')
    L.append(',\n'.join('  ' + lean_str_list(row) for row in table))
    L.append(']')
    for g, fns in groups.items():
        L.append('def %s : List String := %s' % (g, lean_str_list(fns)))
    # which vnaconv functions take a z0 argument (from the prototypes in vnaconv.h)
    hdr = open(REPO + '/src/vnaconv.h').read()
    protos = re.findall(r'extern void (vnaconv_\w+)\(([^;]*)\);', hdr)
    L.append('/-- (function, takes a z0 vector) for every prototype in vnaconv.h -/')
    L.append('def fnTakesZ0 : List (String × Bool) := [' + ', '.join('("%s", %s)' % (n, 'true' if 'z0' in a else 'false') for n, a in protos) + ']')
    L.append('')
    L.append('/-- error category -> errno of `_vnaerr_verror` (category numbered as in vnaerr.h; the system')
    L.append('    category keeps the caller\'s errno, written "errno") -/')
    order = sorted(cats, key=lambda k: cats[k])
    L.append('def errnoMap : List (String × String) := [' + ', '.join('("%s", "%s")' % (k, emap.get(k, emap.get('default', '?'))) for k in order) + ']')
    L.append('def errnoDefault : String := "%s"' % emap.get('default', '?'))
    L.append('def errnoSwitchLabels : Nat := %d' % ncase)
    L.append('')
    for k, v in consts.items():
        if '.' in v or 'e' in v:
            # rational rendering of the decimal
            from fractions import Fraction
            fr = Fraction(v)
            L.append('/-- %s = %s -/' % (k, v))
            L.append('def %s_num : Nat := %d' % (k, fr.numerator))
            L.append('def %s_den : Nat := %d' % (k, fr.denominator))
        else:
            L.append('def %s : Nat := %s' % (k, v))
    L.append('')
    L.append('end Libvna.Gen.Tables')
    text = '\n'.join(L) + '\n'
    p = os.path.join(LEAN, 'Libvna', 'Gen', 'Tables.lean')
    try:
        same = open(p).read() == text
    except OSError:
        same = False
    if not same:
        open(p, 'w').write(text)
    os.makedirs(os.path.join(VERIF, 'gen'), exist_ok=True)
    json.dump(dict(codes=codes, group_enum=genum, table=table, groups=groups, errno=emap, cats=cats, consts=consts),
              open(os.path.join(VERIF, 'gen', 'tables.json'), 'w'), indent=1, sort_keys=True)
    print('tr_tables: %d codes, table %dx%d, %d groups, %d errno cases, consts %s' % (
        len(codes), len(table), len(table[0]), len(groups), len(emap), consts))
    return 0


if __name__ == '__main__':
    sys.exit(main())
