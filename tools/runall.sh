#!/bin/sh
# run every claimed check (tier $1, default quick) on the current /repo tree; one summary line per property
T=${1:-quick}
cd /verif
for p in $(python3 -c "import json;print(' '.join(c['property_id'] for c in json.load(open('MANIFEST.json'))['checks']))"); do
  python3-vt tools/check.py $p --tier $T 2>&1 | grep -E "^(VIOLATION|KNOWN-FINDING|C[0-9]+ (quick|thorough):)" | cut -c1-200
done
