#!/usr/bin/env python3
"""tr_conv2: translate the two-port vnaconv_*.c functions of /repo/src into Lean.

Front end: clang-14 JSON AST of the real file with the real include path.
Accepted grammar (anything else is reported as 'untranslatable', which the
check treats as an undischarged obligation):

  function body := (DeclStmt of one VarDecl with initialiser | store)*
  store         := param[i][j] = expr | param[i] = expr      (constant indices)
  expr          := literal | local | param[i][j] | param[i] | (expr)
                 | expr (+|-|*|/) expr | -expr
                 | conj(expr) | creal(expr) | sqrt(fabs(expr))

The translation is memory-faithful: loads from parameter arrays are performed
at the statement where they occur and stores update the array, so that the
aliased rendering (input and output array are the same object) is the
store-sequence semantics of the C text, not an idealisation of it.

Emits
  Libvna/Gen/Conv2.lean              core-only defs, generic over the scalar ops
                                     (shared by the theorems and the Float driver)
  Libvna/Gen/Conv2Thm/<fn>.lean      one theorem file per function
  Libvna/Gen/Conv2All.lean           imports all theorem files
  gen/conv2.json                     per-function metadata for check.py
"""
import json, os, subprocess, sys, re, hashlib
from concurrent.futures import ThreadPoolExecutor

REPO = os.environ.get('VERIF_REPO', '/repo')
HERE = os.path.dirname(os.path.abspath(__file__))
LEAN = os.path.join(os.path.dirname(HERE), 'lean')

TYPES = 'stuzyhgab'
WAVE = 'stu'


class Untranslatable(Exception):
    pass


def clang_ast(path, fn):
    out = subprocess.run(
        ['clang-14', '-I' + REPO, '-I' + REPO + '/src', '-DHAVE_CONFIG_H', '-fsyntax-only',
         '-Xclang', '-ast-dump=json', '-Xclang', '-ast-dump-filter=' + fn, path],
        capture_output=True, text=True)
    if out.returncode != 0:
        raise Untranslatable('clang failed: ' + out.stderr[:300])
    s = out.stdout
    dec = json.JSONDecoder()
    i = 0
    docs = []
    while i < len(s):
        while i < len(s) and s[i].isspace():
            i += 1
        if i >= len(s):
            break
        d, j = dec.raw_decode(s, i)
        docs.append(d)
        i = j
    for d in docs:
        if d.get('kind') == 'FunctionDecl' and d.get('name') == fn and \
                any(c.get('kind') == 'CompoundStmt' for c in d.get('inner', [])):
            return d
    raise Untranslatable('no definition of ' + fn)


# ---------------------------------------------------------------- AST -> IR

def strip(n):
    while n.get('kind') in ('ImplicitCastExpr', 'ParenExpr', 'CStyleCastExpr'):
        n = n['inner'][0]
    return n


def callee_name(n):
    f = strip(n['inner'][0])
    if f.get('kind') != 'DeclRefExpr':
        raise Untranslatable('indirect call')
    return f['referencedDecl']['name']


def int_lit(n):
    n = strip(n)
    if n.get('kind') != 'IntegerLiteral':
        raise Untranslatable('non-constant subscript')
    return int(n['value'])


def subscript(n):
    """ArraySubscriptExpr -> (param name, (i,) or (i, j))"""
    idx = []
    while True:
        n = strip(n)
        if n.get('kind') == 'ArraySubscriptExpr':
            idx.append(int_lit(n['inner'][1]))
            n = n['inner'][0]
        elif n.get('kind') == 'DeclRefExpr':
            return n['referencedDecl']['name'], tuple(reversed(idx)), n['referencedDecl'].get('kind')
        else:
            raise Untranslatable('subscript base ' + str(n.get('kind')))


def expr(n, params):
    n = strip(n)
    k = n.get('kind')
    if k == 'FloatingLiteral' or k == 'IntegerLiteral':
        v = float(n['value'])
        if v != int(v) or v < 0:
            raise Untranslatable('literal ' + n['value'])
        return ('num', int(v))
    if k == 'DeclRefExpr':
        nm = n['referencedDecl']['name']
        if nm in params:
            raise Untranslatable('bare use of pointer parameter ' + nm)
        return ('var', nm)
    if k == 'ArraySubscriptExpr':
        nm, idx, dk = subscript(n)
        if nm not in params:
            raise Untranslatable('subscript of non-parameter ' + nm)
        return ('load', nm, idx)
    if k == 'BinaryOperator':
        op = n['opcode']
        if op not in '+-*/':
            raise Untranslatable('operator ' + op)
        return ('bin', op, expr(n['inner'][0], params), expr(n['inner'][1], params))
    if k == 'UnaryOperator':
        if n['opcode'] == '-':
            return ('neg', expr(n['inner'][0], params))
        if n['opcode'] == '+':
            return expr(n['inner'][0], params)
        raise Untranslatable('unary ' + n['opcode'])
    if k == 'CallExpr':
        f = callee_name(n)
        args = n['inner'][1:]
        if f == 'conj' and len(args) == 1:
            return ('cj', expr(args[0], params))
        if f == 'creal' and len(args) == 1:
            return ('re', expr(args[0], params))
        if f == 'sqrt' and len(args) == 1:
            a = strip(args[0])
            if a.get('kind') == 'CallExpr' and callee_name(a) == 'fabs':
                return ('sqa', expr(a['inner'][1], params))
            raise Untranslatable('sqrt not of fabs')
        raise Untranslatable('call to ' + f)
    raise Untranslatable('expression kind ' + str(k))


def translate_function(fd):
    params = {}
    body = None
    for c in fd['inner']:
        if c.get('kind') == 'ParmVarDecl':
            t = c['type']['qualType']
            if t.endswith('(*)[2]'):
                shape = 'M2'
            elif t.endswith('*'):
                shape = 'V2'
            else:
                raise Untranslatable('parameter type ' + t)
            params[c['name']] = dict(shape=shape, const=t.startswith('const'))
        elif c.get('kind') == 'CompoundStmt':
            body = c
    stmts = []
    for st in body.get('inner', []):
        k = st.get('kind')
        if k == 'DeclStmt':
            for vd in st['inner']:
                if vd.get('kind') != 'VarDecl' or 'inner' not in vd:
                    raise Untranslatable('declaration without initialiser')
                stmts.append(('let', vd['name'], expr(vd['inner'][0], params)))
        elif k == 'BinaryOperator' and st.get('opcode') == '=':
            lhs = strip(st['inner'][0])
            if lhs.get('kind') != 'ArraySubscriptExpr':
                raise Untranslatable('assignment to non-array')
            nm, idx, dk = subscript(lhs)
            if nm not in params or params[nm]['const']:
                raise Untranslatable('store to ' + nm)
            stmts.append(('store', nm, idx, expr(st['inner'][1], params)))
        elif k == 'NullStmt':
            pass
        else:
            raise Untranslatable('statement kind ' + str(k))
    return params, stmts


# ---------------------------------------------------------------- IR -> Lean

def field(shape, idx):
    if shape == 'M2':
        if len(idx) != 2 or not all(0 <= i < 2 for i in idx):
            raise Untranslatable('index %r out of a [2][2] array' % (idx,))
        return 'm%d%d' % (idx[0] + 1, idx[1] + 1)
    if len(idx) != 1 or not 0 <= idx[0] < 2:
        raise Untranslatable('index %r out of a [2] vector' % (idx,))
    return 'x%d' % (idx[0] + 1)


PREC = {'+': 65, '-': 65, '*': 70, '/': 70}


def lean_expr(e, env, prec=0):
    """env: dict mapping ('var', name)/('load', name, idx) -> Lean text; prec for bracket minimisation"""
    k = e[0]
    if k == 'num':
        return str(e[1])
    if k == 'var':
        return env['var'](e[1])
    if k == 'load':
        return env['load'](e[1], e[2])
    if k == 'bin':
        p = PREC[e[1]]
        s = '%s %s %s' % (lean_expr(e[2], env, p), e[1], lean_expr(e[3], env, p + 1))
        return '(' + s + ')' if p < prec else s
    if k == 'neg':
        s = '-' + lean_expr(e[1], env, 75)
        return '(' + s + ')' if prec > 0 else s
    if k == 'cj':
        s = env['cj'](lean_expr(e[1], env, 1024), e[1])
        return s
    if k == 're':
        a = lean_expr(e[1], env, 66)
        c = env['cj'](lean_expr(e[1], env, 1024), e[1])
        s = '(%s + %s) / 2' % (a, c)
        return '(' + s + ')' if prec > 0 else s
    if k == 'sqa':
        return env['sqa'](lean_expr(e[1], env, 0), e[1])
    raise AssertionError(k)


def emit_def(name, params, stmts, alias=None):
    """Lean def text. alias = (inname, outname): both map to the single parameter `io`."""
    order = list(params)
    outs = [p for p in order if not params[p]['const']]
    if len(outs) != 1:
        raise Untranslatable('expected exactly one output parameter')
    out = outs[0]
    ren = {p: 'p_' + p for p in order}
    overlay = False
    if alias:
        ren[alias[0]] = 'p_io'
        ren[alias[1]] = 'p_io'
        # a [2] vector output overlaid on the [2][2] input: zi[k] is the memory of m[0][k]
        overlay = params[alias[1]]['shape'] == 'V2'
    env = dict(
        var=lambda n: 'l_' + n,
        load=lambda n, idx: '%s.%s' % (ren[n], field(params[n]['shape'], idx)),
        cj=lambda s, e: 'cj ' + s,
        sqa=lambda s, e: 'sqa (' + s + ')',
    )
    args = []
    seen = set()
    for p in order:
        if ren[p] in seen:
            continue
        seen.add(ren[p])
        args.append('(%s : %s K)' % (ren[p], 'M2' if ren[p] == 'p_io' else params[p]['shape']))
    lines = ['def %s (cj sqa : K → K) %s : %s K :=' % (name, ' '.join(args), params[out]['shape'])]
    for st in stmts:
        if st[0] == 'let':
            lines.append('  let l_%s := %s' % (st[1], lean_expr(st[2], env)))
        else:
            p = ren[st[1]]
            fld = field(params[st[1]]['shape'], st[2])
            if overlay and st[1] == alias[1]:
                fld = 'm1%d' % (st[2][0] + 1)
            lines.append('  let %s := { %s with %s := %s }' % (p, p, fld, lean_expr(st[3], env)))
    if overlay:
        lines.append('  { x1 := p_io.m11, x2 := p_io.m12 }')
    else:
        lines.append('  ' + ren[out])
    return '\n'.join(lines)


def inline(e, defs):
    """substitute locals by their definitions"""
    k = e[0]
    if k == 'var':
        return defs[e[1]]
    if k in ('num', 'load'):
        return e
    if k == 'bin':
        return ('bin', e[1], inline(e[2], defs), inline(e[3], defs))
    return (k, inline(e[1], defs))


def divisors(stmts):
    """fully inlined divisor expressions in order of appearance, without literal ones"""
    defs = {}
    divs = []

    def walk(e):
        k = e[0]
        if k == 'bin':
            walk(e[2])
            walk(e[3])
            if e[1] == '/' and e[3][0] != 'num' and e[3] not in divs:
                divs.append(e[3])
        elif k in ('neg', 'cj', 're', 'sqa'):
            walk(e[1])
    for st in stmts:
        e = inline(st[2] if st[0] == 'let' else st[3], defs)
        if st[0] == 'let':
            defs[st[1]] = e
        walk(e)
    return divs


def factors(e):
    """multiplicative factors of a divisor (numerator and denominator ones alike), literals dropped"""
    k = e[0]
    if k == 'bin' and e[1] in '*/':
        return factors(e[2]) + factors(e[3])
    if k == 'neg':
        return factors(e[1])
    if k == 're':
        return [('bin', '+', e[1], ('cj', e[1]))]
    if k == 'num':
        return []
    return [e]


def all_factors(stmts):
    out = []
    for d in divisors(stmts):
        for f in factors(d):
            if f not in out:
                out.append(f)
    return out


def size(e):
    if e[0] in ('num', 'var', 'load'):
        return 1
    if e[0] == 'bin':
        return 1 + size(e[2]) + size(e[3])
    return 1 + size(e[1])


def is_k(e):
    return e[0] == 'sqa'


# the theorem-side environment: after `obtain` the inputs are plain variables
def thm_env(params, zname):
    def load(n, idx):
        f = field(params[n]['shape'], idx)
        if n == zname:
            return 'z%d' % (idx[0] + 1)
        return f  # input matrix cells are called m11..m22 after destructuring

    def cj(s, e):
        if e[0] == 'load' and e[1] == zname:
            return 'z%dc' % (e[2][0] + 1)
        raise Untranslatable('conj of something other than z0[i]')

    def sqa(s, e):
        # sqrt(fabs(creal(z0[i])))
        if e[0] == 're' and e[1][0] == 'load' and e[1][1] == zname:
            return 'k%d' % (e[1][2][0] + 1)
        raise Untranslatable('sqrt(fabs(.)) of something other than creal(z0[i])')
    return dict(var=None, load=load, cj=cj, sqa=sqa)


REL_VARS = {  # variables solved for by each relation, in `obtain ⟨rfl, rfl⟩` order
    's': ('b1', 'b2'), 't': ('b1', 'a1'), 'u': ('a2', 'b2'), 'z': ('v1', 'v2'), 'y': ('i1', 'i2'),
    'h': ('v1', 'i2'), 'g': ('i1', 'v2'), 'a': ('v1', 'i1'), 'b': ('v2', 'negi2'),
}


def coords_script(t):
    """tactics that eliminate four of the eight state variables according to the type
    whose relation is about to be substituted"""
    if t in WAVE:
        return ['obtain ⟨rfl, rfl⟩ := linked_inv hl1 hk1 hz1',
                'obtain ⟨rfl, rfl⟩ := linked_inv hl2 hk2 hz2',
                'clear hl1 hl2']
    return ['obtain ⟨rfl, rfl⟩ := hl1', 'obtain ⟨rfl, rfl⟩ := hl2']


def subst_rel(t):
    if t == 'b':
        return ['obtain ⟨rfl, h2⟩ := h', 'obtain rfl := neg_eq_iff_eq_neg.mp h2']
    return ['obtain ⟨rfl, rfl⟩ := h']


STMTS = {}
TOS_HAS_Z = {}


def emit_theorems(fn, params, stmts):
    """Lean text of the theorem file for one two-port function."""
    m = re.fullmatch(r'vnaconv_([a-z])to([a-z]+)', fn)
    src, dst = m.group(1), m.group(2)
    order = list(params)
    ins = [p for p in order if params[p]['const']]
    out = [p for p in order if not params[p]['const']][0]
    inmat = ins[0]
    zname = ins[1] if len(ins) > 1 else None
    env = thm_env(params, zname)
    divs = all_factors(stmts)

    def is_zsum(d):
        return d[0] == 'bin' and d[1] == '+' and d[2][0] == 'load' and d[2][1] == zname and d[3] == ('cj', d[2])
    big = sorted([d for d in divs if not is_k(d) and size(d) > 1 and not is_zsum(d)], key=size, reverse=True)
    hdpat = 'obtain ⟨' + ', '.join('hd%d' % i for i in range(len(divs))) + '⟩ := hd' if len(divs) > 1 else 'have hd0 := hd'
    has_z = zname is not None
    zarg = ' z0' if has_z else ''
    zbind = ' (z0 : V2 K)' if has_z else ''
    RefT = '(Ref.mk z0.x1 (cj z0.x1) (sqa ((z0.x1 + cj z0.x1) / 2)) z0.x2 (cj z0.x2) (sqa ((z0.x2 + cj z0.x2) / 2)))'
    if not has_z:
        # functions without z0 (pure v/i conversions, s<->t<->u): the relation must hold
        # for every reference impedance, so quantify over an arbitrary Ref
        RefT = 'r'
    L = []
    L.append('/- GENERATED by tools/tr_conv2.py from src/%s.c -- do not edit -/' % fn)
    L.append('import Libvna.Gen.Conv2')
    L.append('import Libvna.Proofs.ConvLemmas')
    if dst == 'zi' and src != 's':
        L.append('import Libvna.Gen.Conv2Thm.vnaconv_%stos' % src)
    L.append('open Libvna Libvna.Conv Libvna.Gen')
    L.append('namespace Libvna.Gen.Thm')
    L.append('variable {K : Type} [Field K] [CharZero K]')
    L.append('')
    # divisor predicate
    ok = ' ∧ '.join('%s ≠ 0' % lean_expr(d, dict(
        var=None, load=lambda n, idx: 'p_%s.%s' % (n, field(params[n]['shape'], idx)),
        cj=lambda s, e: 'cj ' + s, sqa=lambda s, e: 'sqa (' + s + ')'), 51) for d in divs) or 'True'
    inargs = ' '.join('(p_%s : %s K)' % (p, params[p]['shape']) for p in ins)
    L.append('/-- every factor of every divisor that occurs in the C function is non-zero -/')
    L.append('def %s_ok (cj sqa : K → K) %s : Prop :=\n  %s' % (fn, inargs, ok))
    L.append('')
    def mkcall(f, outname='out0'):
        a = []
        for p_ in order:
            a.append('m' if p_ == inmat else ('z0' if p_ == zname else outname))
        return '%s cj sqa %s' % (f, ' '.join(a))
    call = mkcall(fn)
    common_intro = [
        'obtain ⟨m11, m12, m21, m22⟩ := m',
    ]
    if has_z:
        common_intro.append('obtain ⟨z1, z2⟩ := z0')
    else:
        common_intro.append('obtain ⟨z1, z1c, k1, z2, z2c, k2⟩ := r')
    common_intro += [
        'obtain ⟨v1, i1, a1, b1, v2, i2, a2, b2⟩ := s',
        'simp only [Ref.Ok, St.Linked] at hr hl',
        'simp only [%s_ok] at hd' % fn,
    ]

    def gens():
        g = []
        if has_z:
            g += ['generalize cj z1 = z1c at *', 'generalize cj z2 = z2c at *',
                  'generalize sqa ((z1 + z1c) / 2) = k1 at *', 'generalize sqa ((z2 + z2c) / 2) = k2 at *']
        g += ['obtain ⟨hz1, hz2, hk1, hk2⟩ := hr', 'obtain ⟨hl1, hl2⟩ := hl']
        return g

    def gen_divs():
        g = []
        for i, d in enumerate(big):
            g.append('generalize hD%d : %s = D%d at hd ⊢' % (i, lean_expr(d, env), i))
        return g + [hdpat]
    closer = 'constructor <;> (field_simp; (try subst_vars); ring)'

    def stmt_head(name, hyp, concl):
        rbind = '' if has_z else ' (r : Ref K)'
        return ('theorem %s (cj sqa : K → K) (m : M2 K)%s%s (out0 : %s K) (s : St K)\n'
                '    (hr : %s.Ok) (hl : s.Linked %s)\n'
                '    (hd : %s_ok cj sqa m%s)\n'
                '    (h : %s) :\n    %s := by' % (name, zbind, rbind, params[out]['shape'], RefT, RefT, fn, zarg, hyp, concl))
    if dst in TYPES and len(dst) == 1:
        RS, RD = 'Rel' + src.upper(), 'Rel' + dst.upper()
        # forward: every state of the input relation satisfies the output relation
        L.append('/-- every port state that satisfies the input matrix\'s defining relation satisfies the\n'
                 '    output matrix\'s defining relation -/')
        L.append(stmt_head(fn + '_fwd', '%s m s' % RS, '%s (%s) s' % (RD, call)))
        body = common_intro + ['simp only [%s] at h' % RS, 'simp only [%s, %s]' % (RD, fn)] + gens() + \
            coords_script(src) + subst_rel(src) + gen_divs() + [closer]
        L += ['  ' + t for t in body]
        L.append('')
        L.append('/-- and no others: a state that satisfies the output relation satisfies the input relation -/')
        L.append(stmt_head(fn + '_bwd', '%s (%s) s' % (RD, call), '%s m s' % RS))
        body = common_intro + ['simp only [%s, %s] at h' % (RD, fn), 'simp only [%s]' % RS] + gens() + \
            coords_script(dst) + gen_divs_h(big, env) + [hdpat] + subst_rel(dst) + [closer]
        L += ['  ' + t for t in body]
        L.append('')
        L.append('/-- the output relation holds for exactly the states of the input relation -/')
        rbind = '' if has_z else ' (r : Ref K)'
        L.append('theorem %s_exact (cj sqa : K → K) (m : M2 K)%s%s (out0 : M2 K) (s : St K)\n'
                 '    (hr : %s.Ok) (hl : s.Linked %s)\n'
                 '    (hd : %s_ok cj sqa m%s) :\n'
                 '    %s m s ↔ %s (%s) s :=\n'
                 '  ⟨%s_fwd cj sqa m%s%s out0 s hr hl hd, %s_bwd cj sqa m%s%s out0 s hr hl hd⟩' % (
                     fn, zbind, rbind, RefT, RefT, fn, zarg, RS, RD, call,
                     fn, zarg, '' if has_z else ' r', fn, zarg, '' if has_z else ' r'))
        L.append('')
        # aliasing
        L.append('/-- passing the same array as input and output (store-sequence semantics of the C text)\n'
                 '    gives the result of the call with separate arrays -/')
        L.append('theorem %s_alias (cj sqa : K → K) (m : M2 K)%s (out0 : M2 K) :\n'
                 '    %s_alias cj sqa m%s = %s := by\n  rfl' % (fn, zbind, fn, zarg, call))
        L.append('')
        L.append('/-- the result does not depend on the previous content of the output array -/')
        L.append('theorem %s_out_indep (cj sqa : K → K) (m : M2 K)%s (o1 o2 : M2 K) :\n'
                 '    %s = %s := by\n  rfl' % (fn, zbind, mkcall(fn, 'o1'), mkcall(fn, 'o2')))
        names = [fn + s for s in ('_fwd', '_bwd', '_exact', '_alias', '_out_indep')]
    else:
        # input impedance functions: zi[k] is the impedance seen at port k+1 with the other port
        # terminated in its reference impedance (incident wave on the other port is zero)
        RS = 'Rel' + src.upper()
        names = []
        tos = 'vnaconv_%stos' % src
        for port, other in ((1, 2), (2, 1)):
            mm = 'm%d%d' % (port, port)
            L.append('/-- with port %d terminated in its reference impedance (no incident wave there) the network\n'
                     '    presents zi[%d] at port %d -/' % (other, port - 1, port))
            if src == 's':
                L.append(stmt_head('%s_port%d' % (fn, port), '%s m s ∧ s.a%d = 0' % (RS, other),
                                   's.v%d = (%s).x%d * s.i%d' % (port, call, port, port)))
                body = common_intro + ['obtain ⟨h, ha⟩ := h', 'simp only [%s] at h' % RS, 'simp only [%s]' % fn] + gens() + \
                    coords_script('s') + ['simp only at ha', 'subst ha'] + subst_rel('s') + gen_divs() + \
                    ['field_simp', '(try subst_vars)', 'ring']
                L += ['  ' + t for t in body]
            else:
                # through the S representation: needs the divisors of Xtos as well and 1 - s_kk ≠ 0
                tz = TOS_HAS_Z[tos]
                tcall = '%s cj sqa m sout%s' % (tos, ' z0' if tz else '')
                tok = '%s_ok cj sqa m%s' % (tos, ' z0' if tz else '')
                nd = len(all_factors(STMTS[tos]))
                pat = lambda h, n: ('obtain ⟨' + ', '.join('%s%d' % (h, i) for i in range(n)) + '⟩ := ' + h) if n > 1 else 'skip'
                L.append('theorem %s_hid%d (cj sqa : K → K) (m : M2 K) (z0 : V2 K) (out0 : V2 K) (sout : M2 K)\n'
                         '    (hr : %s.Ok)\n'
                         '    (hd : %s_ok cj sqa m z0) (hds : %s)\n'
                         '    (hne : 1 - (%s).%s ≠ 0) :\n'
                         '    (%s).x%d * (1 - (%s).%s) = (%s).%s * z0.x%d + cj z0.x%d := by'
                         % (fn, port, RefT, fn, tok, tcall, mm, call, port, tcall, mm, tcall, mm, port, port))
                body = ['obtain ⟨m11, m12, m21, m22⟩ := m',
                        'obtain ⟨z1, z2⟩ := z0',
                        'simp only [Ref.Ok] at hr',
                        'simp only [%s_ok] at hd' % fn,
                        'simp only [%s_ok] at hds' % tos,
                        'simp only [%s, %s] at hne ⊢' % (fn, tos),
                        'generalize cj z1 = z1c at *', 'generalize cj z2 = z2c at *',
                        'generalize sqa ((z1 + z1c) / 2) = k1 at *', 'generalize sqa ((z2 + z2c) / 2) = k2 at *',
                        'obtain ⟨hz1, hz2, hk1, hk2⟩ := hr',
                        ] + hid_gens(big, all_factors(STMTS[tos]), env, is_zsum) + [
                        pat('hd', len(divs)), pat('hds', nd),
                        'field_simp',
                        '(try subst_vars)',
                        'ring']
                L += ['  ' + t for t in body]
                L.append('')
                L.append('theorem %s_port%d (cj sqa : K → K) (m : M2 K) (z0 : V2 K) (out0 : V2 K) (sout : M2 K) (s : St K)\n'
                         '    (hr : %s.Ok) (hl : s.Linked %s)\n'
                         '    (hd : %s_ok cj sqa m z0) (hds : %s)\n'
                         '    (hne : 1 - (%s).%s ≠ 0)\n'
                         '    (h : %s m s ∧ s.a%d = 0) :\n    s.v%d = (%s).x%d * s.i%d := by'
                         % (fn, port, RefT, RefT, fn, tok, tcall, mm, RS, other, port, call, port, port))
                body = ['obtain ⟨h, ha⟩ := h',
                        'have hS := %s_fwd cj sqa m %s sout s hr hl hds h' % (tos, 'z0' if tz else RefT),
                        'have h1 := zi%d_of_S hr hl hS ha' % port,
                        'have hid := %s_hid%d cj sqa m z0 out0 sout hr hd hds hne' % (fn, port),
                        'simp only at h1',
                        'exact mul_right_cancel₀ hne (by linear_combination h1 - s.i%d * hid)' % port]
                L += ['  ' + t for t in body]
            L.append('')
            names.append('%s_port%d' % (fn, port))
        L.append('/-- the output vector overlaid on the input matrix (`fn(m, &m[0][0], z0)`, what vnadata_convert does in place;\n'
                 '    store-sequence semantics of the C text) gives the result of the call with separate arrays -/')
        L.append('theorem %s_alias (cj sqa : K → K) (m : M2 K)%s (out0 : V2 K) :\n'
                 '    %s_alias cj sqa m%s = %s := by\n  rfl' % (fn, zbind, fn, zarg, call))
        names.append(fn + '_alias')
        L.append('')
        L.append('theorem %s_out_indep (cj sqa : K → K) (m : M2 K)%s (o1 o2 : V2 K) :\n'
                 '    %s = %s := by\n  rfl' % (fn, zbind, mkcall(fn, 'o1'), mkcall(fn, 'o2')))
        names.append(fn + '_out_indep')
    L.append('')
    L.append('end Libvna.Gen.Thm')
    return '\n'.join(L) + '\n', names, [lean_expr(d, env) for d in divs]


def hid_gens(big, tosf, env, is_zsum):
    allc = list(big)
    for d in tosf:
        if not is_k(d) and size(d) > 1 and not is_zsum(d) and d not in allc:
            allc.append(d)
    allc.sort(key=size, reverse=True)
    return ['generalize hD%d : %s = D%d at hd hds hne ⊢' % (i, lean_expr(d, env), i) for i, d in enumerate(allc)]


def gen_divs_h(big, env):
    g = []
    for i, d in enumerate(big):
        g.append('generalize hD%d : %s = D%d at hd h' % (i, lean_expr(d, env), i))
    return g


def two_port_functions():
    fns = []
    for f in sorted(os.listdir(REPO + '/src')):
        m = re.fullmatch(r'(vnaconv_[a-z]to[a-z]+)\.c', f)
        if m and not m.group(1).endswith('n'):
            fns.append(m.group(1))
    return fns


def main():
    fns = two_port_functions()
    meta = {}
    defs = []
    os.makedirs(LEAN + '/Libvna/Gen/Conv2Thm', exist_ok=True)

    def work(fn):
        try:
            fd = clang_ast('%s/src/%s.c' % (REPO, fn), fn)
            params, stmts = translate_function(fd)
            return fn, params, stmts, None
        except Untranslatable as e:
            return fn, None, None, str(e)
    with ThreadPoolExecutor(16) as ex:
        results = list(ex.map(work, fns))
    thm_files = {}
    for fn, params, stmts, err in results:
        if not err:
            STMTS[fn] = stmts
            TOS_HAS_Z[fn] = len([p for p in params if params[p]['const']]) > 1
    for fn, params, stmts, err in results:
        if err:
            meta[fn] = dict(error=err)
            continue
        try:
            order = list(params)
            ins = [p for p in order if params[p]['const']]
            out = [p for p in order if not params[p]['const']]
            if len(out) != 1 or not ins or params[ins[0]]['shape'] != 'M2':
                raise Untranslatable('unexpected signature')
            d = emit_def(fn, params, stmts)
            txt = d
            alias_ok = params[out[0]]['shape'] in ('M2', 'V2')
            if alias_ok:
                txt += '\n\n' + emit_def(fn + '_alias', params, stmts, alias=(ins[0], out[0]))
            thm, names, divs = emit_theorems(fn, params, stmts)
            defs.append(txt)
            thm_files[fn] = thm
            meta[fn] = dict(theorems=names, divisors=divs, params=[(p, params[p]['shape'], params[p]['const']) for p in order],
                            has_z0=len(ins) > 1, nstmts=len(stmts))
        except Untranslatable as e:
            meta[fn] = dict(error=str(e))
    hdr = ('/- GENERATED by tools/tr_conv2.py from /repo/src/vnaconv_*.c -- do not edit.\n'
           '   Core-only: generic over the scalar operations so that the same text is used by the\n'
           '   theorems (K a field) and by the executable driver (K = complex Float). -/\n'
           'import Libvna.Model.Basic\n'
           'namespace Libvna.Gen\n'
           'variable {K : Type} [Add K] [Sub K] [Mul K] [Div K] [Neg K] [OfNat K 1] [OfNat K 2]\n\n')
    write_if_changed(LEAN + '/Libvna/Gen/Conv2.lean', hdr + '\n\n'.join(defs) + '\n\nend Libvna.Gen\n')
    for fn, t in thm_files.items():
        write_if_changed('%s/Libvna/Gen/Conv2Thm/%s.lean' % (LEAN, fn), t)
    # remove stale theorem files
    for f in os.listdir(LEAN + '/Libvna/Gen/Conv2Thm'):
        if f.endswith('.lean') and f[:-5] not in thm_files:
            os.remove(LEAN + '/Libvna/Gen/Conv2Thm/' + f)
    write_if_changed(LEAN + '/Libvna/Gen/Conv2All.lean',
                     '/- GENERATED -/\n' + ''.join('import Libvna.Gen.Conv2Thm.%s\n' % fn for fn in sorted(thm_files)))
    # executable dispatch table for the driver (K = CF)
    T = ['/- GENERATED by tools/tr_conv2.py -- do not edit -/',
         'import Libvna.Gen.Conv2', 'import Libvna.Model.Scalar', 'namespace Libvna.Gen', 'open Libvna',
         '/-- run the translated two-port function `fn` on IEEE doubles; `out0` is the initial content of the',
         '    output array (separate-array call), `ali` selects the aliased store-sequence rendering -/',
         'def conv2Call (fn : String) (ali : Bool) (m : M2 CF) (z0 : V2 CF) (o : M2 CF) (ov : V2 CF) : Option (List CF) :=',
         '  match fn with']
    for fn in sorted(thm_files):
        ps = meta[fn]['params']
        outshape = [sh for (_, sh, c) in ps if not c][0]
        def args(al):
            a = []
            for (nm, sh, c) in ps:
                if c and sh == 'M2':
                    a.append('m')
                elif c:
                    a.append('z0')
                elif not al:
                    a.append('o' if sh == 'M2' else 'ov')
            return ' '.join(a)
        if outshape == 'M2':
            T.append('  | "%s" => let r := if ali then %s_alias CF.conj CF.sqa %s else %s CF.conj CF.sqa %s' % (fn, fn, args(True), fn, args(False)))
            T.append('      some [r.m11, r.m12, r.m21, r.m22]')
        else:
            T.append('  | "%s" => let r := if ali then %s_alias CF.conj CF.sqa %s else %s CF.conj CF.sqa %s' % (fn, fn, args(True), fn, args(False)))
            T.append('      some [r.x1, r.x2]')
    T += ['  | _ => none', 'end Libvna.Gen', '']
    write_if_changed(LEAN + '/Libvna/Gen/Conv2Table.lean', '\n'.join(T))
    os.makedirs(os.path.dirname(HERE) + '/gen', exist_ok=True)
    # C-side table
    C = ['/* GENERATED by tools/tr_conv2.py */']
    for fn in sorted(thm_files):
        ps = meta[fn]['params']
        outshape = [sh for (_, sh, c) in ps if not c][0]
        kind = 2 if outshape == 'V2' else (1 if meta[fn]['has_z0'] else 0)
        C.append('{ "%s", %d, (void (*)(void))%s },' % (fn, kind, fn))
    write_if_changed(os.path.dirname(HERE) + '/gen/conv2_table.inc', '\n'.join(C) + '\n')
    with open(os.path.dirname(HERE) + '/gen/conv2.json', 'w') as f:
        json.dump(meta, f, indent=1, sort_keys=True)
    bad = {k: v['error'] for k, v in meta.items() if 'error' in v}
    print('tr_conv2: %d functions, %d translated, %d untranslatable' % (len(fns), len(thm_files), len(bad)))
    for k, v in bad.items():
        print('  untranslatable %s: %s' % (k, v))
    return 0


def write_if_changed(path, text):
    try:
        if open(path).read() == text:
            return
    except FileNotFoundError:
        pass
    with open(path, 'w') as f:
        f.write(text)


if __name__ == '__main__':
    sys.exit(main())
