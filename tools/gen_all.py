#!/usr/bin/env python3
"""run every translator (model regenerated from /repo/src)"""
import os, subprocess, sys
here = os.path.dirname(os.path.abspath(__file__))
rc = 0
for t in ('tr_conv2.py', 'tr_tables.py'):
    p = os.path.join(here, t)
    if os.path.exists(p):
        rc |= subprocess.call([sys.executable, p])
sys.exit(rc)
