#!/usr/bin/env python3
"""writes MANIFEST.json from the table below (single source of truth for the interface)"""
import json, os
V = os.path.dirname(os.path.dirname(os.path.abspath(__file__)))
CHECKS = {
    'C02': dict(
        technique='Lean 4 proof (iteration control as a total function: bounded work, sound convergence report, exact failure condition, monotonicity in the limit; the truth is a zero of the residual) on a hand model + correspondence through the iteration-limit ladder + E-network ground truth as oracle',
        text='Theorems: the solver loop evaluates its step at most limit + 1 times; a reported convergence passed the tolerance test and is an iterate of the step; it fails exactly when '
             'no permitted iterate passes; raising the limit never changes a converged result; for any parameter values the E-network measurement satisfies the T equation with the '
             'true terms (the residual vanishes at the truth). On the compiled C: TRL, unknown reciprocal through (SOLR), redundant unknown reflect and connection-repeatability '
             'models on the applicable error-term types, m and a/b: parameter values and corrected device within 1e-4 (default tolerances 1e-6); a tolerance ladder 1e-3..1e-10 '
             'bounds and does not worsen the result; the iteration-limit ladder behaves as the model predicts (EDOM below the least sufficient limit, bit-identical results above); '
             'guesses far outside the basin return (converged elsewhere or EDOM).',
        note='Lean kernel + standard axioms; Model/IterCtl.lean abstracts the Levenberg-Marquardt step and the tolerance test as parameters: convergence from a guess in the basin is a '
             'numerical fact measured by the oracle, not proved; TRL / SOLR are posed for the 8- and 10-term types only (the 12/14-term models are not determined by them); the '
             'repeatability model is statistical: limits of a few sigma.',
        ref='DESIGN.md §5 C02'),
    'C03': dict(
        technique='Lean 4 proof (memory-safety theorems of the object models: vnadata histories incl. failed allocations, handle-table bounds, loader bounds and progress) + sanitizer and allocation-accounting oracle on interleaved random histories over all object kinds',
        text='Theorems: no operation of any vnadata history reaches outside an allocation (also after a failed allocation); a handle the parameter table accepts indexes inside the slot '
             'vector, the slot handed out was free, negative and too large handles / calibration indices are refused and a delete never changes the table size; Touchstone / NPD loads '
             'write inside the sized object and index inside the checked line; the NPD scanner consumes input. On the compiled C (ASan + UBSan + LSan + allocation accounting): '
             'interleaved histories of about 300 calls mixing a random vnadata history, a property-tree history, two vnacal lives (parameters, standards of every entry point, invalid '
             'calls, premature and repeated solves / add_calibration, apply, properties, save, deletes in awkward order) and a file thread (valid and mutated Touchstone / NPD, save, '
             'convert): no report, every object freed, nothing remains.',
        note='Lean kernel + standard axioms; the models are those of C06/C09/C12/C15/C16 with their correspondence ties; for vnacal_new / solver / save internals there is no model: they are '
             'covered by the sanitizer oracle only (also in C01, C02, C12, C17, C18, C20); UBSan nonnull-attribute (zero-length memcpy/memset on NULL) is not counted; libyaml/libc trusted.',
        ref='DESIGN.md §5 C03'),
    'C04': dict(
        technique='Lean 4 proof over a model regenerated from the C source (clang AST translator) + differential run of the generated model against the compiled C + defining-relation oracle',
        text='All 81 two-port vnaconv functions are re-translated from /repo/src on every run and, for each, Lean re-checks: '
             'the output relation holds for exactly the port states of the input relation (fwd, bwd, exact), the aliased '
             'store-sequence semantics equals the separate-array call, the result is independent of the previous output '
             'content; the input-impedance functions present zi at a port whose opposite port is matched. Exact field '
             'arithmetic, all inputs off the divisor set, all reference impedances with Re z0 != 0. The n-port functions, '
             'round trips and n=2 agreement are checked numerically against the relation oracle (not yet theorems).',
        note='Lean kernel + propext/Classical.choice/Quot.sound; tools/tr_conv2.py and clang-14 AST (validated each run by executing '
             'the generated Float rendering against the compiled C); Spec/ConvRel.lean transcribes vnaconv(3); IEEE rounding not modelled; '
             'zi theorems for non-S inputs additionally assume the S representation exists.',
        ref='DESIGN.md §5 C04'),
    'C15': dict(
        technique='Lean 4 proof (invariant by induction over operation histories) on a hand model + line-protocol correspondence run against the compiled C + abstract-array oracle',
        text='Concrete model of vnadata_t (allocation sizes + content, every access checked against the allocation). Theorems for every '
             'history and every argument: the representation invariant holds (hidden storage holds 0/0/50), no operation reaches outside an '
             'allocation, every index outside [0,n) incl. n is refused with no effect, a refused resize/set_type/add_frequency changes nothing, '
             'resize keeps what stays visible and exposes initial values, both z0 modes. The model is executed against the real library on '
             'bounded-exhaustive and random histories; both must equal an independent abstract array.',
        note='Lean kernel + standard axioms; Model/VData.lean is hand-written and tied to the C only by the correspondence run (differential-testing strength); '
             'fault-free allocation (faults are C12); UBSan nonnull-attribute (zero-length memcpy/memset on NULL) deliberately not counted.',
        ref='DESIGN.md §5 C15'),
    'C05': dict(
        technique='Lean 4 proof: dispatch table regenerated from the C source and decided entry by entry (decide) + theorems on a hand model of the control flow + correspondence run + per-frequency vnaconv oracle',
        text='tr_tables re-extracts conversion_table, the enum codes and the six function-pointer groups from vnadata_convert.c on every run; '
             'dispatch_correct decides all 121 entries against the function named by the manual with its own calling convention. On the hand model: '
             'refused conversions change nothing, in-place conversion stores conv(cells_f, z0_f) for every frequency and keeps the array invariant (so '
             'conversion to Zin leaves only initial values in hidden storage). The model and the compiled C are run on all 121 pairs x shapes x z0 '
             'modes x in-place/into, compared with each other and with the real vnaconv functions applied per frequency; chaining A->B->C = A->C.',
        note='Lean kernel + standard axioms; tools/tr_tables.py + clang AST; Model/VConvert.lean hand-written, tied by correspondence; numeric conversions are C04; '
             'in-place == out-of-place is checked on runs (digest equality), not yet a theorem.',
        ref='DESIGN.md §5 C05'),
    'C10': dict(
        technique='Lean 4 proof over an ordered field on a hand model of the interpolators + correspondence run on doubles + knot/hint/linearity oracles',
        text='Theorems for every knot vector, every n >= 1, every hint and every query: the rfi segment search returns a segment that bounds x, '
             'rfi returns the supplied value at every supplied point and its value is independent of the hint (query order); the cubic spline '
             'returns the supplied values at all knots for any number of segments (incl. one) and reproduces linear data exactly everywhere; the '
             'range predicate refuses a >= 5% shortfall at either end and accepts full coverage. Model and compiled C are compared on doubles; '
             'knot exactness and hint independence are checked bit-exactly on the C.',
        note='Lean kernel + standard axioms; Model/Interp.lean hand-written (Bulirsch-Stoer arithmetic is a parameter of the theorems; reproduction of rational '
             'functions between knots is sampled only); range checks at the four call sites are exercised through the calibration harness.',
        ref='DESIGN.md §5 C10'),
    'C13': dict(
        technique='Lean 4 proof on a hand model of the document tree and descriptor scanner/parser + line-by-line correspondence run + abstract-document oracle written from the manual',
        text='Theorems for every tree, key and path: set-then-get returns the stored value with conflicting nodes replaced; sets and deletes leave other keys / '
             'lower indices alone, insert/append/delete shift indices as documented, key order and uniqueness are kept, a refused set/delete/set_subtree returns '
             'the tree unchanged; scanning quote_key(k) followed by any delimiter yields exactly k for every non-empty NUL-free byte string, so the quoted key '
             'addresses exactly that entry. The model runs in lock-step with the compiled C (identical output lines) on bounded-exhaustive and random histories '
             'and both must equal an independent document model.',
        note='Lean kernel, no axioms beyond propext/Quot.sound where simp uses them; Model/PropTree.lean hand-written (hash chains modelled as an ordered association list), '
             'tied by the correspondence run; tools/props/pspec.py is the oracle.',
        ref='DESIGN.md §5 C13'),
    'C14': dict(
        technique='Lean 4 proof (mutual structural induction over the tree) of import(export t) = t under an explicit libyaml contract + round trips through the real library with the contract itself tested',
        text='import_export: for every tree whose keys are non-empty, NUL-free and distinct, exporting, passing through any libyaml behaviour that satisfies the stated '
             'contract, and importing into an empty root gives back the same tree (node kinds, key order, list order, nulls, every scalar byte). Uses the C13 theorem that '
             'quote_key output re-parses to the key. The real export/import is run on adversarial trees (into registers holding unrelated content) and compared with '
             'the document model; libyaml\'s node tree is compared with the contract on every document.',
        note='Lean kernel + standard axioms; libyaml contract (kinds, order, bytes, plain/non-plain style of the null spellings) is a hypothesis, sampled every run; '
             'Model/Yaml.lean hand-written.',
        ref='DESIGN.md §5 C14'),
    'C01': dict(
        technique='Lean 4 proof in non-commutative ring algebra (all port counts at once) that the E-term network satisfies the T/U equations and that apply inverts measure + end-to-end run against an independent physical simulator + saved-term equation check',
        text='Theorems over an arbitrary ring (instantiated by n x n complex matrices for every n): the measurement of any device through any E-term network '
             'satisfies the T equation M(Tx S+Tm)=Ts S+Ti and the U equation with the stated terms; any terms satisfying the equation correct the measurement back '
             'to S (apply inverts measure); the result is invariant under the free scalar; a consistent system with injective coefficient map has only the true '
             'solution. The compiled library is run end to end against tools/props/calsim.py (E-network with leakage and per-column switch terms): all 8 types, '
             'square and rectangular shapes, m and a/b, all entry points, abbreviated matrices, swapped ports, scalar/vector handles; apply must return the DUT '
             'and the terms in the saved file must satisfy the documented equation for an independent device.',
        note='Lean kernel + standard axioms; the equation generator of the C (build_equation_terms) is not modelled: it is exercised end to end only; calsim.py/calfile.py '
             'are the independent oracle; rounding tolerance 1e-8; leakage cells never measured are taken as 0 by the library (documented use of full matrices).',
        ref='DESIGN.md §5 C01'),
    'C17': dict(
        technique='Lean 4 algebraic theorems (a/b column scaling, scalar freedom, apply depends only on the satisfied equation) + metamorphic pairs against the physical simulator',
        text='ab_column_scaling: (B D)(A D)^-1 = B A^-1; applyT_scale_invariant; applyT_eq_of_both_satisfy: terms entered in any way that satisfy the same equation '
             'correct identically. Eight metamorphic relations (through=line=mapped, full=abbreviated, order, a/b scaling, unrelated calibrations, frequencies together vs '
             'split, E12 vs UE14, port renumbering) are run on every type and dimension with the same E-network and device on both sides.',
        note='Lean kernel + standard axioms; metamorphic relations are checked on runs, the algebraic core is proved; tolerance 1e-8.',
        ref='DESIGN.md §5 C17'),
    'C20': dict(
        technique='Lean 4 theorems (underdetermined systems never have a unique solution; determined consistent systems have exactly the true one) + add/solve histories classified by an independent Jacobian-rank identifiability test',
        text='too_few_no_unique: with fewer equations than unknowns every solution has a different equally good neighbour, so refusing is the only sound answer; '
             'solve_unique; failed_solve_frame. Random orderings of a generous standard list are added one at a time with a solve attempt after each: prefixes the '
             'identifiability test calls determining must solve and correct an independent device, prefixes with fewer measured values than unknowns must fail with EDOM, '
             'failed attempts must not disturb later ones and must not leak.',
        note='Lean kernel + standard axioms; the identifiability test (tools/props/c20.py) is conservative for 16-term types (only full-S standards counted); '
             'nothing is asserted for sets with enough equations that do not determine the terms.',
        ref='DESIGN.md §5 C20'),
    'C16': dict(
        technique='Lean 4 proof on a hand model of the two handle tables + lock-step correspondence run + abstract name/handle table oracle driven interactively',
        text='Calibration table: add returns the index at which the calibration sits and which find then returns, adding an existing name replaces in place, '
             'every other slot is untouched, delete empties exactly one slot, get_calibration_end is one past the highest live index. Parameter table: the slot the '
             'allocator hands out was free (handles unique while live), other slots untouched, match/open/short exist from the start and deleting them changes nothing, '
             'a refused delete changes nothing. Interactive random histories (deleted, reused, predefined, invalid handles; several vnacal_new_t; calibrations built from '
             'handles deleted while in use must still correct a device) are checked against an abstract table and the model answers every line it models identically.',
        note='Lean kernel + standard axioms; Model/CalTable.lean hand-written (the first_free invariant of the C is a hypothesis of alloc_fresh); numerics of solve are not part of this model.',
        ref='DESIGN.md §5 C16'),
    'C06': dict(
        technique='Lean 4 proof (format-level logic: cell order and symmetric completion, engineering notation, normalisation and polar coordinates, NPD field bookkeeping) on a hand model + correspondence run + independent reader of the three formats as oracle',
        text='Theorems for every port count, matrix and precision: each Touchstone value pair lands in the cell it denotes (Full in both two-port orders, Upper/Lower with symmetric '
             'completion, the Touchstone 1 two-port order of the saver is undone by the loader), nothing outside the matrix is written; print_value keeps the value, prints an '
             'exponent that is a multiple of three, never copies more digits than exist and fits its buffer; R-normalisation, magnitude/angle and dB/angle are inverted by the '
             'loader formulas; an NPD block occupies the fields the loader reserves and the loader indexes inside the checked line. On the compiled C: random objects of every '
             'type x format lists x file names x filetype x precisions are saved; cksave <=> fsave <=> save; an independent reader must find type, dimensions, frequencies, '
             'impedances and every requested parameter form to the requested digits; vnadata_fload must agree with that reader and with the object (bit-exact at maximum precision, RI, direct storage).',
        note='Lean kernel + standard axioms; Model/FileFmt.lean hand-written, tied by the correspondence run (cell order observed through files whose k-th value is k, digit layout of '
             'every number written, field counts); decimal conversion (printf/strtod), libm and the conversions (C04/C05) are trusted; format lists made only of scalar blocks '
             '(IL, RL, VSWR) cannot be loaded by design and are exempt from the load half; fprecision so low that frequencies coincide is exempt from the load half.',
        ref='DESIGN.md §5 C06'),
    'C07': dict(
        technique='Lean 4 proof (calibration-table model: load of a saved name list has no holes, indices follow the saved order, save . load . save = save) + correspondence of the loaded layout + independent libyaml reading of the file and fixed-point / apply comparison as oracle',
        text='Theorems on the table model of C16: loading a list of distinct names puts the i-th saved calibration at index i and leaves no hole, the end is the number of names, and '
             'saving the loaded table gives the same list whatever holes the original had. On the compiled C: random vnacal_t (1..3 calibrations of all 8 types and shapes, names '
             'needing YAML quoting, global and per-calibration property trees, deleted slots) x fprecision/dprecision 1..15 and maximum: an independent reading of the file must find '
             'names, order, types, dimensions, frequencies, z0 and the terms of the maximum-precision file rounded to the requested digits; the loaded vnacal_t reports the same, '
             'saves to the byte-identical file, and corrects a measurement like the original (bit-identical at maximum precision); the `#VNACAL 3.0` header and E12 data in the old '
             '`#VNACAL 2.0` layout load to the same terms.',
        note='Lean kernel + standard axioms; Model/CalTable.lean hand-written, tied by the C16 correspondence run and the layout comparison here; libyaml, printf/strtod trusted; the '
             'equality of error terms is decided by the oracle, not by a theorem; an fprecision so low that neighbouring frequencies coincide is exempt from the load half.',
        ref='DESIGN.md §5 C07'),
    'C08': dict(
        technique='Lean 4 proof (option line as a fold: case- and order-independence; storage/order/framing equivalences as corollaries of the C06 theorems; exact unit scaling) on a hand model + correspondence run on random option lines + independent writer of equivalent spellings as oracle',
        text='Theorems: the option line result does not depend on letter case, nor on the order of its items when no field is given twice (last occurrence wins otherwise); '
             'defaults GHz S MA R 50; unit scaling is inverted exactly; Upper / Lower / Full storage of a symmetric matrix, the 12_21 / 21_12 orders, and the Touchstone 1 / 2 '
             'framings of a two-port load to the same cells, for every port count. On the compiled C: ground-truth networks written by an independent writer in many spellings '
             '(unit x RI/MA/DB x order x matrix format x case x comments x blank lines x spacing x line breaks x option order x noise data x other framing; NPD with permuted '
             'header lines and block orders) must each load to the ground truth.',
        note='Lean kernel + standard axioms; Model/TsOption.lean and Model/FileFmt.lean hand-written, tied by correspondence runs (random option lines incl. repeated and '
             'malformed ones; cell orders); the character-level scanner (comments, blanks, line breaks) is exercised by the spellings only, not modelled; strtod/libm trusted; '
             '[Begin Information] sections and a blank after the comma of an NPD #:parameters list are not claimed as allowed spellings.',
        ref='DESIGN.md §5 C08'),
    'C09': dict(
        technique='Lean 4 proof (NPD record scanner as a total function: well-formed fields, progress, bounded record count; bounds theorems of C06) on a hand model + correspondence through the loader diagnostics + structure-aware mutation fuzzing under ASan/UBSan as oracle',
        text='Theorems: the NPD scanner model is total (structural recursion), every field it returns is non-empty and blank-free, every record consumes input, a file of n bytes has at '
             'most n records; the loaders index inside the checked line and write inside the sized object (C06). On the compiled C: valid Touchstone 1/2, NPD, .vnacal and YAML inputs '
             'are mutated (every truncation point of their heads, line deletion/duplication/swap, boundary-value tokens, header counts, byte flips, insertions) plus random bytes; '
             'each load must terminate, and either fail with EBADMSG / ENOPROTOOPT / a system errno leaving the object usable and nothing allocated, or succeed with an object whose '
             'dimensions fit its type and that saves and re-loads to the same content (.vnacal: save/load/save fixed point).',
        note='Lean kernel + standard axioms; totality of the C parsers over all byte strings is sampled by the fuzzing, not proved: only the NPD scanner is modelled (Model/NpdScan.lean), tied '
             'through the loader\'s own `expected N fields; found M` messages; libyaml is trusted; allocations above 1 GiB are refused by the sanitizer run-time (ENOMEM paths).',
        ref='DESIGN.md §5 C09'),
    'C11': dict(
        technique='Lean 4 proof (errno table regenerated from the C source and decided against the manual; single-callback model of the reporting routine; frame theorems of the object models for refused calls) + sweep of invalid / boundary calls with state digests + contract read off random histories',
        text='The category -> errno switch of _vnaerr_verror is re-extracted on every run and proved equal to the table of vnaerr(3), with distinct errnos for the non-system classes; the '
             'reporting routine calls an installed error function exactly once (also when the message cannot be formatted) and never otherwise; refused calls return the object they got: '
             'vnadata indices / resize / set_type / add_frequency / convert, property set / delete / set_subtree, parameter delete, calibration delete, failed solve (theorems of C05, '
             'C13, C15, C16, C20). On the compiled C: about 140 invalid, boundary and inconsistent calls over all object kinds: failure value, documented errno class, exactly one '
             'callback (none for the documented silent queries), unchanged state digest, object usable and freed without residue afterwards; the same contract on every line of random '
             'vnadata and vnacal histories; failed solve completed later; refused add_calibration; refused saves.',
        note='Lean kernel + standard axioms; tools/tr_tables.py (clang AST) for the table; the per-call errno classes are transcribed from the manual pages; vnadata_init empties the object '
             'before validating (documented as "usable", not "unchanged"); the callback model covers _vnaerr_verror only - that each failing path calls it once is decided by the sweep.',
        ref='DESIGN.md §5 C11'),
    'C12': dict(
        technique='Lean 4 proof (retry equivalence and invariant preservation of partially completed extensions, on the vnadata model of C15) + exhaustive single-allocation-failure injection over scripted histories of the compiled C',
        text='Theorems for every object, size and stopping point: what a failed vnadata_resize leaves behind (extensions complete up to the failing stage, the failing one '
             'arbitrarily far) satisfies the representation invariant, memory grown beyond the recorded allocation is invisible to every getter, and running the extensions '
             'again gives exactly the object of the call without fault. On the compiled C, for scripted histories over vnadata, vnaproperty (incl. YAML export/import, copy, '
             'hash growth) and vnacal (T/U/E12 calibrations, vector/unknown/correlated parameters, m-error model, save, load, apply), every allocation index of every call is '
             'failed once: the call returns its fault-free result or its failure value with ENOMEM, no sanitizer report, the repeated call and the rest of the history give '
             'exactly the fault-free outputs, nothing remains allocated.',
        note='Lean kernel + standard axioms; the theorems cover the vnadata allocation discipline only - for vnaproperty and vnacal the decision is the exhaustive injection run '
             '(every allocation site reached by the scripts, not every history); allocations inside libyaml and libc are not failed.',
        ref='DESIGN.md §5 C12'),
    'C18': dict(
        technique='Lean 4 proof (weights leave the solutions of exactly fitting data unchanged; positivity of the weight; closed form, value at zero and range of the even-degree chi-square p-value recurrence; linear noise grids via the C10 spline theorem) + correspondence run of the C function chisq_pvalue against the model + statistical oracle on E-network data with synthetic noise',
        text='Theorems: non-zero row weights do not change the solution set of a system the data satisfy (so exact data give the unweighted calibration), with an injective coefficient '
             'map the solution is unique; the weight is positive; the p-value recurrence equals exp(-x) sum_{i<k} x^i/i!, is 1 at 0 and lies in (0,1]. On the compiled C: exact '
             'over-determined data with the model on are never rejected and give the unweighted calibration (1e-7), enabling then disabling restores it bit for bit; Gaussian noise of '
             'exactly the declared size is rejected at 0.4..20 % overall (per type: at least once and at most 25 %) at significance 0.05; a standard off by 100 sigma is rejected with '
             'EDOM in at least 90 % of cases; noise given at 2 points of a wider grid equals the same line given on the calibration grid.',
        note='Lean kernel + standard axioms; Model/PValue.lean is tied to the very C function (its source file is compiled into the harness); the chi-square law, exp and the Gaussian '
             'generator are trusted; rates are statistical with wide bounds; in the 16-term models single reflects contribute no equations, so gross errors are placed on full-S standards; '
             'exactly determined systems (0 degrees of freedom, p-value reported as 0) are outside the property and not claimed.',
        ref='DESIGN.md §5 C18'),
    'C19': dict(
        technique='Lean 4 proof (partial: recurrences => factorisation => solve, determinant, zero pivot <=> singular) + numeric residual oracle in extended precision + factor check on the C output',
        text='For every n and field: entries satisfying the Crout recurrences give L U = P A; the two substitution recurrences give A X = B; the accumulated '
             'determinant is det A; an exactly zero pivot means det A = 0 and non-zero pivots mean A is non-singular. The C kernels are run on random, row-permuted, '
             'row-scaled (1e-8..1e8), graded, column-scaled, integer and exactly singular systems and tall least-squares systems: row-wise relative residual <= 1e-10 '
             '(scale invariant), normal-equation residual, singular inputs non-finite or astronomically large (also through ztoyn/ytozn), and the factors returned by '
             '_vnacommon_lu satisfy L U = P A with det = det A (the hypotheses of the theorems).',
        note='PARTIAL: that the imperative in-place loops with row swaps establish the recurrences is not proved (tied by the correspondence run of Model/LinAlg.lean and the '
             'factor check only); backward stability is a floating-point statement and is measured, not proved; QR is only exercised numerically.',
        ref='DESIGN.md §5 C19'),
}
PENDING = {}
ALL = ['C%02d' % i for i in range(1, 21)]


def main():
    checks = []
    for pid in ALL:
        if pid not in CHECKS:
            continue
        c = CHECKS[pid]
        checks.append({
            'property_id': pid,
            'quick_cmd': 'python3-vt tools/check.py %s --tier quick' % pid,
            'thorough_cmd': 'python3-vt tools/check.py %s --tier thorough' % pid,
            'evidence_file': 'evidence/%s.json' % pid,
            'replay_cmd_template': 'python3-vt tools/check.py %s --replay {path}' % pid,
            'engine': 'lean4-proof+correspondence',
            'level_claimed': {'category': 'proof', 'text': c['text'], 'design_ref': c['ref']},
            'level_note': c['note'],
            'technique': c['technique'],
        })
    na = [{'property_id': p, 'reason': PENDING.get(p, 'check not built yet in this round (planned: DESIGN.md §9); not claimed until its theorems and correspondence run exist')}
          for p in ALL if p not in CHECKS]
    m = {
        'version': 1,
        'setup_cmd': 'sh tools/setup.sh',
        'hooks': {
            'guard': 'LIBVNA_VERIF',
            'enable': 'checks compile /repo/src/*.c themselves with -DLIBVNA_VERIF -fsanitize=address,undefined into /verif/.cache (tools/vlib.py build_c); two source hooks: _vnacal_new_verif_hash_dump at the end of src/vnacal_new_parameter.c (read-only dump of the parameter table of a vnacal_new_t, harness op `cal hash_dump`) and _vnacal_new_verif_connectivity_dump at the end of src/vnacal_new_add_common.c (read-only dump of the S zero pattern and connectivity matrix of every standard, harness op `cal conn_dump`)',
            'baseline_off_cmd': 'sh tools/baseline_off.sh',
            'source_commits': ['bc97fe1', 'c59f173'],
            'add_only': True,
        },
        'engines': [{'name': 'lean4-proof+correspondence', 'path': 'tools/check.py',
                     'serves_properties': [c['property_id'] for c in checks],
                     'kind_free_text': 'Lean 4 theorems over generated/hand models (lean/), tied to the code by translators (tools/tr_*.py) and a line-protocol correspondence run (harness/vh.c vs lean exe vmodel)'}],
        'checks': checks,
        'not_applicable': na,
        'notes': 'See DESIGN.md. known_findings.json lists genuine defects recorded or fixed.',
    }
    with open(os.path.join(V, 'MANIFEST.json'), 'w') as f:
        json.dump(m, f, indent=1)
    print('MANIFEST: %d checks, %d not claimed' % (len(checks), len(na)))


if __name__ == '__main__':
    main()
