#!/usr/bin/env python3
"""check.py <property id> [--tier quick|thorough] [--replay file]

Entry point registered in MANIFEST.json.  Exit 0 = the property held on everything explored;
exit 1 + `VIOLATION property=<id> replay=<path>` otherwise.  Evidence: /verif/evidence/<id>.json.
"""
import argparse, importlib, os, sys, traceback
sys.path.insert(0, os.path.dirname(os.path.abspath(__file__)))
import vlib


def main():
    ap = argparse.ArgumentParser()
    ap.add_argument('pid')
    ap.add_argument('--tier', default=os.environ.get('VERIF_TIER', 'quick'))
    ap.add_argument('--replay')
    a = ap.parse_args()
    seed = int(os.environ.get('VERIF_SEED', '1') or 1)
    mod = importlib.import_module('props.' + a.pid.lower())
    chk = vlib.Check(a.pid, a.tier, seed)
    try:
        if a.replay:
            return mod.replay(chk, a.replay)
        if os.environ.get('VERIF_NO_MSAN') != '1':
            try:
                vlib.SHADOW['exe'] = vlib.build_msan()
            except vlib.BuildError as e:
                # gcc decides whether the tree builds; without the clang build the uninitialised-read shadow is simply absent
                chk.trusted.append('the MemorySanitizer shadow was NOT run: ' + str(e)[:200])
        mod.run(chk)
        if vlib.SHADOW['exe']:
            chk.count('msan_shadow_scripts', vlib.SHADOW['runs'])
            chk.count('msan_shadow_calls', vlib.SHADOW['calls'])
            chk.trusted.append('every harness script of this check was also run under a clang MemorySanitizer build of library and harness (calls reaching the uninstrumented libyaml removed)')
            if vlib.SHADOW['reports'] and not chk.violations:
                reached, err = vlib.SHADOW['reports'][0]
                exe_m = vlib.SHADOW['exe']
                vlib.SHADOW['exe'] = None
                bad = lambda ls: 'use-of-uninitialized-value' in vlib.run_lines(exe_m, ls, timeout=600, env=vlib.MSAN_ENV)[2]
                small = vlib.shrink(reached, bad) if bad(reached) else reached
                err2 = vlib.run_lines(exe_m, small, timeout=600, env=vlib.MSAN_ENV)[2]
                chk.violation('uninitialised', 'the library read memory it never wrote, and the value decided a branch, an address or output (MemorySanitizer; %d calls reduced to %d):\n%s'
                              % (len(reached), len(small), (err2 if 'use-of-uninitialized-value' in err2 else err)[-2200:]), small)
    except vlib.BuildError as e:
        # the tree does not build: nothing can be decided; report as violation without input
        chk.violation('build', 'build failed: %s' % e, nofail=True)
    except Exception:
        traceback.print_exc()
        chk.violation('internal', 'check crashed: ' + traceback.format_exc()[-1500:], nofail=True)
    return chk.finish()


if __name__ == '__main__':
    sys.exit(main())
