#!/usr/bin/env python3
"""check.py <property id> [--tier quick|thorough] [--replay file]

Entry point registered in MANIFEST.json.  Exit 0 = the property held on everything explored;
exit 1 + `VIOLATION property=<id> replay=<path>` otherwise.  Evidence: /verif/evidence/<id>.json.
"""
import argparse, importlib, os, sys, traceback
sys.path.insert(0, os.path.dirname(os.path.abspath(__file__)))
import vlib


def main():
    ap = argparse.ArgumentParser()
    ap.add_argument('pid')
    ap.add_argument('--tier', default=os.environ.get('VERIF_TIER', 'quick'))
    ap.add_argument('--replay')
    a = ap.parse_args()
    seed = int(os.environ.get('VERIF_SEED', '1') or 1)
    mod = importlib.import_module('props.' + a.pid.lower())
    chk = vlib.Check(a.pid, a.tier, seed)
    try:
        if a.replay:
            return mod.replay(chk, a.replay)
        mod.run(chk)
    except vlib.BuildError as e:
        # the tree does not build: nothing can be decided; report as violation without input
        chk.violation('build', 'build failed: %s' % e, nofail=True)
    except Exception:
        traceback.print_exc()
        chk.violation('internal', 'check crashed: ' + traceback.format_exc()[-1500:], nofail=True)
    return chk.finish()


if __name__ == '__main__':
    sys.exit(main())
