"""C03 — no API call sequence corrupts memory, invokes undefined behaviour or leaks.

Proof side : Libvna.Props.C03 — on the object models: every vnadata operation of every history stays inside its allocations
             (reachable_no_ub, C15) also after a failed allocation (partial_extension_inv, C12); a handle the parameter table
             calls valid indexes inside the slot vector and a fresh slot was free (C16); table lookups with any integer are
             total; Touchstone / NPD loads write inside the sized object and index inside the checked line (C06); the NPD
             scanner consumes input (C09).
Tie        : the correspondence runs of the cited properties.
Oracle     : AddressSanitizer + UndefinedBehaviourSanitizer + LeakSanitizer + allocation accounting on interleaved random
             histories over all object kinds in one process: vnadata, property trees, vnacal with parameters / vnacal_new /
             calibrations / apply / save / load, file loads of valid and damaged text, with valid, boundary and invalid
             arguments, failing calls included, in any order; at the end every object is freed and nothing may remain.
"""
import os, random, re
import vlib
from props import c15, c13, c11, c09, c08, calsim, nfile

THEOREMS = ['Libvna.VD.reachable_no_ub', 'Libvna.VD.partial_extension_inv', 'Libvna.CT.valid_in_bounds', 'Libvna.CT.alloc_fresh', 'Libvna.CT.lookups_total',
            'Libvna.FF.symmetric_fill', 'Libvna.FF.npd_offsets_in_line', 'Libvna.Npd.scan_progress']
FILES = ['Props/C03.lean', 'Model/VData.lean', 'Model/CalTable.lean']
h = vlib.hexbytes


def cal_thread(rng, c, nbase):
    """one vnacal_t life: parameters, two vnacal_new, standards (some invalid), solves (some too early), calibrations, apply, save, load into another slot"""
    typ = rng.choice(list(calsim.TYPES))
    n = 2 if typ in ('T16', 'U16') else rng.choice((1, 2))
    sc = calsim.Scenario(rng, typ, n, n, rng.randint(1, 2), form=rng.choice(['m', 'ab']), slot_c=c, slot_n=nbase).begin()
    L = sc.lines
    L.append('cal solve %d' % sc.n)                                     # too early: fails
    L.append('cal make_vector %d 2 %s %s %s %s' % (c, vlib.d2h(sc.fvec[0] * 0.5), vlib.d2h(sc.fvec[-1] * 2), vlib.c2h(0.1), vlib.c2h(0.2)))
    L.append('cal make_unknown %d 3' % c)
    L.append('cal make_correlated %d 4 2 N %s %s' % (c, vlib.d2h(0.1), vlib.d2h(0.2)))      # sigma frequencies borrowed through the unknown from the vector
    L.append('cal make_correlated %d 5 1 N %s' % (c, vlib.d2h(0.1)))
    L.append('cal delete_parameter %d 3' % c)                           # still referenced by the unknown
    # measurement-error model: set, cleared, set again, at arbitrary points of the life of the vnacal_new_t
    merr = ['cal new_set_m_error %d 1 N S %s N' % (sc.n, vlib.d2h(1e-4)), 'cal new_set_m_error %d 1 N N N' % sc.n,
            'cal new_set_m_error %d 2 F %s %s S %s %s T %s %s' % (sc.n, vlib.d2h(sc.fvec[0] * 0.9), vlib.d2h(sc.fvec[-1] * 1.1), vlib.d2h(1e-4), vlib.d2h(2e-4), vlib.d2h(1e-3), vlib.d2h(1e-3))]
    sc.solt(variety=rng)
    if rng.random() < 0.7:
        k = rng.randint(1, 3)
        pos = sorted(rng.randint(3, len(L)) for _ in range(k))
        for j, p_ in enumerate(pos):
            L.insert(p_ + j, merr[j])
    bad = next(g for g in c11.sweep_cases(rng, '/tmp')[0] if g[0] == 'vnacal')[2]    # the invalid vnacal calls of the C11 sweep
    for (pl, classes, silent) in rng.sample(bad, 12):
        if ' loadstr ' in pl or ' load ' in pl or ' save ' in pl:
            continue
        pl = re.sub(r'^cal (\w+) 0 ', 'cal \\1 %d ' % c, pl) if not pl.startswith('cal add ') and not pl.startswith('cal new_') and not pl.startswith('cal solve') else re.sub(r'^cal (\w+) 0 ', 'cal \\1 %d ' % sc.n, pl)
        L.insert(rng.randint(3, len(L)), pl)
    L += ['cal solve %d' % sc.n, 'cal add_calibration %d %s %d' % (c, h('a'), sc.n), 'cal add_calibration %d %s %d' % (c, h('b'), sc.n)]
    # solved again and stored over itself under the name the library hands out (its own string)
    L += ['cal solve %d' % sc.n, 'cal add_calibration_own %d 0 %d' % (c, sc.n), 'cal find_calibration %d %s' % (c, h('a'))]   # second add: new_t no longer solved -> fails or re-adds
    L += [sc.apply_line(0, sc.random_dut()), 'cal property %d 0 set %s' % (c, h('k.l[2]=v')), 'cal property %d -1 set %s' % (c, h('g=1')), 'cal savestr %d' % c,
          'cal delete_calibration %d 0' % c, 'cal get_info %d 0' % c, 'cal get_calibration_end %d' % c, 'cal delete_parameter %d 4' % c, 'cal new_free %d' % sc.n, 'cal free %d' % c]
    return L


def file_thread(rng, slot):
    L = ['vd %d alloc' % slot]
    for _ in range(rng.randint(2, 5)):
        net = c08.gen_net(rng, rng.choice([1, 2]))
        if rng.random() < 0.5:
            txt = nfile.write_touchstone(rng, net, rng.choice([1, 2]) if net['ports'] <= 4 and len(set(net['z0'])) == 1 else 2, fmt=rng.choice(['ri', 'ma', 'db'])).encode()
            name = 'x.ts'
        else:
            txt = c08.write_npd(rng, net, rng.choice([['ri'], ['ma', 'ri']])).encode()
            name = 'x.npd'
        if rng.random() < 0.6:
            for _ in range(rng.randint(1, 3)):
                txt = c09.mutate(rng, txt)
        L += ['vd %d loadstr %s x%s' % (slot, h(name), txt.hex()), 'vd %d digest' % slot, 'vd %d savestr %s' % (slot, h(rng.choice(['o.npd', 'o.ts', 'o.s2p', 'o'])))]
        if rng.random() < 0.5:
            L.append('vd %d convert %d %d' % (slot, slot, rng.choice([1, 4, 5, 10, 2, 99])))
    L.append('vd %d free' % slot)
    return L


def interleave(rng, threads):
    threads = [list(t) for t in threads if t]
    out = []
    while threads:
        t = rng.choice(threads)
        out.append(t.pop(0))
        if not t:
            threads.remove(t)
    return out


YAML_LINE = re.compile(r'^(cal (savestr|loadstr|save|load|resave) |pt .*\b(export|import|importf|yamltree)\b)')


def msan_stage(chk, rng, n_hist, n_num):
    """the same kinds of histories through a MemorySanitizer build (clang): a value the library never wrote must not decide a branch,
    an address or what is written out.  libyaml is not instrumented, so the calls that reach it are left out of these histories."""
    from props import c02
    mexe = vlib.build_msan()
    env = {'MSAN_OPTIONS': 'exitcode=98:halt_on_error=1:print_stats=0:allocator_may_return_null=1:check_printf=1'}

    def bad(ls):
        o, r, e = vlib.run_lines(mexe, ls, timeout=600, env=env)
        return 'use-of-uninitialized-value' in e

    def one(lines, what):
        out, rc, err = vlib.run_lines(mexe, lines, timeout=600, env=env)
        chk.evaluations += 1
        chk.count('msan_calls', len(out))
        if 'use-of-uninitialized-value' in err:
            small = vlib.shrink(lines[:len(out) + 1], bad) if bad(lines[:len(out) + 1]) else lines
            o2, rc2, err2 = vlib.run_lines(mexe, small, timeout=600, env=env)
            chk.violation('uninitialised', '%s: the library read memory it never wrote (MemorySanitizer, %d calls reduced to %d):\n%s' % (what, len(lines), len(small), (err2 if 'use-of-uninitialized-value' in err2 else err)[-2200:]), small)
            return False
        if rc != 0 or len(out) != len(lines):
            chk.violation('msan-crash', '%s: the MemorySanitizer build stopped at call %d of %d (exit %s):\n%s' % (what, len(out), len(lines), rc, err[-1200:]), lines[:len(out) + 1])
            return False
        return True

    for k in range(n_hist):
        vd_lines, _ = c15.gen_history(rng, rng.randint(20, 60))
        pt_lines = [l for l in (c13.gen_history(rng, rng.randint(20, 50)) if rng.random() < 0.6 else c13.gen_lists(rng, rng.randint(30, 70))) if not l.endswith(' live')]
        threads = [vd_lines, pt_lines, cal_thread(rng, 0, 0), cal_thread(rng, 1, 2), file_thread(rng, 5)]
        lines = [l for l in interleave(rng, threads) if not YAML_LINE.match(l)] + ['cal live']
        if not one(lines, 'interleaved history'):
            return
        chk.count('msan_histories')
    # calibrations of every type: exactly determined, over-determined, with unknown parameters, with and without the measurement-error
    # model (iterated weighted solves), solved, applied
    for k in range(n_num):
        for typ in calsim.TYPES:
            p = 2
            scs = []
            for kind in ('extra1', 'extra2', 'trl', 'trla', 'solr', 'repeat'):
                if kind in ('trl', 'trla', 'solr') and typ in ('UE14', 'E12'):
                    continue
                s_ = c02.build(rng, kind, typ, rng.randint(1, 2), rng.choice(['m', 'ab']), merr=rng.random() < 0.5)
                if s_:
                    scs.append((kind, s_))          # (a complete script: solve, parameter values, apply, free)
            sc = c02.Sc(rng, typ, p, p, rng.randint(1, 3), form=rng.choice(['m', 'ab'])).begin()
            if rng.random() < 0.7:
                sc.lines.append('cal new_set_m_error %d 1 N S %s T %s' % (sc.n, vlib.d2h(1e-6), vlib.d2h(1e-3)))
            sc.solt(variety=rng)
            if typ not in ('T16', 'U16'):
                for port in (1, 2):
                    g_ = complex(rng.uniform(-0.6, 0.6), rng.uniform(-0.6, 0.6))
                    sc.std1(port, sc.scalar(g_), g_)
            sc.lines.append('cal solve %d' % sc.n)
            sc.add_calibration()
            sc.lines.append(sc.apply_line(0, sc.random_dut()))
            sc.lines += ['cal get_info %d 0' % sc.c, 'cal free %d' % sc.c, 'cal live']
            scs.append(('over-determined', sc))
            for kind, s_ in scs:
                if not one(s_.lines, 'calibration %s %s' % (kind, typ)):
                    return
                chk.count('msan_calibrations')


def run(chk):
    rng = random.Random(chk.seed * 97 + 3)
    broken = []
    if os.environ.get('VERIF_DEV_NOPROOF') != '1':
        c15.proof_side(chk, ['Libvna.Props.C03'], THEOREMS, FILES, broken)
    chk.trusted += ['clang MemorySanitizer for the uninitialised-read stage (libyaml, libm and libc uninstrumented: calls that reach libyaml are not part of that stage)',
                    'GCC AddressSanitizer / UBSan / LeakSanitizer and the link-time allocation accounting of the harness; libyaml and libc are outside the accounting',
                    'UBSan nonnull-attribute (memcpy / memset of length 0 on NULL) is deliberately not counted']
    chk.checker_cmd = 'cd lean && lake build Libvna.Props.C03 && #print axioms'
    exe, _ = vlib.build_c()
    quick = chk.tier == 'quick'
    N = (10 if quick else 300) * (3 if broken else 1)
    lines_last = []
    for k in range(N):
        vd_lines, _ = c15.gen_history(rng, rng.randint(20, 60))                      # slots 0, 1 (allocs and frees included)
        pt_lines = [l for l in (c13.gen_history(rng, rng.randint(20, 50)) if rng.random() < 0.6 else c13.gen_lists(rng, rng.randint(30, 70))) if not l.endswith(' live')]
        threads = [vd_lines, pt_lines, cal_thread(rng, 0, 0), cal_thread(rng, 1, 2), file_thread(rng, 5)]
        lines = interleave(rng, threads) + ['cal live']
        lines_last = lines
        out, rc, err = vlib.run_lines(exe, lines, timeout=600)
        chk.evaluations += 1
        if rc != 0 or len(out) != len(lines):
            def dies(ls):
                o, r, e = vlib.run_lines(exe, ls, timeout=300)
                return r != 0 or len(o) != len(ls)
            small = vlib.shrink(lines[:len(out) + 1], dies) if dies(lines[:len(out) + 1]) else lines
            o2, rc2, err2 = vlib.run_lines(exe, small, timeout=300)
            chk.violation('sanitizer', 'crash / sanitizer / leak report in an interleaved history (%d calls, reduced to %d):\n%s' % (len(lines), len(small), (err2 or err)[-1800:]), small)
            break
        if out[-1] != 'ok live=0':
            chk.violation('residue', 'allocations made by the library remain after every object was freed: %s' % out[-1], lines)
            break
        nbad = sum(1 for o in out if o == 'bad-op')
        chk.count('calls', len(lines))
        chk.count('failing_calls', sum(1 for o in out if o.startswith('fail')))
        chk.count('harness_rejected', nbad)
        chk.distinct.add(hash(tuple(lines)))
    chk.rule = ('%d interleaved histories of about 300 calls: random vnadata history (C15 generator), property-tree history (C13 generator), two vnacal lives with parameters, '
                'standards of every entry point in varied shapes, invalid calls from the C11 sweep, premature and repeated solves / add_calibration, apply, properties, save, '
                'deletes in awkward order, and a file thread loading valid and mutated Touchstone / NPD text, saving and converting; line-level interleaving' % N)
    # empty frequency vectors (a vnacal_new_t of zero frequencies, an apply at zero frequencies) and a save that cannot write
    if not chk.violations:
        sc0 = calsim.Scenario(rng, 'T8', 1, 1, 2).begin()
        sc0.solt().solve().add_calibration(b'c')
        fixed = sc0.lines + ['cal apply 0 0 m 0 1 1', 'cal new_alloc 0 3 0 1 1 0', 'cal new_set_frequency_vector 3',
                             # an error model on its own grid, given to a calibration of zero frequencies
                             'cal new_set_m_error 3 2 F %s %s S %s %s N' % (vlib.d2h(1e9), vlib.d2h(2e9), vlib.d2h(1e-3), vlib.d2h(1e-3)),
                             'cal add 3 single_reflect m 0 1 1 2 1',
                             'cal add 3 single_reflect m 0 1 1 1 1', 'cal add 3 single_reflect m 0 1 1 0 1', 'cal solve 3',
                             # the zero-frequency calibration stored, and applied at a frequency
                             'cal add_calibration 0 %s 3' % vlib.hexbytes(b'empty'), 'cal apply 0 1 m 1 1 1 %s %s' % (vlib.d2h(1e9), vlib.c2h(0.5)),
                             'cal apply 0 1 m 0 1 1', 'cal new_free 3',
                             'cal save 0 ' + vlib.hexbytes(b'/dev/full'), 'cal free 0', 'cal live']
        out, rc, err = vlib.run_lines(exe, fixed, timeout=300)
        chk.evaluations += 1
        if rc != 0 or len(out) != len(fixed):
            chk.violation('sanitizer-empty', 'zero-frequency objects / a save to a full device: crash / sanitizer / leak report:\n%s' % err[-1500:], fixed[:len(out) + 1])
        elif out[-1] != 'ok live=0':
            chk.violation('residue-empty', 'allocations remain: %s' % out[-1], fixed)
        else:
            chk.count('empty_vectors_ok')
    # a partly known standard (rectangular S matrix through vnacal_new_add_mapped_matrix) in every type: accepted or refused, never an abort
    if not chk.violations:
        for typ, (sr, sc_) in (('T8', (3, 2)), ('TE10', (3, 2)), ('U8', (2, 3)), ('UE10', (2, 3)), ('UE14', (2, 3)), ('E12', (2, 3)), ('T16', (3, 2)), ('U16', (2, 3)),
                               ('T8', (2, 3)), ('U8', (3, 2)), ('T16', (2, 3)), ('U16', (3, 2))):
            L = ['cal create 0', 'cal new_alloc 0 0 %d 3 3 1' % calsim.TYPES[typ], 'cal new_set_frequency_vector 0 %s' % vlib.d2h(1e9),
                 'cal add 0 mapped m 1 3 3 %s %d %d 0 1 1 0 0 0 M 1 2 3' % (' '.join(vlib.c2h(0.1 * k) for k in range(9)), sr, sc_),
                 'cal solve 0', 'cal free 0', 'cal live']
            out, rc, err = vlib.run_lines(exe, L, timeout=300)
            chk.evaluations += 1
            if rc != 0 or len(out) != len(L):
                chk.violation('sanitizer-rect-s', '%s 3x3, a %dx%d S matrix through vnacal_new_add_mapped_matrix_m: crash / abort / sanitizer report:\n%s' % (typ, sr, sc_, err[-1500:]), L[:len(out) + 1])
                break
            chk.count('rect_s_ok')
    # leakage samples (cells on no signal path) that are huge, infinite or not numbers, with the error model on: the statistic is not finite
    if not chk.violations:
        from props import c02
        for typ in ('TE10', 'UE10', 'UE14', 'E12'):
            for val in (1e200, float('inf'), float('nan')):
                s3 = c02.Sc(rng, typ, 3, 3, 1, form='m').begin()
                s3.lines.append('cal new_set_m_error %d 1 N S %s T %s' % (s3.n, vlib.d2h(1e-4), vlib.d2h(1e-3)))
                s3.add_through(1, 2)
                s3.add_through(2, 3)
                for port in (1, 2, 3):
                    for code in (calsim.SHORT, calsim.OPEN, calsim.MATCH):
                        s3.add_reflect(port, code)
                        t = s3.lines[-1].split()
                        i0 = t.index('m') + 4
                        t[i0 + 4], t[i0 + 5] = vlib.d2h(val), vlib.d2h(0.0)            # M13
                        t[i0 + 12], t[i0 + 13] = vlib.d2h(0.0), vlib.d2h(val)          # M31
                        s3.lines[-1] = ' '.join(t)
                s3.lines += ['cal solve %d' % s3.n, 'cal free 0', 'cal live']
                out, rc, err = vlib.run_lines(exe, s3.lines, timeout=300)
                chk.evaluations += 1
                if rc != 0 or len(out) != len(s3.lines):
                    chk.violation('sanitizer-nonfinite-leakage', '%s 3x3: leakage samples of %r with the error model on: crash / abort / sanitizer report:\n%s' % (typ, val, err[-1500:]), s3.lines[:len(out) + 1])
                    break
                chk.count('nonfinite_leakage_ok')
            if chk.violations:
                break
    # an exactly determined system whose only unknowns are correlated parameters, with the error model set (no V matrices exist)
    if not chk.violations:
        from props import c02
        for typ in ('T8', 'U8', 'TE10', 'UE10'):
            s2 = c02.Sc(rng, typ, 2, 2, 1, form='m').begin()
            hc = s2.correlated(calsim.SHORT, 0.1, -1.0)
            s2.lines.append('cal new_set_m_error %d 1 N S %s N' % (s2.n, vlib.d2h(1e-3)))
            s2.add_through(1, 2)
            s2.std2r(1, 2, calsim.OPEN, hc, 1.0, -1.0)
            s2.add_reflect(1, calsim.MATCH)
            s2.lines += ['cal solve %d' % s2.n, 'cal free 0', 'cal live']
            out, rc, err = vlib.run_lines(exe, s2.lines, timeout=300)
            chk.evaluations += 1
            if rc != 0 or len(out) != len(s2.lines):
                chk.violation('sanitizer-exact-correlated', '%s: exactly determined system with a correlated parameter and the error model: crash / sanitizer report:\n%s' % (typ, err[-1500:]), s2.lines[:len(out) + 1])
                break
            chk.count('exact_correlated_ok')
    # parameters that outlive a vnacal_new_t and are solved again on another grid (shorter, longer, shifted): no access beyond the new vectors
    if not chk.violations:
        from props import c02
        c02.resolve_histories(chk, exe, rng, 3 if quick else 40)
    if not chk.violations:
        msan_stage(chk, rng, 3 if quick else 60, 1 if quick else 12)
    chk.samples = [[l[:90] for l in lines_last[:10]]]
    if broken and not chk.violations:
        chk.violation('obligation', 'proof/correspondence obligations that no longer check:\n' + '\n'.join(broken[:30]), nofail=True)


def replay(chk, path):
    from props import c01
    return c01.replay(chk, path)
