"""C02 — self-calibration recovers unknown standard parameters and the calibration.

Proof side : Libvna.Props.C02 — the control of the iterative solver as a total function: it evaluates the step at most
             limit + 1 times, a reported convergence satisfies the tolerance test, raising the iteration limit never
             changes a result that converged, and it fails exactly when no iterate up to the limit passes the test; with
             the true parameter values the true error terms satisfy every equation (from C01).
Tie        : Model/IterCtl.lean against the C through the iteration limit: the least limit that succeeds, identical
             results for every larger limit, failure (EDOM) for every smaller one.
Oracle     : E-network ground truth (tools/props/calsim.py): TRL (unknown reflect and line), unknown reciprocal through
             (SOLR), redundant unknown reflect, connection-repeatability (correlated) models, with guesses inside the basin:
             vnacal_get_parameter_value must return the true values and the calibration must correct an independent device
             to a small multiple of the tolerances; tighter tolerances must not give a worse result; bad guesses and tiny
             iteration limits must return (EDOM) instead of hanging.
"""
import cmath, math, os, random
import numpy as np
import vlib
from props import c15, calsim

THEOREMS = ['Libvna.Iter.' + t for t in ('loop_bounded', 'loop_converged_sound', 'loop_limit_monotone', 'loop_fails_iff')] + ['Libvna.Cal.true_parameters_fit']
FILES = ['Model/IterCtl.lean', 'Props/C02.lean', 'Props/C01.lean']
z = vlib.c2h


class Sc(calsim.Scenario):
    def __init__(self, *a, **k):
        super().__init__(*a, **k)
        self.next_handle = 3
        self.truth = {}      # handle of unknown -> list of true values per frequency

    def scalar(self, v):
        v = complex(v)
        if v in (0j, 1 + 0j, -1 + 0j):      # the library answers with its predefined handles
            return {0j: calsim.MATCH, 1 + 0j: calsim.OPEN, -1 + 0j: calsim.SHORT}[v]
        self.lines.append('cal make_scalar %d %s' % (self.c, z(v)))
        self.next_handle += 1
        return self.next_handle - 1

    def unknown(self, guess, truth):
        g = self.scalar(guess)
        self.lines.append('cal make_unknown %d %d' % (self.c, g))
        hd = self.next_handle
        self.next_handle += 1
        self.truth[hd] = [truth] * self.nf if not isinstance(truth, list) else truth
        return hd

    def correlated(self, other, sigma, truth):
        self.lines.append('cal make_correlated %d %d 1 N %s' % (self.c, other, vlib.d2h(sigma)))
        hd = self.next_handle
        self.next_handle += 1
        self.truth[hd] = [truth] * self.nf if not isinstance(truth, list) else truth
        return hd

    def vector(self, freqs, values):
        self.lines.append('cal make_vector %d %d %s %s' % (self.c, len(freqs), ' '.join(vlib.d2h(f) for f in freqs), ' '.join(z(v) for v in values)))
        self.next_handle += 1
        return self.next_handle - 1

    def std1(self, port, handle, value):
        S = [calsim.embed(self.p, [port - 1], [[value]], self.others) for f in range(self.nf)]
        self.lines.append('cal add %d single_reflect %s %d %d' % (self.n, self.mtext(self.meas(S)), handle, port))

    def std2r(self, p1, p2, h1, h2, v1, v2):
        S = [calsim.embed(self.p, [p1 - 1, p2 - 1], [[v1, 0], [0, v2]], self.others) for f in range(self.nf)]
        self.lines.append('cal add %d double_reflect %s %d %d %d %d' % (self.n, self.mtext(self.meas(S)), h1, h2, p1, p2))

    def line(self, p1, p2, handles, S2):
        self.add_line_handles(p1, p2, handles, [S2] * self.nf)


def guess_near(rng, v, rel):
    return v * (1 + rel * complex(rng.uniform(-1, 1), rng.uniform(-1, 1)))


def build(rng, kind, typ, nf, form, ptol=None, etol=None, limit=None, bad=False, merr=False, et_first=False):
    n = 1 if kind in ('extra1', 'repeat', 'repeatv', 'spread') else 2
    if typ in ('T16', 'U16'):
        return None
    sc = Sc(rng, typ, n, n, nf, form=form).begin()
    ZERO, ONE = 0, 1
    if kind == 'extra1':
        # short, open, match known; a fourth reflect with unknown value
        for code in (calsim.SHORT, calsim.OPEN, calsim.MATCH):
            sc.add_reflect(1, code)
        g = complex(rng.uniform(-0.6, 0.6), rng.uniform(-0.6, 0.6))
        u = sc.unknown(guess_near(rng, g, 0.3 if not bad else 3.0), g)
        sc.std1(1, u, g)
    elif kind == 'extra2':
        # two-port short-open-load-through, known; one more reflect of unknown value seen on both ports (every type, also the
        # 12-/14-term models with one linear system per column)
        sc.solt()
        g = complex(rng.uniform(-0.6, 0.6), rng.uniform(-0.6, 0.6))
        u = sc.unknown(guess_near(rng, g, 0.2), g)
        sc.std1(1, u, g)
        sc.std1(2, u, g)
    elif kind == 'trl':
        R = -0.95 * cmath.exp(1j * rng.uniform(-0.2, 0.2))
        th = math.radians(rng.uniform(40, 140))
        L = 0.98 * cmath.exp(-1j * th)
        sc.add_through(1, 2)
        hr = sc.unknown(-1.0 if not bad else 1.0, R)
        sc.std2r(1, 2, hr, hr, R, R)
        hl = sc.unknown(cmath.exp(-1j * (th + math.radians(rng.uniform(-20, 20) if not bad else 170))), L)
        sc.line(1, 2, (calsim.MATCH, hl, hl, calsim.MATCH), [[0, L], [L, 0]])
        if typ in ('TE10', 'UE10', 'UE14', 'E12'):
            # leakage needs one standard without a path between the ports that is fully known
            sc.add_double_reflect(1, 2, calsim.MATCH, calsim.MATCH)
    elif kind == 'trla':
        # not TRL: the reflect is unknown on port 1 only, port 2 sees a known short (10 equations, 9 unknowns: iterative path)
        R = -0.9 * cmath.exp(1j * rng.uniform(-0.3, 0.3))
        th = math.radians(rng.uniform(40, 140))
        L = 0.98 * cmath.exp(-1j * th)
        sc.add_through(1, 2)
        hr = sc.unknown(guess_near(rng, R, 0.1), R)
        sc.std2r(1, 2, hr, calsim.SHORT, R, -1.0)
        hl = sc.unknown(cmath.exp(-1j * (th + math.radians(rng.uniform(-10, 10)))), L)
        sc.line(1, 2, (calsim.MATCH, hl, hl, calsim.MATCH), [[0, L], [L, 0]])
        if typ in ('TE10', 'UE10'):
            sc.add_double_reflect(1, 2, calsim.MATCH, calsim.MATCH)
    elif kind == 'solr':
        for port in (1, 2):
            for code in (calsim.SHORT, calsim.OPEN, calsim.MATCH):
                sc.add_reflect(port, code)
        t = 0.9 * cmath.exp(-1j * math.radians(rng.uniform(20, 160)))
        a, b = calsim.rc(rng, 0.1), calsim.rc(rng, 0.1)
        ht = sc.unknown(guess_near(rng, t, 0.25) if not bad else -t, t)
        ha = sc.unknown(0.0, a)
        hb = sc.unknown(0.0, b)
        sc.line(1, 2, (ha, ht, ht, hb), [[a, t], [t, b]])
    elif kind == 'repeat':
        # every connection of the short is a little different: correlated with the nominal short
        sigma = 1e-3
        for code in (calsim.OPEN, calsim.MATCH):
            sc.add_reflect(1, code)
        for _ in range(3):
            g = -1.0 + complex(rng.gauss(0, sigma), rng.gauss(0, sigma)) * 0.7
            hc = sc.correlated(calsim.SHORT, sigma, g)
            sc.std1(1, hc, g)
    elif kind == 'spread':
        # two unknown reflects whose handles are 8 or 16 apart (other parameters of the vnacal_t lie between them), the standard with
        # the higher handle added first
        for code in (calsim.SHORT, calsim.OPEN, calsim.MATCH):
            sc.add_reflect(1, code)
        g1 = complex(rng.uniform(-0.6, 0.6), rng.uniform(-0.6, 0.6))
        g2 = complex(rng.uniform(-0.6, 0.6), rng.uniform(0.2, 0.6)) * (-1 if rng.random() < 0.5 else 1)
        u1 = sc.unknown(guess_near(rng, g1, 0.2), g1)
        for _ in range(rng.choice([6, 14])):
            sc.scalar(calsim.rc(rng, 0.5) + 2.0)
        u2 = sc.unknown(guess_near(rng, g2, 0.2), g2)
        assert (u2 - u1) % 8 == 0
        sc.std1(1, u2, g2)
        sc.std1(1, u1, g1)
    elif kind == 'repeatv':
        # the same, around a frequency-dependent kit model: an offset short whose reflection turns with frequency, given as a vector
        # parameter on a wider grid that contains the calibration frequencies
        sigma = 1e-3
        for code in (calsim.OPEN, calsim.MATCH):
            sc.add_reflect(1, code)
        turn = rng.uniform(0.4, 1.2)
        model = lambda f: -cmath.exp(-2j * turn * f / sc.fvec[0])
        fg = [sc.fvec[0] * 0.25, sc.fvec[0] * 0.6] + list(sc.fvec) + [sc.fvec[-1] * 1.5, sc.fvec[-1] * 2.0]
        hv = sc.vector(fg, [model(f) for f in fg])
        for _ in range(3):
            dev = complex(rng.gauss(0, sigma), rng.gauss(0, sigma)) * 0.7
            gl = [model(f) + dev for f in sc.fvec]
            hc = sc.correlated(hv, sigma, gl)
            S = [calsim.embed(sc.p, [0], [[gl[f]]], sc.others) for f in range(sc.nf)]
            sc.lines.append('cal add %d single_reflect %s %d %d' % (sc.n, sc.mtext(sc.meas(S)), hc, 1))
    if merr:
        # the measurement-error model on (noise floor and a signal-proportional part): exact data must still be solved to the same values
        sc.lines.append('cal new_set_m_error %d 1 N S %s T %s' % (sc.n, vlib.d2h(1e-6), vlib.d2h(1e-3)))
    sc.merr = merr
    tl = []
    if ptol is not None:
        tl.append('cal new_set_p_tolerance %d %s' % (sc.n, vlib.d2h(ptol)))
    if etol is not None:
        tl.append('cal new_set_et_tolerance %d %s' % (sc.n, vlib.d2h(etol)))
    sc.lines += tl[::-1] if et_first else tl
    if limit is not None:
        sc.lines.append('cal new_set_iteration_limit %d %d' % (sc.n, limit))
    sc.solve()
    sc.i_solve = len(sc.lines) - 1
    sc.i_vals = {}
    for hd in sc.truth:
        sc.i_vals[hd] = []
        for f in range(nf):
            sc.lines.append('cal get_parameter_value %d %d %s' % (sc.c, hd, vlib.d2h(sc.fvec[f])))
            sc.i_vals[hd].append(len(sc.lines) - 1)
    sc.add_calibration()
    sc.dut = sc.random_dut()
    sc.lines.append(sc.apply_line(0, sc.dut))
    sc.i_apply = len(sc.lines) - 1
    sc.lines += ['cal free 0', 'cal live']
    sc.kind = kind
    return sc


def errors(sc, o):
    """(worst parameter error, worst DUT error) or None when the solve failed"""
    if not o[sc.i_solve].startswith('ok'):
        return None
    pe = 0.0
    for hd, idx in sc.i_vals.items():
        for f, i in enumerate(idx):
            w = o[i].split()
            if w[0] != 'ok':
                return (float('inf'), float('inf'))
            pe = max(pe, abs(vlib.hs2c(w[-2:])[0] - sc.truth[hd][f]))
    ok, S = calsim.parse_apply(o[sc.i_apply], sc.p)
    de = max(np.abs(S[f] - sc.dut[f]).max() for f in range(sc.nf)) if ok else float('inf')
    return pe, de


def run(chk):
    rng = random.Random(chk.seed * 79 + 2)
    broken = []
    if os.environ.get('VERIF_DEV_NOPROOF') != '1':
        c15.proof_side(chk, ['Libvna.Props.C02'], THEOREMS, FILES, broken)
    chk.trusted += ['tools/props/calsim.py: physical E-term network as ground truth', 'IEEE arithmetic of the Levenberg-Marquardt iteration is measured, not modelled']
    chk.checker_cmd = 'cd lean && lake build Libvna.Props.C02 && #print axioms'
    exe, _ = vlib.build_c()
    quick = chk.tier == 'quick'
    reps = (1 if quick else 10) * (3 if broken else 1)
    scs = []
    for _ in range(reps):
        for kind in ('extra1', 'extra2', 'trl', 'trla', 'solr', 'repeat', 'repeatv', 'spread'):
            for typ in calsim.TYPES:
                # two-port self-calibration recipes (TRL, unknown through) are posed for the 8- and 10-term models; the 12-/14-term
                # models with their per-column systems are not determined by them
                if kind in ('trl', 'trla', 'solr') and typ in ('UE14', 'E12'):
                    continue
                for form in (('m',) if quick else ('m', 'ab')):
                    # the analytic TRL path is not taken with the error model on, and repeatability already weights its equations
                    for merr in ((False, True) if kind in ('extra1', 'extra2', 'solr') else (False,)):
                        sc = build(rng, kind, typ, rng.randint(1, 2), form, merr=merr)
                        if sc:
                            scs.append(sc)
    alll = [l for s in scs for l in s.lines]
    out, rc, err = vlib.run_lines(exe, alll, timeout=1500)
    if rc != 0 or len(out) != len(alll):
        pos, k = 0, min(len(out), len(alll) - 1)
        for s in scs:
            if pos <= k < pos + len(s.lines):
                what = 'did not return within the time limit' if 'timeout' in (err or '').lower() or rc == -9 else 'crashed / sanitizer report'
                chk.violation('sanitizer', 'self-calibration (%s %s %s) %s:\n%s' % (s.kind, s.typ, s.form, what, err[-1500:]), s.lines[:k - pos + 1])
                break
            pos += len(s.lines)
        return
    pos = 0
    worst = {}
    for s in scs:
        o = out[pos:pos + len(s.lines)]
        pos += len(s.lines)
        chk.evaluations += 1
        tag = '%s %s %dx%d %s nf=%d%s' % (s.kind, s.typ, s.rows, s.cols, s.form, s.nf, ' with the measurement-error model' if getattr(s, 'merr', False) else '')
        bad = [(l, x) for l, x in zip(s.lines[:s.i_solve], o) if not x.startswith('ok')]
        if bad:
            chk.violation('setup', '%s: a step failed: `%s` -> %s' % (tag, bad[0][0][:90], bad[0][1][:100]), s.lines[:s.lines.index(bad[0][0]) + 1])
            continue
        e = errors(s, o)
        if e is None:
            chk.violation('no-solve', '%s: vnacal_new_solve failed although the guesses are close to the truth: %s' % (tag, o[s.i_solve][:80]), s.lines[:s.i_solve + 1])
            continue
        pe, de = e
        # default tolerances are 1e-6; connection repeatability is a statistical model: within a few sigma
        lim_p, lim_d = (5e-3, 2e-2) if s.kind in ('repeat', 'repeatv') else (1e-4, 1e-4)
        worst[s.kind] = max(worst.get(s.kind, 0.0), pe, de)
        if not (pe <= lim_p and de <= lim_d):
            chk.violation('wrong-' + s.kind, '%s: solved, but parameters are off by %.3e and the corrected device by %.3e (limits %.0e / %.0e)' % (tag, pe, de, lim_p, lim_d), s.lines[:s.i_apply + 1])
            continue
        if o[-1] != 'ok live=0':
            chk.violation('leak', '%s: allocations remain: %s' % (tag, o[-1]), s.lines)
            continue
        chk.count('recovered_' + s.kind)
        chk.distinct.add((s.kind, s.typ, s.form, s.nf, getattr(s, 'merr', False), pos))
    chk.extra['worst_error'] = {k: float('%.3e' % v) for k, v in worst.items()}
    tolerances_and_limits(chk, exe, rng, broken, 2 if quick else 12)
    resolve_histories(chk, exe, rng, 2 if quick else 20)
    chk.rule = ('TRL, SOLR (unknown reciprocal through with unknown reflections), redundant unknown reflect and three connection-repeatability shorts, on the six error-term types '
                'without T16/U16, m and a/b forms, 1..2 frequencies, guesses within 20-30 % / 20 degrees of the truth; tolerance ladder 1e-3 .. 1e-10; iteration limits 1..30; '
                'guesses outside the basin; the same unknown solved again by a second vnacal_new_t on another grid of equal length')
    chk.samples = [[l[:100] for l in scs[1].lines[2:8]]]
    if broken and not chk.violations:
        chk.violation('obligation', 'proof/correspondence obligations that no longer check:\n' + '\n'.join(broken[:30]), nofail=True)


def resolve_histories(chk, exe, rng, reps):
    """the same unknown parameter solved a second time, by another vnacal_new_t of the same vnacal_t on a *different* frequency grid
    of the same length: its value is the newly solved one on the new grid (and frequencies of the old grid outside the new are refused)"""
    for _ in range(reps):
        for typ in ('T8', 'U8', 'TE10', 'E12'):
            nf = rng.choice([2, 3])
            A = Sc(rng, typ, 1, 1, nf, form='m').begin()
            for code in (calsim.SHORT, calsim.OPEN, calsim.MATCH):
                A.add_reflect(1, code)
            gA = [complex(rng.uniform(-0.5, 0.5), rng.uniform(-0.5, 0.5)) for _ in range(nf)]
            u = A.unknown(guess_near(rng, gA[0], 0.05), gA)
            SA = [calsim.embed(1, [0], [[gA[f]]], A.others) for f in range(nf)]
            A.lines.append('cal add %d single_reflect %s %d %d' % (A.n, A.mtext(A.meas(SA)), u, 1))
            A.solve()
            iA = []
            for f in range(nf):
                A.lines.append('cal get_parameter_value %d %d %s' % (A.c, u, vlib.d2h(A.fvec[f])))
                iA.append(len(A.lines) - 1)
            # the second grid: another band or the same band, with the same, a smaller or a larger number of points
            k = rng.choice([0.1, 1.0, 1.0, 3.0, 10.0])
            nfB = rng.choice([nf, nf, max(1, nf - 1), 1, nf + 1])
            if k == 1.0 and nfB == nf:
                nfB = nf - 1
            B = Sc(rng, typ, 1, 1, nfB, form='m', slot_c=0, slot_n=1, fvec=[1e9 * (1 + 0.25 * i) * k for i in range(nfB)]).begin(create=False)
            for code in (calsim.SHORT, calsim.OPEN, calsim.MATCH):
                B.add_reflect(1, code)
            gB = [gA[f % nf] + complex(rng.uniform(-0.1, 0.1), rng.uniform(-0.1, 0.1)) for f in range(nfB)]
            SB = [calsim.embed(1, [0], [[gB[f]]], B.others) for f in range(nfB)]
            B.lines.append('cal add %d single_reflect %s %d %d' % (B.n, B.mtext(B.meas(SB)), u, 1))
            B.solve()
            lines = A.lines + B.lines
            iB = []
            for f in range(nfB):
                lines.append('cal get_parameter_value %d %d %s' % (A.c, u, vlib.d2h(B.fvec[f])))
                iB.append(len(lines) - 1)
            # frequencies of the first grid that lie outside the second (beyond the 1 % slack) must be refused now
            outside = [f for f in A.fvec if f < B.fvec[0] * 0.98 or f > B.fvec[-1] * 1.02]
            iouts = []
            for f in outside:
                lines.append('cal get_parameter_value %d %d %s' % (A.c, u, vlib.d2h(f)))
                iouts.append(len(lines) - 1)
            iout = iouts[0] if iouts else len(lines)
            lines += ['cal free 0', 'cal live']
            out, rc, err = vlib.run_lines(exe, lines, timeout=300)
            chk.evaluations += 1
            tag = 're-solve %s nf=%d then nf=%d grid x%g' % (typ, nf, nfB, k)
            if rc != 0 or len(out) != len(lines):
                chk.violation('sanitizer-resolve', '%s: crashed / sanitizer report:\n%s' % (tag, err[-1200:]), lines[:len(out) + 1])
                return
            bad = [(l, x) for l, x in zip(lines[:iout], out) if not x.startswith('ok')]
            if bad:
                chk.violation('resolve-step', '%s: `%s` -> %s' % (tag, bad[0][0][:80], bad[0][1][:100]), lines[:lines.index(bad[0][0]) + 1])
                return
            for idx, truth, which in ((iA, gA, 'first'), (iB, gB, 'second')):
                for f, i in enumerate(idx):
                    v = vlib.hs2c(out[i].split()[-2:])[0]
                    if not abs(v - truth[f]) <= 1e-4:
                        chk.violation('resolve-value', '%s: value of the unknown after the %s solve at frequency %d is %r, solved truth %r' % (tag, which, f, v, truth[f]), lines[:i + 1])
                        return
            stale = [i for i in iouts if out[i].startswith('ok')]
            if stale:
                chk.violation('resolve-range', '%s: a frequency of the first grid outside the second is still answered after the second solve: %s' % (tag, out[stale[0]][:80]), lines[:stale[0] + 1])
                return
            if out[-1] != 'ok live=0':
                chk.violation('resolve-leak', '%s: allocations remain: %s' % (tag, out[-1]), lines)
                return
            chk.count('resolve_ok')
            chk.distinct.add(('resolve', typ, nf, nfB, k))


def tolerances_and_limits(chk, exe, rng, broken, reps):
    for _ in range(reps):
        for kind, typ in (('trl', 'T8'), ('solr', 'U8'), ('trl', 'TE10'), ('extra1', 'E12')):
            seed = rng.randrange(1 << 30)
            # tolerance ladder on the very same problem
            errs = []
            for tol in (1e-3, 1e-5, 1e-7, 1e-10):
                sc = build(random.Random(seed), kind, typ, 1, 'm', ptol=tol, etol=tol)
                o, rc, err = vlib.run_lines(exe, sc.lines, timeout=120)
                chk.evaluations += 1
                if rc != 0 or len(o) != len(sc.lines):
                    chk.violation('tolerance-crash', '%s %s with tolerances %.0e: crash or no return:\n%s' % (kind, typ, tol, err[-800:]), sc.lines)
                    return
                e = errors(sc, o)
                errs.append((tol, e, sc))
            for (tol, e, sc) in errs:
                if e is None:
                    chk.violation('tolerance-fail', '%s %s: solve fails with tolerances %.0e although it succeeds with others' % (kind, typ, tol), sc.lines[:sc.i_solve + 1])
                    return
                if max(e) > 300 * tol + 1e-9:
                    chk.violation('tolerance-bound', '%s %s: with tolerances %.0e the result is off by %.3e / %.3e' % (kind, typ, tol, e[0], e[1]), sc.lines[:sc.i_apply + 1])
                    return
            for (t1, e1, _), (t2, e2, sc2) in zip(errs, errs[1:]):
                if max(e2) > max(e1) * 1.5 + 100 * t2 + 1e-10:
                    chk.violation('tolerance-monotone', '%s %s: tightening the tolerances from %.0e to %.0e made the result worse: %.3e -> %.3e' % (kind, typ, t1, t2, max(e1), max(e2)), sc2.lines[:sc2.i_apply + 1])
                    return
            chk.count('tolerance_ladder_ok')
            # the two tolerances are two settings: a tight parameter tolerance holds whatever the error-term tolerance is and in whichever
            # order the two calls are made
            loose = rng.choice([1e-1, 1e-2, 1e-3])
            two = []
            for et_first in (False, True):
                sc = build(random.Random(seed), kind, typ, 1, 'm', ptol=1e-10, etol=loose, et_first=et_first)
                o, rc, err = vlib.run_lines(exe, sc.lines, timeout=120)
                chk.evaluations += 1
                if rc != 0 or len(o) != len(sc.lines):
                    chk.violation('tolerance-crash', '%s %s with tolerances 1e-10 / %.0e: crash or no return:\n%s' % (kind, typ, loose, err[-800:]), sc.lines)
                    return
                e = errors(sc, o)
                order = 'error-term tolerance %.0e first, parameter tolerance 1e-10 second' % loose if et_first else 'parameter tolerance 1e-10 first, error-term tolerance %.0e second' % loose
                if e is None:
                    chk.violation('tolerance-order-fail', '%s %s: solve fails with %s although it succeeds with both at 1e-10' % (kind, typ, order), sc.lines[:sc.i_solve + 1])
                    return
                if max(e) > 300 * 1e-10 + 1e-9:
                    chk.violation('tolerance-order', '%s %s: %s: the result is off by %.3e / %.3e (with both at 1e-10: %.3e)' % (kind, typ, order, e[0], e[1], max(errs[-1][1])), sc.lines[:sc.i_apply + 1])
                    return
                two.append([o[i] for idx in sc.i_vals.values() for i in idx] + [o[sc.i_apply]])
            # the mirror: "both tolerances must be met" (vnacal_new(3)) — a tight error-term tolerance holds whatever the parameter
            # tolerance is: the corrected device is right to a small multiple of it
            if kind != 'trl' or typ not in ('T8', 'U8', 'TE10', 'UE10'):
                for lp in (1e-2, 1e-3):
                    sc = build(random.Random(seed), kind, typ, 1, 'm', ptol=lp, etol=1e-11, et_first=rng.random() < 0.5)
                    o, rc, err = vlib.run_lines(exe, sc.lines, timeout=120)
                    chk.evaluations += 1
                    if rc != 0 or len(o) != len(sc.lines):
                        chk.violation('tolerance-crash', '%s %s with tolerances %.0e / 1e-11: crash or no return:\n%s' % (kind, typ, lp, err[-800:]), sc.lines)
                        return
                    e = errors(sc, o)
                    if e is None:
                        chk.count('tolerance_et_unsolved')
                        continue
                    if e[1] > 3e-8:
                        # (a recorded finding, see known_findings.json: the stage goes on)
                        chk.violation('tolerance-et', 'the error-term tolerance is not tested by the iterated solve: %s %s, parameter tolerance %.0e, error-term tolerance 1e-11: the corrected device is off by %.3e (parameters by %.3e; with both at 1e-10: %.3e)' % (
                            kind, typ, lp, e[1], e[0], max(errs[-1][1])), sc.lines[:sc.i_apply + 1])
                        chk.count('tolerance_et_not_met')
                        break
                    chk.count('tolerance_et_ok')
            if two[0] != two[1]:
                chk.violation('tolerance-commute', '%s %s: setting the two tolerances (1e-10, %.0e) in the other order changes the result' % (kind, typ, loose), sc.lines[:sc.i_apply + 1])
                return
            chk.count('tolerance_order_ok')
            # iteration limit: least limit that succeeds; same bits above it; EDOM below it  (model: Iter.loop)
            res = []
            for lim in list(range(1, 12)) + [20, 30]:
                sc = build(random.Random(seed), kind, typ, 1, 'm', limit=lim)
                o, rc, err = vlib.run_lines(exe, sc.lines, timeout=120)
                chk.evaluations += 1
                if rc != 0 or len(o) != len(sc.lines):
                    chk.violation('limit-crash', '%s %s with iteration limit %d: crash or no return:\n%s' % (kind, typ, lim, err[-800:]), sc.lines)
                    return
                ok = o[sc.i_solve].startswith('ok')
                if not ok and 'EDOM' not in o[sc.i_solve]:
                    chk.violation('limit-errno', '%s %s with iteration limit %d: failed with %s instead of EDOM' % (kind, typ, lim, o[sc.i_solve][:40]), sc.lines[:sc.i_solve + 1])
                    return
                res.append((lim, ok, [o[i] for idx in sc.i_vals.values() for i in idx] + [o[sc.i_apply]], sc))
            firsts = [lim for lim, ok, _, _ in res if ok]
            if not firsts:
                chk.count('limit_never_converges')
                continue
            L0 = firsts[0]
            ref = [r for r in res if r[0] == L0][0][2]
            # the model's verdict for every limit, given the first passing iterate read off the least successful limit
            mo, mrc, merr = vlib.run_lines(vlib.model_exe(), ['iter %d %d' % (L0, lim) for lim, _, _, _ in res])
            if mrc != 0 or len(mo) != len(res):
                broken.append('model driver failed: %s' % merr[-200:])
            else:
                for (lim, ok, _, _), m in zip(res, mo):
                    if lim >= 2 and (m.split()[1] == 'converged') != ok:
                        broken.append('correspondence: iteration limit %d: C %s, model %s (first success at limit %d, %s %s)' % (lim, 'converges' if ok else 'fails', m, L0, kind, typ))
                    else:
                        chk.count('iter_model_same')
            for lim, ok, vals, sc in res:
                if lim < L0 and ok:
                    broken.append('correspondence: iteration limit %d converges but limit %d does not (%s %s)' % (lim, L0, kind, typ))
                if lim >= L0 and (not ok or vals != ref):
                    chk.violation('limit-monotone', '%s %s: converges with iteration limit %d, but with limit %d it %s' % (
                        kind, typ, L0, lim, 'fails' if not ok else 'returns different values'), sc.lines[:sc.i_apply + 1])
                    return
            chk.count('limit_ladder_ok')
            chk.distinct.add(('limit', kind, typ, seed))
            # outside the basin: must return
            sc = build(random.Random(seed), kind, typ, 1, 'm', bad=True)
            o, rc, err = vlib.run_lines(exe, sc.lines, timeout=120)
            chk.evaluations += 1
            if rc != 0 or len(o) != len(sc.lines):
                chk.violation('bad-guess', '%s %s with a guess far from the truth: crash or no return:\n%s' % (kind, typ, err[-800:]), sc.lines)
                return
            if not o[sc.i_solve].startswith('ok') and 'EDOM' not in o[sc.i_solve]:
                chk.violation('bad-guess-errno', '%s %s with a guess far from the truth: failed with %s instead of EDOM' % (kind, typ, o[sc.i_solve][:40]), sc.lines[:sc.i_solve + 1])
                return
            chk.count('bad_guess_' + ('converged_elsewhere' if o[sc.i_solve].startswith('ok') else 'edom'))


def replay(chk, path):
    from props import c01
    return c01.replay(chk, path)
