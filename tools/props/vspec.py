"""Abstract array model of vnadata_t (the C15 oracle): plain Python lists, no allocations.
It states what the manual promises, independently of both the C and the Lean concrete model."""
import vlib

Z = '0000000000000000'
ZERO = Z + ' ' + Z
Z50 = '4049000000000000 ' + Z


def validate_type(t, r, c):
    if t == 0:
        return True
    if t in (1, 4, 5):
        return r == c
    if t in (2, 3, 6, 7, 8, 9):
        return r == 2 and c == 2
    if t == 10:
        return r == 1
    return False


class VSpec:
    def __init__(self):
        self.type = 0
        self.rows = self.cols = 0
        self.fvec = []            # hex words
        self.data = []            # per frequency: flat list of "re im"
        self.perF = False
        self.z0 = []              # ordinary
        self.fz0 = []             # per frequency
        self.ft, self.fp, self.dp = 0, 7, 6

    @property
    def freqs(self):
        return len(self.fvec)

    @property
    def ports(self):
        return max(self.rows, self.cols)

    @property
    def cells(self):
        return self.rows * self.cols

    OK = 'ok cb=0/0'
    FAIL = 'fail EINVAL cb=1/0'

    def resize(self, t, r, c, n):
        if r < 0 or c < 0 or n < 0 or not validate_type(t, r, c):
            return self.FAIL
        cells, ports = r * c, max(r, c)

        def fit(xs, k, d):
            return (xs + [d] * k)[:k]
        self.data = [fit(row, cells, ZERO) for row in fit(self.data, n, [])]
        self.fvec = fit(self.fvec, n, Z)
        if self.perF:
            self.fz0 = [fit(row, ports, Z50) for row in fit(self.fz0, n, [])]
        else:
            self.z0 = fit(self.z0, ports, Z50)
        self.type, self.rows, self.cols = t, r, c
        return self.OK

    def init(self, t, r, c, n):
        # arguments are checked before anything is reset (a refused call leaves the object unchanged)
        if r < 0 or c < 0 or n < 0 or not validate_type(t, r, c):
            return self.FAIL
        self.resize(0, 0, 0, 0)
        self.perF = False
        self.z0, self.fz0 = [], []
        return self.resize(t, r, c, n)

    def set_type(self, t):
        if not validate_type(t, self.rows, self.cols):
            return self.FAIL
        self.type = t
        return self.OK

    def add_frequency(self, xhex):
        if vlib.h2d(xhex) < 0.0:
            return self.FAIL
        self.fvec.append(xhex)
        self.data.append([ZERO] * self.cells)
        if self.perF:
            self.fz0.append([Z50] * self.ports)
        return self.OK

    def _in(self, i, n):
        return 0 <= i < n

    def to_z0(self):
        if self.perF:
            self.perF = False
            self.z0 = [Z50] * self.ports
            self.fz0 = []

    def to_fz0(self):
        if not self.perF:
            self.perF = True
            self.fz0 = [list(self.z0) for _ in range(self.freqs)]
            self.z0 = []

    def digest(self):
        fs = ''.join(' ' + x for x in self.fvec)
        ds = ''.join(' ' + x for row in self.data for x in row)
        zs = ''.join(' ' + x for row in self.fz0 for x in row) if self.perF else ''.join(' ' + x for x in self.z0)
        return 'ok type=%d rows=%d cols=%d freqs=%d fz0=%d ft=%d fp=%d dp=%d F%s D%s Z%s' % (
            self.type, self.rows, self.cols, self.freqs, int(self.perF), self.ft, self.fp, self.dp, fs, ds, zs)

    def apply(self, op, a):
        """a: list of string tokens as on the protocol line; returns expected output line"""
        I = lambda k: int(a[k])
        C = lambda k: a[k] + ' ' + a[k + 1]
        vals = lambda k: [a[i] + ' ' + a[i + 1] for i in range(k, len(a) - 1, 2)]
        OK, FAIL = self.OK, self.FAIL
        if op == 'init':
            return self.init(I(0), I(1), I(2), I(3))
        if op == 'resize':
            return self.resize(I(0), I(1), I(2), I(3))
        if op == 'set_type':
            return self.set_type(I(0))
        if op == 'add_frequency':
            return self.add_frequency(a[0])
        if op == 'get_frequency':
            return OK + ' ' + self.fvec[I(0)] if self._in(I(0), self.freqs) else FAIL
        if op == 'get_fmin':
            return OK + ' ' + self.fvec[0] if self.freqs else FAIL
        if op == 'get_fmax':
            return OK + ' ' + self.fvec[-1] if self.freqs else FAIL
        if op == 'set_frequency':
            if not self._in(I(0), self.freqs):
                return FAIL
            self.fvec[I(0)] = a[1]
            return OK
        if op == 'set_frequency_vector':
            self.fvec = list(a)
            return OK
        if op == 'get_cell':
            f, r, c = I(0), I(1), I(2)
            if not (self._in(f, self.freqs) and self._in(r, self.rows) and self._in(c, self.cols)):
                return FAIL
            return OK + ' ' + self.data[f][r * self.cols + c]
        if op == 'set_cell':
            f, r, c = I(0), I(1), I(2)
            if not (self._in(f, self.freqs) and self._in(r, self.rows) and self._in(c, self.cols)):
                return FAIL
            self.data[f][r * self.cols + c] = C(3)
            return OK
        if op == 'get_matrix':
            if not self._in(I(0), self.freqs):
                return FAIL
            return OK + ''.join(' ' + x for x in self.data[I(0)])
        if op == 'set_matrix':
            if not self._in(I(0), self.freqs):
                return FAIL
            self.data[I(0)] = vals(1)
            return OK
        if op == 'get_to_vector':
            r, c = I(0), I(1)
            if not (self._in(r, self.rows) and self._in(c, self.cols)):
                return FAIL
            return OK + ''.join(' ' + self.data[f][r * self.cols + c] for f in range(self.freqs))
        if op == 'set_from_vector':
            r, c = I(0), I(1)
            if not (self._in(r, self.rows) and self._in(c, self.cols)):
                return FAIL
            for f, v in enumerate(vals(2)):
                self.data[f][r * self.cols + c] = v
            return OK
        if op == 'get_z0':
            if not self._in(I(0), self.ports) or self.perF:
                return FAIL
            return OK + ' ' + self.z0[I(0)]
        if op == 'set_z0':
            if not self._in(I(0), self.ports):
                return FAIL
            self.to_z0()
            self.z0[I(0)] = C(1)
            return OK
        if op == 'set_all_z0':
            self.to_z0()
            self.z0 = [C(0)] * self.ports
            return OK
        if op == 'get_z0_vector':
            if self.perF:
                return FAIL
            return OK + ''.join(' ' + x for x in self.z0)
        if op == 'set_z0_vector':
            self.to_z0()
            self.z0 = vals(0)
            return OK
        if op == 'set_z0_vector_own':
            g = I(0)
            if not self._in(g, self.freqs):
                raise IndexError
            src = list(self.fz0[g] if self.perF else self.z0)
            self.to_z0()
            self.z0 = src
            return OK
        if op == 'set_fz0_vector_own':
            f, g = I(0), I(1)
            if g < -1 or g >= self.freqs or (g == -1 and self.perF):
                raise IndexError
            src = list(self.z0 if (g == -1 or not self.perF) else self.fz0[g])
            if not self._in(f, self.freqs):
                return FAIL
            self.to_fz0()
            self.fz0[f] = src
            return OK
        if op == 'has_fz0':
            return OK + ' %d' % int(self.perF)
        if op == 'get_fz0':
            f, p = I(0), I(1)
            if not (self._in(f, self.freqs) and self._in(p, self.ports)):
                return FAIL
            return OK + ' ' + (self.fz0[f][p] if self.perF else self.z0[p])
        if op == 'set_fz0':
            f, p = I(0), I(1)
            if not (self._in(f, self.freqs) and self._in(p, self.ports)):
                return FAIL
            self.to_fz0()
            self.fz0[f][p] = C(2)
            return OK
        if op == 'get_fz0_vector':
            if not self._in(I(0), self.freqs):
                return FAIL
            return OK + ''.join(' ' + x for x in (self.fz0[I(0)] if self.perF else self.z0))
        if op == 'set_fz0_vector':
            if not self._in(I(0), self.freqs):
                return FAIL
            self.to_fz0()
            self.fz0[I(0)] = vals(1)
            return OK
        if op == 'set_filetype':
            if not 0 <= I(0) <= 3:
                return FAIL
            self.ft = I(0)
            return OK
        if op == 'set_fprecision':
            if I(0) < 1 or I(0) > 1000:      # 1 .. VNADATA_MAX_PRECISION
                return FAIL
            self.fp = I(0)
            return OK
        if op == 'set_dprecision':
            if I(0) < 1 or I(0) > 1000:
                return FAIL
            self.dp = I(0)
            return OK
        if op == 'digest':
            return self.digest()
        raise KeyError(op)
