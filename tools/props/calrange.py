"""range checks at the call sites (C10): a >= 5 % shortfall at the low end, the high end or both must be
refused, full coverage must be accepted"""
import vlib
from props import calsim


def fv(xs):
    return ' '.join(vlib.d2h(x) for x in xs)


def run_ranges(chk, exe, rng, broken):
    lines, expect = [], []     # expect: (kind, should_accept, description)
    for rep in range(6 if chk.tier == 'quick' else 80):
        fmin = rng.uniform(1e8, 2e9)
        fmax = fmin * rng.uniform(1.5, 6)
        nf = rng.randint(2, 5)
        cf = [fmin + (fmax - fmin) * i / (nf - 1) for i in range(nf)]
        sc = calsim.Scenario(rng, 'T8', 1, 1, nf, fvec=cf).begin()
        cases = [('cover', cf[0], cf[-1], True), ('wider', cf[0] * 0.5, cf[-1] * 2, True),
                 ('low-short', cf[0] * 1.06 + 0, cf[-1], False), ('high-short', cf[0], cf[-1] * 0.94, False),
                 ('both-short', cf[0] * 1.07, cf[-1] * 0.93, False), ('high-half', cf[0], cf[0] + 0.4 * (cf[-1] - cf[0]), False)]
        L = sc.lines
        base = len(lines)
        handle = 3
        pre = []
        for (name, lo, hi, acc) in cases:
            k = rng.randint(2, 4)
            pf = [lo + (hi - lo) * i / (k - 1) for i in range(k)]
            g = [calsim.rc(rng, 0.3) for _ in range(k)]
            pre.append('cal make_vector 0 %d %s %s' % (k, fv(pf), ' '.join(vlib.c2h(x) for x in g)))
        lines += L + pre
        expect += [None] * (len(L) + len(pre))
        M = [sc.box.measure([[0.1]], f) for f in range(nf)]
        for i, (name, lo, hi, acc) in enumerate(cases):
            # 1. a standard whose parameter does not cover the calibration range
            lines.append('cal add %d single_reflect %s %d 1' % (sc.n, sc.mtext(M), 3 + i))
            expect.append(('standard-' + name, acc, 'vector standard %.3e..%.3e in a %.3e..%.3e calibration' % (lo, hi, cf[0], cf[-1])))
            # 4. vnacal_get_parameter_value inside / outside the parameter's own range
            lines.append('cal get_parameter_value 0 %d %s' % (3 + i, vlib.d2h(lo + 0.5 * (hi - lo))))
            expect.append(('value-inside', True, 'parameter value inside its range'))
            lines.append('cal get_parameter_value 0 %d %s' % (3 + i, vlib.d2h(hi * 1.06)))
            expect.append(('value-above', False, 'parameter value 6 % above its range'))
            lines.append('cal get_parameter_value 0 %d %s' % (3 + i, vlib.d2h(lo * 0.94)))
            expect.append(('value-below', False, 'parameter value 6 % below its range'))
            # 2. measurement-error vectors on their own grid
            k = rng.randint(2, 4)
            ef = [lo + (hi - lo) * j / (k - 1) for j in range(k)]
            lines.append('cal new_set_m_error %d %d F %s S %s N' % (sc.n, k, fv(ef), fv([1e-4] * k)))
            expect.append(('m_error-' + name, acc, 'noise grid %.3e..%.3e in a %.3e..%.3e calibration' % (lo, hi, cf[0], cf[-1])))
        lines.append('cal new_set_m_error %d 1 N N N' % sc.n)
        expect.append(None)
        # 3. apply outside the calibration range
        sc2 = calsim.Scenario(rng, 'T8', 1, 1, nf, fvec=cf, slot_n=1, box=sc.box)
        sc2.others = sc.others
        sc2.begin(create=False).solt().solve().add_calibration()
        lines += sc2.lines
        expect += [None] * len(sc2.lines)
        for (name, lo, hi, acc) in (('inside', cf[0], cf[-1], True), ('low', cf[0] * 0.94, cf[-1], False), ('high', cf[0], cf[-1] * 1.06, False),
                                     ('both', cf[0] * 0.9, cf[-1] * 1.1, False), ('interior', cf[0] * 1.01 if nf else 0, cf[-1] * 0.99, True)):
            af = [lo, hi] if lo < hi else [lo]
            Mf = [[[0.3 + 0j]], [[0.2 + 0j]]][:len(af)]
            import numpy as np
            lines.append('cal apply 0 0 m %d %s %s' % (len(af), fv(af), calsim.cells([np.array(m) for m in Mf])))
            expect.append(('apply-' + name, acc, 'apply at %.3e..%.3e with a %.3e..%.3e calibration' % (lo, hi, cf[0], cf[-1])))
        lines += ['cal free 0']
        expect.append(None)
    # 5. standards first, frequency vector afterwards: vnacal_new_set_frequency_vector has to check every parameter the
    #    vnacal_new_t already refers to, wherever its handle sits among the other parameters
    for rep in range(12 if chk.tier == 'quick' else 200):
        fmin = rng.uniform(1e8, 2e9)
        fmax = fmin * rng.uniform(1.5, 6)
        nf = rng.randint(2, 4)
        cf = [fmin + (fmax - fmin) * i / (nf - 1) for i in range(nf)]
        L = ['cal create 0', 'cal new_alloc 0 0 0 1 1 %d' % nf]
        nextra = rng.choice([0, 0, 1, 2, 3, 5, 9])
        for _ in range(nextra):
            L.append('cal make_scalar 0 %s' % vlib.c2h(calsim.rc(rng, 0.4)))
        name, lo, hi, acc = rng.choice([('cover', cf[0], cf[-1], True), ('wider', cf[0] * 0.5, cf[-1] * 2, True), ('low-short', cf[0] * 1.06, cf[-1], False),
                                        ('high-short', cf[0], cf[-1] * 0.94, False), ('both-short', cf[0] * 1.2, cf[-1] * 0.8, False)])
        k = rng.randint(2, 4)
        pf = [lo + (hi - lo) * i / (k - 1) for i in range(k)]
        L.append('cal make_vector 0 %d %s %s' % (k, fv(pf), ' '.join(vlib.c2h(calsim.rc(rng, 0.3)) for _ in range(k))))
        hv = 3 + nextra
        M1 = 'm %d 1 1 %s' % (nf, ' '.join(vlib.c2h(calsim.rc(rng, 0.5)) for _ in range(nf)))
        before = rng.sample([1, 2, 0] + list(range(3, 3 + nextra)), rng.randint(0, min(3 + nextra, 4)))
        for hdl in before:
            L.append('cal add 0 single_reflect %s %d 1' % (M1, hdl))
        L.append('cal add 0 single_reflect %s %d 1' % (M1, hv))
        lines += L
        expect += [None] * 2 + [('late-setup', True, 'set-up step of the late-frequency scenario')] * (len(L) - 2)
        lines.append('cal new_set_frequency_vector 0 %s' % fv(cf))
        expect.append(('late-frequencies-' + name, acc, 'vector standard %.3e..%.3e (handle %d, %d other standards before it) when the %.3e..%.3e '
                       'calibration frequencies are set afterwards' % (lo, hi, hv, len(before), cf[0], cf[-1])))
        lines.append('cal free 0')
        expect.append(None)
    # 6. correlated parameters: the sigma vector has a frequency grid of its own, whatever the parameter it is correlated with is
    #    (a predefined or scalar one has no range of its own, a vector one has); in either call order
    for rep in range(8 if chk.tier == 'quick' else 120):
        fmin = rng.uniform(1e8, 2e9)
        fmax = fmin * rng.uniform(1.5, 6)
        nf = rng.randint(2, 4)
        cf = [fmin + (fmax - fmin) * i / (nf - 1) for i in range(nf)]
        name, lo, hi, acc = rng.choice([('cover', cf[0], cf[-1], True), ('wider', cf[0] * 0.5, cf[-1] * 2, True), ('low-short', cf[0] * 1.06, cf[-1], False),
                                        ('high-short', cf[0], cf[-1] * 0.94, False), ('both-short', cf[0] * 1.2, cf[-1] * 0.8, False)])
        base_kind = rng.choice(['predefined', 'scalar', 'vector'])
        late = rng.random() < 0.5
        L = ['cal create 0', 'cal new_alloc 0 0 0 1 1 %d' % nf]
        if not late:
            L.append('cal new_set_frequency_vector 0 %s' % fv(cf))
        nxt = 3
        if base_kind == 'predefined':
            base = rng.choice([0, 1, 2])
        elif base_kind == 'scalar':
            L.append('cal make_scalar 0 %s' % vlib.c2h(calsim.rc(rng, 0.4) + 0.3))
            base, nxt = nxt, nxt + 1
        else:
            pf = [cf[0] * 0.4, cf[0], cf[-1], cf[-1] * 2.5]
            L.append('cal make_vector 0 4 %s %s' % (fv(pf), ' '.join(vlib.c2h(calsim.rc(rng, 0.3)) for _ in pf)))
            base, nxt = nxt, nxt + 1
        k = rng.randint(2, 4)
        sf = [lo + (hi - lo) * i / (k - 1) for i in range(k)]
        L.append('cal make_correlated 0 %d %d F %s %s' % (base, k, fv(sf), fv([1e-3] * k)))
        hc = nxt
        M1 = 'm %d 1 1 %s' % (nf, ' '.join(vlib.c2h(calsim.rc(rng, 0.5)) for _ in range(nf)))
        lines += L
        expect += [None] * 2 + [('corr-setup', True, 'set-up step of the correlated-parameter scenario')] * (len(L) - 2)
        desc = 'correlated parameter (sigma grid %.3e..%.3e, correlated with a %s parameter) in a %.3e..%.3e calibration, %s' % (
            lo, hi, base_kind, cf[0], cf[-1], 'frequencies set afterwards' if late else 'frequencies set first')
        lines.append('cal add 0 single_reflect %s %d 1' % (M1, hc))
        expect.append(('corr-setup', True, 'adding before the frequencies are known') if late else ('correlated-' + name, acc, desc))
        if late:
            lines.append('cal new_set_frequency_vector 0 %s' % fv(cf))
            expect.append(('correlated-late-' + name, acc, desc))
        lines.append('cal free 0')
        expect.append(None)
    # 7. the calibration frequencies set again after standards were added: the new band is checked against every parameter in use, as
    #    the first one was (a second, third call is as much a call as the first)
    for rep in range(10 if chk.tier == 'quick' else 150):
        lo = rng.uniform(1e8, 2e9)
        hi = lo * rng.uniform(2, 6)
        nf = rng.randint(2, 4)
        k = rng.randint(2, 4)
        pf = [lo + (hi - lo) * i / (k - 1) for i in range(k)]

        def band(a, b):
            return [a + (b - a) * i / (nf - 1) for i in range(nf)]
        first = band(lo * rng.uniform(1.0, 1.2), hi * rng.uniform(0.8, 1.0))
        L = ['cal create 0', 'cal new_alloc 0 0 0 1 1 %d' % nf, 'cal new_set_frequency_vector 0 %s' % fv(first)]
        corr = rng.random() < 0.3
        if corr:
            L.append('cal make_correlated 0 %d %d F %s %s' % (rng.choice([0, 1, 2]), k, fv(pf), fv([1e-3] * k)))
        else:
            L.append('cal make_vector 0 %d %s %s' % (k, fv(pf), ' '.join(vlib.c2h(calsim.rc(rng, 0.3)) for _ in range(k))))
        M1 = 'm %d 1 1 %s' % (nf, ' '.join(vlib.c2h(calsim.rc(rng, 0.5)) for _ in range(nf)))
        L.append('cal add 0 single_reflect %s 3 1' % M1)
        lines += L
        expect += [None] * 2 + [('again-setup', True, 'set-up step of the repeated-frequencies scenario')] * (len(L) - 2)
        for step in range(rng.randint(1, 3)):
            name, a, b, acc = rng.choice([('inside', lo * 1.1, hi * 0.9, True), ('equal', lo, hi, True), ('low-out', lo * 0.8, hi, False),
                                          ('high-out', lo, hi * 1.3, False), ('both-out', lo * 0.9, hi * 1.1, False), ('far', hi * 2, hi * 4, False)])
            lines.append('cal new_set_frequency_vector 0 %s' % fv(band(a, b)))
            expect.append(('again-' + name, acc, '%s standard known over %.3e..%.3e, calibration frequencies set again (call %d) to %.3e..%.3e' % (
                'correlated' if corr else 'vector', lo, hi, step + 2, a, b)))
        lines.append('cal free 0')
        expect.append(None)
    out, rc, err = vlib.run_lines(exe, lines)
    if rc != 0 or len(out) != len(lines):
        chk.violation('sanitizer-range', 'library crashed in the range-check scenarios: ' + err[-1200:], lines[max(0, len(out) - 8):len(out) + 1])
        return
    for l, o, e in zip(lines, out, expect):
        if e is None:
            continue
        kind, acc, desc = e
        chk.evaluations += 1
        ok = o.startswith('ok')
        if ok != acc:
            chk.violation('range-' + kind, '%s was %s (%s)' % (desc, 'accepted and would be extrapolated' if ok else 'refused although the range is covered', o[:60]),
                          [x for x in lines[:lines.index(l) + 1] if x.startswith('cal create') or x.startswith('cal new_') or x.startswith('cal make') or x.startswith('cal add') or x == l][-14:])
        else:
            chk.count('range_' + kind.split('-')[0] + ('_accepted' if acc else '_refused'))
            chk.distinct.add(l[:50])
