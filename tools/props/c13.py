"""C13 — the property tree behaves like a map/list/scalar document model.

Proof side : Libvna.Props.C13 (document-model theorems on Model/PropTree.lean, descriptor scanner/quote_key).
Tie        : hand model + correspondence run (C vs Lean model, line by line).
Oracle     : tools/props/pspec.py, an abstract document written from vnaproperty(3); the C's observable tree
             (type/count/keys/get/get_subtree walked through the public API) must equal it after every operation.
"""
import os, random, itertools
import vlib
from props import pspec, c15

THEOREMS = ['Libvna.PT.' + t for t in (
    'alookup_aset_same', 'alookup_aset_other', 'akeys_aset', 'akeys_nodup_aset', 'alookup_aerase_same', 'alookup_aerase_other', 'akeys_aerase',
    'getPath_update', 'set_get', 'set_frame_map', 'set_frame_list', 'ins_shifts', 'app_appends', 'delete_map_key', 'delete_list_shift',
    'delete_dot_nulls', 'refused_unchanged', 'scanKeyChars_quoteRest', 'scanKey_quoteKey', 'parse_quoteKey', 'quote_key_addresses_key')]
USE_MODEL = True
FILES = ['Model/PropTree.lean', 'Props/C13.lean', 'Driver/PropDrv.lean']

KEYS = [b'a', b'b', b'key', b'two words', b'x-1', b'_u', b'my.key', b'sp  ', b'[0]', b'a=b', b'q\\r', b'\xc3\xa9t\xc3\xa9', b'{}', b'7up', b'h#sh', b' lead']
VALUES = [b'v', b'', b'hello world', b' lead', b'a=b', b'#x', b'~', b'null', b'line1\nline2', b'3.14', b'\xe2\x82\xac', b'tab\there']


def rand_path(rng, depth=None):
    """descriptor text (bytes) of a random path; uses quote_key for keys"""
    parts = []
    n = rng.randint(1, 3) if depth is None else depth
    for j in range(n):
        r = rng.random()
        if r < 0.6:
            k = rng.choice(KEYS)
            q = pspec.quote_key(k)
            parts.append((b'.' if parts else (b'.' if rng.random() < 0.2 else b'')) + q)
        elif r < 0.85:
            parts.append(b'[%d]' % rng.randint(0, 3))
        elif r < 0.93:
            parts.append(b'[%d+]' % rng.randint(0, 3))
        else:
            parts.append(b'[+]')
    return b''.join(parts)


def gen_history(rng, length, nreg=2):
    lines = []
    for _ in range(length):
        r = rng.randrange(nreg)
        x = rng.random()
        if x < 0.30:
            d = rand_path(rng) + rng.choice([b'=', b' = ', b'=']) .strip(b' ') + rng.choice(VALUES) if rng.random() < 0.85 else rand_path(rng) + b'#'
            lines.append('pt %d set %s' % (r, vlib.hexbytes(d)))
        elif x < 0.33:
            raw = rng.choice([b'\\a\\b  =x', b'a\\ b   .c=1', b'k\\.\\.  # ', b'w1 w2   =two', b'\\  \\  =sp', b'a\\=b  =c', b'x\\\\  =bs'])
            lines.append('pt %d set %s' % (r, vlib.hexbytes(raw)))
        elif x < 0.40:
            p = rand_path(rng).replace(b'+]', b']')
            lines.append('pt %d delete %s' % (r, vlib.hexbytes(p + rng.choice([b'', b'', b'.', b'{}', b'[]']))))
        elif x < 0.44:
            lines.append('pt %d delete %s' % (r, vlib.hexbytes(b'.')))
        elif x < 0.75:
            p = rand_path(rng).replace(b'+]', b']') if rng.random() < 0.9 else rand_path(rng)
            tail = rng.choice([b'', b'', b'', b'.', b'{}', b'[]'])
            lines.append('pt %d %s %s' % (r, rng.choice(['type', 'count', 'keys', 'get', 'get', 'get_subtree']), vlib.hexbytes(p + tail)))
        elif x < 0.80:
            lines.append('pt %d set_subtree %s' % (r, vlib.hexbytes(rand_path(rng) + rng.choice([b'', b'{}', b'[]', b'.']))))
        elif x < 0.84:
            lines.append('pt %d copy %d' % (r, rng.randrange(nreg)))
        elif x < 0.90:
            # malformed descriptors
            bad = rng.choice([b'', b'..', b'a..b', b'[', b'[x]', b'a[1', b'{', b'a{x}', b'9a', b'-a', b'a b\\', b'a.[0].', b'a=', b'a#', b'=v', b'[1+', b'a]',
                              b'[4294967296]', b'[4294967297]=x', b'[8589934593]=CLOBBER', b'[4294967296+]=ins', b'[2147483647]=x', b'[2147483648]', b'a[99999999999999999999]',
                              b'a#1=new', b'a# x', b'[0]#=v'])
            lines.append('pt %d %s %s' % (r, rng.choice(['type', 'get', 'set', 'delete', 'count', 'keys', 'get_subtree', 'set_subtree']), vlib.hexbytes(bad)))
        elif x < 0.95:
            lines.append('pt %d quote_key %s' % (r, vlib.hexbytes(rng.choice(KEYS + [bytes(rng.randrange(1, 256) for _ in range(rng.randint(1, 6)))]))))
        else:
            lines.append('pt %d digest' % r)
    for r in range(nreg):
        lines.append('pt %d digest' % r)
    for r in range(nreg):
        lines.append('pt %d free' % r)
    lines.append('pt 0 live')
    return lines


def gen_churn(rng, length):
    """state-aware histories on one map (the root or a nested one): keys are added, the first / the newest / a random *existing* key is
    deleted and keys are added again, with keys/count/get/copy observations in between (insertion order must survive any of it)"""
    base = rng.choice([b'', b'm.', b'l[1].', b'a.b.'])
    pool = [pspec.quote_key(k) for k in rng.sample(KEYS, rng.randint(3, 7))]
    live = []            # keys of the map in insertion order
    lines = []
    for _ in range(length):
        x = rng.random()
        if x < 0.40 or not live:
            k = rng.choice(pool)
            lines.append('pt 0 set %s' % vlib.hexbytes(base + k + b'=' + rng.choice(VALUES)))
            if k not in live:
                live.append(k)
        elif x < 0.70:
            k = rng.choice([live[-1], live[-1], live[0], rng.choice(live)])
            lines.append('pt 0 delete %s' % vlib.hexbytes(base + k))
            live.remove(k)
        elif x < 0.85:
            lines.append('pt 0 %s %s' % (rng.choice(['keys', 'keys', 'count', 'get_subtree']), vlib.hexbytes(base + b'{}' if base else b'{}')))
        elif x < 0.92:
            lines.append('pt 1 copy 0')
            lines.append('pt 1 keys %s' % vlib.hexbytes(base + b'{}' if base else b'{}'))
        else:
            lines.append('pt 0 digest')
    lines += ['pt 0 keys %s' % vlib.hexbytes(base + b'{}' if base else b'{}'), 'pt 0 digest', 'pt 1 digest', 'pt 0 free', 'pt 1 free', 'pt 0 live']
    return lines


def gen_lists(rng, length):
    """state-aware histories on one list (the root or a nested one): appended to every length up to ~40, with inserts in front of an
    existing element (`[k+]`), at the end and far beyond it, deletions, and reads, at every length on the way (growth of the vector
    happens at particular lengths)"""
    base = rng.choice([b'', b'l', b'm.l', b'a[2]'])
    n = 0
    lines = []
    tag = 0
    for _ in range(length):
        x = rng.random()
        tag += 1
        v = b'v%d' % tag
        if x < 0.50 or n == 0:
            lines.append('pt 0 set %s' % vlib.hexbytes(base + b'[+]=' + v))
            n += 1
        elif x < 0.72:
            k = rng.choice([0, n - 1, rng.randrange(n), n // 2])
            lines.append('pt 0 set %s' % vlib.hexbytes(base + b'[%d+]=' % k + v))
            n += 1
        elif x < 0.76:
            k = n + rng.randint(0, 3)
            lines.append('pt 0 set %s' % vlib.hexbytes(base + b'[%d]=' % k + v))
            n = max(n, k + 1)
        elif x < 0.84:
            k = rng.choice([0, n - 1, rng.randrange(n)])
            lines.append('pt 0 delete %s' % vlib.hexbytes(base + b'[%d]' % k))
            n -= 1
        elif x < 0.94:
            lines.append('pt 0 %s %s' % (rng.choice(['count', 'get', 'get_subtree']), vlib.hexbytes(base + rng.choice([b'[]', b'[%d]' % rng.randrange(max(n, 1)), b'[%d]' % max(n - 1, 0)]))))
        else:
            lines.append('pt 1 copy 0')
            lines.append('pt 1 count %s' % vlib.hexbytes(base + b'[]'))
    lines += ['pt 0 count %s' % vlib.hexbytes(base + b'[]'), 'pt 0 digest', 'pt 1 digest', 'pt 0 free', 'pt 1 free', 'pt 0 live']
    return lines


def fmt_res(res):
    st, v = res
    if st == 'fail':
        return 'fail ' + v
    return 'ok'


def expected_for(lines):
    docs = {}
    out = []
    for l in lines:
        w = l.split()
        r, op = int(w[1]), w[2]
        doc = docs.setdefault(r, pspec.Doc())
        try:
            if op == 'digest':
                out.append('ok ' + pspec.walk(doc.root))
            elif op == 'free':
                doc.root = None
                out.append('ok')
            elif op == 'live':
                out.append('ok live=0' if all(d.root is None for d in docs.values()) else 'ok live=?')
            elif op == 'copy':
                src = docs.setdefault(int(w[3]), pspec.Doc())
                doc.root = pspec.deep(src.root)
                out.append('ok 0')
            elif op == 'quote_key':
                k = bytes.fromhex(w[3][1:])
                out.append('ok x' + pspec.quote_key(k).hex())
            else:
                d = bytes.fromhex(w[3][1:])
                st, v = doc.op(op, d)
                if st == 'fail':
                    out.append('fail ' + v)
                elif op == 'type':
                    out.append('ok ' + v)
                elif op == 'count':
                    out.append('ok %d' % v)
                elif op == 'keys':
                    out.append('ok' + ''.join(' x' + k.hex() for k in v))
                elif op == 'get':
                    out.append('ok x' + v.hex())
                elif op == 'get_subtree':
                    out.append('ok ' + pspec.walk(v))
                else:
                    out.append('ok 0')
        except Exception as e:      # the oracle itself must not be the thing that crashes
            out.append('oracle-error %r' % e)
    return out


def compatible(c, e):
    """compare a library line with the oracle's; error class of doubly wrong descriptors may be either"""
    if c == e:
        return True
    if e == 'ok live=?':
        return c.startswith('ok live=')
    if c.startswith('fail') and e.startswith('fail'):
        return {c.split()[1], e.split()[1]} <= {'EINVAL', 'ENOENT'}
    return False


def first_bad(cout, exp):
    for i, (a, b) in enumerate(zip(cout, exp)):
        if not compatible(a, b):
            return i
    return None if len(cout) == len(exp) else min(len(cout), len(exp))


def bounded_exhaustive(depth):
    alpha = [('set', b'a=1'), ('set', b'a.b=2'), ('set', b'[1]=x'), ('set', b'a[+]=y'), ('set', b'a[0+]=z'), ('set', b'a#'),
             ('delete', b'a'), ('delete', b'a.'), ('delete', b'[0]'), ('delete', b'a[0]'), ('delete', b'.'), ('set_subtree', b'a{}'),
             ('set', b'.=root'), ('get', b'a.b'), ('set', b'a.b.c')]
    out = []
    for combo in itertools.product(range(len(alpha)), repeat=depth):
        lines = ['pt 0 %s %s' % (alpha[i][0], vlib.hexbytes(alpha[i][1])) for i in combo] + ['pt 0 digest', 'pt 0 free', 'pt 0 live']
        out.append(lines)
    return out


def run_scripts(chk, exe, scripts, broken, use_model):
    alll, bounds = [], []
    for s in scripts:
        bounds.append((len(alll), len(alll) + len(s)))
        alll += s
    cout, crc, cerr = vlib.run_lines(exe, alll)
    if crc != 0 or len(cout) != len(alll):
        k = min(len(cout), len(alll) - 1)
        for (a, b) in bounds:
            if a <= k < b:
                sub = alll[a:b]
                o, rc, err = vlib.run_lines(exe, sub)
                cut = sub[:len(o) + 1]

                def dies(ls):
                    return vlib.run_lines(exe, ls)[1] != 0
                small = vlib.shrink(cut, dies) if dies(cut) else cut
                o2, rc2, err2 = vlib.run_lines(exe, small)
                chk.violation('sanitizer-pt', 'the library crashed or a sanitizer fired on a valid-pointer call sequence:\n%s' % (err2 or err or cerr)[-1800:], small)
                return False
        chk.violation('sanitizer-pt', 'harness died: ' + cerr[-1500:], alll[-10:])
        return False
    mout = None
    if use_model:
        mout, mrc, merr = vlib.run_lines(vlib.model_exe(), alll)
        if mrc != 0 or len(mout) != len(alll):
            broken.append('model driver failed (rc=%s): %s' % (mrc, merr[-300:]))
            mout = None
    for (a, b) in bounds:
        chk.evaluations += 1
        sub = alll[a:b]
        exp = expected_for(sub)
        d = first_bad(cout[a:b], exp)
        if d is not None:
            def bad(ls):
                o2, rc2, _ = vlib.run_lines(exe, ls)
                return rc2 != 0 or first_bad(o2, expected_for(ls)) is not None
            cut = sub[:d + 1]
            small = vlib.shrink(cut, bad) if bad(cut) else cut
            o2, _, _ = vlib.run_lines(exe, small)
            e2 = expected_for(small)
            dd = first_bad(o2, e2)
            dd = dd if dd is not None and dd < len(small) else len(small) - 1
            w = small[dd].split()
            desc = bytes.fromhex(w[3][1:]) if len(w) > 3 and w[3].startswith('x') else b''
            chk.violation('document-' + w[2], 'the library disagrees with the document model at `%s %r`:\n  library : %s\n  expected: %s' % (
                w[2], desc, o2[dd][:300] if dd < len(o2) else '?', e2[dd][:300]), small)
            return False
        if mout is not None:
            for i in range(a, b):
                if cout[i] != mout[i]:
                    broken.append('correspondence: model and library differ at `%s`\n  library: %s\n  model  : %s' % (alll[i][:120], cout[i][:200], mout[i][:200]))
                    break
        chk.distinct.add(hash(tuple(sub)))
        for l, o in zip(sub, cout[a:b]):
            chk.count('op_' + l.split()[2])
            chk.count(o.split()[0] + ('_' + o.split()[1] if o.startswith('fail') else ''))
    return True


def through_vnacal(chk, exe, rng, count, length):
    """the same histories through vnacal_property_*: register 0 is the global tree of a vnacal_t (ci = -1), register 1 the tree of its
    calibration 0; every answer — values, subtrees, null nodes told apart from failures by errno — must be the document model's"""
    from props import calsim
    sc = calsim.Scenario(rng, 'T8', 1, 1, 1).begin()
    for code in (calsim.SHORT, calsim.OPEN, calsim.MATCH):
        sc.add_reflect(1, code)
    sc.solve().add_calibration(b'c')
    setup = sc.lines
    for k in range(count):
        hist = [l for l in (gen_history(rng, length) if k % 3 else gen_churn(rng, length)) if l.split()[2] not in ('copy', 'quote_key', 'free', 'live') and int(l.split()[1]) < 2]
        exp = expected_for(hist)
        lines = []
        for l in hist:
            w = l.split()
            lines.append('cal ptprop 0 %d %s %s' % (-1 if w[1] == '0' else 0, w[2], ' '.join(w[3:]) if len(w) > 3 else vlib.hexbytes(b'.')))
        full = setup + lines + ['cal free 0', 'cal live']
        out, rc, err = vlib.run_lines(exe, full, timeout=300)
        chk.evaluations += 1
        if rc != 0 or len(out) != len(full):
            chk.violation('sanitizer-calprop', 'crash / sanitizer report in a vnacal_property_* history:\n' + err[-1500:], full[:len(out) + 1])
            return False
        got = out[len(setup):len(setup) + len(lines)]
        d = first_bad(got, exp)
        if d is not None:
            def bad(ls):
                o2, rc2, _ = vlib.run_lines(exe, setup + ls)
                e2 = expected_for(['pt %d %s' % (0 if x.split()[3] == '-1' else 1, ' '.join(x.split()[4:] if x.split()[4] != 'digest' else ['digest'])) for x in ls])
                return rc2 != 0 or first_bad(o2[len(setup):], e2) is not None
            cut = lines[:d + 1]
            small = vlib.shrink(cut, bad) if bad(cut) else cut
            o2, _, _ = vlib.run_lines(exe, setup + small)
            e2 = expected_for(['pt %d %s' % (0 if x.split()[3] == '-1' else 1, ' '.join(x.split()[4:] if x.split()[4] != 'digest' else ['digest'])) for x in small])
            dd = first_bad(o2[len(setup):], e2)
            dd = dd if dd is not None and dd < len(small) else len(small) - 1
            w = small[dd].split()
            chk.violation('document-vnacal-' + w[4], 'vnacal_property_%s (ci = %s) disagrees with the document model at %r:\n  library : %s\n  expected: %s' % (
                w[4], w[3], bytes.fromhex(w[5][1:]), (o2[len(setup):] + ['?'])[dd][:300], e2[dd][:300]), setup + small)
            return False
        if out[-1] != 'ok live=0':
            chk.violation('calprop-leak', 'allocations remain after vnacal_free of a vnacal_t with property trees: ' + out[-1], full)
            return False
        chk.distinct.add(hash(tuple(lines)))
        chk.count('vnacal_property_histories')
        for l in lines:
            chk.count('calop_' + l.split()[4])
    return True


def run(chk):
    rng = random.Random(chk.seed * 31 + 13)
    broken = []
    use_model = USE_MODEL
    if THEOREMS:
        c15.proof_side(chk, ['Libvna.Props.C13'], THEOREMS, FILES, broken)
    chk.trusted += ['tools/props/pspec.py: abstract document written from vnaproperty(3)', 'Model/PropTree.lean: hand model (maps as ordered association lists; hash chains not modelled), tied by the correspondence run']
    chk.checker_cmd = 'cd lean && lake build Libvna.Props.C13 && #print axioms'
    exe, _ = vlib.build_c()
    quick = chk.tier == 'quick'
    scripts = []
    corpus = os.path.join(vlib.VERIF, 'corpus', 'C13')
    if os.path.isdir(corpus):
        for f in sorted(os.listdir(corpus)):
            scripts.append([l.strip() for l in open(os.path.join(corpus, f)) if l.strip() and not l.startswith('#')])
    scripts += bounded_exhaustive(2 if quick else 3)
    for _ in range((200 if quick else 4000) * (5 if broken else 1)):
        scripts.append(gen_history(rng, 60 if quick else 200))
    for _ in range((60 if quick else 1500) * (5 if broken else 1)):
        scripts.append(gen_churn(rng, 30 if quick else 80))
        scripts.append(gen_lists(rng, 70 if quick else 160))
    chk.rule = ('corpus + bounded-exhaustive histories (15-op alphabet, depth %d) + random histories over two roots: set/delete/get/type/count/'
                'keys/get_subtree/set_subtree/copy/quote_key with descriptors from the full grammar (keys needing quotes, UTF-8, spaces, [n], [n+], '
                '[+], trailing ., {}, []), values with =, #, newlines, and a malformed-descriptor stream' % (2 if quick else 3))
    B = 150
    for k in range(0, len(scripts), B):
        if not run_scripts(chk, exe, scripts[k:k + B], broken, use_model):
            break
    if not chk.violations:
        through_vnacal(chk, exe, rng, (40 if quick else 1200) * (3 if broken else 1), 50 if quick else 120)
    chk.samples = [[l for l in scripts[-1][:10]]]
    if broken and not chk.violations:
        chk.violation('obligation', 'proof/correspondence obligations that no longer check:\n' + '\n'.join(broken[:30]), nofail=True)


def replay(chk, path):
    exe, _ = vlib.build_c()
    lines = [l.strip() for l in open(path) if l.strip() and not l.startswith('#')]
    cout, crc, cerr = vlib.run_lines(exe, lines)
    exp = expected_for(lines)
    for i, l in enumerate(lines):
        w = l.split()
        print(w[2], bytes.fromhex(w[3][1:]) if len(w) > 3 and w[3].startswith('x') else w[3:])
        print('   library :', cout[i][:200] if i < len(cout) else '<died>')
        print('   expected:', exp[i][:200])
    if crc:
        print(cerr[-2500:])
    return 0
