"""Ground-truth VNA simulator for the calibration properties (C01, C02, C17, C18, C20, C10 ranges).

The physical model is the E-term error network, independent of the library's T/U parametrisation:

    b_vna = El a_vna + Er b_dut          a_dut = Et a_vna + Em b_dut          b_dut = S a_dut
    =>  M = El + Er (I - S Em)^-1 S Et                              (p x p, p = number of VNA ports)

  T8/U8      : El, Er, Et, Em diagonal
  TE10/UE10  : as T8/U8 plus arbitrary off-diagonal El (leakage inside the VNA)
  T16/U16    : all four blocks full
  UE14/E12   : one independent diagonal error box per driven column (switch terms) plus off-diagonal El

A rows x cols calibration measures the first `rows` rows and the first `cols` columns of M.
Standards are full p x p S matrices: the standard proper on the ports it is connected to, fixed
arbitrary reflections on the unused ports and no coupling between the two groups.
"""
import numpy as np
import vlib

TYPES = {'T8': 0, 'U8': 1, 'TE10': 2, 'UE10': 3, 'T16': 4, 'U16': 5, 'UE14': 6, 'E12': 8}
IS_T = ('T8', 'TE10', 'T16')
MATCH, OPEN, SHORT = 0, 1, 2
GAMMA = {MATCH: 0.0, OPEN: 1.0, SHORT: -1.0}


def rc(rng, s=1.0):
    return complex(rng.gauss(0, s), rng.gauss(0, s))


class ErrorBox:
    def __init__(self, rng, typ, rows, cols, nf, strength=0.15, leak=0.02):
        self.typ, self.rows, self.cols, self.nf = typ, rows, cols, nf
        p = self.p = max(rows, cols)
        self.boxes = []        # per frequency: list (per system) of (El, Er, Et, Em)
        nsys = cols if typ in ('UE14', 'E12') else 1
        for f in range(nf):
            sysl = []
            for s in range(nsys):
                def diag(base, sd):
                    return np.diag([base + rc(rng, sd) for _ in range(p)])

                def full(base, sd):
                    return np.eye(p) * base + np.array([[rc(rng, sd) for _ in range(p)] for _ in range(p)])
                if typ in ('T16', 'U16'):
                    El, Er, Et, Em = full(0, strength * 0.5), full(1, strength * 0.5), full(1, strength * 0.5), full(0, strength * 0.5)
                else:
                    El, Er, Et, Em = diag(0, strength), diag(1, strength), diag(1, strength), diag(0, strength)
                    if typ in ('TE10', 'UE10', 'UE14', 'E12'):
                        L = np.array([[rc(rng, leak) for _ in range(p)] for _ in range(p)])
                        np.fill_diagonal(L, 0)
                        El = El + L
                sysl.append((El, Er, Et, Em))
            self.boxes.append(sysl)

    def measure(self, S, f):
        """S: p x p complex at frequency index f -> M (rows x cols)"""
        p = self.p
        S = np.asarray(S, complex).reshape(p, p)
        I = np.eye(p)
        if len(self.boxes[f]) == 1:
            El, Er, Et, Em = self.boxes[f][0]
            M = El + Er @ np.linalg.solve(I - S @ Em, S @ Et)
        else:
            M = np.zeros((p, p), complex)
            for c in range(self.cols):
                El, Er, Et, Em = self.boxes[f][c]
                M[:, c] = (El + Er @ np.linalg.solve(I - S @ Em, S @ Et))[:, c]
        return M[:self.rows, :self.cols]


def embed(p, ports, Sstd, others):
    """full p x p S of a standard connected to `ports` (0-based VNA ports, in the standard's port order)"""
    S = np.zeros((p, p), complex)
    for q in range(p):
        if q not in ports:
            S[q, q] = others[q]
    for i, pi in enumerate(ports):
        for j, pj in enumerate(ports):
            S[pi, pj] = Sstd[i][j]
    return S


def cells(Mf):
    """list over frequencies of matrices -> protocol text `rows cols <cell-major data>`"""
    rows, cols = Mf[0].shape
    out = ['%d %d' % (rows, cols)]
    for r in range(rows):
        for c in range(cols):
            out.append(' '.join(vlib.c2h(M[r, c]) for M in Mf))
    return ' '.join(out)


def ab_split(rng, typ, Mf, cols):
    """reference (a) and detector (b) readings that reduce to M; returns (a text, b text)"""
    A, B = [], []
    for M in Mf:
        if typ in ('UE14', 'E12'):
            a = np.array([[1 + rc(rng, 0.2) for _ in range(cols)]])
            A.append(a)
            B.append(M * a)
        else:
            a = np.eye(cols) + np.array([[rc(rng, 0.1) for _ in range(cols)] for _ in range(cols)])
            A.append(a)
            B.append(M @ a)
    return cells(A), cells(B)


class Scenario:
    """one calibration: builds the protocol lines and remembers ground truth"""

    def __init__(self, rng, typ, rows, cols, nf, form='m', slot_c=0, slot_n=0, fvec=None, box=None):
        self.rng, self.typ, self.rows, self.cols, self.nf, self.form = rng, typ, rows, cols, nf, form
        self.p = max(rows, cols)
        self.c, self.n = slot_c, slot_n
        self.fvec = fvec or [1e9 * (1 + 0.25 * i) for i in range(nf)]
        self.box = box or ErrorBox(rng, typ, rows, cols, nf)
        self.others = [rc(rng, 0.3) for _ in range(self.p)]
        self.lines = []
        self.standards = []

    def begin(self, create=True):
        L = self.lines
        if create:
            L.append('cal create %d' % self.c)
        L.append('cal new_alloc %d %d %d %d %d %d' % (self.c, self.n, TYPES[self.typ], self.rows, self.cols, self.nf))
        L.append('cal new_set_frequency_vector %d %s' % (self.n, ' '.join(vlib.d2h(f) for f in self.fvec)))
        return self

    def meas(self, Sfull_by_f, rows_sel=None, cols_sel=None):
        Mf = [self.box.measure(Sfull_by_f[f], f) for f in range(self.nf)]
        if rows_sel is not None or cols_sel is not None:
            rs = rows_sel if rows_sel is not None else list(range(self.rows))
            cs = cols_sel if cols_sel is not None else list(range(self.cols))
            Mf = [M[np.ix_(rs, cs)] for M in Mf]
        return Mf

    def mtext(self, Mf):
        if self.form == 'm':
            return 'm %d %s' % (self.nf, cells(Mf))
        a, b = self.split_ab(Mf, Mf[0].shape[1])
        return 'ab %d %s %s' % (self.nf, a, b)

    def split_ab(self, Mf, cols):
        """(a text, b text); `ab_fn` lets a scenario choose its own reference matrices"""
        fn = getattr(self, 'ab_fn', None)
        return fn(Mf, cols) if fn else ab_split(self.rng, self.typ, Mf, cols)

    def abbrev_sel(self, ports, mode):
        """row/column selections for an abbreviated measurement matrix of a standard on `ports` (1-based);
        mode in 'full', 'rows', 'cols', 'both'; returns (rows_sel, cols_sel) or None when not allowed"""
        ps = sorted(q - 1 for q in ports)
        rs = ps if mode in ('rows', 'both') else None
        cs = ps if mode in ('cols', 'both') else None
        if rs is not None and any(q >= self.rows for q in rs):
            return None
        if cs is not None and any(q >= self.cols for q in cs):
            return None
        if self.typ == 'T16' and cs is not None:
            return None
        if self.typ == 'U16' and rs is not None:
            return None
        return rs, cs

    def add_reflect(self, port, code, gamma=None, abbreviated=False):
        """single reflect on VNA port `port` (1-based) with predefined code or explicit gamma handle"""
        g = GAMMA[code] if gamma is None else gamma[1]
        S = [embed(self.p, [port - 1], [[g if not callable(g) else g(f)]], self.others) for f in range(self.nf)]
        sel = self.abbrev_sel([port], abbreviated) if isinstance(abbreviated, str) else (
            self.abbrev_sel([port], 'both') if abbreviated else None)
        Mf = self.meas(S, *sel) if sel else self.meas(S)
        self.lines.append('cal add %d single_reflect %s %d %d' % (self.n, self.mtext(Mf), code if gamma is None else gamma[0], port))
        self.standards.append(('reflect', port, code))

    def add_double_reflect(self, p1, p2, c1, c2, abbreviated='full', as_kind='double'):
        """reflect c1 on port p1 and c2 on port p2, entered as a double reflect, as a line with zero transmission or as a mapped 2x2 matrix"""
        S = [embed(self.p, [p1 - 1, p2 - 1], [[GAMMA[c1], 0], [0, GAMMA[c2]]], self.others) for f in range(self.nf)]
        sel = self.abbrev_sel([p1, p2], abbreviated)
        Mf = self.meas(S, *sel) if sel else self.meas(S)
        if as_kind == 'line':
            self.lines.append('cal add %d line %s %d 0 0 %d %d %d' % (self.n, self.mtext(Mf), c1, c2, p1, p2))
        elif as_kind == 'mapped':
            self.lines.append('cal add %d mapped %s 2 2 %d 0 0 %d M %d %d' % (self.n, self.mtext(Mf), c1, c2, p1, p2))
        else:
            self.lines.append('cal add %d double_reflect %s %d %d %d %d' % (self.n, self.mtext(Mf), c1, c2, p1, p2))
        self.standards.append(('double', (p1, p2), (c1, c2)))

    def add_through(self, p1, p2, as_kind='through', abbreviated='full'):
        S = [embed(self.p, [p1 - 1, p2 - 1], [[0, 1], [1, 0]], self.others) for f in range(self.nf)]
        sel = self.abbrev_sel([p1, p2], abbreviated)
        Mf = self.meas(S, *sel) if sel else self.meas(S)
        self.standards.append(('through', (p1, p2), as_kind))
        if as_kind == 'through':
            self.lines.append('cal add %d through %s %d %d' % (self.n, self.mtext(Mf), p1, p2))
        elif as_kind == 'mapped_nomap' and sel is None and self.p == 2:
            self.lines.append('cal add %d mapped %s 2 2 0 1 1 0 N' % (self.n, self.mtext(Mf)))
        elif as_kind == 'line':
            self.lines.append('cal add %d line %s 0 1 1 0 %d %d' % (self.n, self.mtext(Mf), p1, p2))
        else:
            self.lines.append('cal add %d mapped %s 2 2 0 1 1 0 M %d %d' % (self.n, self.mtext(Mf), p1, p2))

    def add_line_handles(self, p1, p2, handles, Sstd_by_f):
        """line with parameter handles (s11 s12 s21 s22) whose true values are Sstd_by_f[f] (2x2)"""
        S = [embed(self.p, [p1 - 1, p2 - 1], Sstd_by_f[f], self.others) for f in range(self.nf)]
        self.lines.append('cal add %d line %s %d %d %d %d %d %d' % ((self.n, self.mtext(self.meas(S))) + tuple(handles) + (p1, p2)))

    def solt(self, abbreviated=False, variety=None):
        """a determining, redundant set of fully known standards for every type; with `variety` (an rng) the
        entry points, port orders and abbreviated matrix shapes are varied"""
        p = self.p
        v = variety
        for port in range(1, p + 1):
            for code in (SHORT, OPEN, MATCH):
                ab = v.choice(['full', 'rows', 'cols', 'both']) if v else abbreviated
                if code == MATCH and self.typ in ('TE10', 'UE10', 'UE14', 'E12'):
                    # leakage terms are only determined by full measurement matrices (vnacal_new(3)); a cell
                    # that is never measured without a signal path is silently taken as zero leakage
                    ab = 'full'
                self.add_reflect(port, code, abbreviated=ab)
        for i in range(1, p + 1):
            for j in range(i + 1, p + 1):
                a, b = (j, i) if (v and v.random() < 0.5) else (i, j)
                self.add_through(a, b, as_kind=v.choice(['through', 'line', 'mapped', 'mapped_nomap']) if v else 'through',
                                 abbreviated=v.choice(['full', 'rows', 'cols', 'both']) if v else 'full')
        if self.typ in ('T16', 'U16'):
            for i in range(1, p + 1):
                for j in range(i + 1, p + 1):
                    for c1, c2 in ((SHORT, OPEN), (OPEN, SHORT), (MATCH, SHORT), (SHORT, MATCH), (OPEN, MATCH), (MATCH, OPEN), (SHORT, SHORT), (OPEN, OPEN)):
                        if v and v.random() < 0.5:
                            self.add_double_reflect(j, i, c2, c1, abbreviated=v.choice(['full', 'rows', 'cols']))
                        else:
                            self.add_double_reflect(i, j, c1, c2, abbreviated=v.choice(['full', 'rows', 'cols']) if v else 'full')
        return self

    def solve(self):
        self.lines.append('cal solve %d' % self.n)
        return self

    def add_calibration(self, name=b'cal'):
        self.lines.append('cal add_calibration %d %s %d' % (self.c, vlib.hexbytes(name), self.n))
        return self

    def apply_line(self, ci, S_by_f, fvec=None, idx=None):
        """measurement of a DUT with full S and the `cal apply` line; with `idx` the device is measured at those calibration
        points only (the count of device frequencies then differs from the calibration's)"""
        Mf = self.meas(S_by_f)
        fv = fvec or self.fvec
        if idx is not None:
            Mf = [Mf[i] for i in idx]
            fv = [fv[i] for i in idx]
        if self.form == 'm':
            body = 'm %d %s %s' % (len(fv), ' '.join(vlib.d2h(f) for f in fv), cells(Mf))
        else:
            a, b = self.split_ab(Mf, self.cols)
            body = 'ab %d %s %s %s' % (len(fv), ' '.join(vlib.d2h(f) for f in fv), a, b)
        return 'cal apply %d %d %s' % (self.c, ci, body)

    def random_dut(self):
        p = self.p
        return [np.array([[rc(self.rng, 0.4) for _ in range(p)] for _ in range(p)]) for f in range(self.nf)]


def parse_apply(line, p):
    """-> (ok, list over freqs of p x p matrices)"""
    w = line.split()
    if w[0] != 'ok':
        return False, None
    d = w.index('D')
    z = w.index('Z')
    vals = vlib.hs2c(w[d + 1:z])
    kv = dict(t.split('=') for t in w if '=' in t and not t.startswith('cb'))
    rows, cols, fr = int(kv['rows']), int(kv['cols']), int(kv['freqs'])
    out = [np.array(vals[f * rows * cols:(f + 1) * rows * cols], complex).reshape(rows, cols) for f in range(fr)]
    return True, out
