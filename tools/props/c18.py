"""C18 — measurement-error modelling weights without bias and judges consistency sanely.

Proof side : Libvna.Props.C18 — positive weights do not move the solution of a system the data satisfy exactly (weighted and
             unweighted equations have the same solutions; with an injective coefficient map the true terms are the only
             one); the weight is positive; the p-value the solver computes for an even number of degrees of freedom is the
             closed form exp(-x) sum_{i<k} x^i/i! (the recurrence of chisq_pvalue), equals 1 at x = 0 and lies in (0, 1];
             a spline through points on a straight line is that line (C10), so a noise grid given at fewer points means the
             same sigma on the calibration grid.
Tie        : the C function chisq_pvalue itself (compiled into the harness from its source file) against Model/PValue.lean.
Oracle     : E-network ground truth with synthetic noise of exactly the declared size (complex Gaussian, variance
             sigma_nf^2 + sigma_tr^2 |m|^2): exact data are never rejected and give the unweighted calibration; the rejection
             rate at significance 0.05 lies within wide bounds for every type; a standard off by 100 sigma is rejected
             (EDOM); noise given on a coarser grid equals noise given on the calibration grid; disabling restores the
             unweighted result.
"""
import math, os, random
import numpy as np
import vlib
from props import c15, calsim

THEOREMS = ['Libvna.PV.' + t for t in ('weights_irrelevant_exact', 'weighted_unique', 'weight_pos', 'loopSum_closed', 'pvalue_at_zero', 'pvalue_range')] + \
           ['Libvna.Interp.spline_linear', 'Libvna.PV.weighted_injective', 'Libvna.PV.weighted_ls_exact', 'Libvna.PV.weighted_residual_exact']
FILES = ['Model/PValue.lean', 'Props/C18.lean', 'Props/C10.lean', 'Props/C18LS.lean', 'Props/C17Order.lean']


class NoisySc(calsim.Scenario):
    """measurements carry complex Gaussian noise of the declared size; `gross` (index of a standard) is off by 100 sigma"""
    noise = None      # (sigma_nf, sigma_tr)
    gross = None
    gross_f = None    # None: at every frequency; else the only frequency index that is off
    nstd = 0

    def meas(self, Sfull_by_f, rows_sel=None, cols_sel=None):
        Mf = super().meas(Sfull_by_f, rows_sel, cols_sel)
        k = self.nstd
        self.nstd += 1
        if self.noise is None:
            return Mf
        nf_, tr_ = self.noise
        out = []
        for fi, M in enumerate(Mf):
            sig = np.sqrt(nf_ ** 2 + (tr_ * np.abs(M)) ** 2)
            g = np.array([[complex(self.rng.gauss(0, 1), self.rng.gauss(0, 1)) for _ in range(M.shape[1])] for _ in range(M.shape[0])]) / math.sqrt(2)
            N = sig * g
            if self.gross == k and (self.gross_f is None or self.gross_f == fi):
                N = N + 100.0 * sig
            out.append(M + N)
        return out


def scenario(rng, typ, n, nf, noise=None, gross=None, merr=None, plim=None, slot_c=0, slot_n=0, box=None, fgrid=None, seed_others=None, gross_f=None):
    sc = NoisySc(rng, typ, n, n, nf, form='m', slot_c=slot_c, slot_n=slot_n, box=box, fvec=fgrid)
    if seed_others is not None:
        sc.others = seed_others
    sc.noise, sc.gross, sc.gross_f = noise, gross, gross_f
    sc.begin()
    if merr is not None:
        (gf, snf, str_) = merr
        sc.lines.append('cal new_set_m_error %d %d %s S %s %s' % (sc.n, len(snf), 'N' if gf is None else 'F ' + ' '.join(vlib.d2h(f) for f in gf), ' '.join(vlib.d2h(x) for x in snf),
                                                             'N' if str_ is None else 'T ' + ' '.join(vlib.d2h(x) for x in str_)))
    if plim is not None:
        sc.lines.append('cal new_set_pvalue_limit %d %s' % (sc.n, vlib.d2h(plim)))
    sc.solt()
    if n == 2 and typ in ('UE14', 'E12'):
        # short-open-load-through determines each column system of a two-port 12-/14-term model exactly: two more standards
        # make the data over-determined, as the property speaks of
        sc.add_double_reflect(1, 2, calsim.SHORT, calsim.OPEN)
        sc.add_double_reflect(1, 2, calsim.OPEN, calsim.SHORT)
    if n == 1:
        # short, open, match determine a one-port exactly: two more known reflects make the data over-determined
        for k in range(2):
            g = calsim.rc(sc.rng, 0.5)
            sc.lines.append('cal make_scalar %d %s' % (sc.c, vlib.c2h(g)))
            sc.add_reflect(1, 0, gamma=(3 + k, g))
    return sc


def finish(sc, name=b'c'):
    sc.solve()
    sc.i_solve = len(sc.lines) - 1
    sc.add_calibration(name)
    sc.dut = sc.random_dut()
    save, sc.noise = sc.noise, None
    sc.lines.append(sc.apply_line(0, sc.dut))
    sc.noise = save
    sc.i_apply = len(sc.lines) - 1
    sc.lines += ['cal free 0', 'cal live']
    return sc


def run(chk):
    rng = random.Random(chk.seed * 83 + 18)
    broken = []
    if os.environ.get('VERIF_DEV_NOPROOF') != '1':
        c15.proof_side(chk, ['Libvna.Props.C18', 'Libvna.Props.C18LS'], THEOREMS, FILES, broken)
    chk.trusted += ['tools/props/calsim.py ground truth and noise generator (Mersenne Twister Gaussian deviates)', 'exp of the platform; the chi-square law itself (the closed form is proved equal to the recurrence, not to an integral)']
    chk.checker_cmd = 'cd lean && lake build Libvna.Props.C18 Libvna.Props.C18LS && #print axioms'
    exe, _ = vlib.build_c()
    quick = chk.tier == 'quick'
    scale = 3 if broken else 1
    # 1. exact data, model on: same calibration, never rejected; and disabling restores the unweighted result
    scs = []
    for rep in range((1 if quick else 6) * scale):
        for typ in calsim.TYPES:
            for n in ((1, 2) if quick else (1, 2, 3)):
                if typ in ('T16', 'U16') and n > 2:
                    continue
                nf = rng.randint(1, 3)
                snf = 10 ** rng.uniform(-6, -2)
                str_ = rng.choice([None, 10 ** rng.uniform(-5, -1)])
                seed = rng.randrange(1 << 30)
                a = finish(scenario(random.Random(seed), typ, n, nf))
                b = finish(scenario(random.Random(seed), typ, n, nf, merr=(None, [snf], [str_] if str_ else None)))
                # enabled, then disabled again before the standards are solved
                c = scenario(random.Random(seed), typ, n, nf, merr=(None, [snf], [str_] if str_ else None))
                i_set = next(i for i, l in enumerate(c.lines) if l.startswith('cal new_set_m_error'))
                c.lines.insert(i_set + 1, 'cal new_set_m_error %d 1 N N N' % c.n)          # disable right after enabling
                c = finish(c)
                scs.append(('exact', typ, n, a, b, c))
    lines = [l for (_, _, _, a, b, c) in scs for s in (a, b, c) for l in s.lines]
    out, rc, err = vlib.run_lines(exe, lines, timeout=1500)
    if rc != 0 or len(out) != len(lines):
        k = min(len(out), len(lines) - 1)
        chk.violation('sanitizer', 'crash / sanitizer report with the measurement-error model on exact data at `%s`:\n%s' % (lines[k][:100], err[-1500:]), lines[max(0, k - 40):k + 1])
        return
    pos = 0
    for (_, typ, n, a, b, c) in scs:
        res = []
        for s in (a, b, c):
            o = out[pos:pos + len(s.lines)]
            pos += len(s.lines)
            res.append(o)
        chk.evaluations += 1
        tag = '%s %dx%d nf=%d' % (typ, n, n, a.nf)
        if not res[0][a.i_solve].startswith('ok'):
            chk.violation('baseline', '%s: the unweighted solve fails: %s' % (tag, res[0][a.i_solve][:60]), a.lines)
            continue
        if not res[1][b.i_solve].startswith('ok'):
            chk.violation('exact-rejected', '%s: data that fit the error model exactly are rejected with the measurement-error model on: %s' % (tag, res[1][b.i_solve][:60]), b.lines[:b.i_solve + 1])
            continue
        Sa = calsim.parse_apply(res[0][a.i_apply], n)[1]
        Sb = calsim.parse_apply(res[1][b.i_apply], n)[1]
        Sc_ = calsim.parse_apply(res[2][c.i_apply], n)[1]
        eb = max(np.abs(x - y).max() for x, y in zip(Sa, Sb))
        ec = max(np.abs(x - y).max() for x, y in zip(Sa, Sc_))
        et = max(np.abs(x - y).max() for x, y in zip(Sb, b.dut))
        if eb > 1e-7 or et > 1e-7:
            chk.violation('exact-bias', '%s: with exact data the weighted calibration differs from the unweighted one by %.3e (from the truth by %.3e)' % (tag, eb, et), b.lines[:b.i_apply + 1])
            continue
        if ec > 1e-12 * max(1.0, max(np.abs(x).max() for x in Sa)) and res[0][a.i_apply] != res[2][c.i_apply]:
            chk.violation('disable', '%s: enabling and disabling the model does not restore the unweighted result (difference %.3e)' % (tag, ec), c.lines[:c.i_apply + 1])
            continue
        if any(r[-1] != 'ok live=0' for r in res):
            chk.violation('leak', '%s: allocations remain' % tag, b.lines)
            continue
        chk.count('exact_same')
        chk.distinct.add(('exact', typ, n, pos))
    # 2. noise of exactly the declared size: rejection rate of the order of the significance; 3. gross error: rejected
    PLIM = 0.05
    nn = (120 if quick else 1600) * scale
    trials = []
    for k in range(nn):
        typ = list(calsim.TYPES)[k % len(calsim.TYPES)]
        n = rng.choice((1, 2)) if quick else rng.choice((1, 2, 2, 3))
        if typ in ('T16', 'U16'):
            n = 2
        snf = 10 ** rng.uniform(-6, -2)
        str_ = rng.choice([0.0, 10 ** rng.uniform(-5, -1), 10 ** rng.uniform(-2, -1)])
        gross = None
        kind = 'noise'
        if (k // len(calsim.TYPES)) % 4 == 3:
            kind = 'gross'
        seed = rng.randrange(1 << 30)
        sc = scenario(random.Random(seed), typ, n, 1, noise=(snf, str_), merr=(None, [snf], [str_] if str_ else None), plim=PLIM)
        if kind == 'gross':
            # rebuild with one standard (not the first reflect of a 1-port type with 3 standards only... any) off by 100 sigma
            kinds = [l.split()[3] for l in sc.lines if l.startswith('cal add ')]
            # in the 16-term models only standards that specify the whole S matrix contribute equations (vnacal_new(3)):
            # an error in a single reflect cannot be noticed there
            cand = [i for i, kd in enumerate(kinds) if typ not in ('T16', 'U16') or kd != 'single_reflect']
            # half of them: several frequencies, only the last one is off (a failure at a later frequency must fail the call)
            late = random.Random(seed + 2).random() < 0.5
            sc = scenario(random.Random(seed), typ, n, 3 if late else 1, noise=(snf, str_), gross=random.Random(seed + 1).choice(cand), gross_f=2 if late else None,
                          merr=(None, [snf], [str_] if str_ else None), plim=1e-6 if late else PLIM)
        sc.solve()
        sc.lines += ['cal free 0']
        trials.append((kind, typ, n, snf, str_, sc))
    lines = [l for t in trials for l in t[5].lines]
    out, rc, err = vlib.run_lines(exe, lines + ['cal live'], timeout=2400)
    if rc != 0 or len(out) != len(lines) + 1:
        k = min(len(out), len(lines) - 1)
        pos = 0
        for t in trials:
            if pos <= k < pos + len(t[5].lines):
                chk.violation('sanitizer-noise', 'crash / sanitizer report solving noisy data (%s %dx%d sigma_nf %.1e sigma_tr %.1e):\n%s' % (t[1], t[2], t[2], t[3], t[4], err[-1500:]), t[5].lines[:k - pos + 1])
                break
            pos += len(t[5].lines)
        return
    if out[-1] != 'ok live=0':
        chk.violation('leak-noise', 'allocations remain after solves on noisy data (some rejected): %s' % out[-1], lines[:40])
    pos = 0
    stat = {}
    for (kind, typ, n, snf, str_, sc) in trials:
        o = out[pos:pos + len(sc.lines)]
        pos += len(sc.lines)
        chk.evaluations += 1
        r = o[-2]
        s = stat.setdefault((kind, typ), [0, 0, None])
        s[0] += 1
        if not r.startswith('ok'):
            if 'EDOM' not in r:
                chk.violation('reject-errno', '%s %dx%d: noisy data rejected with %s instead of EDOM' % (typ, n, n, r[:40]), sc.lines)
                continue
            s[1] += 1
        elif ' cb=0/' not in r:
            chk.violation('success-after-error', '%s %dx%d: vnacal_new_solve returned success although it reported an error (%s)' % (typ, n, n, r[:40]), sc.lines)
            continue
        elif kind == 'gross' and s[2] is None:
            s[2] = sc.lines
        chk.distinct.add((kind, typ, n, pos))
    tot = {}
    for (kind, typ), (cnt, rej, ex) in stat.items():
        t = tot.setdefault(kind, [0, 0])
        t[0] += cnt
        t[1] += rej
    chk.extra['rates'] = {'%s/%s' % k: '%d/%d' % (v[1], v[0]) for k, v in sorted(stat.items())}
    n0, r0 = tot.get('noise', [0, 0])
    if n0:
        rate = r0 / n0
        # binomial bounds around 0.05, widened: the statistic's degrees of freedom are small and the model is linearised
        lo = 0.004 if n0 >= 300 else 0.0
        hi = 0.20
        chk.extra['noise_rejection_rate'] = float('%.4f' % rate)
        if not (lo <= rate <= hi):
            chk.violation('rate', 'noise of exactly the declared size is rejected in %d of %d solves (%.1f %%) at significance %.2f: outside [%.1f %%, %.0f %%]' % (r0, n0, 100 * rate, PLIM, 100 * lo, 100 * hi), trials[0][5].lines)
        if not quick:
            for (kind, typ), (cnt, rej, ex) in stat.items():
                if kind == 'noise' and cnt >= 100 and not (rej >= 1 and rej / cnt <= 0.25):
                    chk.violation('rate-' + typ, '%s: %d of %d noisy solves rejected at significance %.2f' % (typ, rej, cnt, PLIM), trials[0][5].lines)
    n1, r1 = tot.get('gross', [0, 0])
    if n1:
        chk.extra['gross_rejection_rate'] = float('%.4f' % (r1 / n1))
        if r1 / n1 < 0.9:
            ex = next((v[2] for k, v in stat.items() if k[0] == 'gross' and v[2]), trials[0][5].lines)
            chk.violation('gross', 'a standard off by 100 standard deviations is rejected in only %d of %d solves' % (r1, n1), ex)
    # 2b. over-determined in some column systems only
    if not chk.violations:
        uneven(chk, exe, rng, 1 if quick else 5)
    if not chk.violations:
        uneven_noisy(chk, exe, rng, 6 if quick else 40)
    if not chk.violations:
        many_standards(chk, exe, rng)
    # 3a. rectangular calibrations
    if not chk.violations:
        rectangular(chk, exe, rng, 6 if quick else 30)
    # 3b. renaming the ports of noisy weighted data renames the calibration
    if not chk.violations:
        relabel(chk, exe, rng, 1 if quick else 6)
    # 4. noise vectors on their own (coarser) frequency grid = the same sigma on the calibration grid
    grids(chk, exe, rng, 3 if quick else 40)
    pvalue_correspondence(chk, exe, rng, broken, 200 if quick else 5000)
    chk.rule = ('all 8 types, 1..%d ports, redundant known standards (SOLT + double reflects for the 16-term types); sigma_nf 1e-6..1e-2, sigma_tr 0 / 1e-5..1e-1; exact data with the model '
                'on / on-then-off; %d noisy solves at significance 0.05 (one in four with a standard off by 100 sigma); noise grids of 1, 2 and N points' % (2 if quick else 3, nn))
    chk.samples = [[l[:120] for l in trials[0][5].lines[:5]]]
    if broken and not chk.violations:
        chk.violation('obligation', 'proof/correspondence obligations that no longer check:\n' + '\n'.join(broken[:30]), nofail=True)


def rectangular(chk, exe, rng, reps):
    """calibrations with more ports than detectors or than sources (T 2x3, U 3x2, 2x1), error model on with a signal-proportional part:
    exact data are accepted; noise of exactly the declared size is not rejected wholesale (every residual is judged against the
    variance of its own measurement cell, whatever the shape of the measurement matrix)"""
    shapes = [('T8', 2, 3), ('TE10', 2, 3), ('U8', 3, 2), ('UE10', 3, 2), ('UE14', 3, 2), ('E12', 3, 2), ('UE14', 2, 1), ('E12', 2, 1)]
    for typ, r, c in shapes:
        rej = tot = 0
        for k in range(1 + reps):
            snf, str_ = 10 ** rng.uniform(-5, -4), 10 ** rng.uniform(-2.5, -1.5)
            sc = NoisySc(random.Random(rng.randrange(1 << 30)), typ, r, c, 1, form='m')
            sc.noise = None if k == 0 else (snf, str_)
            sc.begin()
            sc.lines.append('cal new_set_m_error %d 1 N S %s T %s' % (sc.n, vlib.d2h(snf), vlib.d2h(str_)))
            sc.lines.append('cal new_set_pvalue_limit %d %s' % (sc.n, vlib.d2h(0.001)))
            sc.solt().solve()
            isolve = len(sc.lines) - 1
            sc.lines += ['cal free 0', 'cal live']
            out, rc, err = vlib.run_lines(exe, sc.lines, timeout=600)
            chk.evaluations += 1
            tag = '%s %dx%d sigma_nf %.1e sigma_tr %.1e' % (typ, r, c, snf, str_)
            if rc != 0 or len(out) != len(sc.lines):
                chk.violation('sanitizer-rect', '%s: crash / sanitizer report:\n%s' % (tag, err[-1200:]), sc.lines[:len(out) + 1])
                return
            if k == 0:
                if not out[isolve].startswith('ok'):
                    chk.violation('exact-rejected-rect', '%s: data that fit the error model exactly are rejected: %s' % (tag, out[isolve][:60]), sc.lines[:isolve + 1])
                    return
                chk.count('rect_exact_accepted')
            else:
                tot += 1
                rej += not out[isolve].startswith('ok')
        if tot >= 6 and rej > tot // 2:
            chk.violation('rate-rect', '%s %dx%d: noise of exactly the declared size is rejected in %d of %d solves at significance 0.001' % (typ, r, c, rej, tot), sc.lines[:isolve + 1])
            return
        chk.count('rect_noisy_solves', tot)
        chk.count('rect_noisy_rejected', rej)


def uneven(chk, exe, rng, reps):
    """over-determined in some column systems only (12-/14-term models): short-open-load-through plus more known reflects on *one* port.
    Exact data with the error model on are accepted and give the unweighted calibration, whichever port has the extra standards"""
    from props import c02
    for _ in range(reps):
        for typ in ('UE14', 'E12'):
            for n in (2, 3):
                for port in range(1, n + 1):
                    seed = rng.randrange(1 << 30)
                    res = []
                    for merr in (False, True):
                        r2 = random.Random(seed)
                        sc = c02.Sc(r2, typ, n, n, r2.choice([1, 2]), form='m').begin()
                        if merr:
                            sc.lines.append('cal new_set_m_error %d 1 N S %s T %s' % (sc.n, vlib.d2h(1e-4), vlib.d2h(1e-2)))
                        sc.solt()
                        for _ in range(2):
                            g = calsim.rc(r2, 0.5)
                            sc.std1(port, sc.scalar(g), g)
                        sc.solve().add_calibration(b'c')
                        dut = sc.random_dut()
                        sc.lines += [sc.apply_line(0, dut), 'cal free 0', 'cal live']
                        out, rc, err = vlib.run_lines(exe, sc.lines, timeout=600)
                        chk.evaluations += 1
                        tag = '%s %dx%d, two more known reflects on port %d only%s' % (typ, n, n, port, ', error model on' if merr else '')
                        if rc != 0 or len(out) != len(sc.lines):
                            chk.violation('sanitizer-uneven', '%s: crash / sanitizer report:\n%s' % (tag, err[-1200:]), sc.lines[:len(out) + 1])
                            return
                        bad = [(l, o) for l, o in zip(sc.lines, out) if not o.startswith('ok')]
                        if bad:
                            chk.violation('exact-rejected-uneven', '%s: exact data: `%s` -> %s' % (tag, bad[0][0][:60], bad[0][1][:80]), sc.lines[:sc.lines.index(bad[0][0]) + 1])
                            return
                        res.append((calsim.parse_apply(out[-3], n)[1], dut, sc.lines))
                    d = max(float(np.abs(a - b).max()) for a, b in zip(res[0][0], res[1][0]))
                    e = max(float(np.abs(a - b).max()) for a, b in zip(res[1][0], res[1][1]))
                    if not (d <= 1e-7 and e <= 1e-7):
                        chk.violation('exact-bias-uneven', '%s: weighted and unweighted calibrations differ by %.3e (weighted from the truth by %.3e)' % (tag, d, e), res[1][2][:-2])
                        return
                    chk.count('uneven_exact_ok')


def uneven_noisy(chk, exe, rng, trials):
    """the same uneven layouts with noise of exactly the declared size, on a VNA whose receivers have very different gains (the
    measurement errors then enter the equations through matrices far from the identity): the data are not rejected wholesale at
    significance 0.01, whichever port has the extra standards, whichever receiver is the strong one.
    Layout A: short-open-load-through plus two known reflects on `port`.  Layout B: one reflect on the other port, three on `port`, a
    through and a second known two-port (both column systems get equations from the two-ports; the other port's system is exactly
    determined), the reflects measured on their own port only (1x1; nothing samples the leakage then: the VNA has none) or in full"""
    strata = []
    for typ in ('UE14', 'E12'):
        for port in (1, 2):
            for layout in ('A', 'B'):
                for gains in ((1.0, 'small'), (1.0, 'large'), ('small', 1.0), ('large', 1.0)):
                    strata.append((typ, port, layout, gains))
    lines, cases = [], []
    for (typ, port, layout, gains) in strata:
        for k in range(trials):
            r2 = random.Random(rng.randrange(1 << 30))
            abbrev = layout == 'B' and k % 2 == 0
            box = calsim.ErrorBox(r2, typ, 2, 2, 1, leak=0.0) if abbrev else calsim.ErrorBox(r2, typ, 2, 2, 1)
            d = np.array([g if isinstance(g, float) else (r2.choice([0.2, 0.25]) if g == 'small' else r2.choice([4.0, 5.0])) for g in gains])
            box.boxes = [[(np.diag(d) @ El, np.diag(d) @ Er, Et, Em) for (El, Er, Et, Em) in sysl] for sysl in box.boxes]
            sc = NoisySc(r2, typ, 2, 2, 1, form='m', box=box)
            sc.noise = (1e-3, 3e-3)
            sc.begin()
            sc.lines.append('cal new_set_m_error %d 1 N S %s T %s' % (sc.n, vlib.d2h(1e-3), vlib.d2h(3e-3)))
            sc.lines.append('cal new_set_pvalue_limit %d %s' % (sc.n, vlib.d2h(0.01)))
            if layout == 'A':
                sc.solt()
                for j in range(2):
                    g = calsim.rc(r2, 0.5)
                    sc.lines.append('cal make_scalar %d %s' % (sc.c, vlib.c2h(g)))
                    sc.add_reflect(port, 0, gamma=(3 + j, g))
            else:
                sc.add_reflect(3 - port, r2.choice([calsim.SHORT, calsim.OPEN]), abbreviated=abbrev)
                for code in (calsim.SHORT, calsim.OPEN, calsim.MATCH):
                    sc.add_reflect(port, code, abbreviated=abbrev)
                sc.add_through(1, 2)
                S2 = [[calsim.rc(r2, 0.3), 0.5 + calsim.rc(r2, 0.2)], [0.5 + calsim.rc(r2, 0.2), calsim.rc(r2, 0.3)]]
                for a_ in (0, 1):
                    for b_ in (0, 1):
                        sc.lines.append('cal make_scalar %d %s' % (sc.c, vlib.c2h(S2[a_][b_])))
                sc.add_line_handles(1, 2, (3, 4, 5, 6), [S2])
            sc.solve()
            sc.lines.append('cal free 0')
            cases.append(((typ, port, layout, gains), len(lines), len(lines) + len(sc.lines) - 2, d))
            lines += sc.lines
    out, rc, err = vlib.run_lines(exe, lines + ['cal live'], timeout=2400)
    if rc != 0 or len(out) != len(lines) + 1:
        k = min(len(out), len(lines) - 1)
        c = [c for c in cases if c[1] <= k][-1]
        chk.violation('sanitizer-uneven-noisy', '%s 2x2 (layout %s, port %d, receiver gains %s): crash / sanitizer report:\n%s' % (c[0][0], c[0][2], c[0][1], c[3].tolist(), err[-1200:]),
                      lines[c[1]:k + 1])
        return
    stat = {}
    for (key, a, isolve, d) in cases:
        chk.evaluations += 1
        st = stat.setdefault(key, [0, 0, None])
        st[0] += 1
        if not out[isolve].startswith('ok'):
            st[1] += 1
            st[2] = st[2] or lines[a:isolve + 1]
    chk.count('uneven_noisy_solves', sum(v[0] for v in stat.values()))
    chk.count('uneven_noisy_rejected', sum(v[1] for v in stat.values()))
    for (typ, port, layout, gains), (tot, rej, first) in sorted(stat.items(), key=lambda kv: -kv[1][1]):
        if tot >= 6 and rej > max(2, tot // 3):
            what = 'two more known reflects on port %d only' % port if layout == 'A' else 'one reflect on port %d, three on port %d, a through and a known two-port' % (3 - port, port)
            chk.violation('rate-uneven', '%s 2x2, %s, receiver gains %s: noise of exactly the declared size is rejected in %d of %d solves at significance 0.01' % (
                typ, what, list(gains), rej, tot), first)
            return
    if out[-1] != 'ok live=0':
        chk.violation('leak-uneven-noisy', 'allocations remain after solves on noisy data: %s' % out[-1], lines[:40])


def swap_ports_line(l):
    """the same 2x2 call with VNA ports 1 and 2 renamed: full 2x2 measurement matrices with rows and columns exchanged, port arguments 3 - p"""
    t = l.split()
    if t[:2] == ['cal', 'add']:
        i = t.index('m')
        nf, r, c = int(t[i + 1]), int(t[i + 2]), int(t[i + 3])
        assert (r, c) == (2, 2), l[:80]
        w = 2 * nf
        cells_ = [t[i + 4 + k * w:i + 4 + (k + 1) * w] for k in range(4)]
        args = t[i + 4 + 4 * w:]
        kind = t[3]
        npar = {'single_reflect': 1, 'double_reflect': 2, 'through': 0, 'line': 4}.get(kind)
        if kind == 'mapped':
            k = args.index('M')
            args = args[:k + 1] + [str(3 - int(x)) for x in args[k + 1:]]
        else:
            args = args[:npar] + [str(3 - int(x)) for x in args[npar:]]
        return ' '.join(t[:i + 4] + [x for cl in reversed(cells_) for x in cl] + args)
    if t[:2] == ['cal', 'apply']:
        i = t.index('m')
        nf = int(t[i + 1])
        w = 2 * nf
        b = i + 2 + nf + 2
        assert t[b - 2:b] == ['2', '2'], l[:80]
        cells_ = [t[b + k * w:b + (k + 1) * w] for k in range(4)]
        assert len(t) == b + 4 * w, l[:80]
        return ' '.join(t[:b] + [x for cl in reversed(cells_) for x in cl])
    return l


def relabel(chk, exe, rng, reps):
    """noisy over-determined data with the error model on, and the same data with the two VNA ports renamed: the second calibration
    is the first with its ports renamed.  (Every equation is weighted by its own measurement, whichever linear system it is in: in
    the 12-/14-term models renaming the ports exchanges the column systems.)"""
    for _ in range(reps * 3):
        # only where renaming is a symmetry of the least-squares problem: one linear system per column, each normalised by its own
        # term.  (The single-system types fix one term of one port to unity: with noisy data the minimiser depends on which.)
        for typ in ('UE14', 'E12'):
            seed = rng.randrange(1 << 30)
            snf, str_ = 10 ** rng.uniform(-4, -3), 10 ** rng.uniform(-2, -1.3)
            A = scenario(random.Random(seed), typ, 2, rng.choice([1, 2]), noise=(snf, str_), merr=(None, [snf], [str_]), plim=1e-300)
            # short-open-load-through determines the column systems exactly; more standards make the weights matter
            for c1, c2 in rng.sample([(calsim.SHORT, calsim.OPEN), (calsim.OPEN, calsim.SHORT), (calsim.MATCH, calsim.SHORT), (calsim.OPEN, calsim.MATCH),
                                      (calsim.SHORT, calsim.SHORT), (calsim.OPEN, calsim.OPEN)], rng.randint(2, 4)):
                A.add_double_reflect(1, 2, c1, c2)
            A.lines.append('cal new_set_et_tolerance %d %s' % (A.n, vlib.d2h(1e-11)))
            A.solve().add_calibration(b'c')
            dut = A.random_dut()
            A.noise = None
            A.lines.append(A.apply_line(0, dut))
            A.lines += ['cal free 0', 'cal live']
            Bl = [swap_ports_line(l) for l in A.lines]
            oa, ra, ea = vlib.run_lines(exe, A.lines, timeout=600)
            ob, rb, eb = vlib.run_lines(exe, Bl, timeout=600)
            chk.evaluations += 1
            tag = '%s 2x2, sigma_nf %.1e sigma_tr %.1e' % (typ, snf, str_)
            if ra != 0 or rb != 0 or len(oa) != len(A.lines) or len(ob) != len(Bl):
                chk.violation('relabel-crash', '%s: crash / sanitizer report on noisy data (ports as given / renamed):\n%s' % (tag, (ea + eb)[-1200:]), A.lines if ra else Bl)
                return
            i_solve = next(i for i, l in enumerate(A.lines) if l.startswith('cal solve'))
            if oa[i_solve].split()[0] != ob[i_solve].split()[0]:
                chk.violation('relabel-solve', '%s: the solve answers %s, with the ports renamed %s' % (tag, oa[i_solve][:40], ob[i_solve][:40]), Bl[:i_solve + 1])
                return
            if not oa[i_solve].startswith('ok'):
                chk.count('relabel_unsolved')
                continue
            ka, Sa = calsim.parse_apply(oa[-3], 2)
            kb, Sb = calsim.parse_apply(ob[-3], 2)
            if not (ka and kb):
                chk.violation('relabel-apply', '%s: apply fails (%s / %s)' % (tag, oa[-3][:50], ob[-3][:50]), Bl)
                return
            d = max(float(np.abs(Sb[f] - Sa[f][::-1, ::-1]).max()) for f in range(len(Sa)))
            if not d <= 1e-7:
                chk.violation('relabel', '%s: over-determined noisy data with the error model: renaming the two ports changes the corrected device by %.2e '
                              '(the weights or the iteration treat the linear systems differently)' % (tag, d), Bl)
                return
            chk.count('relabel_same')
            chk.distinct.add(('relabel', typ, seed))


def grids(chk, exe, rng, reps):
    for _ in range(reps):
        typ = rng.choice(list(calsim.TYPES))
        n = 2 if typ in ('T16', 'U16') else rng.choice((1, 2))
        nf = rng.randint(3, 5)
        seed = rng.randrange(1 << 30)
        f = [1e9 * (1 + 0.25 * i) for i in range(nf)]
        s0, s1 = 10 ** rng.uniform(-5, -3), 10 ** rng.uniform(-5, -3)
        t0, t1 = 10 ** rng.uniform(-4, -2), 10 ** rng.uniform(-4, -2)
        lin = lambda a, b, x: a + (b - a) * (x - f[0]) / (f[-1] - f[0])
        # (a) two points on a wider grid, (b) the same straight line given on the calibration grid, (c) one point = constant vs constant on the grid
        ga = [f[0] * 0.9, f[-1] * 1.1]
        la = lambda a, b, x: a + (b - a) * (x - ga[0]) / (ga[1] - ga[0])
        # the data carry noise well below every declared sigma: never rejected, yet inexact, so the weights shape the solution
        nz = (0.2 * min(s0, s1), 0.2 * min(t0, t1))
        A = scenario(random.Random(seed), typ, n, nf, noise=nz, merr=(ga, [s0, s1], [t0, t1]), plim=1e-6)
        B = scenario(random.Random(seed), typ, n, nf, noise=nz, merr=(f, [la(s0, s1, x) for x in f], [la(t0, t1, x) for x in f]), plim=1e-6)
        C = scenario(random.Random(seed), typ, n, nf, noise=nz, merr=(None, [s0], [t0]), plim=1e-6)
        D = scenario(random.Random(seed), typ, n, nf, noise=nz, merr=(f, [s0] * nf, [t0] * nf), plim=1e-6)
        # one value with a (documented as unused) one-point frequency vector; one value followed by a *refused* setting (grid points
        # too close together for the spline): both are the same model as C
        E = scenario(random.Random(seed), typ, n, nf, noise=nz, merr=([rng.choice(f + [f[0] * 0.1, f[-1] * 7])], [s0], [t0]), plim=1e-6)
        # (frequencies in GHz units here: the spline refuses abscissae less than 1e-4 apart)
        fu = [x / 1e9 for x in f]
        C2 = scenario(random.Random(seed), typ, n, nf, noise=nz, merr=(None, [s0], [t0]), plim=1e-6, fgrid=fu)
        F = scenario(random.Random(seed), typ, n, nf, noise=nz, merr=(None, [s0], [t0]), plim=1e-6, fgrid=fu)
        i_set = next(i for i, l in enumerate(F.lines) if l.startswith('cal new_set_m_error'))
        gbad = [fu[0] * 0.9, fu[0] * 0.9 + 5e-5, fu[-1] * 1.1]
        F.lines.insert(i_set + 1, 'cal new_set_m_error %d 3 F %s S %s T %s' % (F.n, ' '.join(vlib.d2h(x) for x in gbad), ' '.join(vlib.d2h(7 * s0) for _ in gbad), ' '.join(vlib.d2h(7 * t0) for _ in gbad)))
        F.refused_at = i_set + 1
        res = []
        for sc in (A, B, C, D, E, F, C2):
            finish(sc)
            o, rc, err = vlib.run_lines(exe, sc.lines, timeout=300)
            if rc != 0 or len(o) != len(sc.lines):
                chk.violation('grid-crash', 'crash / sanitizer report with a noise grid: %s' % err[-800:], sc.lines)
                return
            res.append(o)
        chk.evaluations += 1
        rf = res[5][F.refused_at]
        if not rf.startswith('fail EINVAL'):
            # (an accepted call is fine when the library can build the spline; then F is another model and is not compared)
            chk.count('close_grid_' + ('accepted' if rf.startswith('ok') else 'other'))
            if not rf.startswith('ok'):
                chk.violation('grid-errno', '%s %dx%d: noise grid points 1e-9 apart are refused as %s (expected EINVAL through the error function)' % (typ, n, n, rf[:50]), F.lines[:F.refused_at + 1])
                return
        pairs = [(0, 1, 'two points on a wider grid vs the same straight line on the calibration grid', A, A), (2, 3, 'one value vs the same value on the calibration grid', C, D),
                 (2, 4, 'one value vs one value with a one-point frequency vector', C, E)]
        if rf.startswith('fail'):
            pairs.append((6, 5, 'one value vs one value followed by a refused vnacal_new_set_m_error', C2, F))
        for (x, y, what, sx, sy) in pairs:
            if not (res[x][sx.i_solve].startswith('ok') and res[y][sy.i_solve].startswith('ok')):
                bad_ = sy if res[x][sx.i_solve].startswith('ok') else sx
                chk.violation('grid-refused', '%s %dx%d (%s): a solve with a noise model fails: %s / %s' % (typ, n, n, what, res[x][sx.i_solve][:50], res[y][sy.i_solve][:50]), bad_.lines[:bad_.i_solve + 1])
                return
            Sx = calsim.parse_apply(res[x][sx.i_apply], n)[1]
            Sy = calsim.parse_apply(res[y][sy.i_apply], n)[1]
            d = max(np.abs(p - q).max() for p, q in zip(Sx, Sy))
            if d > 1e-9:
                chk.violation('grid', '%s %dx%d: %s give calibrations that differ by %.3e' % (typ, n, n, what, d), sy.lines[:sy.i_apply + 1])
                return
        chk.count('grids_same')
        chk.distinct.add(('grid', typ, n, seed))


def pvalue_correspondence(chk, exe, rng, broken, count):
    lines = []
    for _ in range(count):
        n = 2 * rng.randint(1, 40)
        x2 = rng.choice([0.0, rng.uniform(0, 5), rng.uniform(0, 200), 10 ** rng.uniform(-8, 3)])
        lines.append('num pvalue %d %s' % (n, vlib.d2h(x2)))
    cout, crc, cerr = vlib.run_lines(exe, lines)
    mout, mrc, merr = vlib.run_lines(vlib.model_exe(), lines)
    if crc != 0 or mrc != 0 or len(cout) != len(lines) or len(mout) != len(lines):
        broken.append('correspondence (p-value): harness rc=%s model rc=%s %s' % (crc, mrc, (cerr or merr)[-300:]))
        return
    nm = 0
    for l, c, m in zip(lines, cout, mout):
        if not vlib.same_line(c, m, 1e-12):
            nm += 1
            if nm <= 3:
                broken.append('correspondence: chisq_pvalue and the model differ on `%s`: C %s, model %s' % (l, c, m))
        else:
            chk.count('pvalue_same')
    chk.extra['pvalue_mismatches'] = nm
    # the whole range a calibration can reach: many excess equations (hundreds of standards) and statistics from consistent to grossly
    # inconsistent.  The p-value is a probability (never NaN, never above 1), it is the chi-square survival function to rounding (to 1e-30 absolutely: below
    # that no limit a user can set tells values apart), and it is below any limit a user can set when the statistic is far out
    from scipy import stats
    ext = []
    for _ in range(count):
        n = 2 * rng.choice([rng.randint(1, 40), rng.randint(40, 400), rng.randint(400, 3000)])
        x2 = rng.choice([n * rng.uniform(0.5, 1.5), n + rng.uniform(-3, 6) * (2 * n) ** 0.5, n + 10 ** rng.uniform(1, 5), 10 ** rng.uniform(2, 5), rng.uniform(1400, 1600)])
        ext.append((n, max(0.0, x2)))
    ext += [(2 * k, x) for k in (1, 20, 100, 160, 400, 800) for x in (1490.0, 1500.0, 5400.0, 1e4, 1e5)]
    el = ['num pvalue %d %s' % (n, vlib.d2h(x2)) for n, x2 in ext]
    eo, erc, eerr = vlib.run_lines(exe, el)
    if erc != 0 or len(eo) != len(el):
        chk.violation('sanitizer-pvalue', 'chisq_pvalue crashed: %s' % eerr[-600:], el[:len(eo) + 1][-1:])
        return
    for (n, x2), l, o in zip(ext, el, eo):
        chk.evaluations += 1
        p = vlib.h2d(o.split()[1]) if o.startswith('ok') else float('nan')
        want = float(stats.chi2.sf(x2, n))
        if not (0.0 <= p <= 1.0 + 1e-12) or not abs(p - want) <= 1e-9 * want + 1e-30:
            chk.violation('pvalue-range', 'chisq_pvalue(%d degrees of freedom, statistic %.6g) = %r; the chi-square survival function is %.6g (a value that is not a number '
                          'passes every `p < limit` test: grossly inconsistent data would be accepted)' % (n, x2, p, want), [l])
            return
        chk.count('pvalue_survival_ok')
        chk.distinct.add(('pvalue', n, x2))


def many_standards(chk, exe, rng):
    """a one-port calibration from 200 known reflects (197 excess equations): with noise of the declared size it is accepted, with one
    standard off by 100 standard deviations it is rejected — the more redundant a calibration is, the better it is checked"""
    for gross in (None, 7, None, 150):
        r2 = random.Random(rng.randrange(1 << 30))
        sc = NoisySc(r2, 'T8', 1, 1, 1, form='m')
        sc.noise, sc.gross = (1e-3, 0.0), gross
        sc.begin()
        sc.lines.append('cal new_set_m_error %d 1 N S %s N' % (sc.n, vlib.d2h(1e-3)))
        sc.lines.append('cal new_set_pvalue_limit %d %s' % (sc.n, vlib.d2h(0.001)))
        for k in range(200):
            g = calsim.rc(r2, 0.6)
            sc.lines.append('cal make_scalar %d %s' % (sc.c, vlib.c2h(g)))
            sc.add_reflect(1, 0, gamma=(3 + k, g))
        sc.solve()
        isolve = len(sc.lines) - 1
        sc.lines += ['cal free 0', 'cal live']
        out, rc, err = vlib.run_lines(exe, sc.lines, timeout=600)
        chk.evaluations += 1
        if rc != 0 or len(out) != len(sc.lines):
            chk.violation('sanitizer-many', 'one-port calibration from 200 reflects: crash / sanitizer report:\n%s' % err[-1200:], sc.lines[:len(out) + 1])
            return
        ok = out[isolve].startswith('ok')
        if gross is not None and ok:
            chk.violation('gross-many', 'one-port calibration from 200 known reflects, standard %d off by 100 standard deviations: accepted' % gross, sc.lines[:isolve + 1])
            return
        if gross is not None and 'EDOM' not in out[isolve]:
            chk.violation('gross-many-errno', 'inconsistent data rejected with %s instead of EDOM' % out[isolve][:40], sc.lines[:isolve + 1])
            return
        chk.count('many_standards_' + ('gross_rejected' if gross is not None else ('accepted' if ok else 'noise_rejected')))


def replay(chk, path):
    from props import c01
    return c01.replay(chk, path)
