"""Reader for the .vnacal files written by vnacal_save and the documented M/S equations of the error terms.

Independent of the library: a small line-oriented reader for the subset of YAML that vnacal_save emits
(flow sequences of `re imj` numbers and `~`), and numpy evaluation of the error-term equations of
vnacal_new(3)/vnacal_layout.h for every type, square or rectangular.
"""
import re
import numpy as np

_R = r'(?:0[xX][0-9a-fA-F]*\.?[0-9a-fA-F]*(?:[pP][+-]?\d+)?|\d+\.?\d*(?:[eE][+-]?\d+)?|inf|nan)'
NUM = re.compile(r'([+-]?' + _R + r')\s*([+-]' + _R + r')j')


def fnum(t):
    """decimal or C99 hexadecimal floating point"""
    t = t.strip()
    if re.match(r'^[+-]?0[xX]', t):
        return float.fromhex(t)
    return float(t)


def parse_item(t):
    t = t.strip()
    if t in ('~', 'null', ''):
        return None
    m = NUM.fullmatch(t)
    if m:
        return complex(fnum(m.group(1)), fnum(m.group(2)))
    try:
        return fnum(t)
    except ValueError:
        return t


def parse_flow(s):
    s = s.strip()
    assert s.startswith('[') and s.endswith(']'), s
    return [parse_item(x) for x in s[1:-1].split(',')]


def parse_render(s):
    """parse the canonical rendering produced by the harness op `pt <r> yamltree` into python objects:
    mapping -> list of (key, value) pairs, sequence -> list, scalar -> (bytes, plain?)"""
    pos = 0

    def node():
        nonlocal pos
        c = s[pos]
        if c == 'S':
            plain = s[pos + 1] == 'p'
            j = pos + 2
            while j < len(s) and s[j] in '0123456789abcdef':
                j += 1
            v = bytes.fromhex(s[pos + 2:j])
            pos = j
            return ('S', v, plain)
        if c == 'M':
            pos += 2
            items = []
            while s[pos] != '}':
                k = node()
                assert s[pos] == ':'
                pos += 1
                v = node()
                items.append((k, v))
                if s[pos] == ',':
                    pos += 1
            pos += 1
            return ('M', items)
        if c == 'Q':
            pos += 2
            items = []
            while s[pos] != ']':
                items.append(node())
                if s[pos] == ',':
                    pos += 1
            pos += 1
            return ('Q', items)
        raise ValueError('bad rendering at %d: %r' % (pos, s[pos:pos + 20]))
    return node()


class RawText(bytes):
    pass


def to_py(n):
    if n[0] == 'S':
        if n[2] and n[1] in (b'~', b'null'):
            return None
        return parse_item(n[1].decode('utf-8', 'replace'))
    if n[0] == 'M':
        # names and property values are text whatever they look like
        return {k[1].decode('utf-8', 'replace'): (RawText(v[1]) if (k[1] == b'name' and v[0] == 'S') else to_py(v)) for k, v in n[1]}
    return [to_py(x) for x in n[1]]


def load(path, exe=None):
    """read a .vnacal file through libyaml (harness op yamltree) ->
    list of calibrations: dict(name,type,rows,columns,frequencies,z0,data=[dict(f=..., <matrix> = list of rows)])"""
    import vlib
    exe = exe or vlib.build_c()[0]
    text = open(path, 'rb').read()
    out, rc, err = vlib.run_lines(exe, ['pt 0 yamltree ' + vlib.hexbytes(text)])
    if rc != 0 or not out or not out[0].startswith('ok '):
        raise ValueError('cannot parse %s: %s %s' % (path, out[:1], err[-200:]))
    doc = to_py(parse_render(out[0][3:]))
    cals = []
    for c in doc.get('calibrations') or []:
        cur = dict(c)
        data = []
        for d in c.get('data') or []:
            dd = {}
            for k, v in d.items():
                if k == 'f':
                    dd['f'] = fnum(v) if isinstance(v, str) else float(v)
                elif isinstance(v, list):
                    dd[k] = v if (v and isinstance(v[0], list)) else [v]
            data.append(dd)
        cur['data'] = data
        cals.append(cur)
    return cals


def A(rows, fill=0):
    return np.array([[fill if x is None else x for x in r] for r in rows], complex)


def diag_rect(v, nr, nc):
    D = np.zeros((nr, nc), complex)
    for i, x in enumerate(v[:min(nr, nc)]):
        D[i, i] = x
    return D


def residual(cal, findex, S, M):
    """relative residual of the documented error-term equation for a standard / DUT with full S (p x p)
    whose measurement is M (rows x cols) at frequency index findex"""
    t = cal['type']
    r, c = int(cal['rows']), int(cal['columns'])
    p = max(r, c)
    d = cal['data'][findex]
    S = np.asarray(S, complex).reshape(p, p)
    M = np.asarray(M, complex).reshape(r, c)
    El = np.zeros((r, c), complex)
    if 'el' in d and t != 'E12':
        El = A(d['el'])
    if t in ('T8', 'TE10'):
        Ts, Ti = diag_rect(d['ts'][0], r, p), diag_rect(d['ti'][0], r, p)
        Tx, Tm = diag_rect(d['tx'][0], c, p), diag_rect(d['tm'][0], c, p)
        lhs, rhs = (M - El) @ (Tx @ S + Tm), Ts @ S + Ti
    elif t == 'T16':
        Ts, Ti, Tx, Tm = A(d['ts']), A(d['ti']), A(d['tx']), A(d['tm'])
        lhs, rhs = M @ (Tx @ S + Tm), Ts @ S + Ti
    elif t in ('U8', 'UE10'):
        Um, Ui = diag_rect(d['um'][0], p, r), diag_rect(d['ui'][0], p, c)
        Ux, Us = diag_rect(d['ux'][0], p, r), diag_rect(d['us'][0], p, c)
        lhs, rhs = (Um - S @ Ux) @ (M - El), S @ Us - Ui
    elif t == 'U16':
        Um, Ui, Ux, Us = A(d['um']), A(d['ui']), A(d['ux']), A(d['us'])
        lhs, rhs = (Um - S @ Ux) @ M, S @ Us - Ui
    elif t == 'UE14':
        lhs = np.zeros((p, c), complex)
        rhs = np.zeros((p, c), complex)
        um, ux = A(d['um']), A(d['ux'])          # saved as [term][system]
        for k in range(c):
            Um, Ux = diag_rect(list(um[:, k]), p, r), diag_rect(list(ux[:, k]), p, r)
            ui, us = d['ui'][0][k], d['us'][0][k]
            e = np.zeros(p, complex)
            e[k] = 1
            lhs[:, k] = (Um - S @ Ux) @ (M - El)[:, k]
            rhs[:, k] = S[:, k] * us - e * ui
    elif t == 'E12':
        el, er, em = A(d['el']), A(d['er']), A(d['em'])
        lhs = M.copy()
        rhs = np.zeros((r, c), complex)
        for k in range(c):
            Er, Em = diag_rect(list(er[:, k]), r, p), diag_rect(list(em[:, k]), p, p)
            rhs[:, k] = el[:, k] + Er @ np.linalg.solve(np.eye(p) - S @ Em, S[:, k])
    else:
        raise ValueError(t)
    scale = max(np.abs(lhs).max(), np.abs(rhs).max(), 1e-300)
    return float(np.abs(lhs - rhs).max() / scale)
