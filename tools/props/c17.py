"""C17 — equivalent ways of describing the same calibration give the same result.

Proof side : Libvna.Props.C01/C17 — scaling invariance of the solved terms, a/b column scaling, apply depends on
             the terms only through the equation they satisfy.
Oracle     : metamorphic pairs built on the same E-network and DUT; the two applied S matrices must agree
             (and equal the DUT).
"""
import cmath, os, random
import numpy as np
import vlib
from props import calsim, c15

THEOREMS = ['Libvna.Cal.' + t for t in ('applyT_scale_invariant', 'applyT_inverts', 'applyU_inverts', 'ab_column_scaling', 'applyT_eq_of_both_satisfy')] + [
    'Libvna.Order.normal_perm', 'Libvna.Order.ls_row_order', 'Libvna.Order.ls_unique', 'Libvna.Order.order_independent', 'Libvna.QRLoop.qrsolve_order_independent']
FILES = ['Props/C01.lean', 'Props/C17.lean', 'Props/C17Order.lean', 'Props/C19QR.lean', 'Model/LinAlg.lean']


class VecSc(calsim.Scenario):
    """short and open are kit models: vector parameters of the vnacal_t, tabulated on a grid of their own (handles in `vec`)"""
    vec = None

    def add_reflect(self, port, code, gamma=None, abbreviated=False):
        if gamma is None and self.vec and code in self.vec:
            h_, fn = self.vec[code]
            gamma = (h_, lambda fi, fn=fn: fn(self.fvec[fi]))
        return super().add_reflect(port, code, gamma, abbreviated)


def kit_vectors(rng, c, fmin, fmax):
    """(lines that create the two kit vectors in vnacal_t c as handles 3 and 4, {code: (handle, model)}): offset short and offset open on a
    grid of ten points that the calibration frequencies lie between"""
    step = (fmax * 1.9 - fmin * 0.3) / 9
    g0 = fmin * 0.3 + rng.uniform(-0.3, 0.3) * step
    grid = [max(g0, fmin * 0.05) + k * step for k in range(10)]
    a, b = rng.uniform(0.3, 0.9), rng.uniform(0.3, 0.9)
    ms = lambda f: -0.98 * cmath.exp(-2j * a * f / fmin)
    mo = lambda f: 0.97 * cmath.exp(-2j * b * f / fmin)
    L = ['cal make_vector %d 10 %s %s' % (c, ' '.join(vlib.d2h(f) for f in grid), ' '.join(vlib.c2h(m(f)) for f in grid)) for m in (ms, mo)]
    return L, {calsim.SHORT: (3, ms), calsim.OPEN: (4, mo)}


def pair_lines(rng, typ, n, nf, form, kind):
    """returns (lines, [(index of apply line A, index of apply line B, dutA, dutB, perm)])"""
    if kind in ('unrelated_kit', 'freq_split_kit'):
        return kit_pair_lines(rng, typ, n, max(nf, 2), form, kind)
    box = calsim.ErrorBox(rng, typ, n, n, nf)
    A = calsim.Scenario(rng, typ, n, n, nf, form=form, slot_c=0, slot_n=0, box=box).begin()
    B = calsim.Scenario(rng, typ, n, n, nf, form=form, slot_c=1, slot_n=1, box=box)
    B.others = A.others
    B.begin()
    dut = A.random_dut()
    perm = None
    if kind == 'through_forms':
        A.solt()
        B.solt()
        nl = []
        for l in B.lines:
            w = l.split()
            if len(w) > 3 and w[3] == 'through':
                p1, p2 = w[-2], w[-1]
                body = ' '.join(w[4:-2])
                if rng.random() < 0.5:
                    l = 'cal add %s line %s 0 1 1 0 %s %s' % (w[2], body, p1, p2)
                else:
                    l = 'cal add %s mapped %s 2 2 0 1 1 0 M %s %s' % (w[2], body, p1, p2)
            nl.append(l)
        B.lines = nl
    elif kind == 'abbreviated':
        if typ in ('T16', 'U16'):
            return None
        A.solt()
        leak = typ in ('TE10', 'UE10', 'UE14', 'E12')
        # leakage types need every off-diagonal cell measured without a signal path: either one full matrix per port (the match), or
        # - everything abbreviated - a double reflect per pair of ports, whose 2x2 matrix holds the two cells of that pair
        by_pairs = leak and n >= 2 and rng.random() < 0.6
        if by_pairs:
            pairs_ = [(i, j, rng.choice([calsim.SHORT, calsim.OPEN]), rng.choice([calsim.OPEN, calsim.MATCH])) for i in range(1, n + 1) for j in range(i + 1, n + 1)]
            for (i, j, c1, c2) in pairs_:
                A.add_double_reflect(i, j, c1, c2)
        # same standards, abbreviated matrices
        for port in range(1, n + 1):
            for code in (calsim.SHORT, calsim.OPEN, calsim.MATCH):
                ab = 'both'
                if code == calsim.MATCH and leak and not by_pairs:
                    ab = 'full'
                B.add_reflect(port, code, abbreviated=ab)
        if by_pairs:
            for (i, j, c1, c2) in pairs_:
                modes = [m for m in ('both',) if B.abbrev_sel([i, j], m) is not None]
                B.add_double_reflect(i, j, c1, c2, abbreviated=modes[0] if modes else 'full')
        for i in range(1, n + 1):
            for j in range(i + 1, n + 1):
                # either port order, abbreviated in rows, columns or both (whatever the type's shape rules accept)
                p1, p2 = (i, j) if rng.random() < 0.5 else (j, i)
                modes = [m for m in ('both', 'rows', 'cols') if B.abbrev_sel([p1, p2], m) is not None]
                B.add_through(p1, p2, as_kind=rng.choice(['through', 'line', 'mapped']), abbreviated=rng.choice(modes) if modes else 'full')
    elif kind == 'double_forms':
        # two different reflects on a pair of ports: double reflect in ascending port order on one side; on the other the ports the
        # other way round, or a line with zero transmission, or a mapped 2x2 matrix, in either port order
        if n < 2:
            return None
        A.solt()
        B.solt()
        for i in range(1, n + 1):
            for j in range(i + 1, n + 1):
                for _ in range(2):
                    c1, c2 = rng.sample([calsim.SHORT, calsim.OPEN, calsim.MATCH], 2)
                    A.add_double_reflect(i, j, c1, c2)
                    how = rng.choice(['double', 'double', 'line', 'mapped'])
                    if how == 'double' or rng.random() < 0.6:
                        B.add_double_reflect(j, i, c2, c1, as_kind=how)
                    else:
                        B.add_double_reflect(i, j, c1, c2, as_kind=how)
    elif kind == 'order':
        A.solt()
        B.solt()
        head, adds = B.lines[:3], B.lines[3:]
        rng.shuffle(adds)
        B.lines = head + adds
    elif kind == 'ab_scaling':
        if form != 'ab':
            return None
        A.solt()
        B.solt()
        # B's a/b readings are A's multiplied column-wise by common factors: done by regenerating B from A's text
        newl = []
        for l in A.lines[3:]:
            newl.append(scale_ab_line(rng, l, typ).replace('cal add 0 ', 'cal add 1 ', 1))
        B.lines = B.lines[:3] + newl
    elif kind == 'unrelated':
        A.solt()
        B.lines = []
        B = calsim.Scenario(rng, typ, n, n, nf, form=form, slot_c=0, slot_n=1, box=box)
        B.others = A.others
        B.begin(create=False)
        # an unrelated calibration of another type in the same vnacal_t, added first
        other = calsim.Scenario(rng, 'T8' if typ != 'T8' else 'U8', 1, 1, 1, slot_c=0, slot_n=2).begin(create=False).solt().solve()
        other.lines.append('cal add_calibration 0 %s 2' % vlib.hexbytes(b'other'))
        B.lines = other.lines + B.lines
        B.solt()
    elif kind == 'many_params':
        # the same standards - two known two-ports (eight scalar parameters), reflect pairs entered as lines with explicit zeros, a
        # through - in a fresh vnacal_t and in one that already holds other parameters (every handle is shifted)
        if n != 2:
            return None
        twoports = [[[calsim.rc(rng, 0.4), calsim.rc(rng, 0.4) + 0.5], [calsim.rc(rng, 0.4) + 0.5, calsim.rc(rng, 0.4)]] for _ in range(2)]
        pairs_ = [(calsim.SHORT, calsim.OPEN), (calsim.OPEN, calsim.MATCH), (calsim.MATCH, calsim.SHORT), (calsim.SHORT, calsim.SHORT)]
        order = list(range(len(twoports) + len(pairs_) + 1))
        rng.shuffle(order)
        for sc_, shift in ((A, 0), (B, rng.choice([5, 8, 13, 21]))):
            for _ in range(shift):
                sc_.lines.append('cal make_scalar %d %s' % (sc_.c, vlib.c2h(calsim.rc(rng, 0.5) + 3.0)))
            hbase = 3 + shift
            hs = []
            for S2 in twoports:
                for a_ in (0, 1):
                    for b_ in (0, 1):
                        sc_.lines.append('cal make_scalar %d %s' % (sc_.c, vlib.c2h(S2[a_][b_])))
                hs.append((hbase, hbase + 1, hbase + 2, hbase + 3))
                hbase += 4
            for k in order:
                if k < len(twoports):
                    sc_.add_line_handles(1, 2, hs[k], [twoports[k]] * nf)
                elif k < len(twoports) + len(pairs_):
                    c1, c2 = pairs_[k - len(twoports)]
                    sc_.add_line_handles(1, 2, (c1, 0, 0, c2), [[[calsim.GAMMA[c1], 0], [0, calsim.GAMMA[c2]]]] * nf)
                else:
                    sc_.add_through(1, 2)
    elif kind == 'e12_ue14':
        if typ != 'E12':
            return None
        A.solt()
        B = calsim.Scenario(rng, 'UE14', n, n, nf, form=form, slot_c=1, slot_n=1, box=box)
        B.others = A.others
        B.begin().solt()
    elif kind == 'renumber':
        if n < 2:
            return None
        A.solt()
        perm = list(range(n))
        rng.shuffle(perm)
        B.box = permute_box(box, perm)
        B.others = [A.others[perm.index(q)] if False else A.others[q] for q in range(n)]
        B.others = [A.others[perm[q]] for q in range(n)]
        B.solt()
    elif kind == 'freq_split':
        if nf < 2:
            nf = 2
            return pair_lines(rng, typ, n, 2, form, kind)
        import copy
        A.solt().solve().add_calibration(b'A')
        lines = list(A.lines)
        ia = len(lines)
        lines.append(A.apply_line(0, dut))
        ibs = []
        for f in range(nf):
            bf = copy.copy(box)
            bf.boxes, bf.nf = [box.boxes[f]], 1
            Bf = calsim.Scenario(rng, typ, n, n, 1, form=form, slot_c=0, slot_n=1 + f, fvec=[A.fvec[f]], box=bf)
            Bf.others = A.others
            Bf.begin(create=False).solt().solve().add_calibration(b'B%d' % f)
            lines += Bf.lines
            ibs.append(len(lines))
            lines.append(Bf.apply_line(1 + f, [dut[f]]))
        lines += ['cal free 0', 'cal live']
        return lines, ia, ibs, dut, dut, n
    else:
        raise KeyError(kind)
    A.solve().add_calibration(b'A')
    B.solve().add_calibration(b'B')
    lines = A.lines + B.lines
    ia = len(lines)
    lines.append(A.apply_line(0, dut))
    ib = len(lines)
    ciB = 2 if kind == 'unrelated' else 0
    if perm is None:
        dutB = dut
    else:
        P = np.eye(n)[perm]
        dutB = [P @ d @ P.T for d in dut]
    lines.append(B.apply_line(ciB, dutB))
    if kind == 'ab_scaling':
        # the device's readings too: a common factor of any size (reference level of the receivers)
        lines[-1] = scale_apply_line(lines[-1], complex(rng.uniform(0.5, 2), rng.uniform(-1, 1)) * 10.0 ** rng.choice([-9, -7, -5, -3, 0, 3, 6, 9]))
    lines += ['cal free 0'] + (['cal free 1'] if kind != 'unrelated' else []) + ['cal live']
    return lines, ia, ib, dut, dutB, n


def kit_pair_lines(rng, typ, n, nf, form, kind):
    """the same two transformations with frequency-dependent kit standards shared inside one vnacal_t: what a standard evaluates to must
    not depend on what was evaluated before (another calibration on a higher band, the higher frequencies of the same calibration)"""
    import copy
    box = calsim.ErrorBox(rng, typ, n, n, nf)
    A = VecSc(rng, typ, n, n, nf, form=form, slot_c=0, slot_n=0, box=box)
    L, vec = kit_vectors(rng, 0, A.fvec[0], A.fvec[-1])
    A.begin()
    A.lines += L
    A.vec = vec
    dut = A.random_dut()
    A.solt().solve().add_calibration(b'A')
    lines = list(A.lines)
    if kind == 'unrelated_kit':
        # another calibration with the same kit on a higher band, then the first data again
        hi = A.fvec[-1] * rng.uniform(1.3, 1.7)
        O = VecSc(rng, 'T8' if typ != 'T8' else 'U8', 1, 1, 1, slot_c=0, slot_n=2, fvec=[hi])
        O.vec = vec
        O.begin(create=False).solt().solve().add_calibration(b'other')
        B = VecSc(rng, typ, n, n, nf, form=form, slot_c=0, slot_n=1, box=box)
        B.others, B.vec = A.others, vec
        B.begin(create=False).solt().solve().add_calibration(b'B')
        lines += O.lines + B.lines
        ia = len(lines)
        lines.append(A.apply_line(0, dut))
        ib = len(lines)
        lines.append(B.apply_line(2, dut))
        lines += ['cal free 0', 'cal live']
        return lines, ia, ib, dut, dut, n
    ia = len(lines)
    lines.append(A.apply_line(0, dut))
    ibs = []
    for f in range(nf):
        bf = copy.copy(box)
        bf.boxes, bf.nf = [box.boxes[f]], 1
        Bf = VecSc(rng, typ, n, n, 1, form=form, slot_c=0, slot_n=1 + f, fvec=[A.fvec[f]], box=bf)
        Bf.others, Bf.vec = A.others, vec
        Bf.begin(create=False).solt().solve().add_calibration(b'B%d' % f)
        lines += Bf.lines
        ibs.append(len(lines))
        lines.append(Bf.apply_line(1 + f, [dut[f]]))
    lines += ['cal free 0', 'cal live']
    return lines, ia, ibs, dut, dut, n


def permute_box(box, perm):
    import copy
    nb = copy.copy(box)
    P = np.eye(box.p)[perm]
    nb.boxes = []
    for f in range(box.nf):
        sysl = []
        if len(box.boxes[f]) == 1:
            El, Er, Et, Em = box.boxes[f][0]
            sysl.append(tuple(P @ X @ P.T for X in (El, Er, Et, Em)))
        else:
            # per-column systems: column c of the renumbered VNA is column perm[c] of the original
            for c in range(box.cols):
                El, Er, Et, Em = box.boxes[f][perm[c]]
                sysl.append(tuple(P @ X @ P.T for X in (El, Er, Et, Em)))
        nb.boxes.append(sysl)
    return nb


def scale_ab_line(rng, line, typ):
    """multiply the a and b readings of an `ab` standard column-wise by common random factors"""
    w = line.split()
    if w[4] != 'ab':
        return line
    nf = int(w[5])
    pos = 6
    ar, ac = int(w[pos]), int(w[pos + 1])
    a0 = pos + 2
    na = ar * ac * nf * 2
    br, bc = int(w[a0 + na]), int(w[a0 + na + 1])
    b0 = a0 + na + 2
    nb = br * bc * nf * 2
    fac = [[complex(rng.uniform(0.5, 2), rng.uniform(-1, 1)) for _ in range(nf)] for _ in range(max(ac, bc))]

    def scale(start, rows, cols):
        for r in range(rows):
            for c in range(cols):
                for f in range(nf):
                    k = start + ((r * cols + c) * nf + f) * 2
                    z = complex(vlib.h2d(w[k]), vlib.h2d(w[k + 1])) * fac[c][f]
                    w[k], w[k + 1] = vlib.d2h(z.real), vlib.d2h(z.imag)
    scale(a0, ar, ac)
    scale(b0, br, bc)
    return ' '.join(w)


def scale_apply_line(line, c):
    """multiply the a and b readings of an `ab` apply line by the common factor c"""
    w = line.split()
    if w[4] != 'ab':
        return line
    nf = int(w[5])
    pos = 6 + nf
    for _ in range(2):
        r, k = int(w[pos]), int(w[pos + 1])
        pos += 2
        for i in range(r * k * nf):
            z = complex(vlib.h2d(w[pos]), vlib.h2d(w[pos + 1])) * c
            w[pos], w[pos + 1] = vlib.d2h(z.real), vlib.d2h(z.imag)
            pos += 2
    assert pos == len(w), line[:80]
    return ' '.join(w)


KINDS = ['through_forms', 'abbreviated', 'double_forms', 'order', 'ab_scaling', 'unrelated', 'e12_ue14', 'renumber', 'freq_split', 'unrelated_kit', 'freq_split_kit', 'many_params']


def perturb_add(rng, line, size):
    """the `cal add` line with every measured value moved by a complex amount of the given size (m form only)"""
    w = line.split()
    i = w.index('m')
    nf, r, c = int(w[i + 1]), int(w[i + 2]), int(w[i + 3])
    k = i + 4
    for q in range(nf * r * c):
        v = vlib.hs2c(w[k + 2 * q:k + 2 * q + 2])[0] + size * complex(rng.gauss(0, 1), rng.gauss(0, 1))
        w[k + 2 * q:k + 2 * q + 2] = vlib.c2h(v).split()
    return ' '.join(w)


def order_noisy(chk, exe, rng, reps):
    """measurements that do not fit the error model exactly (every value off by about 1e-3), the same standards added in another order:
    the least-squares problem is the same, so are the solved parameters and the corrected device — for the analytic TRL solution to
    rounding, for the iterated ones to the parameter tolerance"""
    from props import c02
    for rep in range(reps):
        for kind, typ in (('trl', 'T8'), ('trl', 'U8'), ('trl', 'TE10'), ('trl', 'UE10'), ('trla', 'T8'), ('trla', 'UE10'), ('solr', 'U8'), ('solr', 'E12'), ('extra2', 'UE14'), ('extra2', 'TE10')):
            seed = rng.randrange(1 << 30)
            sc = c02.build(random.Random(seed), kind, typ, 1, 'm')
            r2 = random.Random(seed + 1)
            base = [perturb_add(r2, l, 1e-3) if l.startswith('cal add ') else l for l in sc.lines]
            first_add = next(i for i, l in enumerate(base) if l.startswith('cal add '))
            last_add = max(i for i, l in enumerate(base) if l.startswith('cal add '))
            mid = base[first_add:last_add + 1]
            makes = [l for l in mid if not l.startswith('cal add ')]
            adds = [l for l in mid if l.startswith('cal add ')]
            res = []
            orders = [list(adds), list(reversed(adds))] + [r2.sample(adds, len(adds)) for _ in range(2)]
            for od in orders:
                lines = base[:first_add] + makes + od + base[last_add + 1:]
                shift = len(lines) - len(base)
                assert shift == 0
                o, rc, err = vlib.run_lines(exe, lines, timeout=300)
                chk.evaluations += 1
                tag = '%s %s 2x2 with measurements off by 1e-3' % (kind, typ)
                if rc != 0 or len(o) != len(lines):
                    chk.violation('sanitizer-order', '%s: crash / sanitizer report:\n%s' % (tag, err[-1200:]), lines[:len(o) + 1])
                    return
                solved = o[sc.i_solve].startswith('ok')
                vals = [vlib.hs2c(o[i].split()[-2:])[0] for idx in sc.i_vals.values() for i in idx] if solved else None
                S = calsim.parse_apply(o[sc.i_apply], sc.p)[1] if solved else None
                res.append((solved, vals, S, lines))
            if len(set(r[0] for r in res)) > 1:
                bad = next(r for r in res if not r[0])
                chk.violation('order-refused', '%s: the solve succeeds with the standards in one order and fails in another' % tag, bad[3][:sc.i_solve + 1])
                return
            if not res[0][0]:
                chk.count('order_noisy_unsolved')
                continue
            tol = 1e-9 if kind == 'trl' and typ in ('T8', 'U8') else 2e-5
            for (_, vals, S, lines) in res[1:]:
                dv = max([abs(a - b) for a, b in zip(vals, res[0][1])] + [0.0])
                ds = max(float(np.abs(a - b).max()) for a, b in zip(S, res[0][2]))
                if not (dv <= tol and ds <= tol):
                    chk.violation('order-noisy', '%s: the same standards in another order give solved parameters that differ by %.3e and a corrected device that differs by %.3e (limit %.0e)' % (
                        tag, dv, ds, tol), ['# order A'] + res[0][3][:sc.i_apply + 1] + ['cal free 0', '# order B'] + lines[:sc.i_apply + 1])
                    return
            chk.count('order_noisy_ok')
            chk.distinct.add(('order-noisy', kind, typ, seed))


def run(chk):
    rng = random.Random(chk.seed * 43 + 17)
    broken = []
    c15.proof_side(chk, ['Libvna.Props.C17', 'Libvna.Props.C17Order'], THEOREMS, FILES, broken)
    chk.trusted += ['tools/props/calsim.py ground truth; rounding tolerance 1e-8']
    chk.checker_cmd = 'cd lean && lake build Libvna.Props.C17 Libvna.Props.C17Order && #print axioms'
    exe, _ = vlib.build_c()
    quick = chk.tier == 'quick'
    cases = []
    reps = (1 if quick else 8) * (3 if broken else 1)
    for _ in range(reps):
        for kind in KINDS:
            for typ in calsim.TYPES:
                for n in (([1, 2, 3] if kind in ('abbreviated', 'through_forms', 'double_forms', 'renumber') else [1, 2]) if quick else [1, 2, 3, 4]):
                    if quick and typ in ('T16', 'U16') and n > 2:
                        continue
                    form = rng.choice(['m', 'ab']) if kind != 'ab_scaling' else 'ab'
                    r = pair_lines(rng, typ, n, rng.randint(1, 2), form, kind)
                    if r:
                        cases.append((kind, typ, n, form) + r)
    alll = [l for c in cases for l in c[4]]
    out, rc, err = vlib.run_lines(exe, alll, timeout=1800)
    if rc != 0 or len(out) != len(alll):
        pos, k = 0, min(len(out), len(alll) - 1)
        for c in cases:
            if pos <= k < pos + len(c[4]):
                chk.violation('sanitizer', 'library crashed / sanitizer fired in a %s pair (%s %dx%d): %s' % (c[0], c[1], c[2], c[2], err[-1200:]), c[4])
                break
            pos += len(c[4])
        return
    chk.rule = 'metamorphic pairs (%s) on every type, dimension 1..%d, m and a/b; same E-network and device on both sides' % (', '.join(KINDS), 3 if quick else 4)
    pos = 0
    for (kind, typ, n, form, lines, ia, ib, dut, dutB, nn) in cases:
        o = out[pos:pos + len(lines)]
        pos += len(lines)
        chk.evaluations += 1
        tag = '%s %s %dx%d %s' % (kind, typ, n, n, form)
        bad = [(l, x) for l, x in zip(lines, o) if not x.startswith('ok')]
        if bad:
            chk.violation('refused-' + kind, '%s: a step failed: `%s` -> %s' % (tag, bad[0][0][:90], bad[0][1][:120]), lines[:lines.index(bad[0][0]) + 1])
            continue
        okA, SA = calsim.parse_apply(o[ia], n)
        if isinstance(ib, list):
            SB = [calsim.parse_apply(o[k], n)[1][0] for k in ib]
            ib = ib[-1]
        else:
            okB, SB = calsim.parse_apply(o[ib], n)
        eA = max(np.abs(SA[f] - dut[f]).max() for f in range(len(dut)))
        eB = max(np.abs(SB[f] - dutB[f]).max() for f in range(len(dut)))
        if kind.endswith('_kit'):
            # the kit values are interpolated (both sides alike): compared with each other to rounding, with the truth loosely
            eAB = max(np.abs(SA[f] - SB[f]).max() for f in range(len(dut)))
            if not (eAB <= 1e-9 and eA <= 1e-2 and eB <= 1e-2):
                chk.violation('pair-' + kind, '%s: the two descriptions differ by %.3e in the corrected S (errors vs truth %.3e and %.3e): the value of a '
                              'frequency-dependent standard depends on what was evaluated before' % (tag, eAB, eA, eB), lines[:ib + 1])
                continue
        elif not (eA <= 1e-8 and eB <= 1e-8):
            chk.violation('pair-' + kind, '%s: the two descriptions do not give the same corrected S (errors vs truth %.3e and %.3e)' % (tag, eA, eB), lines[:ib + 1])
            continue
        chk.count('ok_' + kind)
        chk.distinct.add(tag + str(pos))
    if not chk.violations:
        order_noisy(chk, exe, rng, (1 if quick else 10) * (3 if broken else 1))
    chk.samples = [cases[0][4][:3], cases[-1][4][-4][:200]]
    if broken and not chk.violations:
        chk.violation('obligation', 'proof/correspondence obligations that no longer check:\n' + '\n'.join(broken[:30]), nofail=True)


def replay(chk, path):
    from props import c01
    return c01.replay(chk, path)
