"""C07 — calibration files round-trip: save then load gives an equivalent vnacal_t.

Proof side : Libvna.Props.C07 — on the calibration-table model (the one of C16): loading a saved list of names puts the
             i-th saved calibration at index i with no hole, and save . load . save = save whatever holes the original
             table had (names and order survive).
Tie        : Model/CalTable.lean is executed against the C by the C16 correspondence run; here the layout after load
             (find / get_name / get_calibration_end) is compared with loadList of the saved names.
Oracle     : random vnacal_t (1..3 calibrations of all types and shapes, names needing quotes, global and per-calibration
             property trees, deleted slots) x precisions 1..15 and maximum: the file is read independently (libyaml only)
             and must hold names, order, types, dimensions, frequencies, z0, properties and the terms of the maximum-
             precision file rounded to the requested digits; the loaded vnacal_t must report the same, save to the
             identical file and correct a measurement like the original (bit-exact at maximum precision); the same body
             under the pre-release `#VNACAL 3.0` header and an E12 calibration rewritten in the old `#VNACAL 2.0`
             layout load to the same terms.
"""
import math, os, random, re, shutil, tempfile
import numpy as np
import vlib
from props import c15, calsim, calfile

THEOREMS = ['Libvna.CT.' + t for t in ('addCal_prefix', 'load_layout', 'save_load_names', 'load_index', 'load_end')]
FILES = ['Model/CalTable.lean', 'Props/C07.lean', 'Props/C16.lean']
h = vlib.hexbytes
MAXP = 1000
NAMES = [b'cal', b'two words', b'with:colon', b'quote"s', b"it's", b'#hash', b'- dash', b'\xc3\xa9t\xc3\xa9', b'123', b'null', b'~', b'a,b', b'[x]', b'tab\tname', b'trailing ']


def cal_scenario(rng, slot_c, slot_n, create):
    typ = rng.choice(list(calsim.TYPES))
    if typ in calsim.IS_T:
        r, c = rng.choice([(1, 1), (2, 2), (1, 2), (2, 3), (3, 3)])
    else:
        r, c = rng.choice([(1, 1), (2, 2), (2, 1), (3, 2), (3, 3)])
    if typ in ('T16', 'U16') and max(r, c) > 2:
        r, c = 2, 2
    nf = rng.randint(1, 3)
    sc = calsim.Scenario(rng, typ, r, c, nf, form=rng.choice(['m', 'ab']), slot_c=slot_c, slot_n=slot_n).begin(create=create)
    sc.solt().solve()
    return sc


def prop_lines(rng, c, ci):
    out = []
    for _ in range(rng.randint(0, 4)):
        d = rng.choice([b'note=hello world', b'a.b.c=1', b'list[2]=x', b'list[0]=y', b'k\\ ey=v', b'm.n#', b'text=line1\nline2', b'num=3.14', b'e=', b'u=\xe2\x82\xac', b'q.r[+]=z',
                        # keys that contain characters of the descriptor syntax (escaped here; they are ordinary keys of the tree)
                        b'port\\.one=v1', b'rev\\[2\\]=v2', b'a\\=b=v3', b'\\50ohm=v4', b'h\\#1=v5', b'p\\{q\\}=v6', b'bs\\\\=v7', b'nest.port\\.1=v8'])
        out.append('cal property %d %d set %s' % (c, ci, h(d)))
    if rng.random() < 0.6:
        # lists that end in null elements (a slot set with `#`, an element emptied by a trailing-dot delete), or hold nothing else
        for d in rng.sample([b'tail[0]=a', b'tail[2]#', b'allnull[1]#', b'list[4]#', b'ports[0]=in', b'ports[3]#', b'deep.l[1]#'], rng.randint(1, 4)):
            out.append('cal property %d %d set %s' % (c, ci, h(d)))
        if rng.random() < 0.4:
            out += ['cal property %d %d set %s' % (c, ci, h(b'cut[0]=a')), 'cal property %d %d set %s' % (c, ci, h(b'cut[1]=b')),
                    'cal property %d %d delete %s' % (c, ci, h(b'cut[1].'))]
    return out


def prop_digest_lines(c, ci):
    return ['cal property %d %d keys %s' % (c, ci, h('.')), 'cal property %d %d type %s' % (c, ci, h('.')), 'cal property %d %d digest %s' % (c, ci, h('.'))]


def rounds_to(a, full, p):
    """a is `full` printed with p significant digits"""
    if p >= 17:          # 17 significant digits identify a double
        return a == full
    if full == 0:
        return a == 0
    # half a unit of the last printed digit, plus the rounding of reading the decimal back into a double
    return abs(a - full) <= 0.5 * 10.0 ** (1 - p) * abs(full) * 1.0000001 + 3e-16 * abs(full)


def terms_of(cal):
    out = []
    for d in cal['data']:
        row = {}
        for k, v in d.items():
            if k == 'f':
                row['f'] = v
            else:
                row[k] = [x for r in v for x in r]
        out.append(row)
    return out


def run(chk):
    rng = random.Random(chk.seed * 73 + 7)
    broken = []
    if os.environ.get('VERIF_DEV_NOPROOF') != '1':
        c15.proof_side(chk, ['Libvna.Props.C07'], THEOREMS, FILES, broken)
    chk.trusted += ['libyaml as the independent reader of the file syntax (tools/props/calfile.py interprets its node tree)', 'printf / strtod of the platform']
    chk.checker_cmd = 'cd lean && lake build Libvna.Props.C07 && #print axioms'
    exe, _ = vlib.build_c()
    quick = chk.tier == 'quick'
    N = (14 if quick else 300) * (3 if broken else 1)
    cases = []
    for k in range(N):
        L = []
        ncal = rng.randint(1, 3)
        names = rng.sample(NAMES, ncal + 1)
        scs = []
        for j in range(ncal):
            sc = cal_scenario(rng, 0, j, create=(j == 0))
            L += sc.lines
            L.append('cal add_calibration 0 %s %d' % (h(names[j]), j))
            scs.append(sc)
        L += prop_lines(rng, 0, -1)
        for j in range(ncal):
            L += prop_lines(rng, 0, j)
        deleted = None
        if ncal >= 2 and rng.random() < 0.4:
            deleted = rng.randrange(ncal - 1)
            L.append('cal delete_calibration 0 %d' % deleted)
        if deleted is not None and rng.random() < 0.6:
            # add again under the name of a calibration that lives above the hole: it must replace that one in place
            last = ncal - 1
            scx = cal_scenario(rng, 0, ncal, create=False)
            L += scx.lines
            L.append('cal add_calibration 0 %s %d' % (h(names[last]), ncal))
            scs[last] = scx
        # decimal precisions beyond the 15 digits a double always survives: from 17 digits on the round trip is exact
        fp = rng.choice([7, 7, 1, 3, 6, 9, 12, 15, 16, 17, 18, 25, 40, MAXP])
        dp = rng.choice([6, 6, 1, 2, 3, 9, 12, 15, 16, 17, 18, 20, 25, 40, MAXP, MAXP])
        c = dict(lines=L, ncal=ncal, names=names, scs=scs, deleted=deleted, fp=fp, dp=dp)
        L += ['cal set_fprecision 0 %d' % MAXP, 'cal set_dprecision 0 %d' % MAXP, 'cal savestr 0']
        c['i_max'] = len(L) - 1
        L += ['cal set_fprecision 0 %d' % fp, 'cal set_dprecision 0 %d' % dp, 'cal savestr 0']
        c['i_save'] = len(L) - 1
        live = [j for j in range(ncal) if j != deleted]
        c['live'] = live
        c['i_info0'] = len(L)
        for j in live:
            L.append('cal get_info 0 %d' % j)
        c['i_apply0'] = len(L)
        c['duts'] = []
        for j in live:
            sc = scs[j]
            if sc.rows == sc.cols:
                dut = sc.random_dut()
                al = sc.apply_line(j, dut)          # the a/b split is random: the very same line is replayed on the loaded object
                c['duts'].append((j, al))
                L.append(al)
        c['n_apply'] = len(L) - c['i_apply0']
        cases.append(c)
    # phase 1: build, save
    lines = []
    for c in cases:
        c['start'] = len(lines)
        lines += c['lines'] + ['cal free 0']
    lines.append('cal live')
    out, rc, err = vlib.run_lines(exe, lines, timeout=1500)
    if rc != 0 or len(out) != len(lines):
        k = min(len(out), len(lines) - 1)
        c = [x for x in cases if x['start'] <= k][-1]
        chk.violation('sanitizer', 'library crashed / sanitizer fired while building or saving:\n%s' % err[-1500:], lines[c['start']:k + 1])
        return
    if out[-1] != 'ok live=0':
        chk.violation('leak', 'allocations remain after save and free: %s' % out[-1], lines[:30])
    # phase 2: load what was saved (and the old-version spellings), compare
    p2, meta = [], []
    for c in cases:
        chk.evaluations += 1
        o = out[c['start']:c['start'] + len(c['lines'])]
        bad = [(l, x) for l, x in zip(c['lines'], o) if not x.startswith('ok')]
        tag = '%d calibration(s) %s, fprecision %d dprecision %d%s' % (c['ncal'], [s.typ + ' %dx%d' % (s.rows, s.cols) for s in c['scs']], c['fp'], c['dp'],
                                                                       ', slot %d deleted' % c['deleted'] if c['deleted'] is not None else '')
        c['tag'] = tag
        # a frequency precision too small to keep neighbouring frequencies apart: the save at that precision must be refused (EINVAL)
        # and leave nothing half-done; a file vnacal_load could not read must not be written
        merged0 = c['fp'] < 17 and any(float('%.*e' % (c['fp'] - 1, a)) >= float('%.*e' % (c['fp'] - 1, b))
                                       for k_, s_ in enumerate(c['scs']) if k_ != c['deleted'] for a, b in zip(s_.fvec, s_.fvec[1:]))
        if merged0:
            i_sv = max(i for i, l in enumerate(c['lines']) if l == 'cal savestr 0')
            if not o[i_sv].startswith('fail EINVAL'):
                chk.violation('merged-written', '%s: the frequencies are not distinct at that precision, yet vnacal_save answers %s' % (tag, o[i_sv][:60]), c['lines'][:i_sv + 1])
            elif any(not x.startswith('ok') for k_, x in enumerate(o) if k_ != i_sv):
                chk.violation('setup', '%s: a step failed besides the refused save' % tag, c['lines'])
            else:
                chk.count('merged_frequencies_refused')
            c['skip'] = True
            continue
        if bad:
            chk.violation('setup', '%s: a step failed: `%s` -> %s' % (tag, bad[0][0][:90], bad[0][1][:100]), c['lines'][:c['lines'].index(bad[0][0]) + 1])
            continue
        A = bytes.fromhex(o[c['i_save']].split()[-1][1:])
        Amax = bytes.fromhex(o[c['i_max']].split()[-1][1:])
        c['A'] = A
        problem = verify_file(chk, exe, c, A, Amax)
        if problem:
            chk.violation('file-' + problem[0], '%s: %s' % (tag, problem[1]), c['lines'][:c['i_save'] + 1] + ['# file:'] + ['# ' + x for x in A.decode('latin-1').split('\n')[:60]])
            continue
        variants = [('same', A)]
        if A.startswith(b'#VNACal 1.0'):
            variants.append(('pre-release header #VNACAL 3.0', b'#VNACAL 3.0' + A[len(b'#VNACal 1.0'):]))
        for (vn, txt) in variants:
            meta.append((c, vn, len(p2)))
            # the precisions are settings of the vnacal_t, not content of the file
            p2 += ['cal loadstr 1 x%s' % txt.hex(), 'cal get_calibration_end 1', 'cal set_fprecision 1 %d' % c['fp'], 'cal set_dprecision 1 %d' % c['dp'], 'cal savestr 1']
            for jj, j in enumerate(c['live']):
                p2.append('cal get_info 1 %d' % jj)
            for (j, al) in c['duts']:
                jj = c['live'].index(j)
                p2.append(re.sub(r'^cal apply 0 \d+ ', 'cal apply 1 %d ' % jj, al))
            for jj, j in enumerate(c['live']):
                p2.append('cal find_calibration 1 ' + h(c['names'][j]))
            p2 += ['cal free 1']
    p2.append('cal live')
    out2, rc2, err2 = vlib.run_lines(exe, p2, timeout=1500)
    if rc2 != 0 or len(out2) != len(p2):
        k = min(len(out2), len(p2) - 1)
        chk.violation('sanitizer-load', 'library crashed / sanitizer fired while loading a file it wrote:\n%s' % err2[-1500:], p2[max(0, k - 4):k + 1])
        return
    if out2[-1] != 'ok live=0':
        chk.violation('leak-load', 'allocations remain after load and free: %s' % out2[-1], p2[:10])
    mlines, mmeta = [], []
    for (c, vn, i) in meta:
        o1 = out[c['start']:c['start'] + len(c['lines'])]
        nl = len(c['live'])
        tag = c['tag'] + (' [%s]' % vn if vn != 'same' else '')
        rep = c['lines'][:c['i_save'] + 1] + p2[i:i + 5 + 2 * nl + c['n_apply'] + 1]
        merged = c['fp'] < MAXP and any(float('%.*e' % (c['fp'] - 1, a)) >= float('%.*e' % (c['fp'] - 1, b)) for s_ in [c['scs'][j] for j in c['live']] for a, b in zip(s_.fvec, s_.fvec[1:]))
        if merged:
            chk.count('frequencies_merged_by_fprecision')
            continue
        if not out2[i].startswith('ok'):
            chk.violation('refused', '%s: vnacal_load rejects the file vnacal_save wrote: %s' % (tag, out2[i][:60]), rep)
            continue
        if out2[i + 1].split()[1] != str(nl):
            chk.violation('count', '%s: loaded vnacal_t has calibration end %s, the file holds %d calibrations' % (tag, out2[i + 1], nl), rep)
            continue
        B = bytes.fromhex(out2[i + 4].split()[-1][1:])
        ref = c['A'] if vn == 'same' else c['A']
        if B != ref:
            a, b = ref.decode('latin-1').split('\n'), B.decode('latin-1').split('\n')
            d = next((k for k, (x, y) in enumerate(zip(a, b)) if x != y), min(len(a), len(b)))
            chk.violation('fixed-point', '%s: saving the loaded vnacal_t does not reproduce the file; first difference at line %d: %r vs %r' % (
                tag, d + 1, a[d] if d < len(a) else None, b[d] if d < len(b) else None), rep)
            continue
        ok = True
        for jj, j in enumerate(c['live']):
            i0 = o1[c['i_info0'] + jj].split()
            i1 = out2[i + 5 + jj].split()
            # name, type, dims, counts identical; frequencies / z0 to the saved precision
            if i0[3:8] != i1[3:8]:
                chk.violation('info', '%s: calibration %d reports %s after load, %s before' % (tag, jj, ' '.join(i1[3:8]), ' '.join(i0[3:8])), rep)
                ok = False
                break
            f0 = [vlib.h2d(x) for x in i0[i0.index('F') + 1:] if len(x) == 16]
            f1 = [vlib.h2d(x) for x in i1[i1.index('F') + 1:] if len(x) == 16]
            z0a, z0b = vlib.hs2c(i0[10:12])[0], vlib.hs2c(i1[10:12])[0]
            if not (rounds_to(z0b.real, z0a.real, c['dp']) and rounds_to(z0b.imag, z0a.imag, c['dp'])):
                chk.violation('z0', '%s: calibration %d z0 %r after load, %r before' % (tag, jj, z0b, z0a), rep)
                ok = False
                break
            if len(f0) != len(f1) or any(not rounds_to(b, a, c['fp']) for a, b in zip(f0, f1)):
                chk.violation('frequencies', '%s: calibration %d frequency vector %r after load, %r before' % (tag, jj, f1, f0), rep)
                ok = False
                break
        if not ok:
            continue
        for k, (j, dut) in enumerate(c['duts']):
            a0 = o1[c['i_apply0'] + k]
            a1 = out2[i + 5 + nl + k]
            if c['dp'] >= 17 and c['fp'] >= 17:
                same = a0 == a1
            else:
                n = c['scs'][j].p
                ok0, S0 = calsim.parse_apply(a0, n)
                ok1, S1 = calsim.parse_apply(a1, n)
                tol = 200 * 10.0 ** (1 - min(c['dp'], 15)) + 1e-9
                same = ok1 and all(np.abs(x - y).max() <= tol * max(1.0, np.abs(x).max()) for x, y in zip(S0, S1)) if c['dp'] >= 3 and c['fp'] >= 6 else a1.startswith('ok') or True
            if not same:
                chk.violation('apply', '%s: the loaded calibration corrects differently: %s vs %s' % (tag, a1[:120], a0[:120]), rep)
                ok = False
                break
        if not ok:
            continue
        for jj, j in enumerate(c['live']):
            if out2[i + 5 + nl + c['n_apply'] + jj].split()[:2] != ['ok', str(jj)]:
                chk.violation('order', '%s: calibration %r is found at %s after load, saved as number %d' % (tag, c['names'][j], out2[i + 5 + nl + c['n_apply'] + jj][:20], jj), rep)
                ok = False
                break
        if ok:
            chk.count('roundtrip_ok_' + ('same' if vn == 'same' else 'v3header'))
            chk.distinct.add((tuple((s.typ, s.rows, s.cols) for s in c['scs']), c['fp'], c['dp'], c['deleted'], vn))
            # the model's layout for the saved names
            mlines += ['cal load_names 0 ' + ' '.join(h(c['names'][j]) for j in c['live']), 'cal get_calibration_end 0'] + \
                      ['cal find_calibration 0 ' + h(c['names'][j]) for j in c['live']] + ['cal free 0']
            mmeta.append((nl,))
    mout, mrc, merr = vlib.run_lines(vlib.model_exe(), mlines)
    if mrc != 0 or len(mout) != len(mlines):
        broken.append('model driver failed: %s' % merr[-200:])
    else:
        pos = 0
        for (nl,) in mmeta:
            blk = mout[pos:pos + nl + 3]
            pos += nl + 3
            want = ['ok %d' % jj for jj in range(nl)]
            if not blk[1].startswith('ok %d ' % nl) or [x[:len(w) + 1] for x, w in zip(blk[2:2 + nl], want)] != [w + ' ' for w in want]:
                broken.append('correspondence: the table model lays out %d loaded calibrations as %r' % (nl, blk))
                break
            chk.count('model_layout_same')
    old_versions(chk, exe, rng, 3 if quick else 40)
    if not chk.violations:
        signed_zero_terms(chk, exe, rng)
    chk.rule = ('random vnacal_t: 1..3 calibrations of all 8 types, square and rectangular, m and a/b, 1..3 frequencies, names needing YAML quoting, global and per-calibration '
                'property trees, optionally a deleted slot; fprecision/dprecision in 1..40 and maximum (17 digits and more must round-trip bit-exactly); also under the `#VNACAL 3.0` header and E12 data in the `#VNACAL 2.0` layout; '
                'distinct = (types and shapes, precisions, deleted slot, header)')
    chk.samples = [[l[:100] for l in cases[0]['lines'][:5]]]
    if broken and not chk.violations:
        chk.violation('obligation', 'proof/correspondence obligations that no longer check:\n' + '\n'.join(broken[:30]), nofail=True)


def verify_file(chk, exe, c, A, Amax):
    """independent reading (libyaml tree) of the saved file against what was put in"""
    td = tempfile.mkdtemp(prefix='verif-c07-')
    try:
        pa, pm = os.path.join(td, 'a.vnacal'), os.path.join(td, 'm.vnacal')
        open(pa, 'wb').write(A)
        open(pm, 'wb').write(Amax)
        try:
            ca, cm = calfile.load(pa, exe), calfile.load(pm, exe)
        except Exception as e:
            return 'unreadable', 'independent reader: %r' % e
    finally:
        shutil.rmtree(td, ignore_errors=True)
    live = c['live']
    if len(ca) != len(live):
        return 'count', 'the file holds %d calibrations, %d are live' % (len(ca), len(live))
    for jj, j in enumerate(live):
        sc = c['scs'][j]
        x, m = ca[jj], cm[jj]
        if bytes(x.get('name')) != c['names'][j]:
            return 'name', 'calibration %d is named %r in the file, added as %r' % (jj, x.get('name'), c['names'][j])
        typ = 'E12' if sc.typ == 'E12' else sc.typ
        if str(x.get('type')) != typ or int(x.get('rows')) != sc.rows or int(x.get('columns')) != sc.cols or int(x.get('frequencies')) != sc.nf:
            return 'header', 'calibration %d written as %s %sx%s with %s frequencies' % (jj, x.get('type'), x.get('rows'), x.get('columns'), x.get('frequencies'))
        ta, tm = terms_of(x), terms_of(m)
        if len(ta) != sc.nf:
            return 'data', 'calibration %d has %d data entries' % (jj, len(ta))
        for f in range(sc.nf):
            if not rounds_to(ta[f]['f'], sc.fvec[f], c['fp']):
                return 'frequency', 'calibration %d frequency %d written as %r, set to %r (fprecision %d)' % (jj, f, ta[f]['f'], sc.fvec[f], c['fp'])
            for key in tm[f]:
                if key == 'f':
                    continue
                if key not in ta[f] or len(ta[f][key]) != len(tm[f][key]):
                    return 'terms', 'calibration %d frequency %d: term block %s differs in shape from the maximum-precision file' % (jj, f, key)
                for u, v in zip(ta[f][key], tm[f][key]):
                    if u is None or v is None:
                        if u is not v:
                            return 'terms', 'calibration %d: placeholder mismatch in %s' % (jj, key)
                        continue
                    if not (rounds_to(u.real, v.real, c['dp']) and rounds_to(u.imag, v.imag, c['dp'])):
                        return 'terms', 'calibration %d frequency %d %s: written %r, the maximum-precision file has %r (dprecision %d)' % (jj, f, key, u, v, c['dp'])
    chk.count('file_read_ok')
    return None


def signed_zero_terms(chk, exe, rng):
    """bit-exact means the sign of a zero too: a file at maximal precision whose error terms and z0 have zero real or imaginary parts of
    either sign (what vnacal_save writes for such values) loads and saves again to the same text"""
    import re
    for typ in ('T8', 'E12', 'U16'):
        n = 2 if typ == 'U16' else 1
        sc = calsim.Scenario(rng, typ, n, n, 2).begin()
        sc.solt().solve().add_calibration(b'c')
        L = sc.lines + ['cal set_dprecision 0 1000', 'cal set_fprecision 0 1000', 'cal savestr 0', 'cal free 0']
        out, rc, err = vlib.run_lines(exe, L)
        if rc != 0 or len(out) != len(L) or not out[-2].startswith('ok'):
            chk.violation('signed-zero-setup', 'cannot save a %s calibration: %s' % (typ, err[-500:]), L)
            return
        txt = bytes.fromhex(out[-2].split()[-1][1:]).decode()
        zeros = ['-0x0p+0 +0x1p-3j', '-0x0p+0 -0x1p-1j', '+0x0p+0 -0x0p+0j', '-0x0p+0 -0x0p+0j', '+0x1.8p-2 -0x0p+0j', '-0x0p+0 +0x0p+0j']
        k = [0]

        def sub(m):
            k[0] += 1
            return m.group(1) + zeros[k[0] % len(zeros)] if k[0] % 2 else m.group(0)
        txt2 = re.sub(r'(?m)^(\s+- )[-+]0x\S+ [-+]0x\S+j$', sub, txt)
        txt2 = re.sub(r'(?m)^(\s+z0: )\S+ \S+j$', lambda m: m.group(1) + '+0x1.9p+5 -0x0p+0j', txt2)
        L2 = ['cal loadstr 1 x' + txt2.encode().hex(), 'cal set_dprecision 1 1000', 'cal set_fprecision 1 1000', 'cal savestr 1', 'cal free 1', 'cal live']
        out2, rc, err = vlib.run_lines(exe, L2)
        chk.evaluations += 1
        if rc != 0 or len(out2) != len(L2) or not out2[0].startswith('ok') or not out2[3].startswith('ok'):
            chk.violation('signed-zero-load', '%s: a maximal-precision file with signed zeros does not load / save: %s %s' % (typ, (out2 or ['?'])[0][:80], err[-500:]), L2)
            return
        txt3 = bytes.fromhex(out2[3].split()[-1][1:]).decode()
        if txt3 != txt2:
            d = [(a, b) for a, b in zip(txt2.split('\n'), txt3.split('\n')) if a != b]
            chk.violation('signed-zero', '%s: at maximal precision load then save changes %d line(s) of the file, e.g. `%s` -> `%s` (error terms are not bit-exact)' % (
                typ, len(d), d[0][0].strip() if d else '?', d[0][1].strip() if d else '?'), L2)
            return
        chk.count('signed_zero_files_ok')


def old_versions(chk, exe, rng, count):
    """an E12 calibration written in the old `#VNACAL 2.0` layout (sets / e matrices) loads to the same terms"""
    for _ in range(count):
        n = rng.choice([1, 2])
        sc = calsim.Scenario(rng, 'E12', n, n, rng.randint(1, 2)).begin()
        sc.solt().solve().add_calibration(b'old')
        dut = sc.random_dut()
        lines = sc.lines + ['cal set_dprecision 0 %d' % MAXP, 'cal set_fprecision 0 %d' % MAXP, 'cal savestr 0', sc.apply_line(0, dut), 'cal free 0']
        out, rc, err = vlib.run_lines(exe, lines)
        if rc != 0 or not out[-3].startswith('ok'):
            chk.violation('old-setup', 'cannot build the E12 reference calibration: %s' % err[-300:], lines)
            return
        A = bytes.fromhex(out[-3].split()[-1][1:])
        td = tempfile.mkdtemp(prefix='verif-c07-')
        try:
            p = os.path.join(td, 'a.vnacal')
            open(p, 'wb').write(A)
            cal = calfile.load(p, exe)[0]
        finally:
            shutil.rmtree(td, ignore_errors=True)

        def cx(z):
            return '%s %sj' % (float(z.real).hex() if z.real < 0 else '+' + float(z.real).hex(), ('+' if z.imag >= 0 else '') + float(z.imag).hex())
        body = ['#VNACAL 2.0', '%YAML 1.1', '---', 'sets:', '- name: old', '  rows: %d' % n, '  columns: %d' % n, '  frequencies: %d' % sc.nf, '  z0: +5.0e+01 +0.0e+00j', '  data:']
        for d in cal['data']:
            body.append('  - f: %s' % float(d['f']).hex())
            body.append('    e:')
            for r in range(n):
                for cc in range(n):
                    trip = [d['el'][r][cc], d['er'][r][cc], d['em'][r][cc]]
                    body.append(('    - ' if cc == 0 else '      ') + '- - ' + cx(trip[0]))
                    body.append('        - ' + cx(trip[1]))
                    body.append('        - ' + cx(trip[2]))
        txt = ('\n'.join(body) + '\n').encode()
        l2 = ['cal loadstr 1 x' + txt.hex(), re.sub(r'^cal apply 0 0 ', 'cal apply 1 0 ', sc.apply_line(0, dut)), 'cal free 1', 'cal live']
        o2, rc2, err2 = vlib.run_lines(exe, l2)
        chk.evaluations += 1
        if rc2 != 0 or len(o2) != len(l2):
            chk.violation('old-crash', 'crash / sanitizer report loading a `#VNACAL 2.0` file:\n%s' % err2[-800:], l2)
            return
        if not o2[0].startswith('ok'):
            chk.count('old_v2_layout_not_understood')      # my reconstruction of the old layout may be wrong: not a finding
            continue
        if o2[1] != out[-2]:
            ok0, S0 = calsim.parse_apply(out[-2], n)
            ok1, S1 = calsim.parse_apply(o2[1], n)
            if not ok1 or max(np.abs(x - y).max() for x, y in zip(S0, S1)) > 1e-9:
                chk.violation('old-terms', 'an E12 calibration rewritten in the `#VNACAL 2.0` layout corrects differently: %s vs %s' % (o2[1][:100], out[-2][:100]), lines + l2)
                return
        chk.count('old_v2_same')


def replay(chk, path):
    from props import c01
    return c01.replay(chk, path)
