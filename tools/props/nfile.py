"""Independent readers / writers of Touchstone 1, Touchstone 2 and NPD network-data files.

Nothing here comes from libvna's code: the Touchstone grammar follows the Touchstone(R) file format specification
(v1.1 and v2.0), NPD follows the self-describing header the format carries ("#:" keyword lines, "# field N:" legend)
and vnadata(3).  Used as ground truth by the C06 / C08 / C09 checks.
"""
import cmath, math, re

MAXP = 'max'


class ParseError(Exception):
    pass


def num(tok):
    """decimal or C99 hexadecimal floating point"""
    t = tok.strip()
    try:
        if re.match(r'^[+-]?0[xX]', t):
            return float.fromhex(t)
        return float(t)
    except ValueError:
        raise ParseError('not a number: %r' % tok)


def from_coords(kind, a, b):
    if kind == 'ri':
        return complex(a, b)
    if kind == 'ma':
        return a * cmath.exp(1j * math.pi / 180.0 * b)
    if kind == 'db':
        return 10.0 ** (a / 20.0) * cmath.exp(1j * math.pi / 180.0 * b)
    raise ParseError('coordinates ' + kind)


def to_coords(kind, x):
    if kind == 'ri':
        return x.real, x.imag
    ang = 180.0 / math.pi * cmath.phase(x)
    if kind == 'ma':
        return abs(x), ang
    return (20.0 * math.log10(abs(x)) if abs(x) > 0 else -math.inf), ang


# ---------------------------------------------------------------- Touchstone

UNITS = {'hz': 1.0, 'khz': 1e3, 'mhz': 1e6, 'ghz': 1e9}
TS2_KEYWORDS = ['version', 'number of ports', 'two-port data order', 'number of frequencies', 'number of noise frequencies', 'reference',
                'matrix format', 'mixed-mode order', 'begin information', 'end information', 'network data', 'noise data', 'end']


def _strip_comment(line):
    i = line.find('!')
    return line if i < 0 else line[:i]


def denormalize(param, M, R):
    """Touchstone 1: Z, Y, H, G entries are normalised to the reference resistance R"""
    n = len(M)
    if param == 's':
        return M
    if param == 'z':
        return [[v * R for v in row] for row in M]
    if param == 'y':
        return [[v / R for v in row] for row in M]
    if n != 2:
        raise ParseError('%s parameters need two ports' % param)
    if param == 'h':
        return [[M[0][0] * R, M[0][1]], [M[1][0], M[1][1] / R]]
    if param == 'g':
        return [[M[0][0] / R, M[0][1]], [M[1][0], M[1][1] * R]]
    raise ParseError(param)


def normalize(param, M, R):
    return denormalize(param, M, 1.0 / R)


def parse_touchstone(text, ports=None, ascending=True):
    """-> dict(version, ports, param, fmt, R, z0 [per port], freqs, data[nf][n][n]) with values in ohms/siemens (denormalised)"""
    lines = text.replace('\r\n', '\n').replace('\r', '\n').split('\n')
    version = 1
    opt = None
    kw = {}
    order = None
    mformat = 'full'
    refs = None
    numbers = []       # (line index, [values]) of network data
    state = 'head'
    i = 0
    nlines = len(lines)
    while i < nlines:
        raw = _strip_comment(lines[i])
        i += 1
        s = raw.strip()
        if not s:
            continue
        if s.startswith('['):
            m = re.match(r'^\[([^\]]*)\]\s*(.*)$', s)
            if not m:
                raise ParseError('malformed keyword line: %r' % s)
            key = ' '.join(m.group(1).lower().split())
            arg = m.group(2).strip()
            if key not in TS2_KEYWORDS:
                raise ParseError('unknown Touchstone 2 keyword [%s]' % m.group(1))
            if key == 'version':
                if arg != '2.0':
                    raise ParseError('unsupported version %r' % arg)
                version = 2
            elif key == 'number of ports':
                ports = int(arg)
            elif key == 'two-port data order':
                if arg.lower() not in ('12_21', '21_12'):
                    raise ParseError('two-port data order %r' % arg)
                order = arg.lower()
            elif key == 'number of frequencies':
                kw['nf'] = int(arg)
            elif key == 'number of noise frequencies':
                kw['nnf'] = int(arg)
            elif key == 'reference':
                vals = arg.split()
                while ports is not None and len(vals) < ports and i < nlines:
                    vals += _strip_comment(lines[i]).split()
                    i += 1
                refs = [num(v) for v in vals]
            elif key == 'matrix format':
                if arg.lower() not in ('full', 'lower', 'upper'):
                    raise ParseError('matrix format %r' % arg)
                mformat = arg.lower()
            elif key == 'mixed-mode order':
                raise ParseError('mixed-mode data not supported by this reader')
            elif key == 'begin information':
                while i < nlines and not re.match(r'^\s*\[\s*end\s+information\s*\]', lines[i], re.I):
                    i += 1
                i += 1
            elif key == 'network data':
                state = 'data'
            elif key == 'noise data':
                state = 'noise'
            elif key == 'end':
                state = 'end'
            continue
        if s.startswith('#'):
            if opt is not None:
                continue            # spec: additional option lines are ignored
            opt = dict(unit=1e9, param='s', fmt='ma', R=50.0)
            toks = s[1:].lower().split()
            k = 0
            while k < len(toks):
                t = toks[k]
                if t in UNITS:
                    opt['unit'] = UNITS[t]
                elif t in ('s', 'y', 'z', 'h', 'g'):
                    opt['param'] = t
                elif t in ('db', 'ma', 'ri'):
                    opt['fmt'] = t
                elif t == 'r':
                    k += 1
                    if k >= len(toks):
                        raise ParseError('R without value')
                    opt['R'] = num(toks[k])
                else:
                    raise ParseError('bad option %r' % t)
                k += 1
            continue
        if state == 'end':
            raise ParseError('data after [End]')
        if state == 'noise':
            continue
        if opt is None:
            raise ParseError('data before option line')
        if version == 2 and state != 'data':
            raise ParseError('data before [Network Data]')
        numbers.append([num(t) for t in s.split()])
    if opt is None:
        raise ParseError('no option line')
    if version == 2:
        if ports is None:
            raise ParseError('[Number of Ports] missing')
        if ports == 2 and order is None:
            raise ParseError('[Two-Port Data Order] is required for 2-port files')
        if ports != 2 and order is not None:
            raise ParseError('[Two-Port Data Order] only allowed for 2-port files')
        if 'nf' not in kw:
            raise ParseError('[Number of Frequencies] missing')
    # group the numbers into per-frequency records
    if version == 1:
        recs = []
        for vals in numbers:
            if len(vals) % 2 == 1:
                recs.append(list(vals))
            else:
                if not recs:
                    raise ParseError('continuation line without a frequency')
                recs[-1] += vals
        if ports is None:
            if not recs:
                raise ParseError('no data')
            n2 = (len(recs[0]) - 1) // 2
            ports = int(round(math.sqrt(n2)))
            if ports * ports != n2:
                raise ParseError('cannot infer the number of ports')
        if ports == 2:
            # 2-port files may be followed by noise data (5 values per line, frequencies start over)
            keep = []
            for r in recs:
                if len(r) == 9:
                    keep.append(r)
                elif len(r) == 5 and keep:
                    break
                else:
                    raise ParseError('2-port data line with %d values' % len(r))
            recs = keep
        per = ports * ports
    else:
        flat = [v for vals in numbers for v in vals]
        per = ports * ports if mformat == 'full' else ports * (ports + 1) // 2
        size = 1 + 2 * per
        if len(flat) != size * kw['nf']:
            raise ParseError('expected %d values, found %d' % (size * kw['nf'], len(flat)))
        recs = [flat[k * size:(k + 1) * size] for k in range(kw['nf'])]
    n = ports
    if refs is not None and len(refs) != n:
        raise ParseError('[Reference] needs %d values' % n)
    z0 = [complex(r) for r in refs] if refs is not None else [complex(opt['R'])] * n
    freqs, data, raw = [], [], []
    for r in recs:
        if len(r) != 1 + 2 * per:
            raise ParseError('record with %d values, expected %d' % (len(r), 1 + 2 * per))
        freqs.append(r[0] * opt['unit'])
        cells = [from_coords(opt['fmt'], r[1 + 2 * k], r[2 + 2 * k]) for k in range(per)]
        M = [[0j] * n for _ in range(n)]
        if mformat == 'full':
            for k, v in enumerate(cells):
                M[k // n][k % n] = v
            if n == 2 and (version == 1 or order == '21_12'):
                M[0][1], M[1][0] = M[1][0], M[0][1]
        else:
            k = 0
            for a in range(n):
                rng = range(a, n) if mformat == 'upper' else range(0, a + 1)
                for b in rng:
                    M[a][b] = cells[k]
                    M[b][a] = cells[k]
                    k += 1
        raw.append([list(r_) for r_ in M])
        if version == 1:
            M = denormalize(opt['param'], M, opt['R'])
        data.append(M)
    if ascending:
        for a, b in zip(freqs, freqs[1:]):
            if not b > a:
                raise ParseError('frequencies not ascending')
    return dict(version=version, ports=n, param=opt['param'], fmt=opt['fmt'], R=opt['R'], z0=z0, freqs=freqs, data=data, raw=raw,
                order=order, mformat=mformat)


def fmt_num(rng, v, style=None):
    """one of several equivalent decimal spellings of a double that read back exactly"""
    style = style or rng.choice(['r', 'e', 'E', 'plus'])
    s = repr(float(v))
    if style == 'e':
        s = '%.17e' % v
    elif style == 'E':
        s = ('%.17e' % v).upper()
    elif style == 'plus' and v >= 0:
        s = '+' + s
    return s


def write_touchstone(rng, net, version, unit='hz', fmt='ri', order='12_21', mformat='full', noise=None, messy=True, exact=True):
    """net: dict(param, ports, z0 (real list), freqs, data) -> text of one of the equivalent spellings.
    exact=True keeps full 17-digit numbers so that every spelling denotes the same doubles up to rounding of the
    unit scaling / coordinate transformation."""
    n = net['ports']
    param = net['param']
    R = net['z0'][0].real
    sp = (lambda: rng.choice([' ', '  ', '\t', ' \t '])) if messy else (lambda: ' ')
    case = (lambda s: ''.join(c.upper() if rng.random() < 0.5 else c.lower() for c in s)) if messy else (lambda s: s)
    cm = (lambda: rng.choice(['', '', ' ! a comment', '!x'])) if messy else (lambda: '')
    out = []
    if messy and rng.random() < 0.5:
        out.append('! leading comment' + ('\n' if rng.random() < 0.3 else ''))
    if version == 2:
        out.append(case('[Version]') + sp() + '2.0' + cm())
    opts = [case(unit), case(param), case(fmt), case('R') + sp() + fmt_num(rng, R, 'r')]
    if messy:
        # R must stay adjacent to its value; other tokens may come in any order
        rng.shuffle(opts)
    out.append('#' + sp() + sp().join(opts) + cm())
    if version == 2:
        out.append(case('[Number of Ports]') + sp() + str(n) + cm())
        if n == 2:
            out.append(case('[Two-Port Data Order]') + sp() + order + cm())
        out.append(case('[Number of Frequencies]') + sp() + str(len(net['freqs'])) + cm())
        if noise and n == 2:
            out.append(case('[Number of Noise Frequencies]') + sp() + str(len(noise)) + cm())
        if any(z != net['z0'][0] for z in net['z0']) or (messy and rng.random() < 0.4):
            vals = [fmt_num(rng, z.real, 'r') for z in net['z0']]
            if messy and n > 2 and rng.random() < 0.5:
                out.append(case('[Reference]') + sp() + vals[0])
                out.append(sp() + sp().join(vals[1:]))
            else:
                out.append(case('[Reference]') + sp() + sp().join(vals))
        if mformat != 'full' or (messy and rng.random() < 0.3):
            out.append(case('[Matrix Format]') + sp() + case(mformat))
        out.append(case('[Network Data]') + cm())
    scale = UNITS[unit]
    for f, M in zip(net['freqs'], net['data']):
        Mw = normalize(param, M, R) if version == 1 else M
        if n == 2 and (version == 1 or order == '21_12') and mformat == 'full':
            cells = [Mw[0][0], Mw[1][0], Mw[0][1], Mw[1][1]]
            rows = [cells]
        elif mformat == 'full':
            rows = [list(r) for r in Mw]
        elif mformat == 'upper':
            rows = [[Mw[a][b] for b in range(a, n)] for a in range(n)]
        else:
            rows = [[Mw[a][b] for b in range(0, a + 1)] for a in range(n)]
        if n <= 2 and mformat == 'full':
            rows = [[v for r in rows for v in r]]
        first = True
        for r in rows:
            for k in range(0, len(r), 4):
                chunk = r[k:k + 4]
                toks = []
                if first:
                    toks.append(fmt_num(rng, f / scale))
                    first = False
                for v in chunk:
                    a, b = to_coords(fmt, v)
                    toks += [fmt_num(rng, a), fmt_num(rng, b)]
                out.append((sp() if (messy or not toks or k or r is not rows[0]) else '') + sp().join(toks) + cm())
                if messy and rng.random() < 0.1:
                    out.append(rng.choice(['', '   ', '! in between']))
    if noise and n == 2:
        if version == 2:
            out.append(case('[Noise Data]'))
        for f in noise:
            out.append('%s 1.5 0.5 20 0.3' % fmt_num(rng, f / scale, 'r'))
    if version == 2 and (not messy or rng.random() < 0.7):
        out.append(case('[End]'))
    nl = rng.choice(['\n', '\r\n']) if messy else '\n'
    return nl.join(out) + nl


# ---------------------------------------------------------------- NPD

MATRIX = ('s', 't', 'u', 'z', 'y', 'h', 'g', 'a', 'b')


def parse_format_list(s):
    """'Sri,ZdB,zinma,PRC,il' -> [(param, kind)]"""
    out = []
    for spec in s.split(','):
        t = ''.join(spec.lower().split())
        if t in ('prc', 'prl', 'src', 'srl'):
            out.append(('zin', t))
            continue
        if t in ('il', 'rl', 'vswr'):
            out.append(('s', t))
            continue
        m = re.match(r'^(zin|[stuzyhgab])?(ri|ma|db)?$', t)
        if not m or not t:
            raise ParseError('format specifier %r' % spec)
        out.append((m.group(1), m.group(2) or 'ri'))
    return out


def npd_fields(param, kind, ports):
    if kind in ('ri', 'ma', 'db'):
        return 2 * ports if param == 'zin' else 2 * ports * ports
    if kind in ('prc', 'prl', 'src', 'srl'):
        return 2 * ports
    if kind == 'il':
        return ports * (ports - 1)
    return ports            # rl, vswr


def parse_npd(text):
    """-> dict(ports, nf, formats [(param,kind)], z0 | None (per-frequency), fz0, freqs, blocks [per format: per frequency raw values])"""
    hdr = {}
    rows = []
    for line in text.replace('\r\n', '\n').split('\n'):
        s = line.strip()
        if not s:
            continue
        if s.startswith('#:'):
            toks = s[2:].split()
            if not toks:
                continue
            key = toks[0]
            if key in hdr and key in ('ports',):
                raise ParseError('repeated ' + key)
            hdr[key] = toks[1:]
            continue
        if s.startswith('#'):
            continue
        rows.append([num(t) for t in s.split()])
    if hdr.get('version') != ['1.0']:
        raise ParseError('version line')
    for k in ('ports', 'frequencies', 'parameters', 'z0'):
        if k not in hdr:
            raise ParseError('missing #:' + k)
    ports = int(hdr['ports'][0])
    nf = int(hdr['frequencies'][0])
    formats = parse_format_list(','.join(hdr['parameters']))
    z0 = None
    if [t.upper() for t in hdr['z0']] != ['PER-FREQUENCY']:
        t = hdr['z0']
        if len(t) != 2 * ports:
            raise ParseError('#:z0 needs %d values' % (2 * ports))
        z0 = []
        for p in range(ports):
            im = t[2 * p + 1]
            if not im.endswith('j'):
                raise ParseError('imaginary part of z0 without j')
            z0.append(complex(num(t[2 * p]), num(im[:-1])))
    if len(rows) != nf:
        raise ParseError('%d data lines for %d frequencies' % (len(rows), nf))
    total = 1 + (0 if z0 is not None else 2 * ports) + sum(npd_fields(p, k, ports) for p, k in formats)
    freqs, fz0, blocks = [], [], [[] for _ in formats]
    for r in rows:
        if len(r) != total:
            raise ParseError('data line with %d fields, expected %d' % (len(r), total))
        freqs.append(r[0])
        pos = 1
        if z0 is None:
            fz0.append([complex(r[pos + 2 * p], r[pos + 2 * p + 1]) for p in range(ports)])
            pos += 2 * ports
        for b, (p, k) in enumerate(formats):
            nfl = npd_fields(p, k, ports)
            blocks[b].append(r[pos:pos + nfl])
            pos += nfl
    out = dict(ports=ports, nf=nf, formats=formats, z0=z0, fz0=fz0 if z0 is None else None, freqs=freqs, blocks=blocks, header=hdr)
    for k in ('fprecision', 'dprecision'):
        if k in hdr:
            out[k] = int(hdr[k][0])
    return out


def npd_expected(param, kind, ports, f, M):
    """the raw field values the format prescribes for matrix M (list of rows) of the block's parameter type at frequency f"""
    if kind in ('ri', 'ma', 'db'):
        cells = M[0] if param == 'zin' else [v for row in M for v in row]
        out = []
        for v in cells:
            out += list(to_coords(kind, v))
        return out
    if kind in ('prc', 'prl', 'src', 'srl'):
        out = []
        w = 2 * math.pi * f
        for z in M[0]:
            if kind[0] == 's':
                R = z.real
                X = z.imag
                out += [R, (-1.0 / (w * X) if X != 0 else math.inf) if kind == 'src' else X / w]
            else:
                y = 1.0 / z if z != 0 else complex(math.inf)
                R = 1.0 / y.real if y.real != 0 else math.inf
                B = y.imag
                out += [R, B / w if kind == 'prc' else (-1.0 / (w * B) if B != 0 else math.inf)]
        return out
    if kind == 'il':
        return [-20.0 * math.log10(abs(M[a][b])) if abs(M[a][b]) > 0 else math.inf for a in range(ports) for b in range(ports) if a != b]
    if kind == 'rl':
        return [-20.0 * math.log10(abs(M[a][a])) if abs(M[a][a]) > 0 else math.inf for a in range(ports)]
    if kind == 'vswr':
        return [(1 + abs(M[a][a])) / abs(1 - abs(M[a][a])) if abs(M[a][a]) != 1 else math.inf for a in range(ports)]
    raise ParseError(kind)
