"""C20 — too few standards are reported; every determining set of standards solves.

Proof side : Libvna.Props.C20 — a solve that is refused leaves the accumulated standards untouched; a consistent
             system with injective coefficient map has the true terms as its only solution (C01.solve_unique).
Oracle     : an independent identifiability test — the Jacobian of all measurements with respect to the physical
             E-network entries has the same rank for the subset as for the complete standard list — classifies every
             prefix of a random ordering of the standards; determining prefixes must solve and correct an independent
             device, prefixes with fewer measured values than unknowns must fail with EDOM, and a failed attempt must
             not disturb later ones.
"""
import os, random
import numpy as np
import vlib
from props import calsim, c15

THEOREMS = ['Libvna.Cal.solve_unique', 'Libvna.Cal.failed_solve_frame', 'Libvna.Cal.too_few_no_unique'] + ['Libvna.UF.' + t for t in (
    'rt_compress', 'rt_link', 'union_st', 'build_st', 'conn_iff', 'conn_refl', 'conn_symm', 'conn_trans', 'conn_cell', 'conn_isolated')] + [
    'Libvna.Order.ls_unique', 'Libvna.Order.order_independent']
FILES = ['Props/C01.lean', 'Props/C20.lean', 'Model/Connect.lean', 'Props/C20Conn.lean', 'Props/C17Order.lean']

DOF = {  # independent error terms (vnacal_new(3) table: terms - free) for a square p-port calibration
    'T8': lambda p: 4 * p - 1, 'U8': lambda p: 4 * p - 1, 'TE10': lambda p: p * p + 3 * p - 1, 'UE10': lambda p: p * p + 3 * p - 1,
    'T16': lambda p: 4 * p * p - 1, 'U16': lambda p: 4 * p * p - 1, 'UE14': lambda p: 3 * p * p + p - p, 'E12': lambda p: 3 * p * p,
}


def standard_list(sc):
    """(description, adder) for a generous standard list"""
    L = []
    p = sc.p
    ab_rng = getattr(sc, 'rng', None)
    for port in range(1, p + 1):
        for code in (calsim.SHORT, calsim.OPEN, calsim.MATCH):
            if sc.typ not in ('T16', 'U16') and p > 1 and getattr(sc, 'mixed_shapes', False) and ab_rng.random() < 0.5:
                # the measurement matrix abbreviated to the standard's own cell: no leakage sample from this standard
                L.append((('reflect', port, code, 'ab'), lambda port=port, code=code: sc.add_reflect(port, code, abbreviated='both')))
            else:
                L.append((('reflect', port, code), lambda port=port, code=code: sc.add_reflect(port, code)))
    for i in range(1, p + 1):
        for j in range(i + 1, p + 1):
            if sc.typ not in ('T16', 'U16') and p > 2 and getattr(sc, 'mixed_shapes', False) and ab_rng.random() < 0.6:
                # the 2x2 block of the pair only (abbreviated rows and columns, always in port order), the pair named in either order
                a_, b_ = (i, j) if ab_rng.random() < 0.5 else (j, i)
                L.append((('through', i, j, 'ab'), lambda a_=a_, b_=b_: sc.add_through(a_, b_, abbreviated='both')))
            else:
                a_, b_ = (i, j) if ab_rng is None or ab_rng.random() < 0.7 else (j, i)
                L.append((('through', i, j), lambda a_=a_, b_=b_: sc.add_through(a_, b_)))
            if sc.typ in ('T16', 'U16'):
                for c1, c2 in ((calsim.SHORT, calsim.OPEN), (calsim.OPEN, calsim.SHORT), (calsim.MATCH, calsim.SHORT), (calsim.SHORT, calsim.MATCH),
                               (calsim.OPEN, calsim.MATCH), (calsim.MATCH, calsim.OPEN)):
                    L.append((('double', i, j, c1, c2), lambda i=i, j=j, c1=c1, c2=c2: sc.add_double_reflect(i, j, c1, c2)))
    return L


def std_S(sc, d):
    p = sc.p
    if d[0] == 'reflect':
        return calsim.embed(p, [d[1] - 1], [[calsim.GAMMA[d[2]]]], sc.others)
    if d[0] == 'through':
        return calsim.embed(p, [d[1] - 1, d[2] - 1], [[0, 1], [1, 0]], sc.others)
    if d[0] == 'full':
        return calsim.embed(p, [d[1] - 1, d[2] - 1], d[3], sc.others)
    return calsim.embed(p, [d[1] - 1, d[2] - 1], [[calsim.GAMMA[d[3]], 0], [0, calsim.GAMMA[d[4]]]], sc.others)


def jacobian_rank(sc, descs):
    """complex rank of d(measurements of the standards)/d(E-network entries) at the true network"""
    import copy
    box = sc.box
    p = sc.p
    Ss = [std_S(sc, d) for d in descs]
    if not Ss:
        return 0
    leak_t = sc.typ in ('TE10', 'UE10', 'UE14', 'E12')
    masks = []
    for d in descs:
        ports = [d[1] - 1] if d[0] == 'reflect' else [d[1] - 1, d[2] - 1]
        m = np.zeros((p, p), bool)
        if d[0] == 'reflect' and len(d) > 3:
            m[ports[0], ports[0]] = True
        elif d[0] == 'through' and len(d) > 3:
            for i in ports:
                for j in ports:
                    m[i, j] = True
        elif sc.typ in ('T16', 'U16'):
            # every cell of the 16-term equations involves every S entry: only standards that specify the
            # whole S matrix are counted (conservative: fewer sets are called determining)
            if len(ports) == p:
                m[:, :] = True
        else:
            for i in range(p):
                for j in range(p):
                    if i in ports and j in ports:
                        m[i, j] = True                 # cell of the standard proper
                    elif leak_t and i != j and ((i in ports) != (j in ports)):
                        # no signal path: pure leakage measurement.  (Between two ports that are both outside the standard the
                        # library knows nothing and takes no sample: Model/Leakage.lean, tie in C01.)
                        m[i, j] = True
        masks.append(m[:sc.rows, :sc.cols])

    def meas(b):
        return np.concatenate([b.measure(S, 0)[m] for S, m in zip(Ss, masks)])
    base = meas(box)
    cols = []
    eps = 1e-6
    full = sc.typ in ('T16', 'U16')
    leak = sc.typ in ('TE10', 'UE10', 'UE14', 'E12')
    for s in range(len(box.boxes[0])):
        for blk in range(4):
            for i in range(p):
                for j in range(p):
                    if i != j and not full and not (leak and blk == 0):
                        continue
                    b2 = copy.copy(box)
                    b2.boxes = [list(box.boxes[0])]
                    mats = [m.copy() for m in box.boxes[0][s]]
                    mats[blk][i, j] += eps
                    b2.boxes[0][s] = tuple(mats)
                    cols.append((meas(b2) - base) / eps)
    J = np.array(cols).T
    sv = np.linalg.svd(J, compute_uv=False)
    return int((sv > 1e-6 * sv[0]).sum()) if sv.size and sv[0] > 0 else 0


def lin16_rank(sc, descs):
    """16-term models: rank and rank margin of the homogeneous linear system the documented equation gives for the standards `descs`
    (vnacal_new(3)): T16: M (Tx S + Tm) = Ts S + Ti, one equation per measurement row for every *column* of S that the standard
    defines; U16: (Um - S Ux) M = S Us - Ui, one per measurement column for every defined *row* of S.  A standard on a subset of the
    ports defines the rows / columns of its own ports (the other ports see unrelated terminations: zero transmission, unknown
    reflection).  The terms are determined (up to the common factor) iff the rank is 4 p^2 - 1."""
    p = sc.p
    rows = []
    for d in descs:
        S = std_S(sc, d)
        M = sc.box.measure(S, 0)
        ports = [d[1] - 1] if d[0] == 'reflect' else [d[1] - 1, d[2] - 1]
        for q in ports:
            for r in range(p):
                co = np.zeros((4, p, p), complex)          # blocks: s, i, x, m
                if sc.typ == 'T16':
                    # row r, column q of  Ts S + Ti - M Tx S - M Tm = 0
                    for k in range(p):
                        co[0, r, k] += S[k, q]
                        for l in range(p):
                            co[2, k, l] -= M[r, k] * S[l, q]
                        co[3, k, q] -= M[r, k]
                    co[1, r, q] += 1
                else:
                    # row q, column r of  Um M - S Ux M - S Us + Ui = 0
                    for k in range(p):
                        co[0, q, k] += M[k, r]             # Um
                        for l in range(p):
                            co[2, l, k] -= S[q, l] * M[k, r]   # Ux
                        co[3, k, r] -= S[q, k]             # Us
                    co[1, q, r] += 1                       # Ui
                rows.append(co.reshape(-1))
    if not rows:
        return 0, 0.0
    sv = np.linalg.svd(np.array(rows), compute_uv=False)
    sv = np.concatenate([sv, np.zeros(max(0, 4 * p * p - len(sv)))])
    full = 4 * p * p - 1
    rank = int((sv > 1e-9 * sv[0]).sum())
    margin = float(sv[full - 1] / sv[0]) if sv[0] > 0 else 0.0
    return rank, margin


def run(chk):
    rng = random.Random(chk.seed * 47 + 20)
    broken = []
    c15.proof_side(chk, ['Libvna.Props.C20', 'Libvna.Props.C20Conn', 'Libvna.Props.C17Order'], THEOREMS, FILES, broken)
    chk.trusted += ['tools/props/calsim.py ground truth and Jacobian-rank identifiability test',
                    'Model/Connect.lean hand model of find / build_connectivity_matrix, tied matrix by matrix through the guarded hook _vnacal_new_verif_connectivity_dump']
    chk.checker_cmd = 'cd lean && lake build Libvna.Props.C20 Libvna.Props.C20Conn && #print axioms'
    exe, _ = vlib.build_c()
    quick = chk.tier == 'quick'
    runs = []
    reps = (2 if quick else 12) * (3 if broken else 1)
    for rep_ in range(reps):
        for typ in calsim.TYPES:
            for n in (([1, 2] + ([3] if rep_ == 0 and typ in ('T8', 'U8', 'TE10', 'UE14') else [])) if quick else [1, 2, 3]):
                if typ in ('T16', 'U16') and n > 2:
                    continue
                sc = calsim.Scenario(rng, typ, n, n, 1, form=rng.choice(['m', 'ab'])).begin()
                sc.mixed_shapes = rng.random() < 0.5 or (quick and n == 3)          # full and abbreviated measurement matrices mixed
                L = standard_list(sc)
                rng.shuffle(L)
                sixteen = typ in ('T16', 'U16')
                if sixteen and n == 2 and (rep_ == 0 or rng.random() < 0.3):
                    # few fully specified standards first, then the single reflects: the set becomes determining only through every
                    # equation the reflects contribute (one per measurement row / column)
                    firstd = next(e for e in L if e[0][0] == 'double')
                    L.sort(key=lambda e: 1 if e is firstd else (0 if e[0][0] == 'through' else (2 if e[0][0] == 'reflect' else 3)))
                elif len(L) > 14:
                    L = L[:14] if rng.random() < 0.3 else L
                full_rank = 4 * n * n - 1 if sixteen else jacobian_rank(sc, [(d[0], d[1], d[2]) if d[0] in ('reflect', 'through') else d for d, _ in L])
                if full_rank == 0:
                    continue
                dut = sc.random_dut()
                steps = []      # (line index of solve, line index of apply or None, determining, nvalues)
                descs = []
                nvalues = 0
                for k, (d, adder) in enumerate(L):
                    adder()
                    descs.append(d)
                    nvalues += n * n
                    sc.lines.append('cal solve %d' % sc.n)
                    isolve = len(sc.lines) - 1
                    if sixteen:
                        # the documented linear equations decide; a margin keeps nearly dependent sets out of the claim
                        rk, margin = lin16_rank(sc, descs)
                        det = rk == full_rank and margin > 1e-4
                    else:
                        det = jacobian_rank(sc, descs) == full_rank
                        if det and typ in ('TE10', 'UE10', 'UE14', 'E12') and n > 1:
                            # the leakage terms live outside the linear system: every off-diagonal cell needs a sample without a
                            # signal path - a fully measured standard with exactly one of the two ports in it (Model/Leakage.lean);
                            # a cell never sampled that way is silently taken as leakage-free (vnacal_new(3)): nothing is claimed then
                            for a_ in range(n):
                                for b_ in range(n):
                                    if a_ != b_ and not any(len(d_) == 3 and ((a_ in ps_) != (b_ in ps_)) for d_, ps_ in
                                                            [(d_, ([d_[1] - 1] if d_[0] == 'reflect' else [d_[1] - 1, d_[2] - 1])) for d_ in descs]):
                                        det = False
                    iapply = None
                    if det:
                        sc.lines.append('cal add_calibration %d %s %d' % (sc.c, vlib.hexbytes(b'k%d' % k), sc.n))
                        sc.lines.append(sc.apply_line(0, dut).replace('cal apply 0 0 ', 'cal apply 0 @CI@ ', 1))
                        iapply = len(sc.lines) - 1
                    steps.append((isolve, iapply, det, nvalues))
                sc.lines += ['cal free 0', 'cal live']
                runs.append((typ, n, sc, steps, dut, full_rank))
    # calibration indices are only known at run time (each successful add_calibration takes the next slot)
    alll = []
    for (typ, n, sc, steps, dut, fr) in runs:
        ci = 0
        fixed = []
        for l in sc.lines:
            if '@CI@' in l:
                l = l.replace('@CI@', str(ci - 1))
            if l.startswith('cal add_calibration'):
                ci += 1
            fixed.append(l)
        sc.lines = fixed
        alll += fixed
    out, rc, err = vlib.run_lines(exe, alll, timeout=1800)
    if rc != 0 or len(out) != len(alll):
        pos, k = 0, min(len(out), len(alll) - 1)
        for (typ, n, sc, steps, dut, fr) in runs:
            if pos <= k < pos + len(sc.lines):
                chk.violation('sanitizer', 'library crashed / sanitizer fired in an add/solve history (%s %dx%d): %s' % (typ, n, n, err[-1200:]), sc.lines[:k - pos + 1])
                break
            pos += len(sc.lines)
        return
    chk.rule = ('random orderings of a generous standard list (3 reflects per port, a through per pair, double reflects for the 16-term types); solve '
                'attempted after every addition; every prefix classified by the Jacobian-rank identifiability test; distinct = distinct (type, n, prefix)')
    pos = 0
    for (typ, n, sc, steps, dut, fr) in runs:
        o = out[pos:pos + len(sc.lines)]
        pos += len(sc.lines)
        dof = DOF[typ](n)
        for (isolve, iapply, det, nvalues) in steps:
            chk.evaluations += 1
            res = o[isolve]
            tag = '%s %dx%d after %d standards' % (typ, n, n, nvalues // (n * n))
            if det:
                if not res.startswith('ok'):
                    chk.violation('determining-refused', '%s: the standards determine the error terms (Jacobian rank %d of %d) but vnacal_new_solve failed: %s' % (tag, fr, fr, res), sc.lines[:isolve + 1])
                    break
                ok, S = calsim.parse_apply(o[iapply], n)
                e = max(np.abs(S[f] - dut[f]).max() for f in range(len(dut))) if ok else float('inf')
                if not e <= 1e-7:
                    chk.violation('determining-wrong', '%s: solve succeeded on a determining set but the calibration does not correct an independent device (error %.3e)' % (tag, e), sc.lines[:iapply + 1])
                    break
                chk.count('determining_solved')
                chk.distinct.add((typ, n, isolve, pos))
            elif nvalues < dof:
                if res.startswith('ok'):
                    chk.violation('too-few-accepted', '%s: %d measured values for %d unknown error terms, yet vnacal_new_solve succeeded' % (tag, nvalues, dof), sc.lines[:isolve + 1])
                    break
                if 'EDOM' not in res:
                    chk.violation('too-few-errno', '%s: too few standards reported as %s instead of EDOM' % (tag, res), sc.lines[:isolve + 1])
                    break
                chk.count('too_few_edom')
                chk.distinct.add((typ, n, isolve, pos))
            else:
                chk.count('undetermined_' + ('ok' if res.startswith('ok') else 'refused'))
        if o[-1] != 'ok live=0':
            chk.violation('leak', '%s %dx%d: allocations remain after an add/solve history with failed attempts: %s' % (typ, n, n, o[-1]), sc.lines)
    unknown_histories(chk, exe, rng, (2 if quick else 15) * (3 if broken else 1))
    if not chk.violations:
        indirect_paths(chk, exe, rng, (1 if quick else 12) * (3 if broken else 1))
    if not chk.violations:
        connectivity_patterns(chk, exe, rng, (24 if quick else 400) * (3 if broken else 1), broken)
    if not chk.violations:
        rect_histories(chk, exe, rng, (2 if quick else 12) * (3 if broken else 1))
    chk.samples = [[l[:100] for l in runs[0][2].lines[:6]]]
    if broken and not chk.violations:
        chk.violation('obligation', 'proof/correspondence obligations that no longer check:\n' + '\n'.join(broken[:30]), nofail=True)


def closure(rows, cols, nz):
    """which ports a chain of off-diagonal cells that are not known to be zero joins (either direction)"""
    n = max(rows, cols)
    reach = [[i == j for j in range(n)] for i in range(n)]
    for r in range(rows):
        for c in range(cols):
            if r != c and nz[r * cols + c]:
                reach[r][c] = reach[c][r] = True
    for k in range(n):
        for i in range(n):
            for j in range(n):
                if reach[i][k] and reach[k][j]:
                    reach[i][j] = True
    return [int(reach[i][j]) for i in range(n) for j in range(n)]


def parse_conn_dump(o):
    """`ok | rows cols has <cells> [: <matrix>] | ...` -> list of (rows, cols, has, cells, matrix)"""
    if not o.startswith('ok'):
        return None
    res = []
    for g in o[2:].split('|')[1:]:
        left, _, right = g.partition(':')
        t = [int(x) for x in left.split()]
        res.append((t[0], t[1], t[2], t[3:], [int(x) for x in right.split()]))
    return res


def connectivity_patterns(chk, exe, rng, reps, broken):
    """standards given as partly zero S matrices on a subset of 3..6 ports, in any port order: the library's record of which cells are
    not known to be zero must be the one vnacal_new_add_mapped_matrix(3) describes, and its connectivity matrix must join exactly the
    ports a chain of such cells joins (what decides which measured cells give equations and which are leakage samples); the same
    patterns go to Model/Connect.lean (`conn_iff`) and the two matrices must be equal"""
    seen = {}
    for rep in range(reps):
        typ = rng.choice(['T8', 'U8', 'TE10', 'UE10', 'UE14', 'E12'])
        n = rng.choice([3, 4, 4, 5, 5, 6])
        sc = calsim.Scenario(rng, typ, n, n, 1).begin()
        want = []
        for _ in range(rng.randint(1, 4)):
            k = rng.randint(1, n)
            ports = rng.sample(range(1, n + 1), k)
            dens = rng.choice([0.15, 0.3, 0.6])
            H = [[(rng.choice([0, 0, 1, 2]) if i == j else (rng.choice([1, 2]) if rng.random() < dens else 0)) for j in range(k)] for i in range(k)]
            if k >= 3 and rng.random() < 0.4:
                # a chain: consecutive ports joined by one cell each, in either direction
                H = [[0] * k for _ in range(k)]
                for i in range(k - 1):
                    a, b = (i, i + 1) if rng.random() < 0.5 else (i + 1, i)
                    if rng.random() < 0.85:
                        H[a][b] = rng.choice([1, 2])
            val = {0: 0.0, 1: 1.0, 2: -1.0}
            S = calsim.embed(n, [q - 1 for q in ports], [[val[h] * 0.3 for h in row] for row in H], sc.others)
            sc.lines.append('cal add %d mapped %s %d %d %s M %s' % (sc.n, sc.mtext(sc.meas([S])), k, k, ' '.join(str(h) for row in H for h in row),
                                                                    ' '.join(str(q) for q in ports)))
            nz = [1] * (n * n)
            for r in range(n):
                for c in range(n):
                    rin, cin = (r + 1) in ports, (c + 1) in ports
                    if rin and cin:
                        nz[r * n + c] = int(H[ports.index(r + 1)][ports.index(c + 1)] != 0)
                    elif rin != cin:
                        nz[r * n + c] = 0
            want.append(nz)
        sc.lines.append('cal conn_dump %d' % sc.n)
        idump = len(sc.lines) - 1
        sc.lines += ['cal free 0', 'cal live']
        out, rc, err = vlib.run_lines(exe, sc.lines, timeout=300)
        chk.evaluations += 1
        tag = 'partly zero standards on %s %dx%d' % (typ, n, n)
        if rc != 0 or len(out) != len(sc.lines):
            chk.violation('sanitizer-conn', '%s: crashed / sanitizer report:\n%s' % (tag, err[-1200:]), sc.lines[:len(out) + 1])
            return
        groups = parse_conn_dump(out[idump])
        added = [o for l, o in zip(sc.lines, out) if ' mapped ' in l]
        if groups is None or any(not o.startswith('ok') for o in added) or len(groups) != len(want):
            chk.violation('conn-add', '%s: a valid partly zero standard was refused or not recorded: %s / %s' % (tag, [o[:40] for o in added], out[idump][:60]), sc.lines[:idump + 1])
            return
        for (rows, cols, has, cells_, mat), nz in zip(groups, want):
            if (rows, cols) != (n, n) or not has:
                chk.violation('conn-shape', '%s: recorded as %dx%d, connectivity matrix %s' % (tag, rows, cols, 'present' if has else 'missing'), sc.lines[:idump + 1])
                return
            if cells_ != nz:
                chk.violation('conn-input', '%s: the cells the library takes as not known to be zero are\n  %s\nvnacal_new_add_mapped_matrix(3) gives\n  %s' % (
                    tag, cells_, nz), sc.lines[:idump + 1])
                return
            exp = closure(rows, cols, cells_)
            if mat != exp:
                chk.violation('connectivity', '%s: cells not known to be zero %s: connectivity matrix\n  %s\nbut the ports joined by chains of such cells are\n  %s' % (
                    tag, cells_, mat, exp), sc.lines[:idump + 1])
                return
            seen[(rows, cols, tuple(cells_))] = mat
            chk.count('connectivity_matrices_ok')
            chk.count('conn_classes_%d' % len(set(tuple(exp[i * n:(i + 1) * n]) for i in range(n))))
        chk.distinct.add(('conn', typ, n, tuple(map(tuple, want))))
    keys = list(seen)
    mlines = ['uf %d %d %s' % (k[0], k[1], ' '.join(str(b) for b in k[2])) for k in keys]
    mout, mrc, merr = vlib.run_lines(vlib.model_exe(), mlines, timeout=600)
    if mrc != 0 or len(mout) != len(mlines):
        broken.append('model driver failed on the connectivity patterns: %s' % merr[-200:])
        return
    for k, l, o in zip(keys, mlines, mout):
        if o != 'ok ' + ' '.join(str(b) for b in seen[k]):
            broken.append('correspondence: Model/Connect and build_connectivity_matrix differ on `%s`\n  library: %s\n  model  : %s' % (l, seen[k], o))
            break
        chk.count('connectivity_model_compared')


def indirect_paths(chk, exe, rng, reps):
    """a determining set plus one more known standard on three or four ports whose S matrix has exact zeros between ports that are joined
    through a third one (S13 = S31 = 0 with S12, S23 not zero): those cells carry signal, they are not leakage samples.  The set still
    determines the terms, the solve succeeds and an independent device is recovered"""
    for rep in range(reps):
        for typ in calsim.TYPES:
            if typ in ('T16', 'U16'):
                continue
            n = rng.choice([3, 3, 4]) if rep else 3
            sc = calsim.Scenario(rng, typ, n, n, 1, form=rng.choice(['m', 'ab'])).begin()
            sc.solt()
            k = rng.choice([3, n])
            ports = rng.sample(range(1, n + 1), k)
            # a chain: port order p0 - p1 - p2 (- p3): neighbours joined, all other off-diagonal cells exactly zero
            H = [[0] * k for _ in range(k)]
            V = np.zeros((k, k), complex)
            hd = 3
            for i in range(k):
                for j in range(k):
                    if i == j or abs(i - j) == 1:
                        v = calsim.rc(rng, 0.25) + (0.5 if i != j else 0.0)
                        sc.lines.append('cal make_scalar %d %s' % (sc.c, vlib.c2h(v)))
                        H[i][j], V[i, j] = hd, v
                        hd += 1
            S = calsim.embed(n, [q - 1 for q in ports], V.tolist(), sc.others)
            sc.lines.append('cal add %d mapped %s %d %d %s M %s' % (sc.n, sc.mtext(sc.meas([S])), k, k, ' '.join(str(h) for row in H for h in row), ' '.join(str(q) for q in ports)))
            where = rng.random() < 0.5
            if where:
                # the chain first, the conventional standards after it
                std = sc.lines.pop()
                first_add = next(i for i, l in enumerate(sc.lines) if l.startswith('cal add '))
                sc.lines.insert(first_add, std)
                mk = [l for l in sc.lines if l.startswith('cal make_scalar')]
                sc.lines = [l for l in sc.lines if not l.startswith('cal make_scalar')]
                sc.lines[first_add:first_add] = mk
            sc.solve().add_calibration(b'c')
            dut = sc.random_dut()
            sc.lines += [sc.apply_line(0, dut), 'cal free 0', 'cal live']
            out, rc, err = vlib.run_lines(exe, sc.lines, timeout=600)
            chk.evaluations += 1
            tag = '%s %dx%d, short-open-load-through plus a known %d-port chain on ports %s (zeros between ports joined through another)' % (typ, n, n, k, ports)
            if rc != 0 or len(out) != len(sc.lines):
                chk.violation('sanitizer-indirect', '%s: crashed / sanitizer report:\n%s' % (tag, err[-1200:]), sc.lines[:len(out) + 1])
                return
            bad = [(l, o) for l, o in zip(sc.lines, out) if not o.startswith('ok')]
            if bad:
                chk.violation('indirect-refused', '%s: `%s` -> %s' % (tag, bad[0][0][:60] + ' ... ' + bad[0][0][-20:], bad[0][1][:80]), sc.lines[:sc.lines.index(bad[0][0]) + 1])
                return
            ok, Sm = calsim.parse_apply(out[-3], n)
            e = float(np.abs(Sm[0] - dut[0]).max()) if ok else float('inf')
            if not e <= 1e-7:
                chk.violation('indirect-wrong', '%s: the solve succeeds but the calibration does not correct an independent device (error %.3e)' % (tag, e), sc.lines[:-2])
                return
            chk.count('indirect_path_sets_ok')
            chk.distinct.add(('indirect', typ, n, k, tuple(ports), where))


def rect_histories(chk, exe, rng, reps):
    """rectangular calibrations (more ports than detectors or sources): reflects on a port whose own cell is not measured contribute no
    equation, only leakage samples; any prefix of the standard list that determines the terms must solve to terms that fit an
    independent device (checked on the saved error terms, as in C01)"""
    import tempfile, shutil
    from props import c02, calfile
    tmpdir = tempfile.mkdtemp(prefix='verif-c20-')
    try:
        for rep in range(reps):
            for typ, (r, c) in (('T8', (1, 2)), ('TE10', (1, 2)), ('U8', (2, 1)), ('UE10', (2, 1)), ('UE14', (2, 1)), ('E12', (2, 1))):
                sc = c02.Sc(rng, typ, r, c, 1, form=rng.choice(['m', 'ab'])).begin()
                L = []
                for port in (1, 2):
                    for code in (calsim.SHORT, calsim.OPEN, calsim.MATCH):
                        L.append((('reflect', port, code), lambda port=port, code=code: sc.add_reflect(port, code)))
                L.append((('through', 1, 2), lambda: sc.add_through(1, 2)))
                for _ in range(2):
                    S2 = [[calsim.rc(rng, 0.4), calsim.rc(rng, 0.5) + 0.4], [calsim.rc(rng, 0.5) + 0.4, calsim.rc(rng, 0.4)]]
                    L.append((('full', 1, 2, S2), lambda S2=S2: sc.add_line_handles(1, 2, tuple(sc.scalar(S2[a][b]) for a in (0, 1) for b in (0, 1)), [S2])))
                rng.shuffle(L)
                if rep % 2 == 0:
                    # the fully specified standards first, then the reflects on the port whose own cell is not measured, the others last
                    unmeasured = 2 if r < c else (2 if c < r else 0)
                    key = lambda e: 0 if e[0][0] in ('through', 'full') else (1 if e[0][1] == unmeasured else 2)
                    L.sort(key=key)
                full_rank = jacobian_rank(sc, [d for d, _ in L])
                dut = sc.random_dut()
                descs, steps = [], []
                for k, (d, adder) in enumerate(L):
                    adder()
                    descs.append(d)
                    sc.lines.append('cal solve %d' % sc.n)
                    isolve = len(sc.lines) - 1
                    det = full_rank > 0 and jacobian_rank(sc, descs) == full_rank
                    if det and typ in ('TE10', 'UE10', 'UE14', 'E12'):
                        # the leakage terms live outside the linear system: each off-diagonal measured cell needs a sample without a signal
                        # path (vnacal_new(3)); a cell only ever seen through connected standards is silently taken as leakage-free
                        for a_ in range(r):
                            for b_ in range(c):
                                if a_ != b_ and not any(((a_ in ps_) != (b_ in ps_)) for ps_ in
                                                        [([d_[1] - 1] if d_[0] == 'reflect' else [d_[1] - 1, d_[2] - 1]) for d_ in descs]):
                                    det = False
                    path = None
                    if det:
                        path = os.path.join(tmpdir, 'r%d-%s-%d.vnacal' % (rep, typ, k))
                        sc.lines.append('cal add_calibration %d %s %d' % (sc.c, vlib.hexbytes(b'k%d' % k), sc.n))
                        sc.lines += ['cal set_dprecision %d 1000' % sc.c, 'cal set_fprecision %d 1000' % sc.c, 'cal save %d %s' % (sc.c, vlib.hexbytes(path))]
                    steps.append((isolve, det, path, k))
                sc.lines += ['cal free 0', 'cal live']
                out, rc, err = vlib.run_lines(exe, sc.lines, timeout=600)
                tag0 = 'rectangular %s %dx%d %s' % (typ, r, c, sc.form)
                if rc != 0 or len(out) != len(sc.lines):
                    chk.violation('sanitizer-rect', '%s: crashed / sanitizer report in an add/solve history:\n%s' % (tag0, err[-1200:]), sc.lines[:len(out) + 1])
                    return
                ncal = 0
                for (isolve, det, path, k) in steps:
                    chk.evaluations += 1
                    tag = '%s after %d standards %s' % (tag0, k + 1, [d[0] + str(d[1]) for d in descs[:k + 1]])
                    if not det:
                        chk.count('rect_undetermined_' + ('ok' if out[isolve].startswith('ok') else 'refused'))
                        continue
                    if not out[isolve].startswith('ok'):
                        chk.violation('rect-determining-refused', '%s: the standards determine the error terms but vnacal_new_solve failed: %s' % (tag, out[isolve][:80]), sc.lines[:isolve + 1])
                        return
                    try:
                        cal = calfile.load(path, exe)[ncal]
                        res = calfile.residual(cal, 0, dut[0], sc.box.measure(dut[0], 0))
                    except Exception as ex:
                        chk.violation('rect-savefile', '%s: cannot interpret the saved calibration: %r' % (tag, ex), sc.lines[:isolve + 5])
                        return
                    ncal += 1
                    if not res <= 1e-8:
                        chk.violation('rect-determining-wrong', '%s: solve succeeded on a determining set but the error terms do not fit an independent device (residual %.3e)' % (tag, res), sc.lines[:isolve + 5])
                        return
                    chk.count('rect_determining_solved')
                    chk.distinct.add(('rect', typ, k, rep))
                if out[-1] != 'ok live=0':
                    chk.violation('rect-leak', '%s: allocations remain: %s' % (tag0, out[-1]), sc.lines)
                    return
    finally:
        shutil.rmtree(tmpdir, ignore_errors=True)


def unknown_histories(chk, exe, rng, reps):
    """standards with unknown parameters in the list: while the standards supply fewer equations than error terms of the linear systems
    plus unknown parameters, the solve must fail with EDOM; the complete list must solve, recover the parameters and correct a device"""
    from props import c02
    for _ in range(reps):
        for typ in ('T8', 'U8', 'TE10', 'UE10', 'UE14', 'E12'):
            p = 2
            sc = c02.Sc(rng, typ, p, p, rng.choice([1, 2]), form=rng.choice(['m', 'ab'])).begin()
            leak = typ in ('TE10', 'UE10', 'UE14', 'E12')
            # error terms inside the linear system(s), one free per system (vnacal_new(3)); E12 is solved as UE14: p systems of 2p+2 terms
            x_length = {'T8': 4 * p - 1, 'U8': 4 * p - 1, 'TE10': 4 * p - 1, 'UE10': 4 * p - 1, 'UE14': p * (2 * p + 1), 'E12': p * (2 * p + 1)}[typ]
            R = complex(rng.uniform(-0.9, -0.6), rng.uniform(-0.3, 0.3))
            Q = complex(rng.uniform(-0.3, 0.3), rng.uniform(-0.3, 0.3))
            hR = sc.unknown(c02.guess_near(rng, R, 0.1), R)
            hQ = sc.unknown(c02.guess_near(rng, Q, 0.1) + 0.02, Q)
            pool = []
            for port in (1, 2):
                for code in (calsim.SHORT, calsim.OPEN, calsim.MATCH):
                    pool.append((1, None, (port,), lambda port=port, code=code: sc.add_reflect(port, code)))
                pool.append((1, hR, (port,), lambda port=port: sc.std1(port, hR, R)))
                pool.append((1, hQ, (port,), lambda port=port: sc.std1(port, hQ, Q)))
                for g_ in (0.5 + 0j, -0.3j):
                    hk_ = sc.scalar(g_)
                    pool.append((1, None, (port,), lambda port=port, hk_=hk_, g_=g_: sc.std1(port, hk_, g_)))
            pool.append((4, None, (1, 2), lambda: sc.add_through(1, 2)))
            rng.shuffle(pool)
            if typ in ('UE14', 'E12') or rng.random() < 0.4:
                # all the reflects of one port first, then the through: that column system is rich, the other stays short of equations
                # although the total is large enough
                first_port = rng.choice((1, 2))
                pool.sort(key=lambda e: 0 if e[2] == (first_port,) else (1 if len(e[2]) == 2 else 2))
            eq_upper, used = 0, set()
            eq_col = [0] * p                     # 12-/14-term models: one linear system per column, the equations are not shared
            per_system = typ in ('UE14', 'E12')
            steps = []
            for cells, hd, ports_, adder in pool:
                adder()
                # upper bound on the equations of the linear systems: cells with a signal path; without leakage terms every measured cell counts
                eq_upper += cells if leak else p * p
                for q_ in ports_:
                    eq_col[q_ - 1] += len(ports_)
                if hd is not None:
                    used.add(hd)
                sc.lines.append('cal solve %d' % sc.n)
                short_col = per_system and any(e_ < 2 * p + 1 for e_ in eq_col)
                steps.append((len(sc.lines) - 1, eq_upper < x_length + len(used) or short_col, eq_upper, len(used), short_col and not eq_upper < x_length + len(used)))
            ivals = []
            for hd, truth in ((hR, R), (hQ, Q)):
                sc.lines.append('cal get_parameter_value %d %d %s' % (sc.c, hd, vlib.d2h(sc.fvec[0])))
                ivals.append((len(sc.lines) - 1, truth))
            sc.add_calibration()
            dut = sc.random_dut()
            sc.lines.append(sc.apply_line(0, dut))
            iapply = len(sc.lines) - 1
            sc.lines += ['cal free 0', 'cal live']
            out, rc, err = vlib.run_lines(exe, sc.lines, timeout=600)
            chk.evaluations += 1
            tag = 'with unknown parameters, %s 2x2 %s' % (typ, sc.form)
            if rc != 0 or len(out) != len(sc.lines):
                chk.violation('sanitizer-unknown', '%s: crashed / sanitizer report in an add/solve history:\n%s' % (tag, err[-1200:]), sc.lines[:len(out) + 1])
                return
            for (isolve, toofew, eq, nu, only_col) in steps:
                res = out[isolve]
                if toofew:
                    if only_col:
                        chk.count('one_column_short_unknown')
                    if res.startswith('ok') and only_col:
                        chk.violation('column-short-accepted-unknown', '%s: one column system has fewer equations than its %d error terms (the total, %d, is large enough), yet vnacal_new_solve succeeded' % (tag, 2 * p + 1, eq), sc.lines[:isolve + 1])
                        return
                    if res.startswith('ok'):
                        chk.violation('too-few-accepted-unknown', '%s: at most %d equations for %d error terms + %d unknown parameters, yet vnacal_new_solve succeeded' % (tag, eq, x_length, nu), sc.lines[:isolve + 1])
                        return
                    if 'EDOM' not in res:
                        chk.violation('too-few-errno-unknown', '%s: too few standards (at most %d equations for %d + %d unknowns) reported as %s instead of EDOM' % (tag, eq, x_length, nu, res[:60]), sc.lines[:isolve + 1])
                        return
                    chk.count('too_few_edom_unknown')
                    chk.distinct.add(('unk', typ, eq, nu))
            last = steps[-1][0]
            if not out[last].startswith('ok'):
                chk.violation('complete-refused-unknown', '%s: the complete list (three known reflects and two unknown reflects per port, a through) does not solve: %s' % (tag, out[last][:80]), sc.lines[:last + 1])
                return
            for i, truth in ivals:
                v = vlib.hs2c(out[i].split()[-2:])[0] if out[i].startswith('ok') else complex('nan')
                if not abs(v - truth) <= 1e-4:
                    chk.violation('complete-wrong-unknown', '%s: unknown parameter solved as %r, truth %r' % (tag, v, truth), sc.lines[:i + 1])
                    return
            ok, S = calsim.parse_apply(out[iapply], p)
            e = max(np.abs(S[f] - dut[f]).max() for f in range(len(dut))) if ok else float('inf')
            if not e <= 1e-4:
                chk.violation('complete-apply-unknown', '%s: the calibration from the complete list does not correct an independent device (error %.3e)' % (tag, e), sc.lines[:iapply + 1])
                return
            if out[-1] != 'ok live=0':
                chk.violation('leak-unknown', '%s: allocations remain: %s' % (tag, out[-1]), sc.lines)
                return
            chk.count('complete_solved_unknown')


def replay(chk, path):
    from props import c01
    return c01.replay(chk, path)
