"""C11 — failures are reported as documented and leave objects unchanged and usable.

Proof side : Libvna.Props.C11 — the category -> errno table re-extracted from src/vnaerr_verror.c is the documented one and
             separates the non-system categories; the reporting routine calls the user's function exactly once when one is
             installed (whether or not the message could be formatted) and never otherwise; a refused call returns the
             object it was given — vnadata (indices, resize, set_type, add_frequency, convert), property tree (set, delete,
             set_subtree), parameter and calibration tables, failed solve (theorems of C05, C13, C15, C16, C20).
Tie        : tools/tr_tables.py regenerates the table from the source; the models are those of the cited properties.
Oracle     : (a) a sweep of every API operation of the harness with invalid, boundary (−1, 0, n, n+1) and inconsistent
             arguments on live objects: documented failure value, errno class, exactly one callback (none for the documented
             silent queries), state digest unchanged, object still usable; (b) the same contract read off every line of
             random vnadata and vnacal histories; (c) failed solve / load / convert followed by further use.
"""
import os, random, re, tempfile, shutil
import numpy as np
import vlib
from props import c15, c16, calsim

THEOREMS = ['Libvna.Err.' + t for t in ('errno_table_documented', 'errno_classes_distinct', 'report_calls_once', 'report_errno')] + \
           ['Libvna.VD.index_refused', 'Libvna.VD.refused_frame', 'Libvna.VD.convert_reject_frame', 'Libvna.PT.refused_unchanged', 'Libvna.CT.delete_refused_frame',
            'Libvna.CT.delete_refused_cal', 'Libvna.Cal.failed_solve_frame']
FILES = ['Gen/Tables.lean', 'Props/C11.lean']
h = vlib.hexbytes
z = vlib.c2h
d2 = vlib.d2h
SILENT_CAL = ('find_calibration', 'delete_calibration', 'get_info', 'get_calibration_end', 'property', 'get_parameter_value_silent')


def parse_res(o):
    """-> (ok, errno class or None, callback errors, warnings)"""
    m = re.search(r'cb=(\d+)/(\d+)', o)
    e, w = (int(m.group(1)), int(m.group(2))) if m else (None, None)
    if o.startswith('ok'):
        return True, None, e, w
    if o.startswith('fail'):
        return False, o.split()[1], e, w
    return None, None, e, w


def sweep_cases(rng, tmpdir):
    """(group, setup lines, probes [(line, allowed errno classes, silent)], digest line, reuse lines)"""
    G = []
    f1, f2, f3 = 1e9, 2e9, 3e9
    # ---- vnadata
    vd_setup = ['vd 0 alloc', 'vd 0 init 1 2 2 2', 'vd 0 set_frequency_vector %s %s' % (d2(f1), d2(f2)), 'vd 0 set_matrix 0 ' + ' '.join(z(complex(k, -k)) for k in range(4)),
                'vd 0 set_z0 1 %s' % z(75), 'vd 1 alloc']
    init_bad = [('vd 0 init 1 -1 2 2', 'EINVAL'), ('vd 0 init 99 2 2 2', 'EINVAL'), ('vd 0 init 2 3 3 1', 'EINVAL'), ('vd 0 init 10 2 2 1', 'EINVAL'), ('vd 0 init 1 2 3 1', 'EINVAL')]
    bad = [('vd 0 resize 1 2 2 -1', 'EINVAL'), ('vd 0 resize 6 3 3 2', 'EINVAL'), ('vd 0 resize 1 70000 70000 1', 'EINVAL'), ('vd 0 set_type 99', 'EINVAL'), ('vd 0 set_type 10', 'EINVAL'),
           ('vd 0 add_frequency %s' % d2(-1.0), 'EINVAL')]
    for idx in (-1, 2, 3, 1000000):
        bad += [('vd 0 get_frequency %d' % idx, 'EINVAL'), ('vd 0 set_frequency %d %s' % (idx, d2(5e9)), 'EINVAL'), ('vd 0 get_cell %d 0 0' % idx, 'EINVAL'),
                ('vd 0 get_cell 0 %d 0' % idx, 'EINVAL'), ('vd 0 get_cell 0 0 %d' % idx, 'EINVAL'), ('vd 0 set_cell 0 %d 0 %s' % (idx, z(1)), 'EINVAL'),
                ('vd 0 set_cell %d 0 0 %s' % (idx, z(1)), 'EINVAL'), ('vd 0 get_matrix %d' % idx, 'EINVAL'),
                ('vd 0 get_z0 %d' % idx, 'EINVAL'), ('vd 0 set_z0 %d %s' % (idx, z(50)), 'EINVAL'), ('vd 0 get_fz0 %d 0' % idx, 'EINVAL'), ('vd 0 get_fz0 0 %d' % idx, 'EINVAL'),
                ('vd 0 set_fz0 %d 0 %s' % (idx, z(50)), 'EINVAL'), ('vd 0 set_fz0 0 %d %s' % (idx, z(50)), 'EINVAL'), ('vd 0 get_fz0_vector %d' % idx, 'EINVAL')]
    bad += [('vd 0 convert 0 99', 'EINVAL'),
            ('vd 0 set_format ' + h('Sxy'), 'EINVAL'), ('vd 0 set_format ' + h('zindb'), 'EINVAL'), ('vd 0 set_filetype 7', 'EINVAL'), ('vd 0 set_filetype -1', 'EINVAL'),
            ('vd 0 set_fprecision 0', 'EINVAL'), ('vd 0 set_dprecision -3', 'EINVAL'), ('vd 0 set_dprecision 1001', 'EINVAL'), ('vd 0 set_dprecision 50000000', 'EINVAL'),
            ('vd 0 set_fprecision 2147483647', 'EINVAL'), ('vd 0 set_fprecision 1001', 'EINVAL'),
            ('vd 0 load ' + h(os.path.join(tmpdir, 'missing.npd')), 'ENOENT'), ('vd 0 save ' + h('/nonexistent-dir/x.npd'), 'ENOENT')]
    G.append(('vnadata', vd_setup, [(l, (e,), False) for l, e in bad], 'vd 0 digest',
              ['vd 0 set_cell 1 1 1 %s' % z(0.5), 'vd 0 get_cell 1 1 1', 'vd 0 convert 1 4', 'vd 0 cksave ' + h('x.npd'), 'vd 0 init 4 1 1 1', 'vd 0 free', 'vd 1 free']))
    # files refused at different places of the loaders: every refusal is reported once, and so is every refusal after it on the same object
    npd = lambda par, row: ('#NPD\n#:version 1.0\n#:ports 1\n#:frequencies 1\n#:parameters %s\n#:z0 50 0j\n%s\n' % (par, row)).encode()
    files = [('x.npd', npd('Qri', '1e9 0.25 0.5')), ('x.npd', npd('Sri,Zindb', '1e9 0.25 0.5 1 2')), ('x.npd', npd('Sri', '1e9 bogus 0.5')), ('x.npd', npd('Sri', '1e9 0.25')),
             ('x.npd', b'#NPD\n#:version 9.0\n'), ('x.s1p', b'# HZ Q RI R 50\n1e9 1 2\n'), ('x.s1p', b'# HZ S RI R 50\n1e9 1\n'),
             ('x.ts', b'[Version] 2.0\n# HZ S RI R 50\n[Number of Ports] 1\n[Number of Frequencies] 2\n[Network Data]\n1e9 1 2\n[End]\n'),
             ('x.ts', b'[Version] 2.0\n# HZ S RI R 50\n[Number of Ports] 1\n[Bogus] 1\n[Number of Frequencies] 1\n[Network Data]\n1e9 1 2\n[End]\n'),
             ('x.ts', b'[Version] 2.0\n# HZ S RI R 50\n[Number of Ports] 1\n[Number of Frequencies] 1\n[Network Data]\n1e9 1 2\n[Nonsense]\n')]
    bf = []
    for name_, data_ in files:
        bf.append(('vd 0 loadstr %s x%s' % (h(name_), data_.hex()), ('EBADMSG', 'ENOPROTOOPT'), False))
        bf.append(('vd 0 set_fprecision 0', ('EINVAL',), False))
        bf.append(('vd 0 get_cell 0 5 5', ('EINVAL',), False))
    # (a failed load may leave the destination empty: the observation is a second, untouched object)
    G.append(('vnadata-badfile', ['vd 0 alloc', 'vd 0 init 1 1 1 1', 'vd 1 alloc', 'vd 1 init 1 1 1 1'], bf, 'vd 1 digest',
              ['vd 0 init 1 2 2 1', 'vd 0 set_cell 0 1 1 %s' % z(0.5), 'vd 0 get_cell 0 1 1', 'vd 0 free', 'vd 1 free']))
    # the same refusals on an object in per-frequency impedance mode (a refused setter must not collapse the mode)
    fz_setup = vd_setup + ['vd 0 set_fz0_vector 0 %s %s' % (z(75 + 1j), z(75 + 2j)), 'vd 0 set_fz0_vector 1 %s %s' % (z(80 + 1j), z(80 + 2j))]
    G.append(('vnadata-fz0', fz_setup, [(l, (e,), False) for l, e in bad if ' get_fz0' not in l or ' -1' in l or ' 2 ' in l or ' 3' in l or '1000000' in l], 'vd 0 digest',
              ['vd 0 get_fz0 1 1', 'vd 0 set_z0 0 %s' % z(50), 'vd 0 free', 'vd 1 free']))
    # an object that was larger before (3 ports, 3 frequencies, now 2 and 2): the indices between the present and the former bounds are as
    # invalid as any other (the storage behind them still exists), with ordinary and with per-frequency impedances
    sh_setup = ['vd 0 alloc', 'vd 0 init 1 3 3 3', 'vd 0 set_frequency_vector %s %s %s' % (d2(f1), d2(f2), d2(f3)),
                'vd 0 set_matrix 0 ' + ' '.join(z(complex(k, -k)) for k in range(9)), 'vd 0 set_z0 2 %s' % z(60), 'vd 0 resize 1 2 2 2', 'vd 1 alloc']
    sh_bad = [('vd 0 get_frequency 2', 'EINVAL'), ('vd 0 set_frequency 2 %s' % d2(5e9), 'EINVAL'), ('vd 0 get_cell 2 0 0', 'EINVAL'), ('vd 0 get_cell 0 2 0', 'EINVAL'),
              ('vd 0 get_cell 0 0 2', 'EINVAL'), ('vd 0 set_cell 0 2 0 %s' % z(1), 'EINVAL'), ('vd 0 set_cell 0 0 2 %s' % z(1), 'EINVAL'), ('vd 0 set_cell 2 0 0 %s' % z(1), 'EINVAL'),
              ('vd 0 get_matrix 2', 'EINVAL'), ('vd 0 get_z0 2', 'EINVAL'), ('vd 0 set_z0 2 %s' % z(75), 'EINVAL'), ('vd 0 get_fz0 2 0', 'EINVAL'), ('vd 0 get_fz0 0 2', 'EINVAL'),
              ('vd 0 set_fz0 2 0 %s' % z(75), 'EINVAL'), ('vd 0 set_fz0 0 2 %s' % z(75), 'EINVAL'), ('vd 0 set_fz0 1 2 %s' % z(75), 'EINVAL'), ('vd 0 get_fz0_vector 2', 'EINVAL')]
    G.append(('vnadata-shrunk', sh_setup, [(l, (e,), False) for l, e in sh_bad], 'vd 0 digest',
              ['vd 0 resize 1 3 3 3', 'vd 0 digest', 'vd 0 get_z0 2', 'vd 0 free', 'vd 1 free']))
    G.append(('vnadata-shrunk-fz0', sh_setup[:-2] + ['vd 0 set_fz0 1 1 %s' % z(80 + 1j)] + sh_setup[-2:], [(l, (e,), False) for l, e in sh_bad if ' get_z0' not in l], 'vd 0 digest',
              ['vd 0 resize 1 3 3 3', 'vd 0 digest', 'vd 0 get_fz0 2 2', 'vd 0 free', 'vd 1 free']))
    # a refused vnadata_init leaves the object as it was
    G.append(('vnadata-init', vd_setup, [(l, (e,), False) for l, e in init_bad], 'vd 0 digest',
              ['vd 0 digest', 'vd 0 init 1 1 1 1', 'vd 0 set_cell 0 0 0 %s' % z(0.5), 'vd 0 savestr ' + h('x.npd'), 'vd 0 free', 'vd 1 free']))
    # a Touchstone save that is refused leaves the object and its settings as they were
    G.append(('vnadata-save', vd_setup + ['vd 0 set_format ' + h('Sri,Zri')],
              [('vd 0 savestr ' + h('x.s2p'), ('EINVAL',), False), ('vd 0 cksave ' + h('x.ts'), ('EINVAL',), False)], 'vd 0 digest', ['vd 0 savestr ' + h('x.npd'), 'vd 0 free', 'vd 1 free']))
    # ---- vnacal
    sc = calsim.Scenario(rng, 'T8', 2, 2, 2, fvec=[f1, f2]).begin()
    sc.solt().solve().add_calibration(b'one')
    cal_setup = sc.lines + ['cal make_vector 0 2 %s %s %s %s' % (d2(f1), d2(f2), z(0.1), z(0.2)), 'cal property 0 -1 set ' + h('g=1'), 'cal property 0 0 set ' + h('k=v')]
    M1 = 'm 2 1 1 %s %s' % (z(0.3), z(0.2))
    M22 = 'm 2 2 2 ' + ' '.join(z(0.1 * k) for k in range(8))
    cal_bad = [
        ('cal new_alloc 0 1 99 2 2 2', ('EINVAL',), False), ('cal new_alloc 0 1 0 0 2 2', ('EINVAL',), False), ('cal new_alloc 0 1 0 3 2 2', ('EINVAL',), False),
        ('cal new_alloc 0 1 1 2 3 2', ('EINVAL',), False), ('cal new_alloc 0 1 0 2 2 -1', ('EINVAL',), False),
        # dimensions whose term count does not fit an int
        ('cal new_alloc 0 1 4 32768 32768 1', ('EINVAL',), False), ('cal new_alloc 0 1 5 46341 46341 1', ('EINVAL',), False), ('cal new_alloc 0 1 0 1 2147483647 1', ('EINVAL',), False),
        ('cal new_set_frequency_vector 0 %s %s' % (d2(f2), d2(f1)), ('EINVAL',), False), ('cal new_set_frequency_vector 0 %s %s' % (d2(-1.0), d2(f1)), ('EINVAL',), False),
        ('cal add 0 single_reflect %s 0 0' % M22, ('EINVAL',), False), ('cal add 0 single_reflect %s 0 3' % M22, ('EINVAL',), False), ('cal add 0 single_reflect %s 77 1' % M22, ('EINVAL',), False),
        ('cal add 0 single_reflect %s -5 1' % M22, ('EINVAL',), False), ('cal add 0 single_reflect m 2 3 3 %s 0 1' % ' '.join(z(0.1) for _ in range(18)), ('EINVAL',), False),
        ('cal add 0 through %s 1 1' % M22, ('EINVAL',), False), ('cal add 0 through %s 1 5' % M22, ('EINVAL',), False), ('cal add 0 double_reflect %s 0 1 2 2' % M22, ('EINVAL',), False),
        ('cal add 0 line %s 0 1 1 99 1 2' % M22, ('EINVAL',), False),
        ('cal new_set_p_tolerance 0 %s' % d2(-1e-9), ('EINVAL',), False), ('cal new_set_et_tolerance 0 %s' % d2(-1.0), ('EINVAL',), False), ('cal new_set_iteration_limit 0 0', ('EINVAL',), False),
        ('cal new_set_pvalue_limit 0 %s' % d2(0.0), ('EINVAL',), False), ('cal new_set_pvalue_limit 0 %s' % d2(1.5), ('EINVAL',), False),
        ('cal new_set_m_error 0 2 F %s %s S %s %s N' % (d2(f2), d2(f1), d2(1e-4), d2(1e-4)), ('EINVAL',), False), ('cal new_set_m_error 0 1 N S %s N' % d2(-1.0), ('EINVAL',), False),
        ('cal make_vector 0 2 %s %s %s %s' % (d2(f2), d2(f1), z(0.1), z(0.2)), ('EINVAL',), False), ('cal make_vector 0 1 %s %s' % (d2(-5.0), z(0.1)), ('EINVAL',), False),
        # not-a-number where a frequency, a sigma, a tolerance or a probability is expected: no comparison with it is true
        ('cal make_vector 0 3 %s %s %s %s %s %s' % (d2(f1), d2(float('nan')), d2(f2), z(0.1), z(0.2), z(0.3)), ('EINVAL',), False),
        ('cal make_vector 0 1 %s %s' % (d2(float('nan')), z(0.1)), ('EINVAL',), False),
        ('cal make_vector 0 2 %s %s %s %s' % (d2(float('nan')), d2(f1), z(0.1), z(0.2)), ('EINVAL',), False),
        ('cal make_correlated 0 1 2 F %s %s %s %s' % (d2(f1), d2(float('nan')), d2(0.1), d2(0.1)), ('EINVAL',), False),
        ('cal make_correlated 0 1 1 N %s' % d2(float('nan')), ('EINVAL',), False),
        ('cal get_parameter_value 0 3 %s' % d2(float('nan')), ('EINVAL',), False),
        ('cal new_set_pvalue_limit 0 %s' % d2(float('nan')), ('EINVAL',), False), ('cal new_set_et_tolerance 0 %s' % d2(float('nan')), ('EINVAL',), False),
        ('cal new_set_p_tolerance 0 %s' % d2(float('nan')), ('EINVAL',), False),
        ('cal make_unknown 0 99', ('EINVAL',), False), ('cal make_unknown 0 -1', ('EINVAL',), False), ('cal make_correlated 0 99 1 N %s' % d2(0.1), ('EINVAL',), False),
        ('cal make_correlated 0 1 1 N %s' % d2(-0.1), ('EINVAL',), False), ('cal delete_parameter 0 99', ('EINVAL',), False), ('cal delete_parameter 0 -1', ('EINVAL',), False),
        ('cal get_parameter_value 0 99 %s' % d2(f1), ('EINVAL',), False), ('cal get_parameter_value 0 3 %s' % d2(9e9), ('EINVAL',), False),
        ('cal apply 0 5 m 2 %s %s 2 2 %s' % (d2(f1), d2(f2), ' '.join(z(0.1) for _ in range(8))), ('EINVAL',), False),
        ('cal apply 0 -1 m 2 %s %s 2 2 %s' % (d2(f1), d2(f2), ' '.join(z(0.1) for _ in range(8))), ('EINVAL',), False),
        ('cal apply 0 0 m 2 %s %s 3 3 %s' % (d2(f1), d2(f2), ' '.join(z(0.1) for _ in range(18))), ('EINVAL',), False),
        ('cal apply 0 0 m 2 %s %s 2 2 %s' % (d2(f1), d2(9e9), ' '.join(z(0.1) for _ in range(8))), ('EINVAL',), False),
        ('cal apply 0 0 m 2 %s %s 2 2 %s' % (d2(f2), d2(f1), ' '.join(z(0.1) for _ in range(8))), ('EINVAL',), False),
        ('cal set_fprecision 0 0', ('EINVAL',), False), ('cal set_dprecision 0 -1', ('EINVAL',), False),
        ('cal save 0 ' + h('/nonexistent-dir/x.vnacal'), ('ENOENT',), False), ('cal load 2 ' + h(os.path.join(tmpdir, 'missing.vnacal')), ('ENOENT',), False),
        ('cal loadstr 2 x' + b'#VNACal 9.0\n---\n'.hex(), ('ENOPROTOOPT',), False), ('cal loadstr 2 x' + b'#VNACal 1.0\n---\n[1, 2\n'.hex(), ('EBADMSG',), False),
        ('cal loadstr 2 x' + b'hello\n'.hex(), ('EBADMSG',), False),
        # the documented silent queries
        ('cal find_calibration 0 ' + h('absent'), ('ENOENT',), True), ('cal delete_calibration 0 7', ('ENOENT', 'EINVAL'), True), ('cal delete_calibration 0 -1', ('ENOENT', 'EINVAL'), True),
        ('cal get_info 0 3', ('ENOENT', 'EINVAL'), True), ('cal get_info 0 -1', ('ENOENT', 'EINVAL'), True),
        ('cal property 0 9 get ' + h('k'), ('ENOENT', 'EINVAL'), True), ('cal property 0 0 get ' + h('absent'), ('ENOENT',), True), ('cal property 0 0 get ' + h('k..'), ('EINVAL',), True),
        ('cal property 0 0 set ' + h('k'), ('EINVAL',), True), ('cal property 0 0 delete ' + h('nothing.here'), ('ENOENT',), True), ('cal property 0 -1 count ' + h('g'), ('EINVAL',), True),
        ('cal property 0 -1 keys ' + h('g'), ('EINVAL',), True), ('cal property 0 -2 get ' + h('g'), ('ENOENT', 'EINVAL'), True),
    ]
    # frequency-vector arguments: every position made NaN / negative / not above its predecessor (a second, still empty vnacal_new_t of 3 points)
    cal_setup.append('cal new_alloc 0 5 0 2 2 3')
    f3 = [f1, f2, f2 * 1.5]
    nan = '7ff8000000000000'
    for pos in range(3):
        for bad in [nan, d2(-1.0)] + ([d2(f3[pos - 1]), d2(f3[pos - 1] * 0.5)] if pos else []):
            v = [d2(x) for x in f3]
            v[pos] = bad
            cal_bad.append(('cal new_set_frequency_vector 5 ' + ' '.join(v), ('EINVAL',), False))
    for pos in range(1, 3):
        for bad in (d2(f3[pos - 1]), d2(f3[pos - 1] * 0.5)):
            v = [d2(x) for x in f3]
            v[pos] = bad
            cal_bad.append(('cal make_vector 0 3 %s %s %s %s' % (' '.join(v), z(0.1), z(0.2), z(0.3)), ('EINVAL',), False))
    dut = sc.random_dut()
    G.append(('vnacal', cal_setup, cal_bad, 'cal savestr 0',
              [sc.apply_line(0, dut), 'cal find_calibration 0 ' + h('one'), 'cal property 0 0 get ' + h('k'), 'cal new_free 0', 'cal free 0']))
    # a save that fails leaves vnacal_get_filename at the file last saved to (or loaded from)
    good_ = os.path.join(tmpdir, 'good.vnacal')
    G.append(('vnacal-filename', cal_setup + ['cal save 0 ' + h(good_)],
              [('cal save 0 ' + h('/nonexistent-dir/x.vnacal'), ('ENOENT',), False), ('cal save 0 ' + h(os.path.join(tmpdir, 'no-such-dir', 'y.vnacal')), ('ENOENT',), False)],
              'cal get_filename 0', ['cal save 0 ' + h(os.path.join(tmpdir, 'good2.vnacal')), 'cal get_filename 0', 'cal load 1 ' + h(good_), 'cal get_filename 1', 'cal free 1', 'cal free 0']))
    # a solve that cannot work, an add_calibration without a solve: refused, and the work can go on
    sc2 = calsim.Scenario(rng, 'U8', 1, 1, 2, fvec=[f1, f2]).begin()
    sc2.add_reflect(1, calsim.SHORT)
    pre = list(sc2.lines)
    sc2.add_reflect(1, calsim.OPEN)
    sc2.add_reflect(1, calsim.MATCH)
    rest = sc2.lines[len(pre):]
    dut2 = sc2.random_dut()
    G.append(('vnacal-solve', pre, [('cal solve 0', ('EDOM',), False), ('cal add_calibration 0 %s 0' % h('early'), ('EINVAL',), False)], 'cal get_calibration_end 0',
              rest + ['cal solve 0', 'cal add_calibration 0 %s 0' % h('late'), sc2.apply_line(0, dut2), 'cal free 0']))
    # "a rejected standard adds nothing": its first parameter is an unknown, its second handle is invalid; the exactly determined set that
    # follows must still solve (one unknown too many would make it under-determined)
    sc3 = calsim.Scenario(rng, 'T8', 2, 2, 2, fvec=[f1, f2]).begin()
    pre3 = sc3.lines + ['cal make_unknown 0 2']
    M22b = 'm 2 2 2 ' + ' '.join(z(0.1 * k) for k in range(8))
    sc3.lines = []
    for code in (calsim.SHORT, calsim.OPEN, calsim.MATCH):
        sc3.add_reflect(1, code)
    sc3.add_through(1, 2)
    G.append(('vnacal-refused-add', pre3, [('cal add 0 double_reflect %s 3 12345 1 2' % M22b, ('EINVAL',), False), ('cal add 0 line %s 3 3 3 -7 1 2' % M22b, ('EINVAL',), False)], 'cal get_calibration_end 0',
              sc3.lines + ['cal solve 0', 'cal add_calibration 0 %s 0' % h('ok'), 'cal free 0']))
    # rectangular calibrations: a measurement matrix larger than the calibration, or abbreviated to a row / column of a port the
    # calibration has no detector / source for, is invalid (vnacal_new(3)); refused with EINVAL, and the proper list still solves
    for typ4, r4, c4 in (('T8', 1, 2), ('U8', 2, 1), ('UE14', 2, 1), ('T8', 2, 3), ('U8', 3, 2)):
        from props import c02
        sc4 = c02.Sc(rng, typ4, r4, c4, 2, fvec=[f1, f2]).begin()
        pre4 = list(sc4.lines)
        sc4.lines = []
        M11 = 'm 2 1 1 %s %s' % (z(0.1), z(0.2))
        M22c = 'm 2 2 2 ' + ' '.join(z(0.1 * k) for k in range(8))
        M33 = 'm 2 3 3 ' + ' '.join(z(0.01 * k) for k in range(18))
        M44 = 'm 2 4 4 ' + ' '.join(z(0.01 * k) for k in range(32))
        if max(r4, c4) == 2:
            for port in (1, 2):
                for code in (calsim.SHORT, calsim.OPEN, calsim.MATCH):
                    sc4.add_reflect(port, code)
            sc4.add_through(1, 2)
            for _ in range(2):
                S2 = [[calsim.rc(rng, 0.4), calsim.rc(rng, 0.5) + 0.4], [calsim.rc(rng, 0.5) + 0.4, calsim.rc(rng, 0.4)]]
                sc4.add_line_handles(1, 2, tuple(sc4.scalar(S2[a][b]) for a in (0, 1) for b in (0, 1)), [S2, S2])
            # larger than the 1x2 / 2x1 matrix of the calibration
            probes4 = [('cal add 0 through %s 1 2' % M22c, ('EINVAL',), False), ('cal add 0 double_reflect %s 2 1 1 2' % M22c, ('EINVAL',), False),
                       ('cal add 0 line %s 0 1 1 0 1 2' % M33, ('EINVAL',), False), ('cal add 0 single_reflect %s 2 1' % M22c, ('EINVAL',), False)]
        else:
            sc4.solt()
            # port 3 has no row (2x3) / no column (3x2): the one cell, and the 2x2 block of ports (1,3) / (2,3), cannot be placed
            probes4 = [('cal add 0 single_reflect %s 2 3' % M11, ('EINVAL',), False), ('cal add 0 through %s 1 2' % M44, ('EINVAL',), False)]
        G.append(('vnacal-rect-add-%s-%dx%d' % (typ4, r4, c4), pre4, probes4, 'cal get_calibration_end 0',
                  sc4.lines + ['cal solve 0', 'cal add_calibration 0 %s 0' % h('ok'), 'cal free 0']))
    return G, {('vnacal', 0): (sc, dut), ('vnacal-solve', 2): (sc2, dut2)}


def run(chk):
    rng = random.Random(chk.seed * 89 + 11)
    broken = []
    if os.environ.get('VERIF_DEV_NOPROOF') != '1':
        c15.proof_side(chk, ['Libvna.Props.C11'], THEOREMS, FILES, broken)
    chk.trusted += ['the allowed errno classes per call are transcribed from the manual pages (vnaerr(3), vnacal(3), vnacal_new(3), vnacal_parameter(3), vnadata(3))']
    chk.checker_cmd = 'cd lean && lake build Libvna.Props.C11 && #print axioms'
    exe, _ = vlib.build_c()
    quick = chk.tier == 'quick'
    tmpdir = tempfile.mkdtemp(prefix='verif-c11-')
    try:
        groups, truth = sweep_cases(rng, tmpdir)
        for (name, setup, probes, digest, reuse) in groups:
            dg = digest or 'cal live'        # None: the call may change the object (it must stay usable)
            lines = list(setup) + [dg]
            idx = []
            for (pl, classes, silent) in probes:
                lines += [pl, 'errmsg', dg]
                idx.append(len(lines) - 3)
            i_reuse = len(lines)
            lines += reuse + ['cal live']
            out, rc, err = vlib.run_lines(exe, lines, timeout=600)
            if rc != 0 or len(out) != len(lines):
                k = min(len(out), len(lines) - 1)
                chk.violation('crash-' + name, 'invalid arguments answered with a crash / sanitizer report at `%s`:\n%s' % (lines[k][:120], err[-1500:]), lines[:k + 1])
                continue
            bad_setup = [l for l, o in zip(setup, out) if not o.startswith('ok')]
            if bad_setup:
                chk.violation('setup-' + name, 'set-up step failed: %s' % bad_setup[0][:100], setup)
                continue
            ref = out[len(setup)]
            for (pl, classes, silent), i in zip(probes, idx):
                chk.evaluations += 1
                ok, e, cbe, cbw = parse_res(out[i])
                rep = setup + ([digest, pl, digest] if digest else [x[0] for x in probes[:probes.index((pl, classes, silent)) + 1]])
                if ok is None:
                    chk.violation('harness', 'harness answered %r to %r' % (out[i][:60], pl[:80]), rep)
                    continue
                if ok:
                    chk.violation('accepted-' + name, '`%s` was accepted (%s) although its arguments are invalid' % (pl[:110], out[i][:50]), rep)
                    ref = out[i + 2]
                    continue
                if e not in classes:
                    chk.violation('errno-' + name, '`%s` failed with errno %s, documented class %s' % (pl[:110], e, '/'.join(classes)), rep)
                    continue
                if silent and cbe:
                    chk.violation('callback-' + name, '`%s` is a documented silent query but called the error function %d time(s)' % (pl[:110], cbe), rep)
                    continue
                if not silent and cbe != 1:
                    chk.violation('callback-' + name, '`%s` failed and called the error function %d times (expected exactly once)' % (pl[:110], cbe), rep)
                    continue
                if not silent:
                    # vnaerr(3): the message is one line
                    w_ = out[i + 1].split()
                    msg_ = bytes.fromhex(w_[1][1:]).decode('utf-8', 'replace') if len(w_) > 1 and w_[1].startswith('x') else ''
                    if '\n' in msg_ or not msg_.strip():
                        chk.violation('message-' + name, '`%s` failed with the message %r (expected one non-empty line)' % (pl[:110], msg_[:160]), rep)
                        continue
                if out[i + 2] != ref:
                    chk.violation('changed-' + name, '`%s` was refused but changed the object: %s -> %s' % (pl[:110], ref[:150], out[i + 2][:150]), rep)
                    ref = out[i + 2]
                    continue
                chk.count('refused_clean_' + name)
                chk.distinct.add((name, pl[:60]))
            # the object is still usable
            ro = out[i_reuse:i_reuse + len(reuse)]
            badr = [(l, o) for l, o in zip(reuse, ro) if not o.startswith('ok')]
            if badr:
                chk.violation('unusable-' + name, 'after the refused calls `%s` fails: %s' % (badr[0][0][:100], badr[0][1][:60]), lines[:i_reuse + reuse.index(badr[0][0]) + 1])
            elif out[-1] != 'ok live=0':
                chk.violation('leak-' + name, 'allocations remain after the refused calls and the final free: %s' % out[-1], lines)
            else:
                for (gname, k), (scx, dut) in truth.items():
                    if gname == name:
                        k = next(i for i, l in enumerate(reuse) if l.startswith('cal apply'))
                        okx, S = calsim.parse_apply(ro[k], scx.p)
                        if not okx or max(np.abs(S[f] - dut[f]).max() for f in range(scx.nf)) > 1e-8:
                            chk.violation('wrong-after-' + name, 'after refused calls the calibration no longer corrects a device', lines)
                chk.count('usable_after_' + name)
    finally:
        shutil.rmtree(tmpdir, ignore_errors=True)
    histories(chk, exe, rng, 6 if quick else 150)
    chk.rule = ('sweep of %d invalid / boundary / inconsistent calls over vnadata, vnacal, vnacal_new, parameters, properties, save and load on live objects with a state digest after every '
                'call; the reporting contract (failure value, errno class, callback count) read off every line of random vnadata and vnacal histories; failed solve followed by '
                'completion, refused add_calibration, refused saves' % sum(len(g[2]) for g in groups))
    chk.samples = [[groups[0][2][0][0], groups[2][2][0][0][:120]]]
    if broken and not chk.violations:
        chk.violation('obligation', 'proof/correspondence obligations that no longer check:\n' + '\n'.join(broken[:30]), nofail=True)


def histories(chk, exe, rng, count):
    """the contract on every line of random histories (the semantic oracles of C15 / C16 judge the values)"""
    for k in range(count):
        lines0, _ = c15.gen_history(rng, 60)
        # a digest of the addressed object before every call: a refused call must leave it as it was
        lines = []
        for l in lines0:
            w = l.split()
            if w[2] not in ('alloc', 'free', 'digest'):
                lines.append('vd %s digest' % w[1])
            lines.append(l)
        out, rc, err = vlib.run_lines(exe, lines, timeout=300)
        if rc != 0 or len(out) != len(lines):
            chk.violation('crash-history', 'crash / sanitizer report in a vnadata history:\n%s' % err[-1200:], lines[:len(out) + 1])
            return
        last_digest = {}
        for i, (l, o) in enumerate(zip(lines, out)):
            w = l.split()
            if w[2] == 'digest' and i + 1 < len(lines) and lines[i + 1].split()[1] == w[1]:
                # state before the next call on this slot; compare after a failure
                j = i + 1
                if out[j].startswith('fail') and lines[j].split()[2] not in ('init', 'convert', 'loadstr', 'load'):
                    # next digest of the same slot
                    k2 = next((k for k in range(j + 1, len(lines)) if lines[k].split()[1] == w[1] and lines[k].split()[2] == 'digest'), None)
                    between = [lines[k] for k in range(j + 1, k2 or j + 1) if lines[k].split()[1] == w[1]]
                    if k2 is not None and not between and out[k2] != o:
                        chk.violation('changed-history', '`%s` was refused (%s) but changed the object: %s -> %s' % (lines[j][:100], out[j][:30], o[:160], out[k2][:160]), lines[:k2 + 1])
                        return
                    chk.count('refused_unchanged_in_history')
        for l, o in zip(lines, out):
            ok, e, cbe, cbw = parse_res(o)
            chk.evaluations += 1
            if ok is True and cbe:
                chk.violation('callback-on-success', '`%s` succeeded but called the error function %d time(s)' % (l[:100], cbe), lines[:lines.index(l) + 1])
                return
            if ok is False and cbe != 1:
                chk.violation('callback-count', '`%s` failed (%s) and called the error function %d times' % (l[:100], e, cbe), lines[:lines.index(l) + 1])
                return
            if ok is False and e not in ('EINVAL', 'ENOMEM'):
                chk.violation('errno-history', '`%s` failed with errno %s' % (l[:100], e), lines[:lines.index(l) + 1])
                return
        chk.count('vnadata_history_clean')
    for k in range(max(2, count // 3)):
        box = calsim.ErrorBox(rng, 'T8', 1, 1, 1)
        S, e = c16.history(rng, exe, 60, box)
        rc, err = S.close()
        if S.dead or rc != 0:
            chk.violation('crash-history', 'crash / sanitizer report in a vnacal history:\n%s' % err[-1200:], S.lines)
            return
        for l, o in zip(S.lines, S.outs):
            ok, ecls, cbe, cbw = parse_res(o)
            op = l.split()[1]
            silent = op in SILENT_CAL
            chk.evaluations += 1
            if ok is True and cbe:
                chk.violation('callback-on-success', '`%s` succeeded but called the error function %d time(s)' % (l[:100], cbe), S.lines[:S.lines.index(l) + 1])
                return
            if ok is False and ((silent and cbe) or (not silent and cbe != 1)):
                chk.violation('callback-count', '`%s` failed (%s) and called the error function %d times (%s)' % (l[:100], ecls, cbe, 'silent query' if silent else 'expected once'), S.lines[:S.lines.index(l) + 1])
                return
        chk.count('vnacal_history_clean')
        chk.distinct.add(('hist', k, len(S.lines)))


def replay(chk, path):
    from props import c01
    return c01.replay(chk, path)
