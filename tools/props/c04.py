"""C04 — every network-parameter conversion yields the same physical network.

Proof side  : tr_conv2 regenerates the Lean model of all 81 two-port functions from /repo/src and
              the generated theorems (_fwd/_bwd/_exact/_alias/_out_indep, _port1/_port2) are re-checked;
              hand model + theorems for the n-port functions (Libvna.Props.C04).
Tie         : translator (T) + the Float rendering of the *same generated text* is run against the
              compiled C on random inputs (H), which also validates the translator.
Oracle      : the C output is substituted into the defining relation of vnaconv(3): the solution space
              of the output relation must equal the solution space of the input relation.
"""
import json, os, random, subprocess, sys
import numpy as np
import vlib

TYPES = 'stuzyhgab'


def forms(z0):
    """linear forms on the state (v1, v2, i1, i2) as rows: dictionary name -> 4-vector"""
    z1, z2 = z0
    k1, k2 = abs(z1.real) ** 0.5, abs(z2.real) ** 0.5
    f = {}
    f['v1'] = np.array([1, 0, 0, 0], complex)
    f['v2'] = np.array([0, 1, 0, 0], complex)
    f['i1'] = np.array([0, 0, 1, 0], complex)
    f['i2'] = np.array([0, 0, 0, 1], complex)
    f['-i2'] = -f['i2']
    f['a1'] = (f['v1'] + z1 * f['i1']) / (2 * k1)
    f['b1'] = (f['v1'] - z1.conjugate() * f['i1']) / (2 * k1)
    f['a2'] = (f['v2'] + z2 * f['i2']) / (2 * k2)
    f['b2'] = (f['v2'] - z2.conjugate() * f['i2']) / (2 * k2)
    return f


REL = {  # type -> (lhs names, rhs names): lhs = M rhs   (vnaconv(3))
    's': (('b1', 'b2'), ('a1', 'a2')), 't': (('b1', 'a1'), ('a2', 'b2')), 'u': (('a2', 'b2'), ('b1', 'a1')),
    'z': (('v1', 'v2'), ('i1', 'i2')), 'y': (('i1', 'i2'), ('v1', 'v2')), 'h': (('v1', 'i2'), ('i1', 'v2')),
    'g': (('i1', 'v2'), ('v1', 'i2')), 'a': (('v1', 'i1'), ('v2', '-i2')), 'b': (('v2', '-i2'), ('v1', 'i1')),
}


def rel_matrix(t, M, z0):
    f = forms(z0)
    lhs, rhs = REL[t]
    L = np.array([f[n] for n in lhs])
    R = np.array([f[n] for n in rhs])
    return L - np.array(M, complex).reshape(2, 2) @ R


def nullspace(A, k):
    u, s, vh = np.linalg.svd(A)
    return vh.conj().T[:, -k:], s


def rand_c(rng, scale=1.0):
    return complex(rng.gauss(0, scale), rng.gauss(0, scale))


Z0S = [(50 + 0j, 50 + 0j), (75 + 0j, 50 + 0j), (1 + 0j, 1 + 0j), (30 + 10j, 60 - 20j), (5 - 40j, 120 + 3j)]


def gen_case(rng):
    m = [rand_c(rng) for _ in range(4)]
    r = rng.random()
    if r < 0.15:
        m = [x * 50 for x in m]
    elif r < 0.25:
        m = [x * 0.02 for x in m]
    if rng.random() < 0.6:
        z0 = rng.choice(Z0S)
    else:
        z0 = (complex(rng.uniform(1, 150), rng.gauss(0, 30)), complex(rng.uniform(1, 150), rng.gauss(0, 30)))
    return m, z0


def fmt_line(fn, mode, m, z0):
    return 'conv %s %s %s %s' % (fn, mode, ' '.join(vlib.c2h(x) for x in m), ' '.join(vlib.c2h(x) for x in z0))


def parse_out(line):
    w = line.split()
    if not w or w[0] != 'ok':
        return None
    return vlib.hs2c(w[1:])


def oracle(fn, m, z0, out):
    """returns None if the C output satisfies the property, else a description"""
    src = fn.split('_')[1][0]
    dst = fn.split('to')[-1] if 'to' in fn else ''
    dst = fn[len('vnaconv_') + 3:]
    Ain = rel_matrix(src, m, z0)
    if any(x != x or abs(x) == float('inf') for x in out) or max(abs(x) for x in out) > 1e5:
        # non-finite or huge output belongs to the singular set of the conversion; away from it, it is a wrong answer.  Decided from
        # the input alone: the states of the input relation, written in the independent variables of the output relation, are regular
        if dst not in TYPES:
            return 'skip'
        with np.errstate(all='ignore'):
            N0, s0 = nullspace(Ain, 2)
            f0 = forms(z0)
            blk = np.array([f0[nm] for nm in REL[dst][1]]) @ N0
            sv0 = np.linalg.svd(blk, compute_uv=False)
            reg = s0[0] / max(s0[1], 1e-300) < 1e4 and sv0[-1] > 1e-3 * sv0[0]
        if reg:
            return 'non-finite or huge output for an input away from the singular set of the conversion (condition %.1e of the independent variables of the output relation)' % (
                sv0[0] / max(sv0[-1], 1e-300))
        return 'skip'       # near the singular set
    big = max(abs(x) for x in out)
    if dst in TYPES:
        N, s = nullspace(Ain, 2)
        Aout = rel_matrix(dst, out, z0)
        res = np.linalg.norm(Aout @ N) / max(np.linalg.norm(Aout), 1e-300)
        sv = np.linalg.svd(Aout, compute_uv=False)
        cond = (s[0] / max(s[1], 1e-300)) * (sv[0] / max(sv[-1], 1e-300)) * max(1.0, big)
        if cond > 1e6:
            return 'skip'
        if res > 1e-9 * cond:
            return 'output relation is not satisfied by the states of the input relation: residual %.3e (cond %.1e)' % (res, cond)
        if sv[-1] < 1e-12 * sv[0]:
            return 'output relation is degenerate'
        return None
    # zi
    f = forms(z0)
    for port, other in ((1, 2), (2, 1)):
        A3 = np.vstack([Ain, f['a%d' % other]])
        N, s = nullspace(A3, 1)
        if s[2] < 1e-9 * s[0]:
            return 'skip'
        st = N[:, 0]
        v = f['v%d' % port] @ st
        i = f['i%d' % port] @ st
        zi = out[port - 1]
        scale = abs(v) + abs(zi * i)
        if scale < 1e-9 * np.linalg.norm(st):
            return 'skip'
        if not abs(v - zi * i) <= 1e-8 * scale * max(1.0, s[0] / s[2]):
            return 'zi[%d] is not the impedance seen at port %d with port %d terminated: v=%s zi*i=%s' % (port - 1, port, other, v, zi * i)
    return None


def close(a, b, tol=1e-8):
    sc = max(1.0, max(abs(x) for x in a))
    return all(abs(x - y) <= tol * sc for x, y in zip(a, b))


def run(chk):
    from props import c04n
    tier = chk.tier
    rng = random.Random(chk.seed * 7919 + 4)
    # 1. regenerate the model from the source
    r = vlib.sh([sys.executable, os.path.join(vlib.VERIF, 'tools', 'tr_conv2.py')])
    vlib.log(r.stdout.strip())
    meta = json.load(open(os.path.join(vlib.VERIF, 'gen', 'conv2.json')))
    untrans = {k: v['error'] for k, v in meta.items() if 'error' in v}
    fns = sorted(meta)
    # 2. re-check the theorems
    ok, out = vlib.lake_build(['Libvna.Gen.Conv2All', 'Libvna.Props.C04', 'vmodel'])
    failed = vlib.failed_modules(out) if not ok else []
    thms = []
    for fn in fns:
        if 'error' in meta[fn]:
            continue
        thms += ['Libvna.Gen.Thm.' + t for t in meta[fn]['theorems']]
    hand = c04n.THEOREMS
    files = [os.path.join(vlib.LEAN, 'Libvna', 'Gen', 'Conv2.lean')] + \
        [os.path.join(vlib.LEAN, 'Libvna', 'Gen', 'Conv2Thm', fn + '.lean') for fn in fns] + \
        [os.path.join(vlib.LEAN, 'Libvna', p) for p in ('Props/C04.lean', 'Props/C04N.lean', 'Props/C19.lean', 'Props/C19Loop.lean', 'Props/C19Solve.lean',
                                                         'Proofs/ConvLemmas.lean', 'Spec/ConvRel.lean', 'Model/ConvN.lean', 'Model/LinAlg.lean')]
    good_mods = [fn for fn in fns if 'error' not in meta[fn] and ('Libvna.Gen.Conv2Thm.' + fn) not in failed]
    imports = ['Libvna.Gen.Conv2Thm.' + fn for fn in good_mods]
    if 'Libvna.Props.C04' not in failed:
        imports.append('Libvna.Props.C04')
    check_thms = [t for t in thms if any(t.startswith('Libvna.Gen.Thm.' + fn + '_') for fn in good_mods)]
    if 'Libvna.Props.C04' not in failed:
        check_thms += hand
    nok, problems, axioms = vlib.audit(files, imports, check_thms)
    chk.obligations = len(thms) + len(hand) + len(untrans) * 5
    chk.discharged = nok
    chk.theorems = check_thms
    chk.trusted = ['Lean 4 kernel', 'axioms: ' + ', '.join(sorted(axioms)),
                   'tools/tr_conv2.py (clang-14 JSON AST -> Lean), validated by running its Float rendering against the compiled C',
                   'Spec/ConvRel.lean: hand-written relations of vnaconv(3)',
                   'exact field arithmetic: rounding is not modelled']
    chk.checker_cmd = 'python3-vt tools/tr_conv2.py && cd lean && lake build Libvna.Gen.Conv2All Libvna.Props.C04 && #print axioms'
    broken = []
    for fn, e in untrans.items():
        broken.append('translator rejects %s: %s' % (fn, e))
    for m in failed:
        broken.append('module %s no longer checks' % m)
    broken += problems
    if tier == 'thorough' and not failed:
        for mod in ['Libvna.Props.C04', 'Libvna.Gen.Conv2Thm.vnaconv_stoz', 'Libvna.Gen.Conv2Thm.vnaconv_ztos']:
            okc, o = vlib.leanchecker(mod)
            chk.count('leanchecker_' + ('ok' if okc else 'fail'))
            if not okc:
                broken.append('leanchecker rejects %s: %s' % (mod, o[-300:]))
    # 3. correspondence + oracle on the compiled C
    exe, _ = vlib.build_c()
    n = 60 if tier == 'quick' else 2500
    if broken:
        n *= 10          # enlarged search for a concrete failing input
    cases = []
    lines = []
    for fn in fns:
        is_zi = fn.endswith('zi')
        for k in range(n):
            m, z0 = gen_case(rng)
            mode = 'alias' if k % 3 == 2 else 'sep'
            cases.append((fn, mode, m, z0))
            lines.append(fmt_line(fn, mode, m, z0))
    cout, crc, cerr = vlib.run_lines(exe, lines)
    if crc != 0 or len(cout) != len(lines):
        bad = lines[min(len(cout), len(lines) - 1)]
        chk.violation('sanitizer', 'harness died (rc=%s) at line %d: %s\n%s' % (crc, len(cout), bad, cerr[-1500:]), [bad])
        return
    have_model = os.path.exists(vlib.model_exe()) and 'vmodel' not in ' '.join(failed)
    mout = None
    if have_model:
        mout, mrc, merr = vlib.run_lines(vlib.model_exe(), lines)
        if mrc != 0 or len(mout) != len(lines):
            broken.append('model driver failed: rc=%s %s' % (mrc, merr[-300:]))
            mout = None
    chk.rule = ('random complex 2x2 matrices (three magnitude classes) and reference impedances with positive real part '
                '(equal, unequal, complex); distinct = distinct (function, mode, input); non-trivial = output finite and '
                'away from the singular set so that the relation oracle applies')
    nviol = 0
    mism = 0
    sepres = {}
    for idx, (fn, mode, m, z0) in enumerate(cases):
        chk.evaluations += 1
        co = parse_out(cout[idx])
        if co is None:
            chk.violation('harness', 'harness answered %r to %s' % (cout[idx], lines[idx]), [lines[idx]])
            return
        o = oracle(fn, m, z0, co)
        if o == 'skip':
            chk.count('near_singular_skipped')
        elif o is not None:
            nviol += 1
            if nviol <= 3:
                chk.violation('oracle-%s' % fn, '%s: %s' % (fn, o), [lines[idx], '# C output: ' + cout[idx]])
        else:
            chk.distinct.add((fn, mode, idx))
            chk.count('oracle_ok_' + ('zi' if fn.endswith('zi') else mode))
        if mout is not None:
            mo = parse_out(mout[idx])
            if mo is None or not close(co, mo) and o != 'skip':
                mism += 1
                if mism <= 3:
                    broken.append('correspondence: model and C differ on %s\n  C: %s\n  M: %s' % (lines[idx], cout[idx], mout[idx]))
        if len(chk.samples) < 6 and idx % (n * 9 + 1) == 0:
            chk.samples.append({'line': lines[idx], 'c_output': cout[idx], 'model_output': mout[idx] if mout else None})
    chk.extra['model_mismatches'] = mism
    # n-port functions, round trips, n = 2 agreement
    c04n.run_numeric(chk, exe, rng, broken, scale=10 if broken else 1)
    if broken and not chk.violations:
        p = 'proof/correspondence obligations that no longer check:\n' + '\n'.join(broken[:40])
        chk.violation('obligation', p, nofail=True)
    elif broken:
        vlib.log('also broken: ' + '\n'.join(broken[:20]))


def replay(chk, path):
    exe, _ = vlib.build_c()
    lines = [l.strip() for l in open(path) if l.strip() and not l.startswith('#')]
    cout, crc, cerr = vlib.run_lines(exe, lines)
    for l, o in zip(lines, cout):
        print(l)
        print('  ->', o)
        w = l.split()
        if w[0] == 'conv':
            vals = vlib.hs2c(w[3:])
            r = oracle(w[1], vals[:4], tuple(vals[4:6]), parse_out(o))
            print('  oracle:', r)
    return 0
