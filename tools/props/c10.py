"""C10 — frequency interpolation is exact at given points and refuses out-of-range use.

Proof side : Libvna.Props.C10 — rfi exact at the knots for any hint, hint independence, segment search
             specification; spline exact at the knots for every n >= 1, exact on linear data; range predicates.
Tie        : Model/Interp.lean executed on doubles against _vnacal_rfi / _vnacommon_spline_* of the compiled C.
Oracle     : value at a knot == supplied value (bit-exact); value independent of the hint (bit-exact);
             low-order rational / linear dependence reproduced; >= 5 % shortfall refused at the call sites.
"""
import os, random
import vlib
from props import c15

THEOREMS = ['Libvna.Interp.' + t for t in (
    'descend_spec', 'ascend_spec', 'findSegment_spec', 'rfi_exact_at_knots', 'rfi_hint_independent',
    'seg_at_left', 'seg_at_right', 'bsearch_spec', 'spline_exact_at_knots', 'elim_linear', 'secondDeriv_linear',
    'spline_linear', 'range_refuses', 'range_accepts')]
FILES = ['Model/Interp.lean', 'Props/C10.lean', 'Driver/NumDrv.lean']


def knots(rng, n):
    xs = [rng.uniform(1e6, 2e6)]
    for _ in range(n - 1):
        xs.append(xs[-1] + rng.uniform(1e3, 5e5))
    return xs


def run(chk):
    rng = random.Random(chk.seed * 7 + 10)
    broken = []
    c15.proof_side(chk, ['Libvna.Props.C10'], THEOREMS, FILES, broken)
    chk.trusted += ['Model/Interp.lean: hand model; the Bulirsch-Stoer arithmetic is a parameter of the theorems (driver: Driver/NumDrv.lean)',
                    'tie = correspondence run on doubles']
    chk.checker_cmd = 'cd lean && lake build Libvna.Props.C10 && #print axioms'
    exe, _ = vlib.build_c()
    quick = chk.tier == 'quick'
    N = (150 if quick else 6000) * (5 if broken else 1)
    lines, meta = [], []
    for _ in range(N):
        n = rng.randint(1, 8)
        m = rng.randint(1, min(n, 5))
        xs = knots(rng, n)
        kind = rng.choice(['random', 'rational', 'linear', 'recip', 'linear', 'rational'])
        zero_at = rng.choice(xs) if rng.random() < 0.3 else None     # the function has a root exactly at a knot
        if kind == 'random':
            ys = [complex(rng.gauss(0, 1), rng.gauss(0, 1)) for _ in xs]
            f = None
        elif kind == 'linear':
            a, b = complex(rng.gauss(0, 1e-6), rng.gauss(0, 1e-6)), complex(rng.gauss(0, 1), rng.gauss(0, 1))
            if zero_at is not None:
                f = lambda x, a=a, z=zero_at: a * (x - z)
            else:
                f = lambda x, a=a, b=b: a * x + b
            ys = [f(x) for x in xs]
        elif kind == 'recip':
            a, c = complex(rng.gauss(0, 1), rng.gauss(0, 1)), rng.uniform(2e-7, 9e-7)
            f = lambda x, a=a, c=c: a / (1 + c * x)
            ys = [f(x) for x in xs]
        else:
            a, b, c = complex(rng.gauss(0, 1), rng.gauss(0, 1)), complex(rng.gauss(0, 1e-6), 0), rng.uniform(2e-7, 9e-7)
            if zero_at is not None:
                f = lambda x, b=b, c=c, z=zero_at: (b + 1e-6j) * (x - z) / (1 + c * x)
            else:
                f = lambda x, a=a, b=b, c=c: (a + b * x) / (1 + c * x)
            ys = [f(x) for x in xs]
        base = ' '.join(vlib.d2h(x) for x in xs) + ' ' + ' '.join(vlib.c2h(y) for y in ys)
        qs = [('knot', xs[k], k) for k in range(n)]
        for _ in range(3):
            qs.append(('between', rng.uniform(xs[0], xs[-1]) if n > 1 else xs[0], None))
        qs.append(('below', xs[0] * 0.999, None))
        qs.append(('above', xs[-1] * 1.001, None))
        rng.shuffle(qs)
        for (qk, x, k) in qs:
            hints = [rng.randint(-2, n + 1), rng.randint(-2, n + 1), 0, n - 2]
            for h in hints[:3 if quick else 4]:
                lines.append('num rfi %d %d %d %s %s' % (n, m, h, vlib.d2h(x), base))
                meta.append(('rfi', qk, x, k, ys, kind, f, n, m, len(lines) - 1 if h == hints[0] else first))
                if h == hints[0]:
                    first = len(lines) - 1
                    meta[-1] = ('rfi', qk, x, k, ys, kind, f, n, m, first)
        # spline
        n = rng.randint(1, 8)
        xs = knots(rng, n + 1)
        lin = rng.random() < 0.4
        if lin:
            a, b = rng.gauss(0, 1e-6), rng.gauss(0, 1)
            ys = [a * x + b for x in xs]
        else:
            ys = [rng.uniform(1e-4, 1e-2) for _ in xs]
        q = list(xs) + [rng.uniform(xs[0], xs[-1]) for _ in range(3)] + [xs[0] * 0.99, xs[-1] * 1.01]
        lines.append('num spline %d %s %s %s' % (n, ' '.join(vlib.d2h(x) for x in xs), ' '.join(vlib.d2h(y) for y in ys), ' '.join(vlib.d2h(x) for x in q)))
        meta.append(('spline', n, xs, ys, q, (a, b) if lin else None))
    # "nice" data: small integers on an integer grid, with a change of sign, asked at eighths of the spacing and within a few ulps of
    # them - where intermediate interpolants of the Bulirsch-Stoer recurrence have their poles although the final one is a straight line
    import math
    for _ in range(N // 3):
        n = rng.randint(3, 7)
        m = rng.randint(3, min(n, 5))
        k0 = rng.randint(1, 8)
        xs = [1e9 * (k0 + i) for i in range(n)]
        b_ = rng.choice([-3, -2, -1, 1, 2, 3])
        cross = k0 + rng.randint(0, n - 2) + rng.choice([0.5, 0.25, 0.75, 0.5])
        a_ = -b_ * cross
        f = lambda x, a_=a_, b_=b_: complex(a_ + b_ * (x / 1e9))
        ys = [f(x) for x in xs]
        base = ' '.join(vlib.d2h(x) for x in xs) + ' ' + ' '.join(vlib.c2h(y) for y in ys)
        qs = []
        for _q in range(6):
            x = xs[rng.randrange(n - 1)] + rng.randint(1, 7) / 8.0 * 1e9
            for u in (0, 0, rng.randint(-3, 3)):
                xq = x
                for _s in range(abs(u)):
                    xq = math.nextafter(xq, math.inf if u > 0 else -math.inf)
                qs.append(xq)
        for x in qs:
            h = rng.randint(-2, n + 1)
            lines.append('num rfi %d %d %d %s %s' % (n, m, h, vlib.d2h(x), base))
            meta.append(('rfi', 'between', x, None, ys, 'linear', f, n, m, len(lines) - 1))
    cout, crc, cerr = vlib.run_lines(exe, lines)
    if crc != 0 or len(cout) != len(lines):
        bad = lines[min(len(cout), len(lines) - 1)]
        chk.violation('sanitizer', 'interpolator crashed / sanitizer fired: %s' % cerr[-1500:], [bad])
        return
    mout, mrc, merr = vlib.run_lines(vlib.model_exe(), lines)
    if mrc != 0 or len(mout) != len(lines):
        broken.append('model driver failed: rc=%s %s' % (mrc, merr[-300:]))
        mout = None
    chk.rule = ('knot vectors of length 1..8 (2..9 for the spline), windows m = 1..min(n,5), every knot and points between/below/above '
                'queried in random order with hints from -2..n+1; data random, linear, low-order rational; distinct = distinct (vector, query, hint)')
    nmis = 0
    for idx, mt in enumerate(meta):
        chk.evaluations += 1
        w = cout[idx].split()
        if mt[0] == 'rfi':
            _, qk, x, k, ys, kind, f, n, m, first = mt
            val = vlib.hs2c(w[1:3])[0]
            if qk == 'knot':
                if vlib.c2h(val) != vlib.c2h(ys[k]):
                    chk.violation('rfi-knot', 'rfi at supplied point %d of %d (m=%d) returned %r, supplied %r' % (k, n, m, val, ys[k]), [lines[idx]])
                else:
                    chk.count('rfi_knot_exact')
            if first != idx:
                v0 = ' '.join(cout[first].split()[1:3])
                if v0 != ' '.join(w[1:3]):
                    chk.violation('rfi-hint', 'rfi value depends on the segment hint: %s vs %s' % (cout[first][:80], cout[idx][:80]), [lines[first], lines[idx]])
                else:
                    chk.count('rfi_hint_same')
            # an m-point window fits numerator order (m-1)/2 and denominator order m/2 (vnacal_rfi.c): m = 2 is a/(d0 + d1 x),
            # m >= 3 contains (n0 + n1 x)/(d0 + d1 x) and with it the straight lines
            if f is not None and qk == 'between' and ((kind in ('linear', 'rational') and m >= 3) or (kind == 'recip' and m >= 2)):
                t = f(x)
                if not abs(val - t) <= 1e-6 * max(1.0, abs(t)):
                    chk.violation('rfi-' + kind, 'rfi (m=%d, n=%d) does not reproduce a %s dependence: got %r want %r' % (m, n, kind, val, t), [lines[idx]])
                else:
                    chk.count('rfi_reproduces_' + kind)
            chk.distinct.add(lines[idx][:60])
        else:
            _, n, xs, ys, q, lin = mt
            if w[0] != 'ok':
                chk.violation('spline-fail', 'spline over valid knots failed: %s' % cout[idx], [lines[idx]])
                continue
            vals = [vlib.h2d(h) for h in w[1:]]
            for i in range(n + 1):
                if vlib.d2h(vals[i]) != vlib.d2h(ys[i]):
                    chk.violation('spline-knot', 'spline with %d points: value at supplied point %d is %r, supplied %r' % (n + 1, i, vals[i], ys[i]), [lines[idx]])
                    break
            else:
                chk.count('spline_knots_exact_n%d' % n)
            if lin:
                a, b = lin
                for x, v in zip(q, vals):
                    if abs(v - (a * x + b)) > 1e-9 * max(abs(b), abs(a * x)):
                        chk.violation('spline-linear', 'spline with %d points does not reproduce linear data at x=%r: %r vs %r' % (n + 1, x, v, a * x + b), [lines[idx]])
                        break
                else:
                    chk.count('spline_linear_ok')
            chk.distinct.add(lines[idx][:60])
        def rfi_same(a, b, ys_):
            # interpolated values agree relative to the size of the data (a value near a zero of the function is compared absolutely)
            wa, wb = a.split(), b.split()
            if wa[0] != wb[0] or wa[0] != 'ok' or len(wa) < 3 or len(wb) < 3:
                return a.split()[:1] == b.split()[:1] and wa[0] != 'ok'
            va, vb = vlib.hs2c(wa[1:3])[0], vlib.hs2c(wb[1:3])[0]
            sc_ = max([abs(y_) for y_ in ys_] + [abs(va), 1e-300])
            return abs(va - vb) <= 1e-7 * sc_
        if mout is not None and not (rfi_same(cout[idx], mout[idx], mt[4]) if mt[0] == 'rfi' else vlib.same_line(cout[idx], mout[idx], 1e-7)):
            nmis += 1
            if nmis <= 3:
                broken.append('correspondence: model and C differ on `%s`\n  C: %s\n  M: %s' % (lines[idx][:90], cout[idx][:160], mout[idx][:160]))
    chk.extra['model_mismatches'] = nmis
    chk.samples = [lines[0][:260], lines[-1][:260]]
    try:
        from props import calrange
        calrange.run_ranges(chk, exe, rng, broken)
    except ImportError:
        chk.assumptions.append('range checks at the four call sites: not exercised yet (calibration harness pending)')
    if broken and not chk.violations:
        chk.violation('obligation', 'proof/correspondence obligations that no longer check:\n' + '\n'.join(broken[:30]), nofail=True)


def replay(chk, path):
    exe, _ = vlib.build_c()
    lines = [l.strip() for l in open(path) if l.strip() and not l.startswith('#')]
    out, rc, err = vlib.run_lines(exe, lines)
    mo, _, _ = vlib.run_lines(vlib.model_exe(), lines)
    for i, l in enumerate(lines):
        print(l[:200], '\n  C:', out[i][:300] if i < len(out) else '<died>', '\n  M:', mo[i][:300] if i < len(mo) else '')
    return 0
