"""C06 — network data survive save and load in Touchstone 1, Touchstone 2 and NPD.

Proof side : Libvna.Props.C06 — the cell order of Touchstone data (Full / Upper / Lower, 12_21 / 21_12) visits every
             cell of its domain exactly once and symmetric completion reproduces a symmetric matrix; the engineering
             notation of print_value keeps the value (digits x 10^exponent) for every precision and exponent; the
             Touchstone 1 normalisation and the MA / dB coordinate maps are inverted by the loader's formulas; the NPD
             loader's field offsets stay inside the line it has checked.
Tie        : Model/FileFmt.lean executed against the compiled C (cell order read back from files whose k-th value is k;
             digit layout of saved numbers).
Oracle     : an independent reader of the three formats (tools/props/nfile.py) reads what vnadata_fsave wrote and must
             find the object's type, dimensions, frequencies, impedances and data in every requested parameter form;
             vnadata_fload of the same text must agree with that reader to rounding and with the original object to
             the precision requested (bit-exact at maximum precision in rectangular form where stored directly);
             cksave <=> fsave <=> save.
"""
import re
import math, os, random, shutil, tempfile
import numpy as np
import vlib
from props import c15, nfile, c04n

THEOREMS = ['Libvna.FF.' + t for t in ('load_consistent', 'tsCells_full_perm', 'tsCells_upper_spec', 'tsCells_lower_spec', 'symmetric_fill', 'two_port_order_involutive', 'ts1_two_port_roundtrip', 'order_lower_length', 'eng_fits_buffer',
                                      'eng_value_preserved', 'eng_exponent_mod3', 'eng_before_range', 'ts1_normalise_roundtrip', 'ma_roundtrip',
                                      'db_roundtrip', 'npd_offsets_in_line', 'npd_fields_writer_eq_loader')]
FILES = ['Model/FileFmt.lean', 'Props/C06.lean', 'Driver/FFDrv.lean']
TYPE = {'s': 1, 't': 2, 'u': 3, 'z': 4, 'y': 5, 'h': 6, 'g': 7, 'a': 8, 'b': 9, 'zin': 10}
TNAME = {v: k for k, v in TYPE.items()}
MAXP = 1000
h = vlib.hexbytes


def parse_digest(line):
    w = line.split()
    if not w or w[0] != 'ok':
        return None
    kv = dict(x.split('=') for x in w[1:w.index('F')])
    iF, iD, iZ = w.index('F'), w.index('D'), w.index('Z')
    d = dict(type=int(kv['type']), rows=int(kv['rows']), cols=int(kv['cols']), nf=int(kv['freqs']), fz0=int(kv['fz0']), ft=int(kv['ft']),
             fp=int(kv['fp']), dp=int(kv['dp']))
    d['freqs'] = [vlib.h2d(x) for x in w[iF + 1:iD]]
    cells = vlib.hs2c(w[iD + 1:iZ])
    r, c = d['rows'], d['cols']
    d['data'] = [[[cells[(f * r + a) * c + b] for b in range(c)] for a in range(r)] for f in range(d['nf'])]
    z = vlib.hs2c(w[iZ + 1:])
    ports = max(r, c)
    if d['fz0']:
        d['z0'] = [z[f * ports:(f + 1) * ports] for f in range(d['nf'])]
    else:
        d['z0'] = z
    return d


def gen_object(rng, exact=False):
    """(lines building slot 0, description)"""
    t = rng.choice(['s', 's', 's', 'z', 'y', 'h', 'g', 't', 'u', 'a', 'b', 'zin'])
    ports = 2 if t in 'tuhgab' else rng.choice([1, 2, 2, 3, 4, 5])
    rows = 1 if t == 'zin' else ports
    nf = rng.randint(1, 4)
    lines = ['vd 0 alloc', 'vd 0 init %d %d %d %d' % (TYPE[t], rows, ports, nf)]
    f0 = rng.choice([1.0, 1e3, 2.5e6, 1e9, 3.3e10])
    freqs = [f0 * (1 + 0.37 * k) for k in range(nf)]
    if rng.random() < 0.3:
        freqs = [float('%.3g' % f) for f in freqs]
    if rng.random() < 0.15:
        freqs = [0.0] + freqs[:-1]               # the grid starts at the DC point
    elif rng.random() < 0.12 and nf > 1:
        # a narrow-band sweep: neighbouring points 1 Hz .. 1 kHz apart at a gigahertz (they print alike at the default precision)
        step = rng.choice([1.0, 10.0, 100.0, 1000.0])
        freqs = [rng.choice([1e9, 2.4e9, 1e10]) + step * k for k in range(nf)]
    lines.append('vd 0 set_frequency_vector ' + ' '.join(vlib.d2h(f) for f in freqs))
    scale = {'z': 50.0, 'y': 0.02, 'zin': 50.0}.get(t, 1.0)
    if rng.random() < 0.25:
        # value magnitudes over the whole range 1e-12 .. 1e12
        scale *= 10.0 ** rng.randint(-12, 12)
    for f in range(nf):
        M = [complex(rng.gauss(0, 1), rng.gauss(0, 1)) * scale for _ in range(rows * ports)]
        if t == 'zin':
            M = [complex(abs(z.real) + (1 if abs(scale) == 50.0 else 0), z.imag) for z in M]
            if rng.random() < 0.1:
                M = [complex(0.0, z.imag) for z in M]          # purely reactive
        if rng.random() < 0.15:
            M = [complex(float('%.3g' % z.real), float('%.3g' % z.imag)) for z in M]
        lines.append('vd 0 set_matrix %d %s' % (f, ' '.join(vlib.c2h(z) for z in M)))
    zk = rng.choice(['default', 'real-equal', 'real-mixed', 'complex', 'perf'])
    if zk == 'real-equal':
        lines.append('vd 0 set_all_z0 %s' % vlib.c2h(rng.choice([75.0, 1.0, 100.0, 12.5])))
    elif zk == 'real-mixed':
        lines.append('vd 0 set_z0_vector ' + ' '.join(vlib.c2h(rng.choice([50.0, 75.0, 100.0])) for _ in range(ports)))
    elif zk == 'complex':
        lines.append('vd 0 set_z0_vector ' + ' '.join(vlib.c2h(complex(rng.choice([50, 75, 30]), rng.choice([0, 10, -5]))) for _ in range(ports)))
    elif zk == 'perf':
        for f in range(nf):
            lines.append('vd 0 set_fz0_vector %d %s' % (f, ' '.join(vlib.c2h(z) for z in c04n.z0_vector(rng, ports))))
    return lines, dict(type=t, ports=ports, rows=rows, nf=nf, z0kind=zk, dc=(freqs[0] == 0.0))


SPECS = ['s', 't', 'u', 'z', 'y', 'h', 'g', 'a', 'b', 'zin']


def gen_format(rng, obj, touchstone=False):
    if touchstone and rng.random() < 0.8:
        # what Touchstone can hold: one of s z y h g in one coordinate system
        cand = ['s', 'z', 'y'] + (['h', 'g'] if obj['ports'] == 2 else [])
        p = rng.choice(cand + [''])
        return p + rng.choice(['', 'ri', 'ma', 'db', 'RI', 'Ma']) or None
    if not touchstone and rng.random() < 0.7:
        cand = (['zin', 'prc', 'prl', 'src', 'srl'] if obj['type'] == 'zin' else
                ['s', 'z', 'y', 'zin', 'prc', 'prl', 'src', 'srl', 'rl', 'vswr'] + (['il'] if obj['ports'] > 1 else []) + (['t', 'u', 'h', 'g', 'a', 'b'] if obj['ports'] == 2 else []))
        if obj.get('dc'):
            # an equivalent R-L / R-C circuit has no meaning at 0 Hz
            cand = [q_ for q_ in cand if q_ not in ('prc', 'prl', 'src', 'srl')]
        parts = []
        for _ in range(rng.randint(1, 4)):
            q = rng.choice(cand)
            if len(q) <= 1 or q == 'zin':
                q += rng.choice(['', 'ri', 'ma'] + (['db'] if q in ('s', 't', 'u') else []))
            parts.append(q)
        return ','.join(parts)
    r = rng.random()
    if r < 0.2:
        return None
    if r < 0.55:
        p = rng.choice([obj['type']] + SPECS[:7])
        return rng.choice([p, p + 'ri', p + 'ma', p + 'db', p.upper() + 'RI', p.upper() + 'dB'])
    parts = []
    for _ in range(rng.randint(1, 4)):
        x = rng.random()
        if x < 0.65:
            p = rng.choice(SPECS)
            parts.append(p + rng.choice(['', 'ri', 'ma', 'db', 'Ri', 'MA']))
        else:
            parts.append(rng.choice((['prc', 'prl', 'src', 'srl'] if not obj.get('dc') else []) + ['il', 'rl', 'vswr', 'IL', 'VSWR', 'ri', 'ma', 'db']))
    return rng.choice([',', ', ', ' , ']).join(parts)


def db_slack(e, p, dbonly):
    """relative error of a magnitude whose decibel value is printed with p significant digits"""
    if not dbonly or p >= MAXP or abs(e) == 0 or abs(e) != abs(e) or math.isinf(abs(e)):
        return 0.0
    db = abs(20.0 * math.log10(abs(e)))
    if db < 1e-300:
        return 0.0
    half_unit = 0.5 * 10.0 ** (math.floor(math.log10(db)) + 1 - max(p, 1))
    return 1.02 * (10.0 ** (half_unit / 20.0) - 1.0)


def tol_rel(p):
    return 1.0 if p >= MAXP else 0.51 * 10.0 ** (1 - max(p, 1))


def close_component(a, e, p, scale):
    """file value a vs expected e printed with p significant digits"""
    if math.isinf(e) or math.isnan(e):
        return math.isinf(a) or math.isnan(a) or abs(a) > 1e300
    if p >= MAXP:
        # stored values are exact; derived ones (dB, R-L-C elements, converted types) are right to rounding of the derivation
        return a == e or abs(a - e) <= (1e-13 * abs(e) if scale == 0 else 4e-16 * max(abs(e), scale * 1e-3))
    return abs(a - e) <= tol_rel(p) * abs(e) * 1.02 + 1e-300 + 2e-15 * scale


def polar_close(kind, ga, gb, e, p, zin):
    """fields (ga: magnitude or dB, gb: degrees) as written vs the complex value e: the magnitude field carries p significant
    digits, the angle is fixed point with p-1 (matrices) or p-3 (Zin) decimals, at least whole degrees"""
    ea, eb = nfile.to_coords(kind, e)
    if not close_component(ga, ea, p, 0):
        return False
    if abs(e) == 0 or math.isinf(ea):
        return True
    ap = max(p, 3)
    lim = 1e-9 if ap >= MAXP else 0.51 * 10.0 ** (-(ap - (3 if zin else 1)))
    return abs((gb - eb + 180.0) % 360.0 - 180.0) <= lim + 1e-9


def run(chk):
    rng = random.Random(chk.seed * 61 + 6)
    broken = []
    if os.environ.get('VERIF_DEV_NOPROOF') != '1':
        c15.proof_side(chk, ['Libvna.Props.C06'], THEOREMS, FILES, broken)
    chk.trusted += ['tools/props/nfile.py: independent reader of Touchstone 1/2 (per the Touchstone specification) and NPD (per its self-describing header)',
                    'expected values in other parameter forms come from vnadata_convert (decided by C04/C05)',
                    'printf / strtod / libm of the platform (decimal and %a formatting, cabs, carg, log10, pow, cexp)']
    chk.checker_cmd = 'cd lean && lake build Libvna.Props.C06 && #print axioms'
    exe, _ = vlib.build_c()
    quick = chk.tier == 'quick'
    N = (250 if quick else 6000) * (3 if broken else 1)
    tmpdir = tempfile.mkdtemp(prefix='verif-c06-')
    try:
        cases = []
        lines = []
        # fixed cases first: purely reactive / purely resistive input impedances in the R-L / R-C element forms (R or the element is infinite)
        forced = []
        for fmt_, zs_ in (('prl', [0 + 10j, 20 + 10j]), ('prc', [0 - 10j, 5 - 1j]), ('srl', [0 + 10j, 7 + 0j]), ('src', [0 - 10j, 3 - 2j]), ('prl,zinri', [0 + 3j, 1e-3 + 5j])):
            ol_ = ['vd 0 alloc', 'vd 0 init %d 1 2 1' % TYPE['zin'], 'vd 0 set_frequency_vector ' + vlib.d2h(1e6), 'vd 0 set_matrix 0 ' + ' '.join(vlib.c2h(z_) for z_ in zs_)]
            forced.append((ol_, dict(type='zin', ports=2, rows=1, nf=1, z0kind='default'), fmt_))
        # narrow-band sweeps in the Touchstone file types at the default and nearby frequency precisions (neighbouring points that print alike)
        narrow = []
        for ext_, step_ in (('.s2p', 10.0), ('.ts', 10.0), ('.s1p', 100.0), ('.ts', 1.0), ('.s2p', 1000.0)):
            np_ = 1 if ext_ == '.s1p' else 2
            fr_ = [1e9 + step_ * k for k in range(3)]
            ol_ = ['vd 0 alloc', 'vd 0 init %d %d %d 3' % (TYPE['s'], np_, np_), 'vd 0 set_frequency_vector ' + ' '.join(vlib.d2h(f) for f in fr_)] + [
                'vd 0 set_matrix %d %s' % (f, ' '.join(vlib.c2h(complex(0.1 * (f + 1), -0.05 * q)) for q in range(np_ * np_))) for f in range(3)]
            narrow.append((ol_, dict(type='s', ports=np_, rows=np_, nf=3, z0kind='default', freqs=fr_), ext_))
        for k in range(N):
            if k < len(forced):
                ol, obj, fmt = forced[k]
                ext, ft, fp, dp = '.npd', 0, 9, 9
            elif k < len(forced) + 2 * len(narrow):
                ol, obj, ext = narrow[(k - len(forced)) // 2]
                fmt, ft, dp = None, 0, 6
                fp = (7, 9)[(k - len(forced)) % 2]
            else:
                ol, obj = gen_object(rng)
                ext = rng.choice(['.npd', '.npd', '.ts', '.ts', '.s%dp' % obj['ports'], '.s%dp' % rng.randint(1, 4), '.dat', '', '.NPD', '.TS', '.S%dP' % obj['ports']])
                ft = rng.choice([0, 0, 0, 1, 2, 3])
                fmt = gen_format(rng, obj, touchstone=ext.lower() in ('.ts',) or ext.lower().startswith('.s') or (ext in ('.dat', '') and ft in (1, 2)))
                fp = rng.choice([7, 7, 1, 2, 3, 5, 9, 12, 15, MAXP])
                dp = rng.choice([6, 6, 1, 2, 3, 4, 9, 12, 15, MAXP, MAXP])
            name = 'case%d%s' % (k, ext)
            L = list(ol)
            if ft:
                L.append('vd 0 set_filetype %d' % ft)
            if fmt is not None:
                L.append('vd 0 set_format ' + h(fmt))
            L += ['vd 0 set_fprecision %d' % fp, 'vd 0 set_dprecision %d' % dp]
            c = dict(obj=obj, fmt=fmt, ext=ext, ft=ft, fp=fp, dp=dp, name=name, start=len(lines), nsetup=len(L))
            L.append('vd 0 digest')
            c['i_digest'] = len(lines) + len(L) - 1
            # cksave / save to a stream / save to a file in any order: each must behave the same on the pristine object (a save that
            # promotes Touchstone 1 to 2 leaves the file type promoted, so whichever comes first sees the original setting)
            for op_ in rng.choice([('ck', 'str', 'file'), ('str', 'ck', 'file'), ('file', 'str', 'ck'), ('str', 'file', 'ck')]):
                if op_ == 'ck':
                    L.append('vd 0 cksave ' + h(name))
                    c['i_ck'] = len(lines) + len(L) - 1
                elif op_ == 'str':
                    L.append('vd 0 savestr ' + h(name))
                    c['i_save'] = len(lines) + len(L) - 1
                else:
                    L.append('vd 0 save ' + h(os.path.join(tmpdir, name)))
                    c['i_file'] = len(lines) + len(L) - 1
            L.append('vd 0 get_format')
            c['i_fmt'] = len(lines) + len(L) - 1
            # the object in every parameter type the formats may ask for (independent of the save path)
            c['i_conv'] = {}
            for tname, tcode in TYPE.items():
                L += ['vd 1 alloc', 'vd 0 convert 1 %d' % tcode, 'vd 1 digest', 'vd 1 free']
                c['i_conv'][tname] = len(lines) + len(L) - 2
            L += ['vd 0 free']
            lines += L
            cases.append(c)
        lines.append('cal live')
        out, rc, err = vlib.run_lines(exe, lines, timeout=3000)
        if rc != 0 or len(out) != len(lines):
            k = min(len(out), len(lines) - 1)
            c = [x for x in cases if x['start'] <= k][-1]
            chk.violation('sanitizer', 'library crashed / sanitizer fired while saving (%s):\n%s' % (lines[k][:100], err[-1500:]), lines[c['start']:k + 1])
            return
        if out[-1] != 'ok live=0':
            chk.violation('leak', 'allocations remain after saving and freeing: %s' % out[-1], lines[:50])
        phase2 = []
        numbers = []
        for c in cases:
            chk.evaluations += 1
            setup_ok = all(out[i].startswith('ok') for i in range(c['start'], c['start'] + c['nsetup']))
            tag = '%s %dp nf=%d z0=%s format=%r name=*%s filetype=%d fp=%d dp=%d' % (c['obj']['type'], c['obj']['ports'], c['obj']['nf'], c['obj']['z0kind'],
                                                                                  c['fmt'], c['ext'], c['ft'], c['fp'], c['dp'])
            rep = lines[c['start']:c['i_file'] + 1]
            if not setup_ok:
                bad = [lines[i] for i in range(c['start'], c['start'] + c['nsetup']) if not out[i].startswith('ok')][0]
                if ' set_format ' in bad:
                    chk.count('format_refused_by_set_format')
                    continue
                chk.violation('setup', '%s: a set-up step failed: %s' % (tag, bad[:80]), rep)
                continue
            ck, sv, fl = (out[c[k]].startswith('ok') for k in ('i_ck', 'i_save', 'i_file'))
            if not (ck == sv == fl):
                chk.violation('cksave', '%s: cksave %s, fsave %s, save %s' % (tag, out[c['i_ck']][:30], out[c['i_save']][:30], out[c['i_file']][:30]), rep)
                continue
            if not sv:
                if 'EINVAL' not in out[c['i_save']]:
                    chk.violation('refuse-errno', '%s: refused with %s instead of EINVAL' % (tag, out[c['i_save']][:40]), rep)
                chk.count('refused')
                continue
            text = bytes.fromhex(out[c['i_save']].split()[-1][1:]).decode('latin-1')
            try:
                on_disk = open(os.path.join(tmpdir, c['name']), 'rb').read().decode('latin-1')
            except OSError:
                on_disk = None
            if on_disk != text:
                chk.violation('save-vs-fsave', '%s: vnadata_save and vnadata_fsave wrote different files' % tag, rep)
                continue
            orig = parse_digest(out[c['i_digest']])
            conv = {t: parse_digest(out[i]) for t, i in c['i_conv'].items()}
            problem = verify_file(chk, c, text, orig, conv)
            if problem:
                chk.violation('file-' + problem[0], '%s: %s' % (tag, problem[1]), rep + ['# file written:'] + ['# ' + x for x in text.split('\n')[:40]])
                continue
            if len(numbers) < 4000:
                for l in text.split('\n'):
                    if l and l[0] not in '#[!':
                        toks = l.split()
                        if l[0] in ' \t':         # continuation line of a Touchstone record: data only
                            toks = [None] + toks
                        else:
                            numbers.append((toks[0], c['fp'], tag))
                        if c['kind'] == 'npd' or (c['fmt'] or '').lower().endswith('ri') or not c['fmt']:
                            pass
                        numbers.extend((t, c['dp'], tag) for t in toks[1:] if c['kind'] != 'npd' and (not c['fmt'] or c['fmt'].lower().endswith('ri')))
            c['text'] = text
            c['orig'] = orig
            c['conv'] = conv
            c['p2'] = len(phase2)
            lname = c['name'] if rng.random() < 0.8 or c['ext'] in ('.dat', '') else 'other' + c['ext']
            phase2 += ['vd 2 alloc', 'vd 2 loadstr %s x%s' % (h(lname), text.encode('latin-1').hex()), 'vd 2 digest', 'vd 2 get_format', 'vd 2 free']
            if c['ext'] in ('.dat', ''):
                # the file type cannot be derived from the name: the object says which loader to use
                phase2[-4:-4] = ['vd 2 set_filetype %d' % c['kind_ft']]
                c['p2_extra'] = 1
            elif rng.random() < 0.4:
                # the name tells the type: whatever type the destination object holds from earlier use does not matter (vnadata(3))
                phase2[-4:-4] = ['vd 2 set_filetype %d' % rng.choice([1, 2, 3])]
                c['p2_extra'] = 1
        correspondence(chk, exe, broken, numbers)
        out2, rc2, err2 = vlib.run_lines(exe, phase2 + ['cal live'], timeout=3000)
        if rc2 != 0 or len(out2) != len(phase2) + 1:
            k = min(len(out2), len(phase2) - 1)
            chk.violation('sanitizer-load', 'library crashed / sanitizer fired while loading a file it wrote:\n%s' % err2[-1500:], phase2[max(0, k - 3):k + 1])
            return
        if out2[-1] != 'ok live=0':
            chk.violation('leak-load', 'allocations remain after loading and freeing: %s' % out2[-1], phase2[:20])
        for c in cases:
            if 'p2' not in c:
                continue
            k = c['p2'] + c.get('p2_extra', 0)
            tag = '%s %dp nf=%d z0=%s format=%r name=*%s fp=%d dp=%d' % (c['obj']['type'], c['obj']['ports'], c['obj']['nf'], c['obj']['z0kind'], c['fmt'], c['ext'], c['fp'], c['dp'])
            rep = lines[c['start']:c['i_save'] + 1] + phase2[c['p2']:c['p2'] + 4 + c.get('p2_extra', 0)]
            problem = verify_load(chk, c, out2[k + 1], out2[k + 2])     # result of loadstr, digest
            if problem:
                chk.violation('load-' + problem[0], '%s: %s' % (tag, problem[1]), rep + ['# file:'] + ['# ' + x for x in c['text'].split('\n')[:40]])
            else:
                chk.distinct.add((c['kind'], c['obj']['type'], c['obj']['ports'], c['fmt'], c['dp'], c['obj']['z0kind']))
    finally:
        shutil.rmtree(tmpdir, ignore_errors=True)
    chk.rule = ('random objects of every parameter type (1..5 ports, 1..4 frequencies, default / real / complex / per-frequency z0) x format lists from the full '
                'specifier grammar x file names (.npd .ts .sNp, other) x filetype settings x precisions 1..15 and maximum; distinct = (file kind, type, ports, format, '
                'dprecision, z0 kind) saved, read independently, loaded and compared')
    chk.samples = [lines[cases[0]['start']:cases[0]['i_save'] + 1]]
    if not chk.violations:
        format_lifetime(chk, exe, rng)
    if broken and not chk.violations:
        chk.violation('obligation', 'proof/correspondence obligations that no longer check:\n' + '\n'.join(broken[:30]), nofail=True)


def format_lifetime(chk, exe, rng):
    """a save resolves the default format and type-less specifiers for that call only: the format setting of the object is what the
    caller set (nothing, or e.g. `ma`), before and after accepted and refused saves, so that a later save of the converted object denotes
    the object's type; and frequency vectors no Touchstone file can hold are refused by cksave and save alike (NPD takes them)"""
    z = vlib.c2h
    M = ' '.join(z(complex(0.1 * k, -0.05 * k)) for k in range(1, 5))
    for t0, t1 in ((1, 4), (4, 5), (1, 2), (5, 1)):
        for fmt in (None, 'ma', 'ri', 'db' if t1 in (1, 2, 3) and t0 in (1, 2, 3) else 'ri'):
            want = '-' if fmt is None else 'x' + fmt.encode().hex()
            L = ['vd 0 alloc', 'vd 0 init %d 2 2 1' % t0, 'vd 0 set_frequency_vector ' + vlib.d2h(1e9), 'vd 0 set_matrix 0 ' + M]
            if fmt:
                L.append('vd 0 set_format ' + h(fmt))
            L += ['vd 0 get_format', 'vd 0 cksave ' + h('a.npd'), 'vd 0 get_format', 'vd 0 savestr ' + h('a.npd'), 'vd 0 get_format',
                  'vd 0 set_fz0 0 0 %s' % z(60.0), 'vd 0 savestr ' + h('r.s2p'), 'vd 0 get_format', 'vd 0 set_all_z0 %s' % z(50.0),
                  'vd 0 convert 0 %d' % t1, 'vd 0 savestr ' + h('b.npd'), 'vd 0 get_format', 'vd 0 free', 'cal live']
            out, rc, err = vlib.run_lines(exe, L, timeout=120)
            chk.evaluations += 1
            tag = 'type %d saved, converted to %d, saved again, format %r' % (t0, t1, fmt)
            if rc != 0 or len(out) != len(L):
                chk.violation('lifetime-crash', '%s: crashed / sanitizer report: %s' % (tag, err[-800:]), L)
                return
            gf = [o.split()[-1] if o.startswith('ok') else '-' for l, o in zip(L, out) if l == 'vd 0 get_format']
            canon = lambda g: g if g == '-' else bytes.fromhex(g[1:]).decode().lower()      # the setting is echoed in canonical letter case
            if any(canon(g) != canon(want) for g in gf):
                chk.violation('format-pinned', '%s: vnadata_get_format answers %s across cksave / save / a refused save / convert / save; the caller set %s' % (tag, gf, want), L)
                return
            i2 = L.index('vd 0 savestr ' + h('b.npd'))
            if not out[i2].startswith('ok'):
                chk.violation('second-save', '%s: the second save fails: %s' % (tag, out[i2][:80]), L[:i2 + 1])
                return
            txt = bytes.fromhex(out[i2].split()[-1][1:]).decode('utf-8', 'replace')
            m = re.search(r'(?m)^#:parameters\s+(\S+)', txt)
            letter = {1: 's', 2: 't', 3: 'u', 4: 'z', 5: 'y'}[t1]
            if not m or not m.group(1).lower().startswith(letter):
                chk.violation('stale-type', '%s: the second file holds %r, the object is of type %s' % (tag, m.group(1) if m else None, letter.upper()), L[:i2 + 1])
                return
            chk.count('format_lifetime_ok')
    # frequency vectors a Touchstone file cannot hold
    for fv, what in (([2e9, 1e9], 'descending'), ([1e9, 1e9], 'repeated'), ([-1e9, 1e9], 'negative')):
        L = ['vd 0 alloc', 'vd 0 init 1 2 2 2', 'vd 0 set_frequency_vector ' + ' '.join(vlib.d2h(f) for f in fv), 'vd 0 set_matrix 0 ' + M, 'vd 0 set_matrix 1 ' + M]
        probes = []
        for name in ('x.ts', 'x.s2p', 'x.npd'):
            L += ['vd 0 cksave ' + h(name), 'vd 0 savestr ' + h(name)]
            probes.append((name, len(L) - 2, len(L) - 1))
        L += ['vd 0 free', 'cal live']
        out, rc, err = vlib.run_lines(exe, L, timeout=120)
        chk.evaluations += 1
        if rc != 0 or len(out) != len(L):
            chk.violation('freqvec-crash', '%s frequencies: crashed / sanitizer report: %s' % (what, err[-800:]), L)
            return
        for name, ick, isv in probes:
            ck, sv = out[ick].startswith('ok'), out[isv].startswith('ok')
            if ck != sv:
                chk.violation('cksave-vs-save', '%s frequencies, %s: vnadata_cksave says %s, vnadata_fsave says %s' % (what, name, out[ick][:30], out[isv][:30]), L[:isv + 1])
                return
            if sv and name != 'x.npd':
                # the loader must take what the saver wrote
                o2, rc2, e2 = vlib.run_lines(exe, ['vd 1 alloc', 'vd 1 loadstr %s %s' % (h(name), out[isv].split()[-1]), 'vd 1 free'], timeout=60)
                if rc2 != 0 or len(o2) != 3 or not o2[1].startswith('ok'):
                    chk.violation('freqvec-unloadable', '%s frequencies: %s is written but vnadata_load refuses it: %s' % (what, name, (o2[1] if len(o2) > 1 else e2)[:80]), L[:isv + 1])
                    return
        chk.count('freqvec_ok')


def correspondence(chk, exe, broken, numbers):
    """Model/FileFmt.lean executed against the compiled C: cell order of the loader and of the saver, digit layout of
    print_value, field counts"""
    import re
    mlines, clines, meta = [], [], []
    for n in range(1, 6):
        for mf in ('full', 'upper', 'lower'):
            for t21 in ((0, 1) if (n == 2 and mf == 'full') else (0,)):
                npairs = n * n if mf == 'full' else n * (n + 1) // 2
                txt = '[Version] 2.0\n# Hz S RI R 50\n[Number of Ports] %d\n' % n
                if n == 2:
                    txt += '[Two-Port Data Order] %s\n' % ('21_12' if t21 else '12_21')
                txt += '[Number of Frequencies] 1\n[Matrix Format] %s\n[Network Data]\n1e9 %s\n[End]\n' % (mf.capitalize(), ' '.join('%d 0' % (k + 1) for k in range(npairs)))
                mlines.append('ff order %d %s %d' % (n, mf, t21))
                clines += ['vd 7 alloc', 'vd 7 loadstr %s x%s' % (h('o.ts'), txt.encode().hex()), 'vd 7 digest', 'vd 7 free']
                meta.append(('order', n, mf, t21))
    # Touchstone 1 two-port: read as 21_12
    mlines.append('ff order 2 full 1')
    clines += ['vd 7 alloc', 'vd 7 loadstr %s x%s' % (h('o.s2p'), '# Hz S RI R 50\n1e9 1 0 2 0 3 0 4 0\n'.encode().hex()), 'vd 7 digest', 'vd 7 free']
    meta.append(('order', 2, 'full', 1))
    # what the saver emits for a matrix with cell (r, c) = 10 r + c + 11
    for n, name, ts1 in ((2, 's.s2p', 1), (2, 's.ts', 0), (3, 's.s3p', 1), (3, 's.ts', 0)):
        mlines.append('ff save %d %d' % (n, ts1))
        clines += ['vd 7 alloc', 'vd 7 init 1 %d %d 1' % (n, n), 'vd 7 set_frequency 0 %s' % vlib.d2h(1e9), 'vd 7 set_all_z0 %s' % vlib.c2h(1.0),
                   'vd 7 set_matrix 0 %s' % ' '.join(vlib.c2h(10 * r + c + 11) for r in range(n) for c in range(n)), 'vd 7 set_dprecision 4', 'vd 7 savestr ' + h(name), 'vd 7 free']
        meta.append(('save', n, name, ts1))
    cout, crc, cerr = vlib.run_lines(exe, clines)
    mout, mrc, merr = vlib.run_lines(vlib.model_exe(), mlines)
    if crc != 0 or mrc != 0 or len(mout) != len(mlines):
        broken.append('correspondence (file formats): harness rc=%s model rc=%s %s' % (crc, mrc, (cerr or merr)[-300:]))
        return
    ci = 0
    for (kind, n, a, b), mo in zip(meta, mout):
        if kind == 'order':
            d = parse_digest(cout[ci + 2]) if cout[ci + 1].startswith('ok') else None
            ci += 4
            exp = [[0.0] * n for _ in range(n)]
            for k, grp in enumerate(mo.split('|')[1:]):
                for cell in grp.split():
                    r, c = (int(x) for x in cell.split(','))
                    exp[r][c] = k + 1.0
            got = [[d['data'][0][r][c].real for c in range(n)] for r in range(n)] if d else None
            if got != exp:
                broken.append('correspondence: cell order of the Touchstone loader (n=%d %s 21_12=%d): C %r, model %r' % (n, a, b, got, exp))
            else:
                chk.count('order_same')
        else:
            line = cout[ci + 6]
            ci += 8
            txt = bytes.fromhex(line.split()[-1][1:]).decode() if line.startswith('ok') else ''
            nums = []
            for l in txt.split('\n'):
                if l and l[0] not in '#[!':
                    nums += [float(x) for x in l.split()]
            got = [int(round(v)) for v in nums[1::2]]
            exp = [10 * int(q.split(',')[0]) + int(q.split(',')[1]) + 11 for q in mo.split()[1:]]
            if got != exp:
                broken.append('correspondence: order of the values the saver writes (%s): C %r, model %r' % (a, got, exp))
            else:
                chk.count('save_order_same')
    # digit layout of print_value
    mlines, meta = [], []
    for (tok, p, tag) in numbers[:4000]:
        m = re.match(r'^[+-]?(\d*)(?:\.(\d*))?(?:e([+-]\d+))?$', tok)
        if not m or p >= MAXP:
            continue
        before, after, x = len(m.group(1)), len(m.group(2) or ''), int(m.group(3) or 0)
        if before + after != max(p, 1):
            broken.append('print_value wrote %r for precision %d: %d digits (%s)' % (tok, p, before + after, tag))
            continue
        if set(m.group(1) + (m.group(2) or '')) <= {'0'}:
            continue        # zero: any exponent denotes it
        mlines.append('ff eng %d %d' % (max(p, 1), x + before - 1))
        meta.append((tok, p, before, x))
    mout, mrc, merr = vlib.run_lines(vlib.model_exe(), mlines)
    for (tok, p, before, x), mo in zip(meta, mout):
        if mo != 'ok %d %d' % (before, x):
            broken.append('correspondence: print_value wrote %r (precision %d): %d digits before the point, exponent %d; model says %s' % (tok, p, before, x, mo))
            break
        chk.count('eng_same')
    # field counts: the model against the independent reader's table (which parsed the C's files)
    mlines, meta = [], []
    for k in ('ri', 'ma', 'db', 'prc', 'prl', 'src', 'srl', 'il', 'rl', 'vswr'):
        for z in (0, 1):
            if (z and k in ('il', 'rl', 'vswr', 'db')) or (not z and k in ('prc', 'prl', 'src', 'srl')):
                continue
            for ports in range(0, 8):
                mlines.append('ff fields %s %d %d' % (k, z, ports))
                meta.append(nfile.npd_fields('zin' if z or k in ('prc', 'prl', 'src', 'srl') else 's', k, ports))
    mout, mrc, merr = vlib.run_lines(vlib.model_exe(), mlines)
    for l, e, mo in zip(mlines, meta, mout):
        w = mo.split()
        if len(w) != 4 or int(w[1]) != e or int(w[2]) != e:
            broken.append('correspondence: fields of an NPD block (%s): reader %d, model %s' % (l, e, mo))
            break
        chk.count('fields_same')


def block_expected(param, kind, ports, f, M):
    return nfile.npd_expected(param, kind, ports, f, M)


def verify_file(chk, c, text, orig, conv):
    """independent reading of the file against the object; returns (tag, message) or None; sets c['kind'], c['read']"""
    obj = c['obj']
    p = c['dp']
    if text.startswith('#NPD'):
        c['kind'] = 'npd'
        c['kind_ft'] = 3
        try:
            F = nfile.parse_npd(text)
        except nfile.ParseError as e:
            return 'unreadable', 'independent NPD reader: %s' % e
        if F['ports'] != obj['ports'] or F['nf'] != obj['nf']:
            return 'dims', 'file says %d ports, %d frequencies' % (F['ports'], F['nf'])
        want = nfile.parse_format_list(c['fmt']) if c['fmt'] else [(obj['type'], 'ri')]
        want = [(pp or obj['type'], kk) for pp, kk in want]
        got = [(pp or obj['type'], kk) for pp, kk in F['formats']]
        if want != got:
            return 'formats', '#:parameters lists %r, requested %r' % (got, want)
        for k, f in enumerate(F['freqs']):
            if not close_component(f, orig['freqs'][k], c['fp'], 0):
                return 'frequency', 'frequency %d written as %r, object has %r (fprecision %d)' % (k, f, orig['freqs'][k], c['fp'])
        if orig['fz0']:
            if F['z0'] is not None:
                return 'z0', 'per-frequency impedances not marked PER-FREQUENCY'
            for k in range(obj['nf']):
                for q in range(obj['ports']):
                    a, e = F['fz0'][k][q], orig['z0'][k][q]
                    if not (close_component(a.real, e.real, p, abs(e)) and close_component(a.imag, e.imag, p, abs(e))):
                        return 'fz0', 'z0 of port %d at frequency %d written as %r, object has %r' % (q + 1, k, a, e)
        else:
            if F['z0'] is None:
                return 'z0', 'ordinary impedances written as PER-FREQUENCY'
            for q in range(obj['ports']):
                a, e = F['z0'][q], orig['z0'][q]
                if not (close_component(a.real, e.real, p, abs(e)) and close_component(a.imag, e.imag, p, abs(e))):
                    return 'z0', 'z0 of port %d written as %r, object has %r' % (q + 1, a, e)
        for b, (pp, kk) in enumerate(got):
            src = conv.get(pp)
            if src is None:
                return 'convert', 'block %s%s written although the object cannot be converted to %s' % (pp, kk, pp)
            for k in range(obj['nf']):
                exp = block_expected(pp, kk, obj['ports'], orig['freqs'][k], src['data'][k])
                vals = F['blocks'][b][k]
                sc = max([abs(x) for row in src['data'][k] for x in row] + [1e-300])
                if kk in ('ma', 'db'):
                    # polar forms: the magnitude carries p digits, the angle is fixed point (resolution 10^-(p-1) degrees for
                    # matrices, 10^-(p-3) for Zin, at least whole degrees): the complex value is right to 1.5 units of the p-th digit
                    cellsv = src['data'][k][0] if pp == 'zin' else [x for row in src['data'][k] for x in row]
                    for j, e in enumerate(cellsv):
                        if not polar_close(kk, vals[2 * j], vals[2 * j + 1], e, p, pp == 'zin'):
                            return 'value', 'block %s%s frequency %d cell %d: written (%r, %r), the object gives %r = %r (dprecision %d)' % (
                                pp, kk, k, j, vals[2 * j], vals[2 * j + 1], e, nfile.to_coords(kk, e), p)
                    continue
                for j, (a, e) in enumerate(zip(vals, exp)):
                    if not close_component(a, e, p, sc if kk == 'ri' else 0):
                        return 'value', 'block %s%s frequency %d field %d: written %r, the object gives %r (dprecision %d)' % (pp, kk, k, j, a, e, p)
        c['read'] = F
        chk.count('npd_read_ok')
        return None
    # Touchstone
    try:
        # frequencies rounded to the requested fprecision may coincide: not the saver's fault
        F = nfile.parse_touchstone(text, None, ascending=False)
    except nfile.ParseError as e:
        return 'unreadable', 'independent Touchstone reader: %s' % e
    c['kind'] = 'ts%d' % F['version']
    c['kind_ft'] = 1 if F['version'] == 1 else 2
    if F['ports'] != obj['ports'] or len(F['freqs']) != obj['nf']:
        return 'dims', 'file has %d ports, %d frequencies' % (F['ports'], len(F['freqs']))
    want = nfile.parse_format_list(c['fmt']) if c['fmt'] else [(obj['type'], 'ri')]
    wp, wk = want[0][0] or obj['type'], want[0][1]
    if (F['param'], F['fmt']) != (wp, wk):
        return 'formats', 'option line says %s %s, requested %s %s' % (F['param'], F['fmt'], wp, wk)
    for q in range(obj['ports']):
        if not close_component(F['z0'][q].real, orig['z0'][q].real, p, 0):
            return 'z0', 'reference of port %d written as %r, object has %r' % (q + 1, F['z0'][q], orig['z0'][q])
    src = conv.get(wp)
    for k in range(obj['nf']):
        if not close_component(F['freqs'][k], orig['freqs'][k], c['fp'], 0):
            return 'frequency', 'frequency %d written as %r, object has %r' % (k, F['freqs'][k], orig['freqs'][k])
        # compare what is written: in Touchstone 1 that is the matrix normalised to the reference resistance
        Mexp = nfile.normalize(wp, src['data'][k], orig['z0'][0].real) if F['version'] == 1 else src['data'][k]
        sc = max([abs(x) for row in Mexp for x in row] + [1e-300])
        for a in range(obj['ports']):
            for b in range(obj['ports']):
                got, e = F['raw'][k][a][b], Mexp[a][b]
                # values that went through a conversion and the Touchstone 1 normalisation are right to rounding of those steps
                direct = wp == obj['type'] and (F['version'] == 2 or wp == 's')
                if wk == 'ri':
                    ok = abs(got - e) <= (tol_rel(p) * 1.5 * (abs(e.real) + abs(e.imag)) if p < MAXP else 0) + (1e-15 if direct else 1e-9) * sc
                elif p >= MAXP:
                    ok = abs(got - e) <= (1e-13 if direct else 1e-9) * sc
                else:
                    ok = polar_close(wk, *nfile.to_coords(wk, got), e, p, False) or abs(got - e) <= (1e-13 if direct else 1e-9) * sc
                if not ok:
                    return 'value', '%s%d%d at frequency %d: the file denotes %r, the object has %r (dprecision %d, %s)' % (wp.upper(), a + 1, b + 1, k, got, e, p, wk)
    c['read'] = F
    chk.count('%s_read_ok' % c['kind'])
    return None


def verify_load(chk, c, dline, fline):
    """vnadata_fload of the file vs the independent reading and the original"""
    obj = c['obj']
    lline = dline
    d = parse_digest(fline) if lline.startswith('ok') else None
    F = c['read']
    fr = F['freqs']
    if any(not b > a for a, b in zip(fr, fr[1:])) and c['kind'] == 'npd':
        # the requested fprecision made neighbouring frequencies equal: an NPD file may hold them (nothing is compared then); in the
        # Touchstone types the saver refuses such a precision (it would write a file the loader rejects, or one whose second block of
        # a two-port Touchstone 1 file reads as noise data)
        chk.count('frequencies_merged_by_fprecision')
        return None
    if c['kind'] == 'npd':
        loadable = [(pp or obj['type'], kk) for pp, kk in F['formats'] if kk in ('ri', 'ma', 'db') or (pp == 'zin' or kk in ('prc', 'prl', 'src', 'srl'))]
        if not loadable:
            chk.count('npd_only_scalar_blocks')
            if d is None:
                # "every format combination the saver accepts is one the loader accepts": this one is not (recorded finding, see DESIGN §6)
                return 'scalar-only', 'an NPD format list made only of IL / RL / VSWR is accepted by vnadata_cksave / vnadata_save and the file is refused by vnadata_load: %s' % lline[:80]
            return None
    if d is None:
        # (also when the requested fprecision made neighbouring frequencies print alike: the saver refuses that, it does not write a
        # file the loader rejects)
        return 'refused', 'the loader rejects a file the saver wrote: %s' % lline[:80]
    if c['kind'] == 'npd':
        types = [pp or obj['type'] for pp, kk in F['formats']]
        tname = TNAME.get(d['type'])
        if tname not in types:
            return 'type', 'loaded type %s is none of the parameter types in the file %r' % (tname, types)
        if d['cols'] != obj['ports'] or d['rows'] != (1 if tname == 'zin' else obj['ports']) or d['nf'] != obj['nf']:
            return 'dims', 'loaded %dx%dx%d' % (d['rows'], d['cols'], d['nf'])
        src = c['conv'][tname]
        p = c['dp']
        # R-L / R-C forms store an element value: the impedance is rebuilt with the (rounded) frequency in the file
        lc = tname == 'zin' and not any((pp or obj['type']) == 'zin' and kk == 'ri' for pp, kk in F['formats'])
        # when decibels are the only matrix form of that type in the file, the digits requested are digits of the logarithm
        dbonly = not any((pp or obj['type']) == tname and kk in ('ri', 'ma') for pp, kk in F['formats'])
        for k in range(obj['nf']):
            if not close_component(d['freqs'][k], c['orig']['freqs'][k], c['fp'], 0):
                return 'frequency', 'frequency %d loaded as %r, saved from %r' % (k, d['freqs'][k], c['orig']['freqs'][k])
            sc = max([abs(x) for row in src['data'][k] for x in row] + [1e-300])
            for a in range(d['rows']):
                for b in range(d['cols']):
                    got, e = d['data'][k][a][b], src['data'][k][a][b]
                    exact = p >= MAXP and tname == obj['type'] and (tname, 'ri') in [(pp or obj['type'], kk) for pp, kk in F['formats']]
                    if exact:
                        if got != e:
                            return 'exact', 'maximum precision, rectangular: cell (%d,%d) frequency %d loaded as %r, saved %r' % (a, b, k, got, e)
                    elif (got != got and e == e) or abs(got - e) > (3 * tol_rel(min(p, 15)) + 1e-12 + (2 * tol_rel(min(c['fp'], 15)) if lc else 0) + db_slack(e, p, dbonly)) * max(abs(e), 1e-3 * sc) + 1e-12 * sc:
                        if p <= 2:
                            chk.count('low_precision_loose')
                            continue
                        return 'value', 'cell (%d,%d) frequency %d loaded as %r, the object has %r (dprecision %d)' % (a, b, k, got, e, p)
        if bool(d['fz0']) != bool(c['orig']['fz0']):
            return 'z0mode', 'impedance mode changed: loaded fz0=%d' % d['fz0']
        zs = [z for row in d['z0'] for z in row] if d['fz0'] else d['z0']
        zo = [z for row in c['orig']['z0'] for z in row] if d['fz0'] else c['orig']['z0']
        for a, e in zip(zs, zo):
            if not abs(a - e) <= 2 * tol_rel(min(p, 15)) * abs(e) + 1e-12 * abs(e) and p > 1:
                return 'z0', 'impedance loaded as %r, saved %r' % (a, e)
        chk.count('npd_load_ok')
        return None
    # Touchstone: the loaded object equals the independent reading (both denormalised) to rounding
    tname = TNAME.get(d['type'])
    if tname != F['param']:
        return 'type', 'loaded type %s, the file holds %s' % (tname, F['param'])
    if d['rows'] != obj['ports'] or d['cols'] != obj['ports'] or d['nf'] != obj['nf']:
        return 'dims', 'loaded %dx%dx%d' % (d['rows'], d['cols'], d['nf'])
    for q in range(obj['ports']):
        if not abs(d['z0'][q] - F['z0'][q]) <= 1e-12 * abs(F['z0'][q]):
            return 'z0', 'reference of port %d loaded as %r, the file says %r' % (q + 1, d['z0'][q], F['z0'][q])
    exact = c['dp'] >= MAXP and F['fmt'] == 'ri' and tname == obj['type'] and (c['kind'] == 'ts2' or tname == 's')
    for k in range(obj['nf']):
        if not abs(d['freqs'][k] - F['freqs'][k]) <= 1e-13 * abs(F['freqs'][k]):
            return 'frequency', 'frequency %d loaded as %r, the file says %r' % (k, d['freqs'][k], F['freqs'][k])
        sc = max([abs(x) for row in F['data'][k] for x in row] + [1e-300])
        for a in range(obj['ports']):
            for b in range(obj['ports']):
                got, e = d['data'][k][a][b], F['data'][k][a][b]
                if exact:
                    if got != c['orig']['data'][k][a][b]:
                        return 'exact', 'maximum precision, rectangular: %s%d%d frequency %d loaded as %r, saved %r' % (tname.upper(), a + 1, b + 1, k, got, c['orig']['data'][k][a][b])
                elif (got != got and e == e) or abs(got - e) > 1e-10 * sc:
                    return 'value', '%s%d%d at frequency %d loaded as %r, an independent reading of the file gives %r' % (tname.upper(), a + 1, b + 1, k, got, e)
    chk.count('%s_load_ok' % c['kind'])
    return None


def replay(chk, path):
    from props import c01
    return c01.replay(chk, path)
