"""C01 — calibrate-then-apply recovers the true S-parameters of any device.

Proof side : Libvna.Props.C01 — the E-term network satisfies the T/U error-term equations the library solves
             (any port count, non-commutative matrix algebra), the true terms solve every generated equation,
             and applying terms that satisfy the equation inverts the measurement.
Tie        : the physical E-network (tools/props/calsim.py, independent of the library's T/U parametrisation)
             generates the measurements; the compiled library calibrates and corrects.
Oracle     : vnacal_apply(_m) of an independent random DUT == its S; the error terms in the file written by
             vnacal_save satisfy the documented M/S equation for the DUT and for rectangular shapes.
"""
import os, random, shutil, tempfile
import numpy as np
import vlib
from props import calsim, calfile, c15

THEOREMS = ['Libvna.Cal.' + t for t in ('push_through', 'e_to_t', 'applyT_inverts', 'calibrate_then_apply_T', 'applyT_satisfies', 'applyT_scale_invariant',
                                       'e_to_u', 'applyU_inverts', 'calibrate_then_apply_U', 'solve_unique')] + \
    ['Libvna.LK.' + t for t in ('accum_spec', 'leak_exact', 'leak_frame', 'leak_perm', 'leak_none')]
FILES = ['Props/C01.lean', 'Props/C01Leak.lean', 'Model/Leakage.lean']

SHAPES_T = [(1, 1), (2, 2), (3, 3), (1, 2), (2, 3), (1, 3), (4, 4), (2, 4), (3, 4)]
SHAPES_U = [(1, 1), (2, 2), (3, 3), (2, 1), (3, 2), (3, 1), (4, 4), (4, 2), (4, 3)]


def scenarios(rng, quick, mult=1):
    out = []
    reps = (1 if quick else 6) * mult
    for _ in range(reps):
        for typ in calsim.TYPES:
            shapes = SHAPES_T if typ in calsim.IS_T else SHAPES_U
            if quick:
                shapes = [s for s in shapes if max(s) <= 3]
            for (r, c) in shapes:
                for form in ('m', 'ab'):
                    if quick and max(r, c) == 3 and form == 'ab' and typ in ('T16', 'U16'):
                        continue
                    out.append((typ, r, c, form, rng.randint(1, 3 if quick else 5)))
    return out


def build(rng, typ, r, c, form, nf, tmpdir, k):
    sc = calsim.Scenario(rng, typ, r, c, nf, form=form).begin()
    sc.lines.append('cal set_dprecision 0 12')
    # a few standards given through parameter handles (scalar and frequency dependent) instead of constants
    p = sc.p
    vec_port = rng.randint(1, p)
    if rng.random() < 0.5:
        # vector reflect known at the calibration frequencies: exact at the knots (C10)
        g = [calsim.rc(rng, 0.5) for _ in range(nf)]
        sc.lines.append('cal make_vector 0 %d %s %s' % (nf, ' '.join(vlib.d2h(f) for f in sc.fvec), ' '.join(vlib.c2h(x) for x in g)))
        sc.vec = (vec_port, g)
    else:
        g0 = calsim.rc(rng, 0.5)
        sc.lines.append('cal make_scalar 0 %s' % vlib.c2h(g0))
        sc.vec = (vec_port, [g0] * nf)
    sc.solt(variety=rng)
    # the extra reflect through the handle (handle index 3 = first user parameter)
    S = [calsim.embed(p, [vec_port - 1], [[sc.vec[1][f]]], sc.others) for f in range(nf)]
    sc.lines.append('cal add %d single_reflect %s %d %d' % (sc.n, sc.mtext(sc.meas(S)), 3, vec_port))
    if p >= 2:
        # a fully known non-reciprocal standard (isolator: transmission one way only), either way round, any port pair
        t = calsim.rc(rng, 0.6) + 0.3
        sc.lines.append('cal make_scalar 0 %s' % vlib.c2h(t))          # handle 4
        i, j = rng.sample(range(1, p + 1), 2)
        if rng.random() < 0.5:
            sc.add_line_handles(i, j, (calsim.MATCH, calsim.MATCH, 4, calsim.MATCH), [[[0, 0], [t, 0]]] * nf)
        else:
            sc.add_line_handles(i, j, (calsim.MATCH, 4, calsim.MATCH, calsim.MATCH), [[[0, t], [0, 0]]] * nf)
    sc.solve().add_calibration()
    sc.dut = sc.random_dut()
    sc.path = os.path.join(tmpdir, 'c%d.vnacal' % k)
    sc.apply_at = None
    if r == c:
        sc.lines.append(sc.apply_line(0, sc.dut))
        sc.apply_at = len(sc.lines) - 1
        # the device measured at some of the calibration points only (fewer device frequencies than calibration frequencies)
        sc.sub_idx = sorted(rng.sample(range(nf), rng.randint(1, nf - 1))) if nf >= 2 else None
        if sc.sub_idx is not None:
            sc.lines.append(sc.apply_line(0, sc.dut, idx=sc.sub_idx))
    sc.lines.append('cal save 0 ' + vlib.hexbytes(sc.path))
    sc.save_at = len(sc.lines) - 1
    sc.lines += ['cal free 0', 'cal live']
    return sc


def run(chk):
    rng = random.Random(chk.seed * 41 + 1)
    broken = []
    if THEOREMS:
        c15.proof_side(chk, ['Libvna.Props.C01', 'Libvna.Props.C01Leak'], THEOREMS, FILES, broken)
    chk.checker_cmd = 'cd lean && lake build Libvna.Props.C01 && #print axioms'
    chk.trusted += ['tools/props/calsim.py: physical E-term network used as ground truth', 'tools/props/calfile.py: documented M/S equations',
                    'IEEE rounding not modelled: tolerances 1e-8 (apply) and 1e-9 (saved terms at 12 digits)']
    exe, _ = vlib.build_c()
    quick = chk.tier == 'quick'
    tmpdir = tempfile.mkdtemp(prefix='verif-c01-')
    try:
        scs = []
        for k, (typ, r, c, form, nf) in enumerate(scenarios(rng, quick, 3 if broken else 1)):
            scs.append(build(rng, typ, r, c, form, nf, tmpdir, k))
        alll = [l for s in scs for l in s.lines]
        out, rc, err = vlib.run_lines(exe, alll, timeout=1800)
        if rc != 0 or len(out) != len(alll):
            pos = 0
            k = min(len(out), len(alll) - 1)
            for s in scs:
                if pos <= k < pos + len(s.lines):
                    o2, rc2, err2 = vlib.run_lines(exe, s.lines)
                    chk.violation('sanitizer', 'library crashed / sanitizer fired in a %s %dx%d (%s) calibration at `%s`:\n%s' % (
                        s.typ, s.rows, s.cols, s.form, s.lines[min(len(o2), len(s.lines) - 1)][:80], (err2 or err)[-1500:]), s.lines)
                    break
                pos += len(s.lines)
            return
        chk.rule = ('all 8 types x square 1..%d and rectangular shapes x m and a/b forms x 1..%d frequencies; standards entered through single/double reflect, '
                    'through, line, mapped matrix with in-order and swapped ports, full and abbreviated matrices, scalar and vector parameter handles; random '
                    'E-term error boxes with leakage and per-column switch terms; distinct = distinct (type, shape, form, nf, seed)' % (3 if quick else 4, 3 if quick else 5))
        pos = 0
        worst_apply, worst_terms = 0.0, 0.0
        for s in scs:
            o = out[pos:pos + len(s.lines)]
            pos += len(s.lines)
            chk.evaluations += 1
            tag = '%s %dx%d %s nf=%d' % (s.typ, s.rows, s.cols, s.form, s.nf)
            bad = [(l, x) for l, x in zip(s.lines[:s.save_at + 1], o) if not x.startswith('ok')]
            if bad:
                chk.violation('refused', '%s: a step of a valid calibration failed: `%s` -> %s' % (tag, bad[0][0][:90], bad[0][1][:120]), s.lines[:s.lines.index(bad[0][0]) + 1])
                continue
            if o[-1] != 'ok live=0':
                chk.violation('leak', '%s: allocations remain after vnacal_free: %s' % (tag, o[-1]), s.lines)
                continue
            if s.apply_at is not None:
                ok, S = calsim.parse_apply(o[s.apply_at], s.p)
                e = max(np.abs(S[f] - s.dut[f]).max() for f in range(s.nf))
                worst_apply = max(worst_apply, e)
                if not e <= 1e-8:
                    chk.violation('apply', '%s: vnacal_apply does not recover the device: max |S - S_true| = %.3e' % (tag, e), s.lines[:s.apply_at + 1])
                    continue
                if getattr(s, 'sub_idx', None) is not None:
                    ok, S = calsim.parse_apply(o[s.apply_at + 1], s.p)
                    e = max(np.abs(S[k_] - s.dut[f]).max() for k_, f in enumerate(s.sub_idx)) if ok and len(S) == len(s.sub_idx) else float('inf')
                    if not e <= 1e-8:
                        chk.violation('apply-subset', '%s: vnacal_apply at calibration points %s only (of %d) does not recover the device: max |S - S_true| = %.3e' % (
                            tag, s.sub_idx, s.nf, e), s.lines[:s.apply_at + 2])
                        continue
                    chk.count('apply_subset_ok')
            try:
                cal = calfile.load(s.path, exe)[0]
                res = 0.0
                for f in range(s.nf):
                    res = max(res, calfile.residual(cal, f, s.dut[f], s.box.measure(s.dut[f], f)))
            except Exception as ex:
                chk.violation('savefile', '%s: cannot interpret the saved calibration: %r' % (tag, ex), s.lines[:s.save_at + 1])
                continue
            worst_terms = max(worst_terms, res)
            if not res <= 1e-8:
                chk.violation('terms', '%s: saved error terms do not satisfy the documented M/S equation for an independent device: residual %.3e' % (tag, res), s.lines[:s.save_at + 1])
                continue
            chk.count('ok_' + s.typ)
            chk.count('ok_%s' % ('square' if s.rows == s.cols else 'rect'))
            chk.distinct.add(tag + str(pos))
        chk.extra['worst_apply_error'] = float('%.3e' % worst_apply)
        chk.extra['worst_saved_terms_residual'] = float('%.3e' % worst_terms)
        chk.samples = [scs[0].lines[:4] + ['...'], scs[-1].lines[2][:200]]
        if not chk.violations:
            parameter_standards(chk, exe, rng, 2 if chk.tier == 'quick' else 20)
        if not chk.violations:
            smooth_offgrid(chk, exe, rng, 1 if chk.tier == 'quick' else 8)
        if not chk.violations:
            leakage_terms(chk, exe, rng, 2 if chk.tier == 'quick' else 25, tmpdir, broken)
    finally:
        shutil.rmtree(tmpdir, ignore_errors=True)
    if broken and not chk.violations:
        chk.violation('obligation', 'proof/correspondence obligations that no longer check:\n' + '\n'.join(broken[:30]), nofail=True)


class LeakSc(calsim.Scenario):
    """records, for every added standard, which measurement cells were given and what they held, and which cells the standard
    connects; every cell without a signal path gets an offset of its own per standard, so that the average is an average"""
    recording = True
    cur_ports = None

    def add_reflect(self, port, *a, **k):
        self.cur_ports = [port - 1]
        return super().add_reflect(port, *a, **k)

    def add_double_reflect(self, p1, p2, *a, **k):
        self.cur_ports = [p1 - 1, p2 - 1]
        return super().add_double_reflect(p1, p2, *a, **k)

    def add_through(self, p1, p2, *a, **k):
        self.cur_ports = [p1 - 1, p2 - 1]
        return super().add_through(p1, p2, *a, **k)

    cur_conn = None

    def add_chain(self, ports, V):
        """a known standard on `ports` (1-based, in the standard's port order) whose neighbouring ports are joined and whose other
        off-diagonal cells are exact zeros: those cells carry signal through the ports in between (the library's connectivity matrix,
        Model/Connect.lean), they are not leakage samples"""
        from props import c20
        k, n = len(ports), self.p
        H = [[0] * k for _ in range(k)]
        hd = self.next_param
        for i in range(k):
            for j in range(k):
                if V[i][j] != 0:
                    self.lines.append('cal make_scalar %d %s' % (self.c, vlib.c2h(complex(V[i][j]))))
                    H[i][j] = hd
                    hd += 1
        self.next_param = hd
        nz = [1] * (n * n)
        for r in range(n):
            for c in range(n):
                rin, cin = (r + 1) in ports, (c + 1) in ports
                if rin and cin:
                    nz[r * n + c] = int(V[ports.index(r + 1)][ports.index(c + 1)] != 0)
                elif rin != cin:
                    nz[r * n + c] = 0
        self.cur_ports = [q - 1 for q in ports]
        self.cur_conn = np.array(c20.closure(n, n, nz), bool).reshape(n, n)[:self.rows, :self.cols]
        S = calsim.embed(n, self.cur_ports, V, self.others)
        self.lines.append('cal add %d mapped %s %d %d %s M %s' % (self.n, self.mtext(self.meas([S] * self.nf)), k, k, ' '.join(str(h) for row in H for h in row),
                                                                ' '.join(str(q) for q in ports)))
        self.cur_conn = None

    next_param = 3

    def meas(self, Sfull_by_f, rows_sel=None, cols_sel=None):
        Mf = [self.box.measure(Sfull_by_f[f], f) for f in range(self.nf)]
        if self.recording:
            S = np.asarray(Sfull_by_f[0], complex)
            conn = (np.abs(S) > 0)[:self.rows, :self.cols] if self.cur_conn is None else self.cur_conn.copy()
            # the library only takes a cell as free of a signal path where the standard says so: between two VNA ports that are both
            # outside the standard nothing is known (union-find over the S cells that are not known zeros, vnacal_new_add_common.c)
            out_ = [q for q in range(self.p) if q not in self.cur_ports]
            for r in out_:
                for c in out_:
                    if r < self.rows and c < self.cols:
                        conn[r, c] = True
            for f in range(self.nf):
                for r in range(self.rows):
                    for c in range(self.cols):
                        if r != c and not conn[r, c]:
                            Mf[f][r, c] += complex(self.rng.uniform(-1, 1), self.rng.uniform(-1, 1)) * 1e-2
            rs = rows_sel if rows_sel is not None else list(range(self.rows))
            cs = cols_sel if cols_sel is not None else list(range(self.cols))
            self.record.append(({(r, c): Mf[0][r, c] for r in rs for c in cs}, conn))
        if rows_sel is not None or cols_sel is not None:
            rs = rows_sel if rows_sel is not None else list(range(self.rows))
            cs = cols_sel if cols_sel is not None else list(range(self.cols))
            Mf = [M[np.ix_(rs, cs)] for M in Mf]
        return Mf


def leakage_terms(chk, exe, rng, reps, tmpdir, broken):
    """tie of Model/Leakage.lean: the leakage terms vnacal_save writes are the model's averages over the standards as they were
    given (full and abbreviated measurement matrices mixed, several samples per cell that differ from each other)"""
    lines_m, wants = [], []
    chains = 0
    for rep in range(reps):
        for typ in ('TE10', 'UE10', 'UE14'):
            n = rng.choice([2, 3])
            sc = LeakSc(rng, typ, n, n, 1, form='m')
            sc.record = []
            sc.begin()
            sc.solt(variety=rng)
            for _ in range(rng.randint(0, 2)):
                i, j = rng.sample(range(1, n + 1), 2)
                sc.add_double_reflect(i, j, rng.choice([calsim.SHORT, calsim.OPEN]), rng.choice([calsim.OPEN, calsim.MATCH]),
                                      abbreviated=rng.choice(['full', 'both']) if n > 2 else 'full')
            if n == 3 and rng.random() < 0.7:
                # a chain p0 - p1 - p2: the cells between p0 and p2 are exact zeros, yet there is a path
                V = [[calsim.rc(rng, 0.25) + (0.5 if abs(i - j) == 1 else 0.0) if abs(i - j) <= 1 else 0 for j in range(3)] for i in range(3)]
                sc.add_chain(rng.sample([1, 2, 3], 3), V)
                chains += 1
            sc.recording = False
            path = os.path.join(tmpdir, 'lk-%d-%s.vnacal' % (rep, typ))
            sc.solve().add_calibration(b'c')
            sc.lines += ['cal set_dprecision 0 1000', 'cal set_fprecision 0 1000', 'cal save 0 ' + vlib.hexbytes(path.encode()), 'cal free 0', 'cal live']
            out, rc, err = vlib.run_lines(exe, sc.lines, timeout=600)
            chk.evaluations += 1
            tag = '%s %dx%d, %d standards in mixed shapes' % (typ, n, n, len(sc.record))
            if rc != 0 or len(out) != len(sc.lines):
                chk.violation('sanitizer-leakage', '%s: crash / sanitizer report:\n%s' % (tag, err[-1200:]), sc.lines[:len(out) + 1])
                return
            if not all(o.startswith('ok') for o in out):
                k = next(i for i, o in enumerate(out) if not o.startswith('ok'))
                chk.violation('leakage-refused', '%s: `%s` -> %s' % (tag, sc.lines[k][:80], out[k][:80]), sc.lines[:k + 1])
                return
            cal = calfile.load(path, exe)[0]
            el = calfile.A(cal['data'][0]['el'])
            toks = []
            for given, conn in sc.record:
                for r in range(n):
                    for c in range(n):
                        if (r, c) not in given:
                            toks.append('x')
                        elif conn[r, c] or r == c:
                            toks.append('c')
                        else:
                            toks.append(vlib.c2h(given[(r, c)]))
            lines_m.append('lk %d %d %s' % (n * n, len(sc.record), ' '.join(toks)))
            wants.append((tag, n, el, sc.lines))
    chk.count('leakage_chain_standards', chains)
    mout, mrc, merr = vlib.run_lines(vlib.model_exe(), lines_m)
    if mrc != 0 or len(mout) != len(lines_m):
        broken.append('model driver failed on the leakage script: rc=%s %s' % (mrc, merr[-300:]))
        return
    for (tag, n, el, lines), mo in zip(wants, mout):
        w = mo.split()
        if not w or w[0] != 'ok':
            broken.append('leakage model answered %r' % mo[:80])
            continue
        mv = np.array(vlib.hs2c(w[1:]), complex).reshape(n, n)
        d = max(abs(el[r, c] - mv[r, c]) for r in range(n) for c in range(n) if r != c)
        if not d <= 1e-12:
            # the model is the documented averaging rule: a difference is a violation of C01 only if the data say so; report as
            # broken correspondence with the script as replay
            chk.violation('leakage-average', '%s: the saved leakage terms differ from the average of the samples without a signal path by %.3e' % (tag, d), lines)
            return
        chk.count('leakage_terms_agree')


def parameter_standards(chk, exe, rng, reps):
    """two-port standards given through parameter handles of their own (two known two-ports: eight scalar parameters, handles 3 .. 10
    and beyond) and an isolation standard with explicit zeros, in every order of addition, the isolation standard last among them:
    the device comes back whatever handles the parameters happen to have"""
    from props import c02
    for _ in range(reps):
        for typ in calsim.TYPES:
            sc = c02.Sc(rng, typ, 2, 2, rng.randint(1, 2), form=rng.choice(['m', 'ab'])).begin()
            # churn: the parameters of a standard are deleted as soon as the standard is added (the vnacal_new_t keeps them), scratch
            # parameters nothing uses are made and deleted in between: freed handles are handed out again, handles still in use are not
            churn = rng.random() < 0.5
            used, held, scratch = {0, 1, 2}, set(), []

            def mk(v, sc=sc, used=used):
                sc.lines.append('cal make_scalar %d %s' % (sc.c, vlib.c2h(complex(v))))
                hd = min(x for x in range(len(used) + 1) if x not in used)
                used.add(hd)
                sc.next_handle = max(sc.next_handle, hd + 1)
                return hd

            def rm(hd, sc=sc, used=used, held=held):
                sc.lines.append('cal delete_parameter %d %d' % (sc.c, hd))
                if hd not in held:
                    used.discard(hd)
            for _ in range(rng.choice([0, 0, 3, 5, 11])):
                scratch.append(mk(calsim.rc(rng, 0.5) + 2.0))          # other parameters of the vnacal_t: the handles below shift
            stds = []
            for _ in range(3 if typ in ('T16', 'U16') else 2):
                S2 = [[calsim.rc(rng, 0.4), calsim.rc(rng, 0.4) + 0.6], [calsim.rc(rng, 0.4) + 0.6, calsim.rc(rng, 0.4)]]
                stds.append(('tp', S2))
            stds += [('refl', calsim.SHORT, calsim.OPEN), ('refl', calsim.OPEN, calsim.SHORT)]
            rng.shuffle(stds)
            stds.append(('iso',))
            if rng.random() < 0.3:
                stds.insert(rng.randrange(len(stds)), ('iso',))
            for s_ in stds:
                if s_[0] == 'tp':
                    S2 = s_[1]
                    if churn and rng.random() < 0.7:
                        scratch.append(mk(calsim.rc(rng, 0.5) + 2.0))
                    hs = tuple(mk(S2[a][b]) for a in (0, 1) for b in (0, 1))
                    sc.line(1, 2, hs, S2)
                    held.update(hs)
                    if churn:
                        for hd in rng.sample(hs, rng.randint(2, 4)):
                            rm(hd)
                        for hd in rng.sample(scratch, min(len(scratch), rng.randint(1, 2))):
                            scratch.remove(hd)
                            rm(hd)
                elif s_[0] == 'refl':
                    sc.line(1, 2, (s_[1], 0, 0, s_[2]), [[calsim.GAMMA[s_[1]], 0], [0, calsim.GAMMA[s_[2]]]])
                else:
                    sc.line(1, 2, (0, 0, 0, 0), [[0, 0], [0, 0]])
            sc.solve().add_calibration(b'c')
            dut = sc.random_dut()
            sc.lines += [sc.apply_line(0, dut), 'cal free 0', 'cal live']
            out, rc, err = vlib.run_lines(exe, sc.lines, timeout=600)
            chk.evaluations += 1
            tag = '%s 2x2 %s, standards through %d parameter handles%s' % (typ, sc.form, sc.next_handle - 3, ', parameters deleted and handles reused in between' if churn else '')
            chk.count('params_churn' if churn else 'params_plain')
            if rc != 0 or len(out) != len(sc.lines):
                chk.violation('sanitizer-params', '%s: crash / sanitizer report:\n%s' % (tag, err[-1200:]), sc.lines[:len(out) + 1])
                return
            bad = [(l, o) for l, o in zip(sc.lines, out) if not o.startswith('ok')]
            if bad:
                chk.violation('params-refused', '%s: `%s` -> %s' % (tag, bad[0][0][:80], bad[0][1][:80]), sc.lines[:sc.lines.index(bad[0][0]) + 1])
                return
            ok, S = calsim.parse_apply(out[-3], 2)
            e = max(float(np.abs(S[f] - dut[f]).max()) for f in range(len(dut)))
            if not e <= 1e-7:
                chk.violation('apply-params', '%s: vnacal_apply does not recover the device: max |S - S_true| = %.3e' % (tag, e), sc.lines[:-2])
                return
            chk.count('apply_params_ok')
            chk.distinct.add(('params', typ, sc.next_handle, churn))


def smooth_offgrid(chk, exe, rng, reps):
    """an error network whose terms are affine in frequency (the directivity / leakage block passes through zero at a calibration
    point, the other blocks are constant): the error terms are then affine too, rational interpolation reproduces them, and a device
    measured *between* the calibration frequencies is recovered as well as on them"""
    import copy
    for _ in range(reps):
        for typ in calsim.TYPES:
            n = 2 if typ in ('T16', 'U16') else rng.choice([1, 2])
            fcal = [1e9 * (k + 1) for k in range(5)]
            fall = [1e9 * (1 + 0.5 * k) for k in range(9)]
            proto = calsim.ErrorBox(rng, typ, n, n, 1)
            f0 = rng.choice(fcal[1:4])

            def box_at(fs):
                b = copy.copy(proto)
                b.nf = len(fs)
                b.boxes = []
                for f in fs:
                    sysl = []
                    for (El, Er, Et, Em) in proto.boxes[0]:
                        D = El if np.abs(El).max() > 0 else np.eye(n) * complex(0.05, 0.02)
                        sysl.append((D * 3.0 * (f - f0) / 1e9, Er, Et, Em))
                    b.boxes.append(sysl)
                return b
            A = calsim.Scenario(rng, typ, n, n, 5, form=rng.choice(['m', 'ab']), fvec=fcal, box=box_at(fcal)).begin()
            A.solt().solve().add_calibration(b'c')
            B = calsim.Scenario(rng, typ, n, n, 9, form=A.form, fvec=fall, box=box_at(fall))
            B.others = A.others
            dut = B.random_dut()
            lines = A.lines + [B.apply_line(0, dut), 'cal free 0', 'cal live']
            out, rc, err = vlib.run_lines(exe, lines, timeout=600)
            chk.evaluations += 1
            tag = '%s %dx%d %s, error terms affine in frequency with a zero at %.0e Hz' % (typ, n, n, A.form, f0)
            if rc != 0 or len(out) != len(lines):
                chk.violation('sanitizer-offgrid', '%s: crash / sanitizer report:\n%s' % (tag, err[-1200:]), lines[:len(out) + 1])
                return
            bad = [(l, o) for l, o in zip(lines, out) if not o.startswith('ok')]
            if bad:
                chk.violation('offgrid-refused', '%s: `%s` -> %s' % (tag, bad[0][0][:80], bad[0][1][:80]), lines)
                return
            ok, S = calsim.parse_apply(out[-3], n)
            errs = [float(np.abs(S[f] - dut[f]).max()) for f in range(9)]
            if not max(errs) <= 1e-7:
                k = int(np.argmax(errs))
                chk.violation('apply-offgrid', '%s: a device measured at %.2e Hz (%s the calibration points) is corrected with error %.3e' % (
                    tag, fall[k], 'between' if k % 2 else 'on one of', errs[k]), lines[:-2])
                return
            chk.count('apply_offgrid_ok')
            chk.distinct.add(('offgrid', typ, n, f0))


def replay(chk, path):
    exe, _ = vlib.build_c()
    lines = [l.strip() for l in open(path) if l.strip() and not l.startswith('#')]
    out, rc, err = vlib.run_lines(exe, lines)
    for l, o in zip(lines, out):
        print(l[:110], '->', o[:160])
    if rc:
        print(err[-2500:])
    if 'MemorySanitizer' in open(path).read(3000) or 'never wrote' in open(path).read(3000):
        # a replay of an uninitialised read: the MemorySanitizer build shows it
        vlib.SHADOW['exe'] = vlib.build_msan()
        reached, err = vlib.msan_lines(lines)
        print('--- under MemorySanitizer: %d of %d calls reached' % (len(reached), len(lines)))
        print(err[-2500:] if err else 'no uninitialised read reported')
    return 0
