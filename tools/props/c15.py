"""C15 — vnadata_t behaves like a typed frequency x rows x columns array with z0 modes.

Proof side : Libvna.Props.C15 (invariant for every history, no access outside an allocation for any
             argument, every index outside [0,n) refused with no effect, resize preserves/exposes).
Tie        : hand model (Model/VData.lean) + correspondence run: the same operation script is executed by
             the compiled C (ASan/UBSan) and by the Lean model; outputs must be identical line by line.
Oracle     : an abstract array (tools/props/vspec.py) replayed over the same history; a disagreement of the
             C with it is a violation with the (shrunk) script as replay.
"""
import os, random
import vlib
from props.vspec import VSpec, Z, ZERO

THEOREMS = ['Libvna.VD.' + t for t in (
    'alloc_inv', 'resize_inv', 'init_inv', 'setType_inv', 'addFrequency_inv', 'setFrequency_inv',
    'setFrequencyVector_inv', 'setCell_inv', 'setMatrix_inv', 'setFromVector_inv', 'setZ0_inv', 'setAllZ0_inv',
    'setZ0Vector_inv', 'setFz0_inv', 'setFz0Vector_inv', 'toZ0_inv', 'toFz0_inv', 'getters_no_ub', 'step_inv',
    'reachable_inv', 'reachable_no_ub', 'index_refused', 'refused_frame', 'resize_exposes_initial')]
FILES = ['Model/VData.lean', 'Model/VDataStep.lean', 'Proofs/VDataLemmas.lean', 'Proofs/VDataResize.lean', 'Props/C15.lean',
         'Driver/VDataDrv.lean']


def cval(rng):
    return vlib.c2h(complex(rng.randint(-9, 9) * 0.5, rng.randint(-9, 9) * 0.25))


def idx(rng, n):
    return rng.choice([-1, 0, n - 1, n, n + 1, rng.randint(0, max(n, 1))]) if rng.random() < 0.45 else (rng.randrange(n) if n > 0 else 0)


def dims_for(rng, t, small):
    hi = 3 if small else 4
    if t in (2, 3, 6, 7, 8, 9):
        return (2, 2) if rng.random() < 0.85 else (rng.randint(0, hi), rng.randint(0, hi))
    if t in (1, 4, 5):
        n = rng.randint(0, hi)
        return (n, n) if rng.random() < 0.85 else (n, rng.randint(0, hi))
    if t == 10:
        return (1, rng.randint(0, hi)) if rng.random() < 0.85 else (rng.randint(0, hi), rng.randint(0, hi))
    return (rng.randint(0, hi), rng.randint(0, hi))


def gen_history(rng, length, nslots=2):
    """returns (lines, expected) — expected from the abstract array"""
    lines, exp = [], []
    spec = {}

    def emit(s, op, args):
        a = [str(x) for x in args]
        lines.append('vd %d %s%s' % (s, op, ''.join(' ' + x for x in a)))
        toks = ' '.join(a).split()
        exp.append(spec[s].apply(op, toks))
    for s in range(nslots):
        lines.append('vd %d alloc' % s)
        exp.append('ok cb=0/0')
        spec[s] = VSpec()
    for _ in range(length):
        s = rng.randrange(nslots)
        v = spec[s]
        r = rng.random()
        if r < 0.16:
            t = rng.choice([0, 1, 1, 2, 3, 4, 5, 6, 7, 8, 9, 10, 10, 11, -1]) if rng.random() < 0.9 else rng.randint(-3, 14)
            rr, cc = dims_for(rng, t, True)
            n = rng.choice([0, 1, 2, 3, 4, -1]) if rng.random() < 0.9 else rng.randint(0, 60)
            if rng.random() < 0.05:
                rr = -1
            emit(s, rng.choice(['resize', 'resize', 'init']), [t, rr, cc, n])
        elif r < 0.20:
            emit(s, 'set_type', [rng.randint(-1, 11)])
        elif r < 0.25:
            emit(s, 'add_frequency', [vlib.d2h(rng.choice([1e9, 2e9, 0.0, -1.0, 5.5e8]))])
        elif r < 0.31:
            emit(s, 'set_cell', [idx(rng, v.freqs), idx(rng, v.rows), idx(rng, v.cols), cval(rng)])
        elif r < 0.37:
            emit(s, 'get_cell', [idx(rng, v.freqs), idx(rng, v.rows), idx(rng, v.cols)])
        elif r < 0.40:
            emit(s, 'set_matrix', [idx(rng, v.freqs)] + [cval(rng) for _ in range(v.cells)])
        elif r < 0.43:
            emit(s, 'get_matrix', [idx(rng, v.freqs)])
        elif r < 0.46:
            emit(s, 'set_from_vector', [idx(rng, v.rows), idx(rng, v.cols)] + [cval(rng) for _ in range(v.freqs)])
        elif r < 0.49:
            emit(s, 'get_to_vector', [idx(rng, v.rows), idx(rng, v.cols)])
        elif r < 0.53:
            emit(s, 'set_frequency', [idx(rng, v.freqs), vlib.d2h(rng.choice([1e6, 3e9, 7.0]))])
        elif r < 0.56:
            emit(s, rng.choice(['get_frequency']), [idx(rng, v.freqs)])
        elif r < 0.58:
            emit(s, rng.choice(['get_fmin', 'get_fmax']), [])
        elif r < 0.60:
            emit(s, 'set_frequency_vector', [vlib.d2h(1e9 + 1e8 * i) for i in range(v.freqs)])
        elif r < 0.66:
            emit(s, 'set_z0', [idx(rng, v.ports), cval(rng)])
        elif r < 0.71:
            emit(s, 'get_z0', [idx(rng, v.ports)])
        elif r < 0.73:
            emit(s, 'set_all_z0', [cval(rng)])
        elif r < 0.74:
            emit(s, 'set_z0_vector', [cval(rng) for _ in range(v.ports)])
        elif r < 0.75:
            # a setter given the object's own vector (vnadata_get_fz0_vector / vnadata_get_z0_vector), also across a mode switch
            if v.freqs > 0 and rng.random() < 0.5:
                emit(s, 'set_z0_vector_own', [rng.randrange(v.freqs)])
            elif v.freqs > 0:
                emit(s, 'set_fz0_vector_own', [idx(rng, v.freqs), (-1 if not v.perF and rng.random() < 0.6 else rng.randrange(v.freqs))])
            else:
                emit(s, 'get_z0_vector', [])
        elif r < 0.77:
            emit(s, 'get_z0_vector', [])
        elif r < 0.83:
            emit(s, 'set_fz0', [idx(rng, v.freqs), idx(rng, v.ports), cval(rng)])
        elif r < 0.88:
            emit(s, 'get_fz0', [idx(rng, v.freqs), idx(rng, v.ports)])
        elif r < 0.90:
            emit(s, 'set_fz0_vector', [idx(rng, v.freqs)] + [cval(rng) for _ in range(v.ports)])
        elif r < 0.92:
            emit(s, 'get_fz0_vector', [idx(rng, v.freqs)])
        elif r < 0.93:
            emit(s, 'has_fz0', [])
        elif r < 0.95:
            emit(s, rng.choice(['set_filetype', 'set_fprecision', 'set_dprecision']), [rng.randint(-1, 5) if rng.random() < 0.8 else rng.choice([17, 999, 1000, 1001, 50000000, 2147483647])])
        else:
            emit(s, 'digest', [])
    for s in range(nslots):
        emit(s, 'digest', [])
        # expose hidden storage: grow every dimension, then look again
        v = spec[s]
        emit(s, 'resize', [0, v.rows + 1, v.cols + 1, v.freqs + 1])
        emit(s, 'digest', [])
        lines.append('vd %d free' % s)
        exp.append('ok cb=0/0')
    return lines, exp


def expected_for(lines):
    """replay the abstract array over an arbitrary (e.g. shrunk) script; 'bad-op' where the harness refuses"""
    spec, out = {}, []
    for l in lines:
        w = l.split()
        s, op, a = int(w[1]), w[2], w[3:]
        try:
            if op == 'alloc':
                if s in spec:
                    out.append('bad-op')
                else:
                    spec[s] = VSpec()
                    out.append('ok cb=0/0')
            elif s not in spec:
                out.append('bad-op')
            elif op == 'free':
                del spec[s]
                out.append('ok cb=0/0')
            else:
                v = spec[s]
                need = {'set_matrix': 1 + 2 * v.cells, 'set_from_vector': 2 + 2 * v.freqs, 'set_frequency_vector': v.freqs,
                        'set_z0_vector': 2 * v.ports, 'set_fz0_vector': 1 + 2 * v.ports}
                if op in need and len(a) != need[op]:
                    out.append('bad-op')
                else:
                    out.append(v.apply(op, a))
        except (IndexError, ValueError, KeyError):
            out.append('bad-op')
    return out


def run_scripts(chk, exe, scripts, label):
    """scripts: list of (lines, expected). Returns list of broken-correspondence notes."""
    broken = []
    alll, alle, bounds = [], [], []
    for lines, exp in scripts:
        bounds.append((len(alll), len(alll) + len(lines)))
        alll += lines
        alle += exp
    cout, crc, cerr = vlib.run_lines(exe, alll)
    mout, mrc, merr = vlib.run_lines(vlib.model_exe(), alll)
    if mrc != 0 or len(mout) != len(alll):
        broken.append('model driver failed (rc=%s, %d/%d lines): %s' % (mrc, len(mout), len(alll), merr[-300:]))
        mout = None
    if crc != 0 or len(cout) != len(alll):
        # find the script in which the harness died and replay it alone
        k = min(len(cout), len(alll) - 1)
        for (a, b) in bounds:
            if a <= k < b:
                sub = alll[a:b]
                o, rc, err = vlib.run_lines(exe, sub)
                cut = sub[:len(o) + 1]

                def dies(ls):
                    o2, rc2, _ = vlib.run_lines(exe, ls)
                    return rc2 != 0
                small = vlib.shrink(cut, dies) if dies(cut) else cut
                chk.violation('sanitizer-' + label, 'the library crashed or a sanitizer fired (rc=%s) on a valid-pointer call sequence:\n%s' % (crc, (err or cerr)[-1800:]), small)
                return broken
        chk.violation('sanitizer-' + label, 'harness died rc=%s: %s' % (crc, cerr[-1500:]), alll[-20:])
        return broken
    for (a, b) in bounds:
        chk.evaluations += 1
        sub = alll[a:b]
        d = vlib.first_diff(cout[a:b], alle[a:b])
        if d is not None:
            def bad(ls):
                o2, rc2, _ = vlib.run_lines(exe, ls)
                return rc2 != 0 or vlib.first_diff(o2, expected_for(ls)) is not None
            small = vlib.shrink(sub[:d + 1], bad) if bad(sub[:d + 1]) else sub[:d + 1]
            o2, _, _ = vlib.run_lines(exe, small)
            e2 = expected_for(small)
            dd = vlib.first_diff(o2, e2)
            chk.violation('array-' + label, 'the library disagrees with the abstract array at `%s`:\n  library : %s\n  expected: %s' % (
                small[dd] if dd is not None and dd < len(small) else sub[d], (o2[dd] if dd is not None and dd < len(o2) else cout[a + d])[:300],
                (e2[dd] if dd is not None and dd < len(e2) else alle[a + d])[:300]), small)
            return broken
        if mout is not None:
            dm = vlib.first_diff(cout[a:b], mout[a:b])
            if dm is not None:
                broken.append('correspondence: model and library differ at `%s`\n  library: %s\n  model  : %s' % (
                    sub[dm][:200], cout[a + dm][:200], mout[a + dm][:200]))
        key = tuple(l.split()[2] for l in sub)
        chk.distinct.add(hash(tuple(sub)))
        for l, o in zip(sub, cout[a:b]):
            w = l.split()
            chk.count('op_' + w[2])
            chk.count('fail' if o.startswith('fail') else 'ok')
    return broken


def bounded_exhaustive(depth):
    """all histories of `depth` operations over a small alphabet on one object, dims 0..2"""
    v1, v2 = vlib.c2h(1.5 + 2j), vlib.c2h(-3 + 0.25j)
    alpha = [('resize', [1, 2, 2, 2]), ('resize', [0, 1, 2, 1]), ('resize', [0, 0, 0, 0]), ('resize', [10, 1, 2, 3]),
             ('init', [1, 1, 1, 1]), ('set_cell', [0, 0, 1, v1]), ('set_cell', [1, 1, 0, v2]), ('set_z0', [1, v1]), ('set_z0', [2, v1]),
             ('set_fz0', [0, 0, v2]), ('set_fz0', [1, 1, v1]), ('set_all_z0', [v2]), ('add_frequency', [vlib.d2h(1e9)]),
             ('get_z0', [2]), ('get_fz0', [1, 1])]
    import itertools
    out = []
    for combo in itertools.product(range(len(alpha)), repeat=depth):
        lines = ['vd 0 alloc'] + ['vd 0 %s %s' % (alpha[i][0], ' '.join(str(x) for x in alpha[i][1])) for i in combo]
        lines += ['vd 0 digest', 'vd 0 resize 0 3 3 4', 'vd 0 digest', 'vd 0 free']
        out.append((lines, expected_for(lines)))
    return out


def proof_side(chk, targets, theorems, files, broken):
    ok, out = vlib.lake_build(targets + ['vmodel'])
    failed = vlib.failed_modules(out) if not ok else []
    for m in failed:
        broken.append('module %s no longer checks' % m)
    nok, problems, axioms = vlib.audit([os.path.join(vlib.LEAN, 'Libvna', f) for f in files],
                                       [t for t in targets if t not in failed], theorems)
    chk.obligations += len(theorems)
    chk.discharged += nok
    chk.theorems += theorems
    broken += problems
    chk.trusted += ['Lean 4 kernel', 'axioms: ' + (', '.join(sorted(axioms)) or 'none')]
    if chk.tier == 'thorough' and not failed:
        for t in targets:
            okc, o = vlib.leanchecker(t)
            chk.count('leanchecker_' + ('ok' if okc else 'fail'))
            if not okc:
                broken.append('leanchecker rejects %s: %s' % (t, o[-300:]))


def run(chk):
    rng = random.Random(chk.seed * 1009 + 15)
    broken = []
    proof_side(chk, ['Libvna.Props.C15'], THEOREMS, FILES, broken)
    chk.trusted += ['hand model Model/VData.lean tied to /repo/src/vnadata_*.c by the correspondence run (differential testing strength)',
                    'tools/props/vspec.py: abstract array used as oracle']
    chk.checker_cmd = 'cd lean && lake build Libvna.Props.C15 && #print axioms (tools/vlib.py audit)'
    exe, _ = vlib.build_c()
    quick = chk.tier == 'quick'
    scripts = []
    corpus = os.path.join(vlib.VERIF, 'corpus', 'C15')
    if os.path.isdir(corpus):
        for f in sorted(os.listdir(corpus)):
            ls = [l.strip() for l in open(os.path.join(corpus, f)) if l.strip() and not l.startswith('#')]
            scripts.append((ls, expected_for(ls)))
    scripts += bounded_exhaustive(2 if quick else 3)
    mult = 10 if broken else 1
    for _ in range((150 if quick else 3000) * mult):
        scripts.append(gen_history(rng, 100 if quick else 300, nslots=rng.choice([1, 2])))
    chk.rule = ('corpus of past failures + bounded-exhaustive histories (15-op alphabet, depth %d) + random histories with indices '
                'from {-1,0,n-1,n,n+1}, all 11 types, shrink/regrow in every dimension, both z0 modes; every script ends by growing '
                'each dimension to expose hidden storage; distinct = distinct scripts' % (2 if quick else 3))
    B = 200
    for k in range(0, len(scripts), B):
        broken += run_scripts(chk, exe, scripts[k:k + B], 'vd')
        if chk.violations:
            break
    chk.samples = [scripts[-1][0][:14], scripts[len(scripts) // 2][0][:8]]
    if broken and not chk.violations:
        chk.violation('obligation', 'proof/correspondence obligations that no longer check:\n' + '\n'.join(broken[:30]), nofail=True)


def replay(chk, path):
    exe, _ = vlib.build_c()
    lines = [l.strip() for l in open(path) if l.strip() and not l.startswith('#')]
    cout, crc, cerr = vlib.run_lines(exe, lines)
    exp = expected_for(lines)
    mout, _, _ = vlib.run_lines(vlib.model_exe(), lines)
    for i, l in enumerate(lines):
        print(l[:160])
        print('   library :', cout[i][:200] if i < len(cout) else '<died>')
        print('   expected:', exp[i][:200])
        print('   model   :', mout[i][:200] if i < len(mout) else '<none>')
    if crc:
        print(cerr[-2000:])
    return 0
