"""n-port conversion functions, round trips and n = 2 agreement (numeric part of C04)."""
import random
import numpy as np
import vlib

THEOREMS = ['Libvna.C04.nport_ztoy_exact'] + ['Libvna.C04N.' + t for t in ('waves_iff', 'scaled_iff', 'stoz_matrix', 'stoy_matrix', 'ztos_matrix', 'ytos_matrix',
                                                                        'stozn_relation', 'stoyn_relation', 'ztosn_relation', 'ytosn_relation')]          # hand theorems of Libvna.Props.C04

NFUNCS = {'vnaconv_stozn': ('s', 'z', True), 'vnaconv_stoyn': ('s', 'y', True), 'vnaconv_ztosn': ('z', 's', True),
          'vnaconv_ytosn': ('y', 's', True), 'vnaconv_ztoyn': ('z', 'y', False), 'vnaconv_ytozn': ('y', 'z', False),
          'vnaconv_stozin': ('s', 'zi', True), 'vnaconv_ztozin': ('z', 'zi', True), 'vnaconv_ytozin': ('y', 'zi', True)}


def nforms(z0):
    n = len(z0)
    z = np.array(z0, complex)
    k = np.sqrt(np.abs(z.real))
    I = np.eye(n, dtype=complex)
    O = np.zeros((n, n), complex)
    V = np.hstack([I, O])
    C = np.hstack([O, I])
    A = (V + np.diag(z) @ C) / (2 * k)[:, None]
    B = (V - np.diag(z.conj()) @ C) / (2 * k)[:, None]
    return dict(v=V, i=C, a=A, b=B)


NREL = {'s': ('b', 'a'), 'z': ('v', 'i'), 'y': ('i', 'v')}


def nrel(t, M, z0):
    f = nforms(z0)
    l, r = NREL[t]
    return f[l] - M @ f[r]


def null(A, k):
    u, s, vh = np.linalg.svd(A)
    return vh.conj().T[:, -k:], s


def noracle(fn, n, M, z0, out):
    src, dst, _ = NFUNCS[fn]
    if n == 0:
        return None
    Ain = nrel(src, M, z0)
    if any(x != x or abs(x) == float('inf') for x in out) or max(abs(x) for x in out) > 1e5:
        # non-finite or huge output is what the conversion's singular set gives; away from it, it is a wrong answer.  Decided from the
        # input alone: the states of the input relation, written in the independent variable of the output relation, must be regular
        if dst == 'zi' or np.abs(M).max() == 0 and n == 0:
            return 'skip'
        with np.errstate(all='ignore'):
            N0, s0 = null(Ain, n)
            blk = nforms(z0)[NREL[dst][1]] @ N0
            sv0 = np.linalg.svd(blk, compute_uv=False)
            reg = s0[0] / max(s0[n - 1], 1e-300) < 1e4 and sv0[-1] > 1e-3 * sv0[0]
        if reg:
            return 'non-finite or huge output (%s) for an input away from the singular set of the conversion (condition %.1e of the output relation\'s independent variable)' % (
                ', '.join(repr(x) for x in out[:2]), sv0[0] / max(sv0[-1], 1e-300))
        return 'skip'
    big = max(abs(x) for x in out)
    if dst != 'zi':
        O = np.array(out, complex).reshape(n, n)
        N, s = null(Ain, n)
        Aout = nrel(dst, O, z0)
        sv = np.linalg.svd(Aout, compute_uv=False)
        cond = (s[0] / max(s[n - 1], 1e-300)) * (sv[0] / max(sv[-1], 1e-300)) * max(1.0, big)
        if cond > 1e6:
            return 'skip'
        res = np.linalg.norm(Aout @ N) / max(np.linalg.norm(Aout), 1e-300)
        if res > 1e-9 * cond:
            return 'output relation not satisfied by the states of the input relation: residual %.3e cond %.1e' % (res, cond)
        return None
    f = nforms(z0)
    for p in range(n):
        rows = [Ain] + [f['a'][q:q + 1] for q in range(n) if q != p]
        A3 = np.vstack(rows)
        N, s = null(A3, 1)
        if len(s) < 2 * n - 1 or s[2 * n - 2] < 1e-8 * s[0]:
            return 'skip'
        st = N[:, 0]
        v = f['v'][p] @ st
        i = f['i'][p] @ st
        sc = abs(v) + abs(out[p] * i)
        if sc < 1e-9 * np.linalg.norm(st):
            return 'skip'
        if not abs(v - out[p] * i) <= 1e-8 * sc * max(1.0, s[0] / s[2 * n - 2]):
            return 'zi[%d] is not the impedance seen at port %d with the other ports terminated' % (p, p + 1)
    return None


def rc(rng, s=1.0):
    return complex(rng.gauss(0, s), rng.gauss(0, s))


def z0_vector(rng, n):
    """reference impedances with structure: all equal, independent, drawn from a small palette (so that some but not
    all ports coincide, in any position), equal real parts with different imaginary parts, sorted, real only"""
    r = rng.random()
    if r < 0.25:
        return [complex(50, 0)] * n
    if r < 0.45:
        return [complex(rng.uniform(1, 150), rng.gauss(0, 30) if rng.random() < 0.5 else 0) for _ in range(n)]
    pal = rng.choice([[50 + 0j, 75 + 0j], [50 + 0j, 75 + 0j, 100 + 0j], [50 + 3j, 75 + 10j, 75 - 25j, 50 - 8j], [10 + 0j, 10 + 5j, 200 + 0j]])
    z0 = [rng.choice(pal) for _ in range(n)]
    if r < 0.60:
        z0.sort(key=lambda z: (z.real, z.imag))
    elif r < 0.70:
        z0.sort(key=lambda z: (-z.real, z.imag))
    return z0


def run_numeric(chk, exe, rng, broken, scale=1):
    tier = chk.tier
    per = (25 if tier == 'quick' else 600) * scale
    lines, cases = [], []
    for fn in sorted(NFUNCS):
        for k in range(per):
            n = rng.choice([1, 2, 2, 3, 4, 5, 6]) if k else 0
            M = np.array([[rc(rng) for _ in range(n)] for _ in range(n)], complex).reshape(n, n)
            if NFUNCS[fn][0] in 'zy' and n:
                M = M * rng.choice([1, 50, 0.02])
            z0 = z0_vector(rng, n)
            mode = 'alias' if (NFUNCS[fn][1] != 'zi' and k % 3 == 2) else 'sep'
            cases.append((fn, n, mode, M, z0))
            lines.append('convn %s %d %s %s %s' % (fn, n, mode, ' '.join(vlib.c2h(x) for x in M.flatten()),
                                                   ' '.join(vlib.c2h(x) for x in z0)))
    # singular inputs that are not in the conversion's singular set: an admittance matrix with a series element and no shunt path
    # (det Y = 0, yet S exists), an impedance matrix with a shunt element only (det Z = 0)
    for fn in ('vnaconv_ytosn', 'vnaconv_ztosn'):
        if fn not in NFUNCS:
            continue
        for k in range(max(6, per // 4)):
            n = rng.choice([2, 2, 3, 4])
            g = rc(rng) * rng.choice([1, 50, 0.02])
            M = np.zeros((n, n), complex)
            i_, j_ = rng.sample(range(n), 2)
            if fn == 'vnaconv_ytosn':
                M[i_, i_] = M[j_, j_] = g          # series element between ports i and j
                M[i_, j_] = M[j_, i_] = -g
            else:
                M[i_, i_] = M[j_, j_] = M[i_, j_] = M[j_, i_] = g      # shunt element seen from ports i and j
            if n > 2 and rng.random() < 0.5:
                q = next(x for x in range(n) if x not in (i_, j_))
                M[q, q] = rc(rng) * 3                                   # one more port with an element of its own
            z0 = z0_vector(rng, n)
            mode = 'alias' if k % 3 == 2 else 'sep'
            cases.append((fn, n, mode, M, z0))
            lines.append('convn %s %d %s %s %s' % (fn, n, mode, ' '.join(vlib.c2h(x) for x in M.flatten()), ' '.join(vlib.c2h(x) for x in z0)))
    # lossless reciprocal networks: zero self terms, purely imaginary transfer terms (a quarter-wave line is Z = [[0, -50j], [-50j, 0]])
    for fn in ('vnaconv_ztoyn', 'vnaconv_ytozn', 'vnaconv_ztosn', 'vnaconv_ytosn'):
        for k in range(max(4, per // 6)):
            n = rng.choice([2, 2, 3, 4])
            sc_ = 50.0 if fn[8] == 'z' else 0.02
            M = np.array([[0 if i == j else 1j * rng.choice([-1, 1]) * rng.uniform(0.3, 2.0) * sc_ for j in range(n)] for i in range(n)], complex).reshape(n, n)
            M = (M + M.T) / 2
            z0 = z0_vector(rng, n)
            mode = 'alias' if k % 3 == 2 else 'sep'
            cases.append((fn, n, mode, M, z0))
            lines.append('convn %s %d %s %s %s' % (fn, n, mode, ' '.join(vlib.c2h(x) for x in M.flatten()), ' '.join(vlib.c2h(x) for x in z0)))
    # 2-port vs n-port at n = 2, and two-port round trips
    pair2 = []
    for k in range(per):
        m = [rc(rng) for _ in range(4)]
        z0 = rng.choice([(50 + 0j, 50 + 0j), (75 + 0j, 50 + 0j), (30 + 10j, 60 - 20j)])
        for fn in ('stoz', 'stoy', 'ztos', 'ytos', 'ztoy', 'ytoz', 'stozi', 'ztozi', 'ytozi'):
            l2 = 'conv vnaconv_%s sep %s %s' % (fn, ' '.join(vlib.c2h(x) for x in m), ' '.join(vlib.c2h(x) for x in z0))
            ln = 'convn vnaconv_%sn 2 sep %s %s' % (fn, ' '.join(vlib.c2h(x) for x in m), ' '.join(vlib.c2h(x) for x in z0))
            pair2.append((len(lines), len(lines) + 1, fn))
            lines += [l2, ln]
    cout, crc, cerr = vlib.run_lines(exe, lines)
    if crc != 0 or len(cout) != len(lines):
        bad = lines[min(len(cout), len(lines) - 1)]
        chk.violation('sanitizer-n', 'harness died (rc=%s) at: %s\n%s' % (crc, bad[:200], cerr[-1500:]), [bad])
        return
    nv = 0
    mout, mrc, merr = vlib.run_lines(vlib.model_exe(), lines)
    if mrc != 0 or len(mout) != len(lines):
        broken.append('model driver failed on the n-port script: rc=%s %s' % (mrc, merr[-300:]))
        mout = None
    nmis = 0
    for idx, (fn, n, mode, M, z0) in enumerate(cases):
        chk.evaluations += 1
        w = cout[idx].split()
        if not w or w[0] != 'ok':
            chk.violation('harness-n', 'harness answered %r' % cout[idx], [lines[idx]])
            return
        out = vlib.hs2c(w[1:])
        o = noracle(fn, n, M, z0, out)
        if o == 'skip':
            chk.count('nport_near_singular_skipped')
        elif o:
            nv += 1
            if nv <= 3:
                chk.violation('oracle-%s' % fn, '%s n=%d: %s' % (fn, n, o), [lines[idx], '# C output: ' + cout[idx]])
        else:
            chk.distinct.add((fn, n, mode, idx))
            chk.count('nport_ok_n%d' % n)
            if mout is not None and not vlib.same_line(cout[idx], mout[idx], 1e-7):
                nmis += 1
                if nmis <= 3:
                    broken.append('correspondence: n-port model and C differ on %s\n  C: %s\n  M: %s' % (lines[idx][:120], cout[idx][:200], mout[idx][:200]))
    for i2, i_n, fn in pair2:
        chk.evaluations += 1
        a = vlib.hs2c(cout[i2].split()[1:])
        b = vlib.hs2c(cout[i_n].split()[1:])
        if any(x != x for x in a + b) or max(abs(x) for x in a) > 1e5:
            chk.count('pair2_skipped')
            continue
        sc = max(1.0, max(abs(x) for x in a))
        if any(abs(x - y) > 1e-7 * sc for x, y in zip(a, b)):
            nv += 1
            if nv <= 3:
                chk.violation('n2-%s' % fn, 'vnaconv_%sn at n = 2 disagrees with vnaconv_%s' % (fn, fn),
                              [lines[i2], lines[i_n], '# ' + cout[i2], '# ' + cout[i_n]])
        else:
            chk.count('pair2_ok')
            chk.distinct.add(('pair2', fn, i2))
    # round trips through the harness: second pass needs the first outputs
    rt_lines, rt_cases = [], []
    T = 'stuzyhgab'
    for k in range(per * 2):
        x, y = rng.sample(T, 2)
        m = [rc(rng) for _ in range(4)]
        z0 = rng.choice([(50 + 0j, 50 + 0j), (75 + 0j, 50 + 0j), (30 + 10j, 60 - 20j)])
        rt_cases.append((x, y, m, z0))
        rt_lines.append('conv vnaconv_%sto%s sep %s %s' % (x, y, ' '.join(vlib.c2h(v) for v in m), ' '.join(vlib.c2h(v) for v in z0)))
    o1, rc1, e1 = vlib.run_lines(exe, rt_lines)
    back = []
    for (x, y, m, z0), o in zip(rt_cases, o1):
        mid = o.split()[1:]
        back.append('conv vnaconv_%sto%s sep %s %s' % (y, x, ' '.join(mid), ' '.join(vlib.c2h(v) for v in z0)))
    o2, rc2, e2 = vlib.run_lines(exe, back)
    if rc1 or rc2 or len(o2) != len(back):
        chk.violation('sanitizer-rt', 'harness died in round trip run: %s' % (e1 + e2)[-800:], rt_lines[:1])
        return
    # units: admittances in microsiemens, impedances in milliohms or megohms — a network is as regular in one unit as in another.
    # Z and Y of one well-conditioned network (diagonally dominant, condition of a few units) at scales from 1e-6 to 1e6: the two must be
    # inverses of each other to rounding, separately and in place (every determinant is tiny or huge here: 1e-6 at n = 4 gives 1e-24)
    sl, scs = [], []
    for fn in ('vnaconv_ztoyn', 'vnaconv_ytozn'):
        if fn not in NFUNCS:
            continue
        for k in range(max(20, per)):
            n = rng.choice([1, 2, 3, 4, 5, 6])
            al = rng.choice([1e-6, 1e-4, 1e-3, 1e-2, 1.0, 1e2, 1e3, 1e4, 1e6])
            M = np.array([[rc(rng, 0.25) for _ in range(n)] for _ in range(n)], complex).reshape(n, n)
            M = (M + np.diag([n * (1.0 + rng.random()) * np.exp(1j * rng.uniform(-1.2, 1.2)) for _ in range(n)])) * al
            z0 = z0_vector(rng, n)
            mode = 'alias' if k % 3 == 2 else 'sep'
            scs.append((fn, n, mode, al, M))
            sl.append('convn %s %d %s %s %s' % (fn, n, mode, ' '.join(vlib.c2h(x) for x in M.flatten()), ' '.join(vlib.c2h(x) for x in z0)))
    so, src_, se = vlib.run_lines(exe, sl)
    if src_ != 0 or len(so) != len(sl):
        chk.violation('sanitizer-scaled', 'harness died in the scaled Z/Y run: %s' % se[-800:], sl[:len(so) + 1][-1:])
        return
    for (fn, n, mode, al, M), l, o in zip(scs, sl, so):
        chk.evaluations += 1
        w = o.split()
        X = np.array(vlib.hs2c(w[1:]), complex).reshape(n, n) if w and w[0] == 'ok' and len(w) == 1 + 2 * n * n else None
        with np.errstate(all='ignore'):
            err = float(np.abs(X @ M - np.eye(n)).max()) if X is not None else float('inf')
        if not err <= 1e-10 * np.linalg.cond(M):
            nv += 1
            if nv <= 3:
                chk.violation('scaled-%s' % fn, '%s n=%d (%s), entries of order %g: result times input differs from the identity by %.3e (condition of the input %.1f)' % (
                    fn, n, mode, al, err, np.linalg.cond(M)), [l, '# ' + o[:300]])
        else:
            chk.count('scaled_inverse_ok')
            chk.distinct.add(('scaled', fn, n, mode, al))
    for (x, y, m, z0), oa, ob, l1, l2 in zip(rt_cases, o1, o2, rt_lines, back):
        chk.evaluations += 1
        mid = vlib.hs2c(oa.split()[1:])
        fin = vlib.hs2c(ob.split()[1:])
        if any(v != v for v in mid + fin) or max(abs(v) for v in mid) > 1e4 or min(abs(v) for v in mid) < 1e-4:
            chk.count('roundtrip_skipped')
            continue
        sc = max(1.0, max(abs(v) for v in m)) * max(1.0, max(abs(v) for v in mid))
        if any(abs(p - q) > 1e-7 * sc for p, q in zip(m, fin)):
            nv += 1
            if nv <= 3:
                chk.violation('roundtrip-%s%s' % (x, y), 'vnaconv_%sto%s then vnaconv_%sto%s does not return the original' % (x, y, y, x),
                              [l1, l2, '# ' + oa, '# ' + ob])
        else:
            chk.count('roundtrip_ok')
            chk.distinct.add(('rt', x, y, l1))
