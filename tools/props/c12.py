"""C12 — any single allocation failure yields a clean ENOMEM failure, nothing worse.

Proof side : Libvna.Props.C12 — on the vnadata model: a partially completed extension (what a failed allocation
             leaves behind) still satisfies the invariant and is observationally the old object; re-running the
             extension gives exactly the state of an extension that never failed.
Tie        : the vnadata model is the one of C15 (lock-step correspondence).
Oracle     : for each scripted history every allocation index k = 1..K of every call is failed once (link-time
             interposition of malloc/calloc/realloc/strdup/vasprintf): the call must return what it returns without
             the fault or its failure value with ENOMEM; no sanitizer report; repeating the call and finishing the
             script must give exactly the outputs of the run without fault; nothing may remain allocated.
"""
import os, random, shutil, tempfile
from concurrent.futures import ThreadPoolExecutor
import numpy as np
import vlib
from props import calsim, c15

THEOREMS = ['Libvna.VD.' + t for t in ('extendF_compose', 'extendM_compose', 'extendP_compose', 'partial_extension_inv',
                                       'hidden_update_observes_same', 'fault_retry_resize')]
FILES = ['Model/VData.lean', 'Props/C12.lean']
h = vlib.hexbytes


def scripts(rng, tmpdir):
    S = []
    z = vlib.c2h
    # vnadata
    S.append(('vnadata-basic', ['vd 0 alloc', 'vd 0 init 1 2 2 2', 'vd 0 set_cell 1 1 0 %s' % z(0.5 + 1j), 'vd 0 resize 1 3 3 4', 'vd 0 set_fz0 1 2 %s' % z(75),
                                'vd 0 resize 4 4 4 6', 'vd 0 set_z0 0 %s' % z(60), 'vd 0 add_frequency %s' % vlib.d2h(5e9), 'vd 1 alloc', 'vd 0 set_type 1', 'vd 0 convert 1 4',
                                'vd 1 digest', 'vd 0 convert 0 10', 'vd 0 digest', 'vd 0 free', 'vd 1 free']))
    S.append(('vnadata-fz0', ['vd 0 alloc', 'vd 0 init 0 0 0 1', 'vd 0 set_fz0_vector 0', 'vd 0 resize 0 0 0 3', 'vd 0 resize 1 2 2 3', 'vd 0 set_fz0 2 1 %s' % z(40),
                              'vd 0 set_all_z0 %s' % z(50), 'vd 0 digest', 'vd 0 free']))
    # init / resize of an object that is in per-frequency z0 mode (leaving that mode allocates)
    S.append(('vnadata-reinit', ['vd 0 alloc', 'vd 0 init 1 2 2 3', 'vd 0 set_fz0 1 0 %s' % z(75 + 1j), 'vd 0 init 5 1 1 4', 'vd 0 digest', 'vd 0 set_fz0_vector 2',
                                 'vd 0 resize 1 3 3 2', 'vd 0 init 1 2 2 1', 'vd 0 digest', 'vd 0 free']))
    # saving and loading (the default format is installed and removed again inside the call)
    ts_ = '# HZ S RI R 50\n1e9 .1 .2 .3 .4 .5 .6 .7 .8\n2e9 .1 .2 .3 .4 .5 .6 .7 .8\n'.encode().hex()
    S.append(('vnadata-files', ['vd 0 alloc', 'vd 0 init 1 2 2 1', 'vd 0 set_frequency_vector %s' % vlib.d2h(1e9), 'vd 0 set_matrix 0 ' + ' '.join(z(complex(0.1 * k, 0.2)) for k in range(1, 5)),
                                'vd 0 savestr ' + h('x.npd'), 'vd 0 cksave ' + h('x.ts'), 'vd 0 savestr ' + h('x.s2p'), 'vd 0 set_format ' + h('ma'), 'vd 0 savestr ' + h('y.npd'),
                                'vd 1 alloc', 'vd 1 loadstr %s x%s' % (h('l.s2p'), ts_), 'vd 1 digest', 'vd 1 savestr ' + h('z.ts'), 'vd 0 digest', 'vd 0 free', 'vd 1 free']))
    # files whose tokens are longer than the scanners' first text buffers (81 bytes per NPD line, 64 per Touchstone token): the buffer
    # grows in the middle of a token, at its end, and at the end of a line
    long_ = lambda k: '0' * (k - 3) + '1e9'
    npd_ = ''.join('#NPD\n#:version 1.0\n#:ports 1\n#:frequencies 1\n#:parameters Sri\n#:z0 50 0j\n%s 0.25 0.5\n' % long_(k) for k in ())
    S.append(('vnadata-long-tokens', ['vd 0 alloc'] +
              ['vd 0 loadstr %s x%s' % (h('l.npd'), ('#NPD\n#:version 1.0\n#:ports 1\n#:frequencies 1\n#:parameters Sri\n#:z0 50 0j\n%s 0.25 0.5\n' % long_(k)).encode().hex()) for k in (80, 81, 82, 160, 162)] +
              ['vd 0 loadstr %s x%s' % (h('l.npd'), ('#NPD\n#:version 1.0\n#:ports 1\n#:frequencies 1\n#:parameters Sri\n#:z0 50 0j\n1e9 %s 0.5\n' % ('0' * (k - 4) + '0.25')).encode().hex()) for k in (76, 77, 78)] +
              ['vd 0 loadstr %s x%s' % (h('l.s1p'), ('# HZ S RI R 50\n%s 0.25 0.5\n' % long_(k)).encode().hex()) for k in (62, 63, 64, 65, 127, 128, 129)] +
              ['vd 0 loadstr %s x%s' % (h('l.ts'), ('[Version] 2.0\n# HZ S RI R 50\n[Number of Ports] 1\n[Number of Frequencies] 1\n[%s]\n[Network Data]\n1e9 0.25 0.5\n[End]\n' % ('X' * k)).encode().hex()) for k in (63, 64, 65)] +
              ['vd 0 digest', 'vd 0 free']))
    # property tree
    S.append(('property', ['pt 0 set ' + h('a.b=1'), 'pt 0 set ' + h('a.list[3]=x'), 'pt 0 set ' + h('a.list[1+]=y'), 'pt 0 set ' + h('m.k1.k2.k3=deep'),
                           'pt 0 keys ' + h('a'), 'pt 0 get ' + h('a.b'), 'pt 0 type ' + h('a.list'), 'pt 0 count ' + h('a.list'), 'pt 0 get_subtree ' + h('m.k1'), 'pt 0 quote_key ' + h('k.e y'), 'pt 1 copy 0', 'pt 1 digest', 'pt 0 delete ' + h('a.list[0]'),
                           'pt 0 set_subtree ' + h('n{}'), 'pt 0 export', 'pt 1 import ' + h('x: [1, 2, {y: z}]\nw: ~\n'), 'pt 1 digest', 'pt 0 digest', 'pt 0 free', 'pt 1 free']))
    # lists filled exactly to their capacity (8, 16): the next insert / append has to grow the vector
    S.append(('property-list-growth', ['pt 0 set ' + h('l[%d]=v%d' % (i, i)) for i in range(8)] + ['pt 0 set ' + h('l[3+]=new'), 'pt 0 digest'] +
              ['pt 0 set ' + h('l[+]=a%d' % i) for i in range(7)] + ['pt 0 set ' + h('l[+]=grow'), 'pt 0 set ' + h('l[0+]=first'), 'pt 0 digest',
               'pt 1 set ' + h('m[7]=x'), 'pt 1 set ' + h('m[2+]=y'), 'pt 1 set ' + h('m[+].k[+]=z'), 'pt 1 digest', 'pt 0 free', 'pt 1 free']))
    # many keys: forces the hash table to grow
    S.append(('property-rehash', ['pt 0 set ' + h('k%d=%d' % (i, i)) for i in range(14)] + ['pt 0 digest', 'pt 0 free']))
    # calibration
    sc = calsim.Scenario(rng, 'TE10', 2, 2, 2, form='ab').begin()
    sc.lines.append('cal make_vector 0 2 %s %s' % (' '.join(vlib.d2h(f) for f in sc.fvec), ' '.join(z(calsim.rc(rng, 0.3)) for _ in range(2))))
    sc.lines.append('cal make_unknown 0 3')
    sc.lines.append('cal make_correlated 0 3 2 F %s %s' % (' '.join(vlib.d2h(f) for f in sc.fvec), ' '.join(vlib.d2h(0.1) for _ in range(2))))
    sc.solt()
    sc.lines.append('cal property 0 -1 set ' + h('note=hello'))
    sc.solve().add_calibration()
    dut = sc.random_dut()
    path = os.path.join(tmpdir, 'f.vnacal')
    sc.lines += [sc.apply_line(0, dut), 'cal property 0 0 set ' + h('cal.prop[1]=v'), 'cal save 0 ' + h(path), 'cal load 1 ' + h(path), 'cal get_info 1 0',
                 'cal delete_parameter 0 4', 'cal free 1', 'cal free 0']
    S.append(('calibration-TE10', sc.lines))
    sc = calsim.Scenario(rng, 'E12', 2, 1, 1, form='m').begin()
    sc.lines.append('cal new_set_m_error 0 1 N S %s T %s' % (vlib.d2h(1e-4), vlib.d2h(1e-3)))
    sc.solt().solve().add_calibration(b'e12')
    # solve again and add under the same name (replace in place), then under a new one
    sc.solve().add_calibration(b'e12')
    sc.solve().add_calibration(b'second')
    sc.lines += ['cal find_calibration 0 ' + h('e12'), 'cal get_info 0 0', 'cal new_free 0', 'cal delete_calibration 0 0', 'cal free 0']
    S.append(('calibration-E12-merror', sc.lines))
    # an unknown parameter solved on three frequencies, then by a second vnacal_new_t on five: the second solve replaces the solved
    # vectors.  After a failed solve the parameter is read before the solve is repeated (third element: probes run right after the
    # failed call of that line).
    from props import c02
    A = c02.Sc(rng, 'T8', 1, 1, 3, form='m').begin()
    for code in (calsim.SHORT, calsim.OPEN, calsim.MATCH):
        A.add_reflect(1, code)
    g = 0.3 + 0.4j
    u = A.unknown(g * 1.1, g)
    A.std1(1, u, g)
    A.solve()
    B = c02.Sc(rng, 'T8', 1, 1, 5, form='m', slot_c=0, slot_n=1, fvec=[1e9 * (1 + 0.2 * i) for i in range(5)]).begin(create=False)
    for code in (calsim.SHORT, calsim.OPEN, calsim.MATCH):
        B.add_reflect(1, code)
    B.std1(1, u, g)
    B.solve()
    lines_ = A.lines + B.lines
    i_solve2 = len(lines_) - 1
    probe_ = ['cal get_parameter_value 0 %d %s' % (u, vlib.d2h(1.5e9)), 'cal get_parameter_value 0 %d %s' % (u, vlib.d2h(1.0e9))]
    lines_ += probe_ + ['cal add_calibration 0 %s 1' % h('two'), 'cal free 0']
    S.append(('calibration-resolve', lines_, {i_solve2: probe_}))
    # the 8th and the 16th distinct parameter of one vnacal_new_t are unknown ones (the per-calibration parameter table grows there)
    for nknown in (4, 12):
        C = c02.Sc(rng, 'T8', 1, 1, 2, form='m').begin()
        for code in (calsim.MATCH, calsim.OPEN, calsim.SHORT):
            C.add_reflect(1, code)
        for _ in range(nknown):
            gk = calsim.rc(rng, 0.5)
            C.std1(1, C.scalar(gk), gk)
        gu = 0.4 + 0.2j
        uu = C.unknown(0.3 + 0.1j, gu)
        C.std1(1, uu, gu)
        C.solve()
        C.lines += ['cal get_parameter_value 0 %d %s' % (uu, vlib.d2h(C.fvec[0])), 'cal add_calibration 0 %s 0' % h('m'), 'cal free 0']
        S.append(('calibration-%d-params' % (nknown + 4), C.lines))
    # every way of making a parameter from another one: after a failed call the parameters it was to be built on are read (they are
    # untouched), then the call is repeated
    f1_, f2_, f3_ = 1e9, 2e9, 3e9
    P = ['cal create 0', 'cal make_vector 0 3 %s %s' % (' '.join(vlib.d2h(f) for f in (f1_, f2_, f3_)), ' '.join(z(v) for v in (0.1 + 0.2j, 0.9 - 0.2j, -0.5 + 0.25j))),
         'cal make_scalar 0 %s' % z(0.3 - 0.1j)]
    probe_v = ['cal get_parameter_value 0 3 %s' % vlib.d2h(f) for f in (f1_, f2_, f3_, 1.5e9)] + ['cal get_parameter_value 0 4 %s' % vlib.d2h(f2_)]
    makes = ['cal make_correlated 0 3 3 N %s' % ' '.join(vlib.d2h(s_) for s_ in (0.1, 0.2, 0.3)),            # sigma on the grid of the vector parameter
             'cal make_correlated 0 3 2 F %s %s' % (' '.join(vlib.d2h(f) for f in (f1_, f3_)), ' '.join(vlib.d2h(s_) for s_ in (0.1, 0.2))),
             'cal make_correlated 0 3 1 N %s' % vlib.d2h(0.05), 'cal make_correlated 0 4 1 N %s' % vlib.d2h(0.05), 'cal make_unknown 0 3', 'cal make_unknown 0 4',
             'cal make_correlated 0 5 3 N %s' % ' '.join(vlib.d2h(s_) for s_ in (0.3, 0.2, 0.1)),           # correlated with a correlated one: the chain ends at the vector
             'cal make_unknown 0 9']
    pr = {}
    for m_ in makes:
        pr[len(P)] = probe_v
        P.append(m_)
    P += probe_v + ['cal get_parameter_value 0 5 %s' % vlib.d2h(f2_), 'cal get_parameter_value 0 11 %s' % vlib.d2h(f2_)]
    P += ['cal delete_parameter 0 %d' % hd for hd in (11, 3, 5, 6, 7, 8, 9, 10, 12, 4)] + ['cal free 0']
    S.append(('parameters-from-parameters', P, pr))
    return S


def random_scripts(rng, count):
    from props import c13
    S = []
    for i in range(count):
        if i % 2 == 0:
            lines = [l for l in c13.gen_history(rng, rng.randint(15, 40)) if not l.endswith(' live')]
            S.append(('random-property-%d' % i, lines))
        else:
            lines, _ = c15.gen_history(rng, rng.randint(15, 40))
            S.append(('random-vnadata-%d' % i, lines))
    return S


def run_one(args):
    exe, lines = args
    return vlib.run_lines(exe, lines + ['cal live'], timeout=120)


def run(chk):
    rng = random.Random(chk.seed * 59 + 12)
    broken = []
    c15.proof_side(chk, ['Libvna.Props.C12'], THEOREMS, FILES, broken)
    chk.trusted += ['link-time interposition of malloc/calloc/realloc/strdup/vasprintf (harness/wrap_alloc.c); allocations inside libyaml/libc are not failed']
    chk.checker_cmd = 'cd lean && lake build Libvna.Props.C12 && #print axioms'
    chk.extra['level_note'] = 'fault enumeration is exhaustive per scripted history'
    exe, _ = vlib.build_c()
    quick = chk.tier == 'quick'
    tmpdir = tempfile.mkdtemp(prefix='verif-c12-')
    fired_total = 0
    try:
        allscripts = scripts(rng, tmpdir) + random_scripts(rng, 4 if quick else 60)
        for entry in allscripts:
            name, lines = entry[0], entry[1]
            probes = entry[2] if len(entry) > 2 else {}
            # baseline with allocation counts
            probe = []
            for l in lines:
                probe += [l, 'allocs']
            out, rc, err = vlib.run_lines(exe, probe + ['cal live'])
            if rc != 0 or len(out) != len(probe) + 1:
                chk.violation('baseline-' + name, 'scripted history fails without any fault: %s' % err[-800:], lines)
                continue
            base = out[0:-1:2]
            K = [int(o.split()[1]) for o in out[1:-1:2]]
            if out[-1] != 'ok live=0':
                chk.violation('baseline-leak-' + name, 'scripted history leaks without any fault: %s' % out[-1], lines)
                continue
            jobs = []
            for i, l in enumerate(lines):
                if l.startswith('pt ') and l.split()[2] == 'digest':
                    continue        # composite observation made of many API calls by the harness; its parts are faulted as separate lines
                ks = range(1, K[i] + 1)
                if quick and K[i] > 12:
                    # the first allocations, the last ones (results are stored at the end of a call), some in between
                    ks = list(range(1, 9)) + sorted(rng.sample(range(9, K[i] - 1), min(3, max(0, K[i] - 10)))) + [K[i] - 1, K[i]]
                if name.startswith('random-') and K[i] > 0 and rng.random() < (0.6 if quick else 0.0):
                    ks = [rng.randint(1, K[i])]
                for k in ks:
                    # jobs run in parallel: every job gets its own file name
                    own = [x.replace(h(os.path.join(tmpdir, 'f.vnacal'))[1:], h(os.path.join(tmpdir, 'f%d.vnacal' % len(jobs)))[1:]) for x in lines]
                    jobs.append((i, k, own[:i] + ['fault %d' % k, own[i], 'allocs'] + probes.get(i, []) + [own[i]] + own[i + 1:]))
            with ThreadPoolExecutor(16) as ex:
                results = list(ex.map(run_one, [(exe, j[2]) for j in jobs]))
            for (i, k, script), (o, rc, err) in zip(jobs, results):
                chk.evaluations += 1
                tag = '%s: allocation %d of `%s`' % (name, k, lines[i][:60])
                if rc != 0 or len(o) != len(script) + 1:
                    chk.violation('crash-' + name, '%s fails -> crash / sanitizer / leak report:\n%s' % (tag, err[-1500:]), script)
                    break
                npr = len(probes.get(i, []))
                faulted, fired, retry = o[i + 1], o[i + 2], o[i + 3 + npr]
                if 'fired=1' not in fired:
                    chk.count('fault_not_reached')
                    continue
                fired_total += 1
                rest_base = base[i + 1:]
                rest = o[i + 4 + npr:-1]
                if faulted == base[i]:
                    # the call absorbed the failure; the retry is a second call and is not compared
                    chk.count('absorbed')
                    ok_rest = True
                elif faulted.startswith('fail ENOMEM') or (faulted.startswith('fail') and 'ENOMEM' in faulted):
                    chk.count('clean_enomem')
                    if retry != base[i]:
                        chk.violation('retry-' + name, '%s: repeating the call without the fault gives %s, without any fault it gives %s' % (tag, retry[:120], base[i][:120]), script)
                        break
                    ok_rest = True
                else:
                    chk.violation('errno-' + name, '%s: the call neither succeeded nor failed with ENOMEM: %s' % (tag, faulted[:160]), script)
                    break
                if faulted != base[i] and rest != rest_base:
                    d = next((j for j, (a, b) in enumerate(zip(rest, rest_base)) if a != b), None)
                    chk.violation('after-' + name, '%s: after the failed call and its repetition the history diverges at `%s`: %s vs %s' % (
                        tag, lines[i + 1 + d][:60] if d is not None else '?', rest[d][:100] if d is not None else '', rest_base[d][:100] if d is not None else ''), script)
                    break
                if o[-1] != 'ok live=0':
                    chk.violation('leak-' + name, '%s: allocations remain after everything was freed: %s' % (tag, o[-1]), script)
                    break
                chk.distinct.add((name, i, k))
            chk.count('scripts')
    finally:
        shutil.rmtree(tmpdir, ignore_errors=True)
    chk.extra['faults_fired'] = fired_total
    chk.rule = ('seven scripted histories and %d random ones from the C13 / C15 generators (scripted: ' % (4 if quick else 60) + 'vnadata incl. per-frequency z0 and conversions; property tree incl. copy, export/import and hash growth; TE10 a/b calibration with '
                'vector/unknown/correlated parameters, properties, save and load; E12 with measurement-error model); every allocation index of every call failed once '
                '(quick: calls with more than 12 allocations are sampled); distinct = (script, call, allocation index) with the fault actually fired')
    chk.samples = [['fault 2', 'vd 0 resize 1 3 3 4', 'allocs', 'vd 0 resize 1 3 3 4']]
    if broken and not chk.violations:
        chk.violation('obligation', 'proof/correspondence obligations that no longer check:\n' + '\n'.join(broken[:30]), nofail=True)


def replay(chk, path):
    from props import c01
    return c01.replay(chk, path)
