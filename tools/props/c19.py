"""C19 — linear systems are solved to backward-stable accuracy; singular ones stand out.

Proof side : Libvna.Props.C19 — exact-arithmetic correctness of the elimination model (see DESIGN §6 C19).
Tie        : Model/LinAlg.lean is executed (IEEE doubles) against the compiled _vnacommon_* kernels (LU, the three LU solvers, Householder QR solve).
Oracle     : row-wise relative residual of the system in extended precision, invariant under row order and
             row scaling; normal-equation residual for least squares; exactly singular inputs must come back
             non-finite or astronomically large (directly and through the n-port conversions).
"""
import os, random
import numpy as np
import vlib
from props import c15

THEOREMS = ['Libvna.LU.' + t for t in ('sum_split3', 'lu_of_recurrence', 'forward_subst', 'back_subst', 'solve_correct', 'det_of_lu',
                                      'zero_pivot_singular', 'nonzero_pivots_nonsingular')] + \
    ['Libvna.LULoop.' + t for t in ('get_set', 'dotSub_eq', 'upper_spec', 'lower_spec', 'swapRows_spec', 'scaleCol_spec', 'col_step_fun',
                                    'colStep_spec', 'luLoop_inv', 'luLoop_full', 'lu_factors', 'lu_det',
                                    'fwdCol_spec', 'backCol_spec', 'solveCols_spec', 'colSolved_solves', 'mldivide_solves', 'minverse_inverts', 'ztoyn_relation',
                                    'mrFwd_spec', 'mrBack_spec', 'mrRows_spec', 'rowSolved_solves', 'mrdivide_solves')] + \
    ['Libvna.QR.' + t for t in ('reflector_unitary', 'reflector_annihilates', 'alpha_choice', 'normal_eq_minimises')] + \
    ['Libvna.QRLoop.' + t for t in ('colLoop_spec', 'divCol_spec', 'colUpd_spec', 'reflectCols_spec', 'qrdStep_fun', 'hh_range', 'qrdStep_inv', 'qrdLoop_inv',
                                    'qrd_factors', 'normal_of_qr', 'applyQ_spec', 'qrBack_spec', 'qrCols_spec', 'qrsolve_normal', 'complexOps_spec',
                                    'qrsolve_least_squares', 'rowLoop_spec', 'qUpd_spec', 'qRows_spec', 'qRows_matrix', 'qAccum_matrix', 'qr_factors',
                                    'qs2Back_spec', 'qs2Cols_spec', 'qrsolve2_normal', 'qr_qrsolve2_normal')]
FILES = ['Model/LinAlg.lean', 'Props/C19.lean', 'Props/C19Loop.lean', 'Props/C19Solve.lean', 'Props/C19QR.lean']
LD = np.clongdouble


def rcm(rng, m, n, scale=1.0):
    return np.array([[complex(rng.gauss(0, scale), rng.gauss(0, scale)) for _ in range(n)] for _ in range(m)], complex).reshape(m, n)


def flat(M):
    return ' '.join(vlib.c2h(x) for x in np.asarray(M).flatten())


def make_square(rng, n, kind):
    A = rcm(rng, n, n)
    if kind == 'rowscaled':
        d = np.array([10.0 ** rng.randint(-8, 8) for _ in range(n)])
        A = A * d[:, None]
    elif kind == 'graded':
        d = np.array([10.0 ** (-i) for i in range(n)])
        A = A * d[:, None] * d[None, :]
    elif kind == 'colscaled':
        d = np.array([10.0 ** rng.randint(-6, 6) for _ in range(n)])
        A = A * d[None, :]
    elif kind == 'int':
        A = np.array([[complex(rng.randint(-5, 5), rng.randint(-5, 5)) for _ in range(n)] for _ in range(n)], complex).reshape(n, n)
    elif kind == 'lossless':
        # a lossless reciprocal network: zero self terms, purely imaginary (or purely real) transfer terms - every pivot column has
        # an exact zero on the diagonal and entries with a zero real (imaginary) part below it
        u = 1j if rng.random() < 0.7 else 1.0
        A = np.array([[0 if i == j else u * rng.choice([-1, 1]) * rng.uniform(0.2, 3.0) for j in range(n)] for i in range(n)], complex).reshape(n, n)
        A = (A + A.T) / 2 if n > 1 else np.array([[u * 1.5]], complex)
    elif kind == 'smallpivot' and n >= 2:
        # one row whose entry in some column is small while its other entries are large (an impedance matrix with a milliohm self
        # term next to kilohm transfer terms): a pivot search that favours rows with large entries takes the small one as pivot
        i0, j0 = rng.randrange(n), rng.randrange(n)
        k = 10.0 ** rng.uniform(3, 8)
        for j in range(n):
            if j != j0:
                A[i0, j] *= k
        A[i0, j0] *= 10.0 ** rng.uniform(-4, -1)
    elif kind == 'leadblock' and n >= 3:
        # a leading k x k block that is singular or nearly so while the whole matrix is well conditioned:
        # elimination without a row exchange at step k-1 meets a zero / tiny pivot
        k = rng.randint(2, n - 1)
        A[k - 1, :k] = A[rng.randrange(k - 1), :k] * (1 + rng.choice([0, 0, 1e-9, 1e-6]))
    return A


def make_singular(rng, n):
    A = np.array([[complex(rng.randint(-4, 4), rng.randint(-4, 4)) for _ in range(n)] for _ in range(n)], complex).reshape(n, n)
    k = rng.choice(['duprow', 'zerorow', 'zerocol', 'sumrow', 'dupcol']) if n > 1 else 'zerorow'
    i, j = rng.sample(range(n), 2) if n > 1 else (0, 0)
    if k == 'duprow':
        A[i] = A[j]
    elif k == 'zerorow':
        A[i] = 0
    elif k == 'zerocol':
        A[:, i] = 0
    elif k == 'dupcol':
        A[:, i] = A[:, j]
    else:
        A[i] = A[j] * 2
    return A, k


def rowwise_residual(A, X, B):
    if not (np.all(np.isfinite(X.real)) and np.all(np.isfinite(X.imag))):
        return float('inf')            # (a comparison with NaN is false: a non-finite solution must not pass as residual 0)
    A, X, B = A.astype(LD), X.astype(LD), B.astype(LD)
    R = np.abs(A @ X - B)
    S = np.abs(A) @ np.abs(X) + np.abs(B)
    # where the exact entry of the solution is zero the computed one is rounding noise and so is its own scale |A||X|: the scale of a
    # row is never taken below machine precision times the row of A and the size of the solution
    floor = 1e-4 * np.abs(A).sum(axis=1)[:, None] * (np.abs(X).max() if X.size else 0)
    S = np.maximum(S, floor)
    with np.errstate(all='ignore'):
        q = np.where(S > 0, R / np.where(S > 0, S, 1), 0)
    return float(q.max()) if q.size else 0.0


def pivot_tie(A, pc, pm):
    """the first step at which the pivot rows `pc` (library) and `pm` (model) differ is a tie of the pivot rule: the two candidates
    (entry times the reciprocal of its row's largest magnitude) agree to 1e-12 — which of two equal candidates wins is decided by the
    last bit of `cabs`, not by the rule.  Crout elimination re-done here, following the library's choices"""
    n = len(pc)
    W = np.array(A, complex).copy()
    rows = list(range(n))
    with np.errstate(all='ignore'):
        scale = [(1.0 / m_ if m_ != 0 else 0.0) for m_ in np.abs(W).max(axis=1)]
        for j in range(n):
            for i in range(j):
                W[i, j] -= W[i, :i] @ W[:i, j]
            for i in range(j, n):
                W[i, j] -= W[i, :j] @ W[:j, j]
            t = {rows[i]: scale[i] * abs(W[i, j]) for i in range(j, n)}
            c, m = int(pc[j]), int(pm[j])
            if c != m:
                return c in t and m in t and abs(t[c] - t[m]) <= 1e-12 * max(t[c], t[m])
            i = rows.index(c)
            if i != j:
                W[[i, j]] = W[[j, i]]
                rows[i], rows[j] = rows[j], rows[i]
                scale[i] = scale[j]
            if j != n - 1:
                W[j + 1:, j] /= W[j, j]
    return True


def parse_x(line, m, n):
    w = line.split()
    k = w.index('X')
    v = vlib.hs2c(w[k + 1:])
    return np.array(v, complex).reshape(m, n), vlib.hs2c(w[1:3])[0]


def run(chk):
    rng = random.Random(chk.seed * 104729 + 19)
    broken = []
    if THEOREMS:
        c15.proof_side(chk, ['Libvna.Props.C19', 'Libvna.Props.C19Loop', 'Libvna.Props.C19Solve', 'Libvna.Props.C19QR'], THEOREMS, FILES, broken)
    chk.trusted += ['Props/C19.lean is partial: the step from the imperative loops to the recurrences is tied by correspondence only',
                    'backward stability / rounding: measured (row-wise relative residual in extended precision), not proved']
    chk.checker_cmd = 'cd lean && lake build Libvna.Props.C19 && #print axioms'
    exe, _ = vlib.build_c()
    quick = chk.tier == 'quick'
    N = (40 if quick else 1500) * (5 if broken else 1)
    nmax = 6 if quick else 8
    TOL = 1e-10
    lines, cases = [], []
    for _ in range(N):
        for kind in ('random', 'rowscaled', 'graded', 'colscaled', 'int', 'permuted', 'leadblock', 'lossless', 'smallpivot', 'smallpivot'):
            n = rng.randint(1, nmax)
            k = rng.randint(1, 3)
            A = make_square(rng, n, 'random' if kind == 'permuted' else kind)
            if kind == 'permuted':
                p = list(range(n))
                rng.shuffle(p)
                A = A[p]
            B = rcm(rng, n, k)
            op = rng.choice(['mldivide', 'mrdivide', 'minverse'])
            if op == 'mldivide':
                lines.append('num mldivide %d %d %s %s' % (n, k, flat(A), flat(B)))
            elif op == 'mrdivide':
                B = rcm(rng, k, n)
                lines.append('num mrdivide %d %d %s %s' % (k, n, flat(A), flat(B)))
            else:
                lines.append('num minverse %d %s' % (n, flat(A)))
            cases.append((op, kind, A, B))
        # least squares
        n = rng.randint(1, 6 if quick else 15)
        m = n + rng.randint(0, 10 if quick else 25)
        o = rng.randint(1, 2)
        A = rcm(rng, m, n)
        if rng.random() < 0.4:
            A = A * np.array([10.0 ** rng.randint(-6, 6) for _ in range(m)])[:, None]
        B = rcm(rng, m, o)
        lines.append('num qrsolve %d %d %d %s %s' % (m, n, o, flat(A), flat(B)))
        cases.append(('qrsolve', 'tall', A, B))
        # the same through the explicit factors (the Gauss-Newton step of the iterative solver): _vnacommon_qr, _vnacommon_qrsolve2
        lines.append('num qrsolve2 %d %d %d %s %s' % (m, n, o, flat(A), flat(B)))
        cases.append(('qrsolve2', 'tall', A, B))
        # singular
        n = rng.randint(1, nmax)
        A, sk = make_singular(rng, n)
        if rng.random() < 0.5:
            lines.append('num minverse %d %s' % (n, flat(A)))
            cases.append(('minverse', 'singular-' + sk, A, None))
        else:
            fn = rng.choice(['vnaconv_ztoyn', 'vnaconv_ytozn'])
            lines.append('convn %s %d sep %s %s' % (fn, n, flat(A), ' '.join([vlib.c2h(50)] * n)))
            cases.append(('convn', 'singular-' + sk, A, None))
    # the factors themselves: the hypotheses of lu_of_recurrence / det_of_lu, checked on the C's output
    lu_cases = []
    for _ in range(N):
        n = rng.randint(1, nmax)
        A = make_square(rng, n, rng.choice(['random', 'rowscaled', 'int', 'graded', 'leadblock']))
        lu_cases.append((len(lines), A))
        lines.append('num lu %d %s' % (n, flat(A)))
        cases.append(('lu', 'factors', A, None))
    cout, crc, cerr = vlib.run_lines(exe, lines)
    if crc != 0 or len(cout) != len(lines):
        bad = lines[min(len(cout), len(lines) - 1)]
        chk.violation('sanitizer', 'kernel crashed / sanitizer fired: %s' % cerr[-1500:], [bad])
        return
    for (k, A) in lu_cases:
        w = cout[k].split()
        n = A.shape[0]
        d = vlib.hs2c(w[1:3])[0]
        pi = [int(x) for x in w[w.index('P') + 1:w.index('A')]]
        packed = np.array(vlib.hs2c(w[w.index('A') + 1:]), complex).reshape(n, n)
        L = np.tril(packed, -1) + np.eye(n)
        U = np.triu(packed)
        PA = A[pi]
        sc = np.abs(L) @ np.abs(U)
        r = np.abs(L.astype(LD) @ U.astype(LD) - PA.astype(LD))
        rel = float((r / np.where(sc > 0, sc, 1)).max())
        dref = np.linalg.det(A)
        if sorted(pi) != list(range(n)):
            chk.violation('lu-perm', 'row_index returned by _vnacommon_lu is not a permutation: %r' % pi, [lines[k]])
        elif not rel <= 1e-12:
            chk.violation('lu-factors', '_vnacommon_lu: L U differs from the row-permuted input by %.3e (relative, n=%d)' % (rel, n), [lines[k]])
        elif not abs(d - dref) <= 1e-9 * max(abs(dref), 1e-300) and abs(dref) > 1e-200:
            chk.violation('lu-det', '_vnacommon_lu determinant %r differs from %r' % (d, dref), [lines[k]])
        else:
            chk.count('lu_factors_ok')
    mout, mrc, merr = vlib.run_lines(vlib.model_exe(), lines)
    if mrc != 0 or len(mout) != len(lines):
        broken.append('model driver failed: rc=%s %s' % (mrc, merr[-300:]))
        mout = None
    chk.rule = ('square systems n=1..%d: random, row-permuted, rows scaled by 1e-8..1e8, graded, column-scaled, small integers; tall '
                'least-squares systems; exactly singular integer matrices (duplicate/zero/dependent rows and columns) directly and through '
                'ztoyn/ytozn; non-trivial = finite result whose row-wise relative residual was evaluated' % nmax)
    worst = {}
    nmis = 0
    for idx, (op, kind, A, B) in enumerate(cases):
        chk.evaluations += 1
        line = cout[idx]
        if op == 'lu':
            chk.distinct.add(('lu', idx))
            # the pivot sequence is part of the contract of the model (C pivot rule): same permutation, factors equal to rounding
            if mout is not None:
                mw, cw = mout[idx].split(), line.split()
                try:
                    pm = mw[mw.index('P') + 1:mw.index('A')]
                    pc = cw[cw.index('P') + 1:cw.index('A')]
                    fm = np.array(vlib.hs2c(mw[mw.index('A') + 1:]), complex)
                    fc = np.array(vlib.hs2c(cw[cw.index('A') + 1:]), complex)
                    same = pm == pc and fm.shape == fc.shape and (fm.size == 0 or float(np.abs(fm - fc).max()) <= 1e-9 * max(1e-300, float(np.abs(fc).max())))
                    if pm != pc and fm.shape == fc.shape and pivot_tie(A, pc, pm):
                        chk.count('lu_pivot_tie')
                        continue
                except ValueError:
                    same = False
                if not same:
                    nmis += 1
                    if nmis <= 3:
                        broken.append('correspondence: _vnacommon_lu and the model choose different pivots / factors on\n  %s\n  C: %s\n  M: %s' % (
                            lines[idx][:100], ' '.join(cw[3:4 + A.shape[0]]), ' '.join(mw[3:4 + A.shape[0]])))
                else:
                    chk.count('lu_model_same_pivots')
            continue
        if kind in ('int', 'lossless') and op != 'lu' and A.shape[0] == A.shape[1] and not np.linalg.cond(A) < 1e12:
            kind = 'singular-by-chance'          # small integer matrices are singular now and then: judged as the singular class
        if kind.startswith('singular'):
            w = line.split()
            vals = vlib.hs2c(w[w.index('X') + 1:] if 'X' in w else w[1:])
            amax = max(1.0, float(np.abs(A).max()))
            plausible = all(v == v and abs(v) < 1e6 * amax for v in vals) and len(vals) > 0
            if plausible:
                chk.violation('singular-' + op, 'an exactly singular matrix (%s) came back as plausible numbers: %s' % (kind, line[:200]), [lines[idx]])
            else:
                chk.count('singular_stands_out')
                chk.distinct.add(('sing', idx))
            continue
        n = A.shape[0]
        if op == 'mldivide':
            X, d = parse_x(line, n, B.shape[1])
            res = rowwise_residual(A, X, B)
        elif op == 'mrdivide':
            X, d = parse_x(line, B.shape[0], n)
            res = rowwise_residual(A.T, X.T, B.T)
        elif op == 'minverse':
            X, d = parse_x(line, n, n)
            res = rowwise_residual(A, X, np.eye(n, dtype=complex))
        else:
            w = line.split()
            m_, n_ = A.shape
            X = np.array(vlib.hs2c(w[w.index('X') + 1:(w.index('Q') if 'Q' in w else len(w))]), complex).reshape(n_, B.shape[1])
            if op == 'qrsolve2':
                # the factors themselves: Q unitary, Q R = A, R upper triangular
                Q = np.array(vlib.hs2c(w[w.index('Q') + 1:w.index('R')]), complex).reshape(m_, m_).astype(LD)
                R = np.array(vlib.hs2c(w[w.index('R') + 1:]), complex).reshape(m_, n_).astype(LD)
                eu = float(np.abs(Q.conj().T @ Q - np.eye(m_)).max())
                # Householder QR is backward stable column by column (norm-wise), not entry by entry
                ea = float((np.linalg.norm((Q @ R - A.astype(LD)).astype(complex), axis=0) / np.maximum(np.linalg.norm(A, axis=0), 1e-300)).max())
                el = float(np.abs(np.tril(R, -1)).max()) if m_ > 1 else 0.0
                if not (eu <= 1e-12 and ea <= 1e-12 and el == 0.0):
                    chk.violation('qr-factors', '_vnacommon_qr on a %dx%d matrix: |Q^H Q - 1| = %.2e, |Q R - A| = %.2e (column norms, relative), below the diagonal of R %.2e' % (m_, n_, eu, ea, el), [lines[idx]])
                    continue
                chk.count('qr_factors_ok')
            Al, Xl, Bl = A.astype(LD), X.astype(LD), B.astype(LD)
            g = np.abs(Al.conj().T @ (Al @ Xl - Bl))
            s = np.abs(Al.conj().T) @ (np.abs(Al) @ np.abs(Xl) + np.abs(Bl))
            res = float((g / np.where(s > 0, s, 1)).max())
        cond = np.linalg.cond(A)
        key = op + '/' + kind
        worst[key] = max(worst.get(key, 0.0), res)
        if not np.isfinite(res) or res > TOL:
            chk.violation('residual-%s-%s' % (op, kind), '%s on a %s %dx%d system: row-wise relative residual %.3e exceeds %.0e (cond %.1e)' % (
                op, kind, A.shape[0], A.shape[1], res, TOL, cond), [lines[idx], '# ' + line[:400]])
        else:
            chk.count('ok_' + key)
            chk.distinct.add((key, idx))
        if mout is not None:
            # compare the solutions, not the bits: relative to conditioning
            mw, cw = mout[idx].split(), line.split()
            if 'X' in mw and 'X' in cw:
                xm = np.array(vlib.hs2c(mw[mw.index('X') + 1:(mw.index('Q') if 'Q' in mw else len(mw))]), complex)
                xc = np.array(vlib.hs2c(cw[cw.index('X') + 1:(cw.index('Q') if 'Q' in cw else len(cw))]), complex)
                sc = max(1e-300, float(np.abs(xc).max()))
                if xm.shape != xc.shape or float(np.abs(xm - xc).max()) > 1e-9 * max(1.0, cond) * sc:
                    nmis += 1
                    if nmis <= 3:
                        broken.append('correspondence: model and C differ on %s (%s n=%d, cond %.1e)' % (op, kind, n, cond))
            else:
                nmis += 1
    chk.extra['worst_residual'] = {k: float('%.3e' % v) for k, v in worst.items()}
    chk.extra['model_mismatches'] = nmis
    chk.samples = [lines[0][:300], lines[7][:300]]
    if not chk.violations:
        singular_calibrations(chk, exe, rng)
    if not chk.violations:
        missing_column_calibrations(chk, exe, rng)
    if not chk.violations:
        scaled_calibrations(chk, exe, rng, 1 if quick else 10)
    if not chk.violations:
        reference_matrices(chk, exe, rng, 1 if quick else 12)
    if broken and not chk.violations:
        chk.violation('obligation', 'proof/correspondence obligations that no longer check:\n' + '\n'.join(broken[:30]), nofail=True)


def singular_calibrations(chk, exe, rng):
    """exactly determined calibration systems built from three reflect standards of a one-port: with a repeated standard the system has
    duplicated equations / a missing column, the elimination meets an exactly zero pivot, and vnacal_new_solve must take the documented
    error path (EDOM); with three different standards it must solve and correct a device"""
    from props import calsim
    import itertools
    codes = (calsim.SHORT, calsim.OPEN, calsim.MATCH)
    for typ in calsim.TYPES:
        for triple in itertools.product(codes, repeat=3):
            sc = calsim.Scenario(rng, typ, 1, 1, 1).begin()
            for code in triple:
                sc.add_reflect(1, code)
            sc.solve()
            isolve = len(sc.lines) - 1
            distinct = len(set(triple)) == 3
            dut = sc.random_dut()
            if distinct:
                sc.add_calibration()
                sc.lines.append(sc.apply_line(0, dut))
            sc.lines += ['cal free 0', 'cal live']
            out, rc, err = vlib.run_lines(exe, sc.lines, timeout=120)
            chk.evaluations += 1
            tag = '%s one-port from standards %s' % (typ, [{0: 'match', 1: 'open', 2: 'short'}[c] for c in triple])
            if rc != 0 or len(out) != len(sc.lines):
                chk.violation('sanitizer-singular-cal', '%s: crashed / sanitizer report:\n%s' % (tag, err[-1000:]), sc.lines[:len(out) + 1])
                return
            res = out[isolve]
            if distinct:
                ok, S = calsim.parse_apply(out[isolve + 2], 1) if res.startswith('ok') else (False, None)
                e = abs(S[0][0, 0] - dut[0][0, 0]) if ok else float('inf')
                if not e <= 1e-9:
                    chk.violation('determined-cal', '%s: three different standards determine the one-port, yet solve / apply gave %s (error %.3e)' % (tag, res[:60], e), sc.lines[:isolve + 3])
                    return
                chk.count('calibration_solved')
            elif set(triple) == {calsim.MATCH}:
                # S = 0 in every standard: the columns of the terms multiplied by S are exactly zero whatever the rounding, so the
                # elimination meets an exactly zero pivot
                if res.startswith('ok') or 'EDOM' not in res:
                    chk.violation('singular-cal', '%s: a column of the system is exactly zero but vnacal_new_solve answered %s instead of failing with EDOM' % (tag, res[:80]), sc.lines[:isolve + 1])
                    return
                chk.count('singular_calibration_edom')
            else:
                # duplicated equations: the pivot is zero only up to the rounding of the complex multipliers; detection is best effort
                # (nothing claimed beyond: no crash, no leak, and a reported failure is EDOM)
                if not res.startswith('ok') and 'EDOM' not in res:
                    chk.violation('singular-cal-errno', '%s: a singular system was reported as %s, not EDOM' % (tag, res[:80]), sc.lines[:isolve + 1])
                    return
                chk.count('duplicate_standard_' + ('refused' if not res.startswith('ok') else 'accepted'))
            chk.distinct.add(('cal3', typ, triple))
            if out[-1] != 'ok live=0':
                chk.violation('singular-cal-leak', '%s: allocations remain: %s' % (tag, out[-1]), sc.lines)
                return


def scaled_calibrations(chk, exe, rng, reps):
    """calibrate and apply with receivers of very different and very small (or large) gain: every row of the measurement matrices is
    scaled by its own factor 1e-8 .. 1e-4 (or 1e4 .. 1e8).  The systems vnacal_apply solves are regular, merely row-scaled: the device
    comes back as with unit gains, and nothing is reported singular"""
    from props import calsim
    for _ in range(reps):
        for typ in calsim.TYPES:
            n = 2 if typ in ('T16', 'U16') else 3
            box = calsim.ErrorBox(rng, typ, n, n, 1)
            small = rng.random() < 0.7
            # one receiver of unit gain (whichever term the library normalises by, the others are far away from it), the others tiny / huge
            d = [1.0] + [10.0 ** (rng.uniform(-9, -7) if small else rng.uniform(7, 9)) for _ in range(n - 1)]
            rng.shuffle(d)
            d = np.array(d)
            box.boxes = [[(np.diag(d) @ El, np.diag(d) @ Er, Et, Em) for (El, Er, Et, Em) in sysl] for sysl in box.boxes]
            sc = calsim.Scenario(rng, typ, n, n, 1, form='m', box=box).begin()
            sc.solt().solve().add_calibration(b'c')
            dut = sc.random_dut()
            sc.lines += [sc.apply_line(0, dut), 'cal free 0', 'cal live']
            out, rc, err = vlib.run_lines(exe, sc.lines, timeout=300)
            chk.evaluations += 1
            tag = '%s %dx%d, receiver rows scaled by %s' % (typ, n, n, ', '.join('%.0e' % x for x in d))
            if rc != 0 or len(out) != len(sc.lines):
                chk.violation('sanitizer-scaled-cal', '%s: crashed / sanitizer report:\n%s' % (tag, err[-1000:]), sc.lines[:len(out) + 1])
                return
            bad = [(l, o) for l, o in zip(sc.lines, out) if not o.startswith('ok')]
            if bad:
                chk.violation('scaled-cal-refused', '%s: `%s` -> %s (a regular, merely row-scaled system)' % (tag, bad[0][0][:60], bad[0][1][:60]), sc.lines[:sc.lines.index(bad[0][0]) + 1])
                return
            ok, S = calsim.parse_apply(out[-3], n)
            e = float(np.abs(S[0] - dut[0]).max())
            if not e <= 1e-7:
                chk.violation('scaled-cal-wrong', '%s: the device is recovered with error %.3e' % (tag, e), sc.lines[:-2])
                return
            chk.count('scaled_calibration_ok')
            chk.distinct.add(('scaledcal', typ, n, small))


def reference_matrices(chk, exe, rng, reps):
    """a/b form with structured reference matrices: a pure phase rotation (a = j: the determinant has no real part), a quadrature pair
    [[1, j], [1, -j]], swapped reference channels, a gain of 1e-3 or 1e3 — all perfectly conditioned.  M = B A^-1 is what it is with any
    other regular A: the standards are accepted, the calibration solves, and a device (read through references of the same kind) is recovered"""
    from props import calsim

    def ref(n):
        k = rng.choice(['phase', 'quadrature', 'swap', 'gain', 'jI', 'mixed'])
        if k == 'phase' or (k in ('quadrature', 'swap') and n == 1):
            A = np.diag([rng.choice([1j, -1j, -1.0, 1j * rng.uniform(0.5, 2), np.exp(1j * rng.uniform(-3, 3))]) for _ in range(n)])
        elif k == 'quadrature':
            A = np.eye(n, dtype=complex)
            A[:2, :2] = np.array([[1, 1j], [1, -1j]])
        elif k == 'swap':
            A = np.eye(n, dtype=complex)[::-1].copy()
        elif k == 'gain':
            A = np.eye(n, dtype=complex) * rng.choice([1e-3, 1e3, 1e-3j, 1e3j])
        elif k == 'jI':
            A = 1j * np.eye(n, dtype=complex)
        else:
            A = np.diag([rng.choice([1j, 1.0, -1.0, 2j]) for _ in range(n)]).astype(complex)
        return k, A
    for rep in range(reps):
        for typ in calsim.TYPES:
            for n in (1, 2) if typ in ('T16', 'U16') else (1, 2, 3):
                if typ in ('T16', 'U16') and n == 1:
                    continue
                sc = calsim.Scenario(rng, typ, n, n, 1, form='ab').begin()
                kinds = []

                def ab_fn(Mf, cols, typ=typ, kinds=kinds):
                    A, B = [], []
                    for M in Mf:
                        k, a = ref(cols)
                        kinds.append(k)
                        if typ in ('UE14', 'E12'):
                            a = np.array([[a[c, c] if a[c, c] != 0 else 1j for c in range(cols)]])
                            A.append(a)
                            B.append(M * a)
                        else:
                            A.append(a)
                            B.append(M @ a)
                    return calsim.cells(A), calsim.cells(B)
                sc.ab_fn = ab_fn
                sc.solt().solve().add_calibration(b'c')
                dut = sc.random_dut()
                sc.lines += [sc.apply_line(0, dut), 'cal free 0', 'cal live']
                out, rc, err = vlib.run_lines(exe, sc.lines, timeout=300)
                chk.evaluations += 1
                tag = '%s %dx%d in a/b form, reference matrices of kinds %s' % (typ, n, n, sorted(set(kinds)))
                if rc != 0 or len(out) != len(sc.lines):
                    chk.violation('sanitizer-reference', '%s: crashed / sanitizer report:\n%s' % (tag, err[-1000:]), sc.lines[:len(out) + 1])
                    return
                bad = [(l, o) for l, o in zip(sc.lines, out) if not o.startswith('ok')]
                if bad:
                    chk.violation('reference-refused', '%s: `%s` -> %s (the reference matrix is regular and perfectly conditioned)' % (tag, bad[0][0][:60], bad[0][1][:60]),
                                  sc.lines[:sc.lines.index(bad[0][0]) + 1])
                    return
                ok, S = calsim.parse_apply(out[-3], n)
                e = float(np.abs(S[0] - dut[0]).max()) if ok else float('inf')
                if not e <= 1e-7:
                    chk.violation('reference-wrong', '%s: the device is recovered with error %.3e' % (tag, e), sc.lines[:-2])
                    return
                chk.count('reference_matrix_calibration_ok')
                for k in set(kinds):
                    chk.count('reference_' + k)
                chk.distinct.add(('reference', typ, n, tuple(sorted(set(kinds)))))


def missing_column_calibrations(chk, exe, rng):
    """over-determined calibration systems (the QR path) with an exactly zero column: a two-port calibrated from reflect standards only
    - the through forgotten - has no equation with a transmission term in it; one matched standard given several times has zero columns
    for the terms multiplied by S.  The elimination meets an exactly zero column: EDOM, whatever the stack or heap held before."""
    from props import calsim
    codes = (calsim.SHORT, calsim.OPEN, calsim.MATCH)
    for typ in calsim.TYPES:
        if typ in ('T16', 'U16'):
            continue
        for variant in ('no-through', 'match-only'):
            if variant == 'no-through' and typ not in ('UE14', 'E12'):
                # in the single-system types the equations of the second port are homogeneous in its terms: no zero column, and the
                # solve returns them as zero (a set that does not determine the terms: nothing is claimed, C20)
                continue
            if variant == 'no-through':
                sc = calsim.Scenario(rng, typ, 2, 2, 1).begin()
                pairs = [(a, b) for a in codes for b in codes]
                rng.shuffle(pairs)
                for a, b in pairs[:rng.randint(7, 9)]:
                    sc.add_double_reflect(1, 2, a, b)
            else:
                sc = calsim.Scenario(rng, typ, 1, 1, 1).begin()
                for _ in range(rng.randint(4, 6)):
                    sc.add_reflect(1, calsim.MATCH)
            sc.solve()
            isolve = len(sc.lines) - 1
            sc.lines += ['cal free 0', 'cal live']
            out, rc, err = vlib.run_lines(exe, sc.lines, timeout=120)
            chk.evaluations += 1
            tag = '%s %s (%d standards, over-determined)' % (typ, variant, len([l for l in sc.lines if l.startswith('cal add ')]))
            if rc != 0 or len(out) != len(sc.lines):
                chk.violation('sanitizer-missing-column', '%s: crashed / sanitizer report:\n%s' % (tag, err[-1000:]), sc.lines[:len(out) + 1])
                return
            res = out[isolve]
            if res.startswith('ok') or 'EDOM' not in res:
                chk.violation('missing-column', '%s: a column of the over-determined system is exactly zero but vnacal_new_solve answered %s instead of failing with EDOM' % (tag, res[:80]), sc.lines[:isolve + 1])
                return
            chk.count('missing_column_edom')
            chk.distinct.add(('misscol', typ, variant))


def replay(chk, path):
    exe, _ = vlib.build_c()
    lines = [l.strip() for l in open(path) if l.strip() and not l.startswith('#')]
    out, rc, err = vlib.run_lines(exe, lines)
    for l, o in zip(lines, out):
        print(l[:200], '\n ->', o[:400])
    return 0
