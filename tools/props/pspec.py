"""Abstract document model of vnaproperty (the C13/C14 oracle), written from vnaproperty(3).

Nodes: None (null) | bytes (scalar) | Map (ordered dict bytes->node) | list.
Descriptors are parsed by an independent implementation of the documented grammar.
"""


class Map(dict):
    pass


class DescError(Exception):
    def __init__(self, cls):
        self.cls = cls


WS = b' \t\n\r\f\v'


def is_id1(c):
    return (65 <= c <= 90) or (97 <= c <= 122) or c >= 128 or c == 95 or c == 92


def is_id(c):
    return is_id1(c) or (48 <= c <= 57) or c == 32 or c == 45


def parse_descriptor(d):
    """returns (steps, rest_kind, rest) where steps is a list of
    ('key', k) ('idx', i) ('ins', i) ('app',) ('map',) ('list',) ('dot',)
    and rest_kind in 'eof' 'assign' 'hash' 'other'; raises DescError('EINVAL') on syntax errors"""
    i = 0
    n = len(d)
    steps = []

    def skip():
        nonlocal i
        while i < n and d[i] in WS:
            i += 1

    def scan_key():
        nonlocal i
        out = []          # (byte, quoted)
        while i < n and is_id(d[i]):
            q = False
            c = d[i]
            if c == 92:
                i += 1
                if i >= n:
                    raise DescError('EINVAL')
                c = d[i]
                q = True
            out.append((c, q))
            i += 1
        # unquoted trailing blanks are not part of the key
        while len(out) > 1 and out[-1] == (32, False):
            out.pop()
        return bytes(c for c, _ in out)

    def scan_int():
        nonlocal i
        j = i
        while i < n and 48 <= d[i] <= 57:
            i += 1
        v = int(d[j:i])
        if v > 2 ** 31 - 2:
            raise DescError('EINVAL')      # a subscript has to fit in an int, with room for the length of the list
        return v

    state = 0
    while True:
        skip()
        c = d[i] if i < n else None
        if state in (0, 1):
            if c == 46 and state == 0:
                i += 1
                state = 1
                continue
            if c is not None and is_id1(c):
                steps.append(('key', scan_key()))
                state = 2
                continue
            if c == 91:
                i += 1
                state = 3
                continue
            if c == 123:
                i += 1
                skip()
                if i < n and d[i] == 125:
                    i += 1
                    steps.append(('map',))
                    break
                raise DescError('EINVAL')
            if state == 1:
                steps.append(('dot',))
                break
            raise DescError('EINVAL')
        if state == 2:
            if c == 46:
                i += 1
                state = 1
                continue
            if c == 91:
                i += 1
                state = 3
                continue
            if c == 123:
                i += 1
                skip()
                if i < n and d[i] == 125:
                    i += 1
                    steps.append(('map',))
                    break
                raise DescError('EINVAL')
            break
        if state == 3:
            if c is not None and 48 <= c <= 57:
                v = scan_int()
                skip()
                if i < n and d[i] == 43:
                    i += 1
                    steps.append(('ins', v))
                else:
                    steps.append(('idx', v))
                skip()
                if i < n and d[i] == 93:
                    i += 1
                    state = 2
                    continue
                raise DescError('EINVAL')
            if c == 43:
                i += 1
                skip()
                if i < n and d[i] == 93:
                    i += 1
                    steps.append(('app',))
                    state = 2
                    continue
                raise DescError('EINVAL')
            if c == 93:
                i += 1
                steps.append(('list',))
                break
            raise DescError('EINVAL')
    skip()
    if i >= n:
        return steps, 'eof', b''
    if d[i] == 61:
        return steps, 'assign', d[i + 1:]
    if d[i] == 35:
        return steps, ('hash' if not d[i + 1:].strip(WS) else 'other'), d[i + 1:]
    return steps, 'other', d[i:]


class Doc:
    """a root register"""

    def __init__(self):
        self.root = None

    # ---- navigation
    def _get(self, steps):
        node = self.root
        for st in steps:
            k = st[0]
            if k == 'dot':
                break
            if k in ('key', 'map'):
                if node is None:
                    raise DescError('ENOENT')
                if not isinstance(node, Map):
                    raise DescError('EINVAL')
                if k == 'map':
                    break
                if st[1] not in node:
                    raise DescError('ENOENT')
                node = node[st[1]]
            else:
                if node is None:
                    raise DescError('ENOENT')
                if not isinstance(node, list):
                    raise DescError('EINVAL')
                if k == 'list':
                    break
                if k in ('ins', 'app'):
                    raise DescError('EINVAL')
                if st[1] >= len(node):
                    raise DescError('ENOENT')
                node = node[st[1]]
        return node

    def _set_path(self, steps):
        """make the tree conform; returns (container, slot) addressing the final node"""
        holder, slot = self, 'root'

        def cur():
            return holder.root if slot == 'root' else holder[slot]

        def put(v):
            if slot == 'root':
                holder.root = v
            else:
                holder[slot] = v
        for st in steps:
            k = st[0]
            if k == 'dot':
                break
            node = cur()
            if k in ('key', 'map'):
                if not isinstance(node, Map):
                    node = Map()
                    put(node)
                if k == 'map':
                    break
                if st[1] not in node:
                    node[st[1]] = None
                holder, slot = node, st[1]
            else:
                if not isinstance(node, list):
                    node = []
                    put(node)
                if k == 'list':
                    break
                if k == 'app':
                    node.append(None)
                    holder, slot = node, len(node) - 1
                else:
                    i = st[1]
                    if i > 10 ** 6:
                        raise DescError('ENOMEM')
                    if i >= len(node):
                        node.extend([None] * (i + 1 - len(node)))
                    elif k == 'ins':
                        node.insert(i, None)
                    holder, slot = node, i
        return holder, slot

    # ---- API
    def op(self, name, d):
        """returns (status, errclass or payload)"""
        try:
            steps, rk, rest = parse_descriptor(d)
        except DescError as e:
            return ('fail', e.cls)
        try:
            if name in ('type', 'count', 'keys', 'get', 'get_subtree'):
                node = self._get(steps)
                if rk != 'eof':
                    return ('fail', 'EINVAL')
                if name == 'get_subtree':
                    return ('ok', node)
                if node is None:
                    return ('fail', '0')
                if name == 'type':
                    return ('ok', 'm' if isinstance(node, Map) else 'l' if isinstance(node, list) else 's')
                if name == 'count':
                    if isinstance(node, (Map, list)):
                        return ('ok', len(node))
                    return ('fail', 'EINVAL')
                if name == 'keys':
                    if isinstance(node, Map):
                        return ('ok', list(node.keys()))
                    return ('fail', 'EINVAL')
                if name == 'get':
                    if isinstance(node, bytes):
                        return ('ok', node)
                    return ('fail', 'EINVAL')
            if name == 'set':
                if steps[-1][0] in ('map', 'list') or rk not in ('assign', 'hash'):
                    return ('fail', 'EINVAL')
                holder, slot = self._set_path(steps)
                v = rest if rk == 'assign' else None
                if slot == 'root':
                    holder.root = v
                else:
                    holder[slot] = v
                return ('ok', 0)
            if name == 'set_subtree':
                if rk != 'eof':
                    return ('fail', 'EINVAL')
                self._set_path(steps)
                return ('ok', 0)
            if name == 'delete':
                self._get(steps)
                if rk != 'eof':
                    return ('fail', 'EINVAL')
                last = steps[-1]
                if last[0] in ('key', 'idx'):
                    parent = self._get(steps[:-1]) if len(steps) > 1 else self.root
                    if last[0] == 'key':
                        del parent[last[1]]
                    else:
                        del parent[last[1]]
                    return ('ok', 0)
                # '.', '{}', '[]': replace the addressed node with null
                path = [s for s in steps if s[0] in ('key', 'idx')]
                if not path:
                    self.root = None
                else:
                    parent = self._get(path[:-1]) if len(path) > 1 else self.root
                    parent[path[-1][1]] = None
                return ('ok', 0)
        except DescError as e:
            return ('fail', e.cls)
        raise KeyError(name)


def walk(node):
    if node is None:
        return 'N'
    if isinstance(node, bytes):
        return 'S' + node.hex()
    if isinstance(node, Map):
        return 'M%d{' % len(node) + ','.join(k.hex() + ':' + walk(v) for k, v in node.items()) + '}'
    return 'L%d[' % len(node) + ','.join(walk(v) for v in node) + ']'


def deep(node):
    if isinstance(node, Map):
        m = Map()
        for k, v in node.items():
            m[k] = deep(v)
        return m
    if isinstance(node, list):
        return [deep(v) for v in node]
    return node


def quote_key(k):
    """the documented job of vnaproperty_quote_key: a descriptor component that addresses exactly k"""
    out = bytearray()
    n = len(k)
    t = n
    while t > 1 and k[t - 1] == 32:
        t -= 1
    for i, c in enumerate(k):
        special = (not is_id1(c) or c == 92) if i == 0 else (not is_id(c) or c == 92)
        if i >= t and i >= 1:
            special = True
        if special:
            out.append(92)
        out.append(c)
    return bytes(out)
