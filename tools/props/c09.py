"""C09 — every file parser is total: arbitrary bytes are rejected cleanly or loaded whole.

Proof side : Libvna.Props.C09 — the NPD line scanner as a total function (structural recursion accepted by Lean): it
             consumes input on every step, its fields are non-empty and free of blanks, so the loader's loop ends;
             the loaders never index outside what they have checked (npd_offsets_in_line) nor write outside the object
             they have sized (symmetric_fill), both from C06.
Tie        : Model/NpdScan.lean against the C through the loader's own diagnostics (`expected N fields; found M`).
Oracle     : structure-aware mutations of valid NPD / Touchstone / .vnacal / YAML inputs and random bytes, under
             AddressSanitizer + UBSan with allocation accounting: the loader terminates; it fails with EBADMSG, ENOPROTOOPT or
             a system errno, leaves the object usable and nothing allocated — or it succeeds with a self-consistent object
             that can be saved and re-loaded to the same content.
"""
import os, random, re
import vlib
from props import c15, nfile, c06, c08, calsim

THEOREMS = ['Libvna.Npd.' + t for t in ('scanFields_nonempty', 'scanFields_no_blank', 'scan_progress', 'scan_total')] + \
           ['Libvna.FF.npd_offsets_in_line', 'Libvna.FF.symmetric_fill']
FILES = ['Model/NpdScan.lean', 'Model/FileFmt.lean', 'Props/C09.lean', 'Props/C06.lean']
h = vlib.hexbytes
TOKENS = [b'0', b'-1', b'1e999', b'nan', b'inf', b'-inf', b'999999999999', b'2147483647', b'2147483648', b'4294967296', b'1e-400', b'0x10', b'', b'#', b'[', b']', b'!',
          b'{', b'}', b':', b'- ', b'&a', b'*a', b'|', b'>', b'"', b"'", b'\x00', b'\xff', b'A' * 3000, b'1' * 400, b'.', b'-', b'+', b'e', b'j', b',', b'~', b'null',
          b'[Number of Ports] 3', b'[End]', b'#:ports 3', b'#:z0 PER-FREQUENCY', b'%YAML 1.1', b'---', b'...', b'T16', b'E12', b'UE14', b'Sdb,Zri', b'\t', b'\r']


def mutate(rng, data):
    """one structure-aware mutation of a byte string"""
    lines = data.split(b'\n')
    r = rng.random()
    if r < 0.14 and len(data) > 1:
        return data[:rng.randrange(len(data))]
    if r < 0.24 and len(lines) > 1:
        k = rng.randrange(len(lines))
        return b'\n'.join(lines[:k] + lines[k + 1:])
    if r < 0.32 and len(lines) > 1:
        k = rng.randrange(len(lines))
        return b'\n'.join(lines[:k] + [lines[k]] * rng.randint(2, 3) + lines[k + 1:])
    if r < 0.38 and len(lines) > 2:
        a, b = rng.sample(range(len(lines)), 2)
        lines[a], lines[b] = lines[b], lines[a]
        return b'\n'.join(lines)
    if r < 0.66:
        # replace one token
        toks = list(re.finditer(rb'[^\s\[\],:]+', data))
        if toks:
            m = rng.choice(toks)
            rep = rng.choice(TOKENS) if rng.random() < 0.7 else str(rng.choice([0, 1, 2, 3, 5, 17, 1000, 70000, 10 ** 9, -3])).encode()
            return data[:m.start()] + rep + data[m.end():]
    if r < 0.76:
        # change a count in a header
        m = list(re.finditer(rb'(?i)(#:ports|#:frequencies|#:rows|#:columns|Number of Ports\]|Number of Frequencies\]|Number of Noise Frequencies\]|rows:|columns:|frequencies:|#:fprecision|#:dprecision)\s+(\d+)', data))
        if m:
            x = rng.choice(m)
            v = rng.choice([0, 1, 2, 3, 4, 7, 100, 65536, 2 ** 31 - 1, 2 ** 31, 10 ** 12, -1])
            return data[:x.start(2)] + str(v).encode() + data[x.end(2):]
    if r < 0.82 and len(lines) > 2:
        # a header line (keyword with a number, or a YAML key with a number) given again further down with another number
        cand = [i for i, l in enumerate(lines) if re.match(rb'^\s*(\[[^\]]+\]|#:\w+|[A-Za-z_]+:)\s*[-+0-9.]', l)]
        if cand:
            i = rng.choice(cand)
            l2 = re.sub(rb'[-+]?[0-9]+', lambda m: str(rng.choice([0, 1, 2, 3, 4, 9, 100])).encode(), lines[i], count=1)
            j = rng.randint(i + 1, len(lines))
            return b'\n'.join(lines[:j] + [l2] + lines[j:])
    if r < 0.88 and data:
        b = bytearray(data)
        for _ in range(rng.randint(1, 4)):
            b[rng.randrange(len(b))] = rng.randrange(256)
        return bytes(b)
    k = rng.randrange(len(data) + 1)
    return data[:k] + bytes(rng.randrange(256) for _ in range(rng.randint(1, 12))) + data[k:]


def seeds_vnadata(rng):
    out = []
    for _ in range(10):
        v = rng.choice([1, 2])
        net = c08.gen_net(rng, v)
        noise = [net['freqs'][0] * 0.9, net['freqs'][0] * 1.1] if net['ports'] == 2 and rng.random() < 0.4 else None
        mf = rng.choice(['full', 'upper', 'lower']) if (v == 2 and net['sym']) else 'full'
        txt = nfile.write_touchstone(rng, net, v, unit=rng.choice(['hz', 'ghz']), fmt=rng.choice(['ri', 'ma', 'db']), mformat=mf, noise=noise, messy=rng.random() < 0.5)
        out.append((('x.s%dp' % net['ports']) if v == 1 else 'x.ts', txt.encode()))
    for _ in range(8):
        net = c08.gen_net(rng, 2)
        ks = rng.choice([['ri'], ['ma', 'ri'], ['ri', 'ma']] + ([['db', 'ri']] if net['param'] == 's' else []))
        out.append(('x.npd', c08.write_npd(rng, net, ks, messy=rng.random() < 0.5).encode()))
    out.append(('x.npd', b'#NPD\n#:version 1.0\n#:ports 2\n#:frequencies 2\n#:parameters Sri,zinma,PRC,IL,VSWR\n#:z0 PER-FREQUENCY\n'
                b'1e9 50 0 75 1 .1 .2 .3 .4 .5 .6 .7 .8 10 20 30 40 100 1e-12 200 2e-12 3 4 1.5 1.6\n2e9 50 0 75 1 .1 .2 .3 .4 .5 .6 .7 .8 10 20 30 40 100 1e-12 200 2e-12 3 4 1.5 1.6\n'))
    return out


def seeds_vnacal(rng, exe):
    lines, idx = [], []
    for k, (typ, r, c) in enumerate([('T8', 1, 1), ('E12', 2, 2), ('TE10', 2, 3), ('U16', 2, 2), ('UE14', 2, 1)]):
        sc = calsim.Scenario(rng, typ, r, c, 2, slot_c=0, slot_n=0).begin()
        sc.solt().solve().add_calibration(b'first cal')
        L = sc.lines + ['cal property 0 -1 set ' + h('note=global'), 'cal property 0 0 set ' + h('k.list[1]=v'), 'cal set_dprecision 0 %d' % rng.choice([6, 9, 1000]), 'cal savestr 0', 'cal free 0']
        idx.append(len(lines) + len(L) - 2)
        lines += L
    out, rc, err = vlib.run_lines(exe, lines)
    res = []
    if rc == 0 and len(out) == len(lines):
        for i in idx:
            if out[i].startswith('ok'):
                res.append(('x.vnacal', bytes.fromhex(out[i].split()[-1][1:])))
    res.append(('x.vnacal', b'#VNACAL 2.0\n---\n- frequencies: 1\n  rows: 1\n  columns: 1\n'))
    # the old `#VNACAL 2.0` layout (sets / e matrices, implied type E12), 2 x 1 and 2 x 2
    for (r, c) in ((2, 1), (2, 2)):
        body = ['#VNACAL 2.0', '%YAML 1.1', '---', 'sets:', '- name: old', '  rows: %d' % r, '  columns: %d' % c, '  frequencies: 2', '  z0: +5.0e+01 +0.0e+00j', '  data:']
        for f in ('1.0e+09', '2.0e+09'):
            body += ['  - f: ' + f, '    e:']
            for a in range(r):
                for b in range(c):
                    body.append(('    - ' if b == 0 else '      ') + '- - +1.0e-02 +2.0e-02j')
                    body.append('        - +9.0e-01 -1.0e-01j')
                    body.append('        - +3.0e-02 +1.0e-02j')
        res.append(('x.vnacal', ('\n'.join(body) + '\n').encode()))
    return res


YAMLS = [b'"a\\n]": 1\n', b'? "x\\ny["\n: 2\n', b'ok: 1\n"bad\\tkey[": 2\n', b'a: 1\nb: [x, y, {c: d}]\nn: ~\n', b'- 1\n- - 2\n  - 3\n- {k: v}\n', b'"quoted key": |\n  line1\n  line2\nempty: {}\nlist: []\n', b'scalar\n',
         b'a: &x [1, 2]\nb: *x\n', b'? complex\n: value\n', b'a:\n  b:\n    c:\n      d: deep\n', b'---\nx: 1\n---\ny: 2\n', b'{a: 1, a: 2}\n', b'key: !!binary aGVsbG8=\n',
         b'&a [*a]\n', b'&a {k: *a}\n', b'x: &a [1, [2, *a]]\n', b'a: &x {p: 1}\nb: {q: *x, r: [*x, *x]}\n', b'&a [&b [*a, *b]]\n']


def run(chk):
    rng = random.Random(chk.seed * 71 + 9)
    broken = []
    if os.environ.get('VERIF_DEV_NOPROOF') != '1':
        c15.proof_side(chk, ['Libvna.Props.C09'], THEOREMS, FILES, broken)
    chk.trusted += ['libyaml is outside the accounting of allocations (its own leaks would be seen by LeakSanitizer only)',
                    'mutation-based generation: totality over all byte sequences is sampled, not proved, for the C parsers']
    chk.checker_cmd = 'cd lean && lake build Libvna.Props.C09 && #print axioms'
    exe, _ = vlib.build_c()
    quick = chk.tier == 'quick'
    nmut = (25 if quick else 500) * (3 if broken else 1)
    vd_seeds = seeds_vnadata(rng)
    cal_seeds = seeds_vnacal(rng, exe)
    inputs = []      # (kind, name, bytes)
    for name, data in vd_seeds:
        inputs.append(('vd', name, data))
        for _ in range(nmut):
            d = data
            for _ in range(rng.choice([1, 1, 1, 2, 3])):
                d = mutate(rng, d)
            inputs.append(('vd', rng.choice([name, name, 'x.npd', 'x.ts', 'x.s2p', 'x.s1p', 'x.s4p']), d))
    for name, data in cal_seeds:
        inputs.append(('cal', name, data))
        for _ in range(nmut * 2):
            d = data
            for _ in range(rng.choice([1, 1, 1, 2, 3])):
                d = mutate(rng, d)
            inputs.append(('cal', name, d))
    for data in YAMLS:
        inputs.append(('yaml', '-', data))
        for _ in range(nmut):
            inputs.append(('yaml', '-', mutate(rng, data)))
    # every truncation point of the head of a few seeds (end of file inside any header construct)
    for name, data in [x for x in vd_seeds if x[0].endswith('p')][:2] + [x for x in vd_seeds if x[0] == 'x.ts'][:2] + [x for x in vd_seeds if x[0] == 'x.npd'][:2]:
        for k in range(0, min(len(data), 260 if quick else 2000)):
            inputs.append(('vd', name, data[:k]))
    for name, data in cal_seeds[:1 if quick else 3]:
        for k in range(0, min(len(data), 260 if quick else 3000)):
            inputs.append(('cal', name, data[:k]))
    for data in YAMLS[:3]:
        for k in range(len(data)):
            inputs.append(('yaml', '-', data[:k]))
    # every small (rows, columns) pair written into the header of every calibration seed, also with an empty data list
    for name, data in cal_seeds:
        for r in range(0, 4):
            for c in range(0, 4):
                d2_ = re.sub(rb'(?m)^(\s*rows:\s*)\d+', lambda m: m.group(1) + str(r).encode(), data, count=1)
                d2_ = re.sub(rb'(?m)^(\s*columns:\s*)\d+', lambda m: m.group(1) + str(c).encode(), d2_, count=1)
                inputs.append(('cal', name, d2_))
                d3_ = re.sub(rb'(?m)^(\s*frequencies:\s*)\d+', lambda m: m.group(1) + b'0', d2_, count=1)
                k_ = d3_.find(b'  data:')
                if k_ > 0:
                    inputs.append(('cal', name, d3_[:k_] + b'  data: []\n'))
    # every map key of a .vnacal / YAML document replaced by text that is not a valid property key or not the expected keyword
    for name, data in cal_seeds[:2 if quick else 5] + [('-', y) for y in YAMLS[:2]]:
        lines_ = data.split(b'\n')
        keyed = [i for i, l in enumerate(lines_) if re.match(rb'^\s*(- )?[A-Za-z0-9_ ]+:', l)]
        for i in keyed[:30 if quick else 200]:
            for bad in (b'bad=key', b'a[', b'"k\\\\"', b'""'):
                l = lines_[i]
                m = re.match(rb'^(\s*(?:- )?)([A-Za-z0-9_ ]+)(:.*)$', l)
                inputs.append(('cal' if name != '-' else 'yaml', name, b'\n'.join(lines_[:i] + [m.group(1) + bad + m.group(3)] + lines_[i + 1:])))
    # every keyword as the whole file / as the first line (scanner state that no earlier line has initialised), bare and with 1..3 arguments
    for kw in ('#:version', '#:ports', '#:rows', '#:columns', '#:frequencies', '#:parameters', '#:z0', '#:fprecision', '#:dprecision', '#:bogus', '#:', '#'):
        for args in ('', ' 1', ' 1 2', ' Sri', ' x y z'):
            for tail in ('', '\n', '\n#:ports 1\n#:frequencies 1\n#:parameters Sri\n#:z0 50 0j\n1e9 0.25 0.5\n'):
                inputs.append(('vd', 'x.npd', (kw + args + tail).encode()))
    for kw in ('[Version]', '[Number of Ports]', '[Number of Frequencies]', '[Reference]', '[Matrix Format]', '[Two-Port Data Order]', '[Number of Noise Frequencies]', '[Network Data]',
               '[End]', '[Mixed-Mode Order]', '[Begin Information]', '[Bogus]', '[', '#', '!'):
        for args in ('', ' 2.0', ' 2', ' Full', ' 50 50'):
            for tail in ('', '\n', '\n# Hz S RI R 50\n[Number of Ports] 1\n[Number of Frequencies] 1\n[Network Data]\n1e9 0.25 0.5\n[End]\n'):
                inputs.append(('vd', rng.choice(['x.ts', 'x.s1p', 'x.s2p']), (kw + args + tail).encode()))
    # Touchstone 1 noise blocks of 0..3 lines after the network data: whole, cut at every byte of the block, followed by text that is not a number
    head_ = '# GHz S MA R 50\n1 .9 -10 2 80 .05 30 .6 -20\n2 .8 -20 1.8 70 .06 25 .55 -25\n3 .7 -30 1.6 60 .07 20 .5 -30\n'
    for k_ in range(4):
        blk = ''.join('%g %g .4 %d 0.3\n' % (1 + k2, 0.5 + 0.1 * k2, 100 + 10 * k2) for k2 in range(k_))
        whole = (head_ + blk).encode()
        inputs.append(('vd', 'x.s2p', whole))
        for cut in range(len(head_), len(whole)):
            inputs.append(('vd', 'x.s2p', whole[:cut]))
        for tail in ('! end\n', '[End]\n', 'abc\n', '1\n', '1 2 3 4\n', '4 .6 -40 1.4 50 .08 15 .45 -35\n'):
            inputs.append(('vd', 'x.s2p', whole + tail.encode()))
    # every Touchstone 2 / NPD header keyword given a second time with another value, after each later header line
    for name, data in [x for x in vd_seeds if x[0] in ('x.ts', 'x.npd')][:3 if quick else 12]:
        ls_ = data.split(b'\n')
        hdr = [i for i, l in enumerate(ls_) if re.match(rb'^\s*(\[[^\]]+\]|#:\w+)', l)]
        for i in hdr:
            if not re.search(rb'[0-9]', ls_[i]):
                continue
            for v_ in (b'1', b'3', b'7'):
                l2 = re.sub(rb'(\]|#:\w+)(\s*)[-+]?[0-9]+', lambda m: m.group(1) + m.group(2) + v_, ls_[i], count=1)
                for j in [q + 1 for q in hdr if q >= i][:6]:
                    inputs.append(('vd', name, b'\n'.join(ls_[:j] + [l2] + ls_[j:])))
    # reference impedances no Touchstone file can have; non-finite frequencies; a Zin vector of zero ports with a z0 line
    for r_ in ('0', '-50', 'nan', 'inf', '-0.0', '1e999'):
        inputs.append(('vd', 'x.s1p', ('# HZ Z RI R %s\n1e9 75 10\n2e9 70 12\n' % r_).encode()))
        inputs.append(('vd', 'x.s2p', ('# HZ S RI R %s\n1e9 .1 0 .2 0 .3 0 .4 0\n' % r_).encode()))
        inputs.append(('vd', 'x.ts', ('[Version] 2.0\n# HZ S RI R 50\n[Number of Ports] 2\n[Two-Port Data Order] 12_21\n[Number of Frequencies] 1\n[Reference] 50 %s\n[Network Data]\n1e9 .1 0 .2 0 .3 0 .4 0\n[End]\n' % r_).encode()))
    for f_ in ('nan', 'inf', '-inf', '-1', '1e999'):
        for name, data in cal_seeds[:2]:
            m_ = list(re.finditer(rb'(?m)^(\s*- f:\s*)(\S+)', data))
            for x_ in m_[:3]:
                inputs.append(('cal', name, data[:x_.start(2)] + f_.encode() + data[x_.end(2):]))
        inputs.append(('vd', 'x.npd', ('#NPD\n#:ports 1\n#:frequencies 2\n#:parameters Sri\n1e9 .1 .2\n%s .3 .4\n' % f_).encode()))
    for hdr_ in ('#:ports 0\n#:frequencies 0\n#:parameters zinri\n#:z0\n', '#:ports 0\n#:frequencies 1\n#:parameters zinri\n#:z0 PER-FREQUENCY\n1e9\n',
                 '#:ports 0\n#:frequencies 1\n#:parameters Sri\n#:z0\n1e9\n', '#:z0 50 0j\n#:ports 0\n#:frequencies 0\n#:parameters zinri\n'):
        inputs.append(('vd', 'x.npd', hdr_.encode()))
    # NPD headers that give the reference impedances both ways (a fixed `#:z0` vector and `#:z0 PER-FREQUENCY`), in either order, with
    # good and bad data lines after them
    for ports_ in (1, 2, 4):
        fixed = '#:z0 ' + ' '.join('%d %dj' % (50 + 5 * q, q) for q in range(ports_))
        perf = '#:z0 PER-FREQUENCY'
        row = lambda f: '%g ' % f + ' '.join('%d 0' % (60 + q) for q in range(ports_)) + ' ' + ' '.join('.%d .%d' % (1 + k % 8, 2 + k % 7) for k in range(ports_ * ports_))
        for first, second in ((fixed, perf), (perf, fixed), (fixed, fixed), (perf, perf)):
            for body in (row(1e9) + '\n' + row(2e9) + '\n', row(1e9) + '\n' + row(2e9)[:-4] + 'x\n', row(1e9) + '\n'):
                inputs.append(('vd', 'x.npd', ('#NPD\n#:version 1.0\n#:ports %d\n#:frequencies 2\n#:parameters Sri\n%s\n%s\n%s' % (ports_, first, second, body)).encode()))
    # `#:parameters` lists of every length from every specifier the format knows (long names next to each other, repeated names, either
    # case), with rows that have the right number of fields, too few or too many
    spec_ = ['%s%s' % (t_, f_) for t_ in 'SZYTUHGAB' for f_ in ('ri', 'ma', 'dB')] + ['Zinri', 'Zinma', 'zinri', 'ZINMA', 'PRC', 'PRL', 'SRC', 'SRL', 'IL', 'RL', 'VSWR']
    for k_ in range(40 if nmut <= 80 else 400):
        n_ = rng.choice([1, 2, 2, 3, 4, 6, 8, 12])
        pick = [rng.choice(spec_) for _ in range(n_)] if k_ % 3 else [rng.choice(['Zinri', 'Zinma', 'zinma', 'VSWR']) for _ in range(n_)]
        ports_ = rng.choice([1, 2, 2, 3])
        nfld = rng.choice([0, 2, 2 * ports_, 2 * ports_ * ports_ * n_, 2 * ports_ * ports_ * n_ + 1, rng.randint(0, 40)])
        rows_ = ''.join('%g ' % (1e9 * (q + 1)) + ' '.join('.%d' % (1 + (q + j) % 9) for j in range(nfld)) + '\n' for q in range(2))
        inputs.append(('vd', 'x.npd', ('#NPD\n#:version 1.0\n#:ports %d\n#:frequencies 2\n#:parameters %s\n#:z0 %s\n%s' % (
            ports_, rng.choice([',', ', ', ' ,']).join(pick), ' '.join('50 0j' for _ in range(ports_)), rows_)).encode()))
    # a file that sets precisions in its header and is rejected further down
    for tail_ in ('1e9 0.5 oops\n', '1e9 0.5\n', ''):
        inputs.append(('vd', 'x.npd', ('#NPD\n#:version 1.0\n#:ports 1\n#:frequencies 1\n#:fprecision 1\n#:dprecision 2\n#:parameters Sri\n#:z0 50 0j\n' + tail_).encode()))
    # formats the saver refuses to write, precisions the setters refuse, counts that do not fit an int
    for par_, ports_, row_ in (('Zdb', 1, '3.0 45.0'), ('YdB', 1, '3.0 45.0'), ('HdB', 2, '1 2 3 4 5 6 7 8'), ('Sri,il', 1, '0.5 0.25'), ('il', 1, ''), ('Sri,IL', 2, '.1 .2 .3 .4 .5 .6 .7 .8 1 2')):
        inputs.append(('vd', 'x.npd', ('#NPD\n#:version 1.0\n#:ports %d\n#:frequencies 1\n#:parameters %s\n#:z0 %s\n1e9 %s\n' % (ports_, par_, ' '.join(['50 0j'] * ports_), row_)).encode()))
    for fp_, dp_ in ((0, 6), (6, 0), (0, 0), (1, 1), (1000, 1000), (1001, 6)):
        inputs.append(('vd', 'x.npd', ('#NPD\n#:version 1.0\n#:ports 1\n#:frequencies 1\n#:fprecision %d\n#:dprecision %d\n#:parameters Sri\n#:z0 50 0j\n1e9 0.25 0.5\n' % (fp_, dp_)).encode()))
    for big_ in ('4294967297', '4294967296', '2147483648', '-4294967295', '18446744073709551617', '0x100000001'):
        inputs.append(('vd', 'x.ts', ('[Version] 2.0\n# Hz S RI R 50\n[Number of Ports] %s\n[Number of Frequencies] %s\n[Network Data]\n1e9 0.5 0.25\n[End]\n' % (big_, big_)).encode()))
        inputs.append(('vd', 'x.ts', ('[Version] 2.0\n# Hz S RI R 50\n[Number of Ports] 1\n[Number of Frequencies] %s\n[Network Data]\n1e9 0.5 0.25\n[End]\n' % big_).encode()))
    # a .vnacal whose properties contain an alias to an enclosing node
    for name, data in cal_seeds[:2]:
        if b'properties:' in data:
            inputs.append(('cal', name, data.replace(b'properties:', b'properties: &self\n  loop: *self\n  more:', 1)))
            inputs.append(('cal', name, re.sub(rb'(?m)^properties:.*$', b'properties: &p [*p]', data, count=1)))
    for _ in range(nmut * 4):
        inputs.append((rng.choice(['vd', 'cal', 'yaml']), rng.choice(['x.npd', 'x.ts', 'x.s3p']), bytes(rng.randrange(256) for _ in range(rng.randint(0, 60)))))
    good_npd = '#NPD\n#:version 1.0\n#:ports 1\n#:frequencies 1\n#:parameters Sri\n#:z0 50 0j\n1e9 0.25 0.5\n'.encode().hex()

    def script(inp):
        kind, name, data = inp
        x = 'x' + data.hex() if data else '-'
        if kind == 'vd':
            # after the attempt: the object must answer, accept a good file, and be freed without residue
            return ['vd 0 alloc', 'vd 0 loadstr %s %s' % (h(name), x), 'vd 0 digest', 'vd 0 cksave ' + h('x.ts' if name != 'x.npd' else name), 'vd 0 set_filetype 3', 'vd 0 set_format -', 'vd 0 set_fprecision 1000', 'vd 0 set_dprecision 1000',
                    'vd 0 savestr ' + h('r.npd'), 'vd 0 loadstr %s x%s' % (h('g.npd'), good_npd), 'vd 0 digest', 'vd 0 free', 'cal live']
        if kind == 'cal':
            return ['cal loadstr 1 %s' % x, 'cal get_calibration_end 1', 'cal savestr 1', 'cal get_info 1 0', 'cal get_info 1 1', 'cal free 1', 'cal live']
        return ['pt 0 set ' + h('keep=me'), 'pt 0 digest', 'pt 0 import x%s' % data.hex(), 'pt 0 digest', 'pt 0 export', 'pt 0 free', 'pt 0 live']

    def run_batch(batch):
        import time as _t
        _t0 = _t.time()
        try:
            return _run_batch(batch)
        finally:
            if os.environ.get('VERIF_C09_TIMING') and _t.time() - _t0 > 5:
                print('slow batch %.1fs: kinds %s first %r' % (_t.time() - _t0, sorted(set(x[0] for x in batch)), batch[0][2][:60]))

    def _run_batch(batch):
        lines, starts = [], []
        for inp in batch:
            starts.append(len(lines))
            lines += script(inp)
        out, rc, err = vlib.run_lines(exe, lines, timeout=60)
        return lines, starts, out, rc, err

    results = {}     # index -> list of output lines for that input
    pending = []
    B = 60
    # first pass: all batches in parallel; whatever a batch did not finish cleanly goes through the serial loop below
    from concurrent.futures import ThreadPoolExecutor
    allb = [list(range(k, min(k + B, len(inputs)))) for k in range(0, len(inputs), B)]
    with ThreadPoolExecutor(16) as ex:
        first = list(ex.map(lambda b: run_batch([inputs[i] for i in b]), allb))
    for b, (lines, starts, out, rc, err) in zip(allb, first):
        if rc == 0 and len(out) == len(lines):
            for j, i in enumerate(b):
                results[i] = out[starts[j]:starts[j] + len(script(inputs[i]))]
        else:
            pending += b
    while pending:
        batch_idx = pending[:B]
        pending = pending[B:]
        lines, starts, out, rc, err = run_batch([inputs[i] for i in batch_idx])
        done = 0
        for j, i in enumerate(batch_idx):
            n = len(script(inputs[i]))
            if starts[j] + n <= len(out):
                results[i] = out[starts[j]:starts[j] + n]
                done += 1
            else:
                break
        if done < len(batch_idx):
            bad = batch_idx[done]
            # confirm in isolation (a leak report at exit is attributed to the whole batch otherwise)
            l1, s1, o1, rc1, err1 = run_batch([inputs[bad]])
            kind, name, data = inputs[bad]
            if rc1 != 0 or len(o1) != len(l1):
                what = 'did not terminate within the time limit' if rc1 == -9 or 'timeout' in err1.lower() else 'crashed / sanitizer report'
                chk.violation('crash-' + kind, 'loading %d bytes as %s %s:\n%s' % (len(data), name if kind != 'yaml' else 'YAML text', what, err1[-1500:]), l1)
                results[bad] = None
            else:
                results[bad] = o1
            pending = batch_idx[done + 1:] + pending
        elif rc != 0:
            # every input answered but the process ended badly (leak report): bisect
            lo = batch_idx
            while len(lo) > 1:
                half = lo[:len(lo) // 2]
                if run_batch([inputs[i] for i in half])[3] != 0:
                    lo = half
                else:
                    lo = lo[len(lo) // 2:]
            l1, s1, o1, rc1, err1 = run_batch([inputs[lo[0]]])
            if rc1 != 0:
                kind, name, data = inputs[lo[0]]
                chk.violation('leak-' + kind, 'loading %d bytes as %s leaves memory behind / sanitizer report at exit:\n%s' % (len(data), name, err1[-1500:]), l1)
    reload_lines, reload_meta = [], []
    ERR_OK = ('EBADMSG', 'ENOPROTOOPT', 'ENOMEM', 'ENOENT', 'EACCES', 'EIO', 'EISDIR', 'ERANGE')
    for i, inp in enumerate(inputs):
        o = results.get(i)
        if not o:
            continue
        chk.evaluations += 1
        kind, name, data = inp
        sc = script(inp)
        tag = '%d bytes as %s' % (len(data), name if kind != 'yaml' else 'YAML text')
        if kind == 'vd':
            load, dig, ck, save, gl, gd, live = o[1], o[2], o[3], o[8], o[9], o[10], o[12]
            d = c06.parse_digest(dig)
            if live != 'ok live=0':
                chk.violation('residue-vd', '%s: allocations remain after vnadata_free: %s' % (tag, live), sc)
                continue
            if not gl.startswith('ok') or ' D 3fd0000000000000 3fe0000000000000 ' not in gd + ' ':
                chk.violation('unusable-vd', '%s: after the attempt the object does not load a good file correctly: %s / %s' % (tag, gl[:40], gd[:120]), sc)
                continue
            if not load.startswith('ok'):
                e = load.split()[1]
                if e not in ERR_OK:
                    chk.violation('errno-vd', '%s: rejected with errno %s (expected EBADMSG, ENOPROTOOPT or a system error)' % (tag, e), sc)
                else:
                    chk.count('vd_rejected_' + e)
                # no partial object is left behind: the object is empty after a refused file
                if d is None or (d['type'], d['rows'], d['cols'], d['nf']) != (0, 0, 0, 0):
                    chk.violation('partial-vd', '%s: rejected, but the object still holds part of what was read: %s' % (tag, dig[:120]), sc)
                elif (d['ft'], d['fp'], d['dp']) != (0, 7, 6):
                    # (the object was fresh: file type automatic, precisions 7 and 6)
                    chk.violation('partial-vd', '%s: rejected, but the file type / precisions of the rejected file stay in the object (file type %d, precisions %d / %d; before the call: 0, 7 / 6)' % (
                        tag, d['ft'], d['fp'], d['dp']), sc)
                continue
            t, r, c, nf = d['type'], d['rows'], d['cols'], d['nf']
            okdims = (t in (1, 4, 5) and r == c) or (t in (2, 3, 6, 7, 8, 9) and r == 2 and c == 2) or (t == 10 and r == 1)
            if not okdims or nf < 0:
                chk.violation('inconsistent-vd', '%s: accepted, but the object has type %d with dimensions %dx%d x %d' % (tag, t, r, c, nf), sc)
                continue
            if not (1 <= d.get('fp', 1) <= 1000 and 1 <= d.get('dp', 1) <= 1000):
                chk.violation('inconsistent-vd', '%s: accepted, but the object has precisions %s / %s, which vnadata_set_fprecision / _dprecision refuse' % (tag, d.get('fp'), d.get('dp')), sc)
                continue
            if c >= 1 and nf >= 1:
                # what was loaded from an NPD file can be written back as it is (its own format list, its own name)
                if name == 'x.npd' and not ck.startswith('ok'):
                    chk.violation('unsavable-npd', '%s: accepted, but the object as loaded cannot be saved again (x.npd): %s' % (tag, ck[:60]), sc)
                    continue
                if not save.startswith('ok'):
                    chk.violation('unsavable-vd', '%s: accepted, but the object cannot be saved: %s' % (tag, save[:60]), sc)
                    continue
                # what was loaded from a Touchstone file (either version) can be written back as a .ts file
                if name != 'x.npd' and d['ft'] in (1, 2) and not ck.startswith('ok'):
                    chk.violation('unsavable-ts', '%s: accepted as a Touchstone file, but the object cannot be saved as one (x.ts): %s' % (tag, ck[:60]), sc)
                    continue
                reload_meta.append((i, dig))
                reload_lines += ['vd 0 alloc', 'vd 0 loadstr %s %s' % (h('r.npd'), save.split()[-1]), 'vd 0 digest', 'vd 0 free']
            chk.count('vd_accepted')
            chk.distinct.add(('vd', data[:40]))
        elif kind == 'cal':
            load, end, save, live = o[0], o[1], o[2], o[6]
            for gi in (o[3], o[4]):
                m_ = re.search(r'type=(-?\d+) rows=(\d+) cols=(\d+) freqs=(\d+)', gi)
                if load.startswith('ok') and m_:
                    t_, r_, c_ = int(m_.group(1)), int(m_.group(2)), int(m_.group(3))
                    # vnacal_type_t: T8 0, U8 1, TE10 2, UE10 3, T16 4, U16 5, UE14 6, E12 8
                    fits = r_ >= 1 and c_ >= 1 and (r_ <= c_ if t_ in (0, 2, 4) else r_ >= c_)
                    if not fits:
                        chk.violation('inconsistent-cal', '%s: accepted, but a calibration has type %d with dimensions %d x %d' % (tag, t_, r_, c_), sc)
                        break
            else:
                pass
            if live != 'ok live=0':
                chk.violation('residue-cal', '%s: allocations remain after a %s vnacal_load: %s' % (tag, 'successful' if load.startswith('ok') else 'failed', live), sc)
                continue
            if not load.startswith('ok'):
                e = load.split()[1]
                if e not in ERR_OK:
                    chk.violation('errno-cal', '%s: rejected with errno %s (expected EBADMSG, ENOPROTOOPT or a system error)' % (tag, e), sc)
                else:
                    chk.count('cal_rejected_' + e)
                continue
            if not save.startswith('ok'):
                chk.violation('unsavable-cal', '%s: accepted, but vnacal_save of the result fails: %s' % (tag, save[:60]), sc)
                continue
            # strictly ascending, finite calibration frequencies (read from what vnacal_save wrote for the accepted object)
            try:
                txt_ = bytes.fromhex(save.split()[-1][1:]).decode('utf-8', 'replace')
            except ValueError:
                txt_ = ''
            prev_, badf = None, None
            for ln_ in txt_.split('\n'):
                if re.match(r'^\s*-?\s*name:', ln_):
                    prev_ = None
                m_ = re.match(r'^\s*-?\s*f:\s*(\S+)', ln_)
                if m_:
                    try:
                        fv_ = float(m_.group(1))
                    except ValueError:
                        fv_ = float('nan')
                    if not (fv_ == fv_ and abs(fv_) != float('inf') and fv_ >= 0 and (prev_ is None or fv_ > prev_)):
                        badf = ln_.strip()
                        break
                    prev_ = fv_
            if badf:
                chk.violation('frequencies-cal', '%s: accepted, but the calibration frequencies are not finite and strictly ascending: %r' % (tag, badf), sc)
                continue
            reload_meta.append((i, save.split()[-1]))
            reload_lines += ['cal loadstr 1 %s' % save.split()[-1], 'cal savestr 1', 'cal free 1', 'pt 0 live']
            chk.count('cal_accepted')
            chk.distinct.add(('cal', data[-40:]))
        else:
            before, imp, after, exp, live = o[1], o[2], o[3], o[4], o[6]
            if live != 'ok live=0':
                chk.violation('residue-yaml', '%s: allocations remain: %s' % (tag, live), sc)
                continue
            if not imp.startswith('ok'):
                e = imp.split()[1]
                if e not in ERR_OK:
                    chk.violation('errno-yaml', '%s: rejected with errno %s' % (tag, e), sc)
                elif after != before:
                    chk.violation('partial-yaml', '%s: a failed import changed the tree: %s -> %s' % (tag, before[:80], after[:80]), sc)
                elif 'cb=' in imp and imp.split('cb=')[1].split('/')[0] != '1':
                    chk.violation('report-yaml', '%s: rejected with %s lines of error report (one line, once: vnaerr(3))' % (tag, imp.split('cb=')[1].split('/')[0]), sc)
                else:
                    chk.count('yaml_rejected_' + e)
                continue
            if exp.startswith('ok') and len(exp.split()) > 2:
                reload_meta.append((i, after))
                reload_lines += ['pt 0 import %s' % exp.split()[-1], 'pt 0 digest', 'pt 0 free', 'pt 0 live']
            chk.count('yaml_accepted')
            chk.distinct.add(('yaml', data[:40]))
    out2, rc2, err2 = vlib.run_lines(exe, reload_lines, timeout=900)
    if rc2 != 0 or len(out2) != len(reload_lines):
        k = min(len(out2), len(reload_lines) - 1)
        chk.violation('crash-reload', 'crash / sanitizer report while re-loading what the library saved:\n%s' % err2[-1200:], reload_lines[max(0, k - 3):k + 1])
    else:
        for j, (i, ref) in enumerate(reload_meta):
            kind = inputs[i][0]
            o = out2[4 * j:4 * j + 4]
            tag = '%d bytes as %s' % (len(inputs[i][2]), inputs[i][1])
            if kind == 'vd':
                same = o[1].startswith('ok') and o[2].split()[9:] == ref.split()[9:] and o[2].split()[1:5] == ref.split()[1:5]
            elif kind == 'cal':
                same = o[0].startswith('ok') and o[1].split()[-1] == ref
            else:
                same = o[0].startswith('ok') and o[1] == ref
            if not same:
                chk.violation('reload-' + kind, '%s: accepted, but saving and loading the result again does not reproduce it: %s' % (tag, o[1][:100]), script(inputs[i]) + reload_lines[4 * j:4 * j + 4])
            else:
                chk.count(kind + '_reloaded_same')
    scan_correspondence(chk, exe, rng, broken, 60 if quick else 1500)
    chk.rule = ('%d valid seeds (Touchstone 1/2 incl. noise data and Upper/Lower, NPD incl. per-frequency z0 and scalar blocks, .vnacal of 5 types with properties, YAML '
                'documents) x %d structure-aware mutations each (truncation, line deletion / duplication / swap, token replacement by boundary values, header counts, byte flips, '
                'insertions) + random byte strings; distinct = accepted inputs by content prefix' % (len(vd_seeds) + len(cal_seeds) + len(YAMLS), nmut))
    chk.samples = [[repr(inputs[1][2][:120])], [repr(inputs[-1][2][:60])]]
    if broken and not chk.violations:
        chk.violation('obligation', 'proof/correspondence obligations that no longer check:\n' + '\n'.join(broken[:30]), nofail=True)


def scan_correspondence(chk, exe, rng, broken, count):
    """the NPD line scanner model against the C: the loader reports how many fields it found in a data line"""
    alphabet = ['1', '2.5', '-3e2', ' ', '  ', '\t', '#', '#:', '# c', 'x', '\r', '\f', '\v', '0', 'j', '#:z']
    clines, mlines = [], []
    for _ in range(count):
        line = ''.join(rng.choice(alphabet) for _ in range(rng.randint(0, 9)))
        txt = '#NPD\n#:version 1.0\n#:ports 1\n#:frequencies 1\n#:parameters Sri\n#:z0 50 0j\n' + line + '\n'
        clines += ['vd 0 alloc', 'vd 0 loadstr %s x%s' % (h('s.npd'), txt.encode().hex()), 'errmsg', 'vd 0 free']
        mlines.append('npd scan x' + line.encode().hex())
    cout, crc, cerr = vlib.run_lines(exe, clines)
    mout, mrc, merr = vlib.run_lines(vlib.model_exe(), mlines)
    if crc != 0 or mrc != 0 or len(mout) != len(mlines) or len(cout) != len(clines):
        broken.append('correspondence (NPD scanner): harness rc=%s model rc=%s %s' % (crc, mrc, (cerr or merr)[-300:]))
        return
    nm = 0
    for k, mo in enumerate(mout):
        lo, msg = cout[4 * k + 1], bytes.fromhex(cout[4 * k + 2].split()[-1][1:]).decode('latin-1') if len(cout[4 * k + 2].split()) > 1 else ''
        # model: 'ok <kind> <nfields>' kind in data / keyword / eof
        w = mo.split()
        if w[1] == 'data':
            n = int(w[2])
            if n == 3:
                same = lo.startswith('ok') or 'number expected' in msg or 'expected' in msg
            else:
                same = ('found %d' % n) in msg
        elif w[1] == 'eof':
            same = 'found only' in msg or 'expected 1 data lines' in msg
        else:
            same = 'unrecognized keyword' in msg or 'expected a data line' in msg or 'ports must come' in msg or 'redundant' in msg or 'expected' in msg
        if not same:
            nm += 1
            if nm <= 3:
                broken.append('correspondence: NPD scanner on %r: model %s, loader said %r (%s)' % (mlines[k], mo, msg, lo[:30]))
        else:
            chk.count('scan_same_' + w[1])
    chk.extra['scan_mismatches'] = nm


def replay(chk, path):
    from props import c01
    return c01.replay(chk, path)
