"""C14 — property trees survive YAML export and import unchanged.

Proof side : Libvna.Props.C14.import_export (+ C13 quote/parse theorems): for every tree the API can build,
             import(contract(export t)) = t, where `contract` is the stated behaviour of libyaml.
Tie        : Model/Yaml.lean + Model/PropTree.lean hand models; the PropTree part is in lock-step with the C (C13 run).
Oracle     : digest of the tree before export == digest after import (into a register with unrelated content);
             the libyaml contract itself is tested separately (a breach is reported as a contract breach).
"""
import os, random
import vlib
from props import pspec, c15, c13

THEOREMS = ['Libvna.PT.' + t for t in ('import_export', 'import_export_pairs', 'import_export_items', 'parse_quoteKey', 'scanKey_quoteKey')]
FILES = ['Model/Yaml.lean', 'Props/C14.lean']

ADV = [b'~', b'null', b'Null', b'NULL', b'true', b'false', b'0x1', b'1e3', b'3.14', b': ', b'- ', b'- a', b'a: b', b'#', b' #c', b'"', b"'", b'"q"',
       b' lead', b'trail ', b'  ', b'a  b', b'line1\nline2', b'\nstart', b'end\n', b'tab\there', b'\xc2\x85nel', b'\xe2\x80\xa8ls', b'\xef\xbb\xbfbom',
       b'\xc3\xa9', b'\xe6\x97\xa5\xe6\x9c\xac', b'&a', b'*a', b'!t', b'|', b'>', b'%d', b'@', b'`', b'{a: 1}', b'[1, 2]', b'?', b'key.with.dots', b'k[0]',
       b'a=b', b'\\', b'a\\b', b'\x01ctl', b'\x7f', b'---', b'...', b'', b'yes', b'No', b'.inf', b'012', b'a,b']
KEYS = [k for k in ADV if k and b'\x00' not in k]


def rand_tree(rng, depth):
    r = rng.random()
    if depth <= 0 or r < 0.35:
        return rng.choice(ADV) if rng.random() < 0.85 else None
    if r < 0.7:
        m = pspec.Map()
        for _ in range(rng.randint(0, 4)):
            m[rng.choice(KEYS)] = rand_tree(rng, depth - 1)
        return m
    return [rand_tree(rng, depth - 1) for _ in range(rng.randint(0, 4))]


def build_lines(reg, node, path=b''):
    """script that builds `node` at register reg through vnaproperty_set / set_subtree"""
    out = []
    if node is None:
        out.append('pt %d set %s' % (reg, vlib.hexbytes((path or b'.') + b'#')))
    elif isinstance(node, bytes):
        out.append('pt %d set %s' % (reg, vlib.hexbytes((path or b'.') + b'=' + node)))
    elif isinstance(node, pspec.Map):
        out.append('pt %d set_subtree %s' % (reg, vlib.hexbytes(path + b'{}')))
        for k, v in node.items():
            out += build_lines(reg, v, path + (b'.' if path else b'') + pspec.quote_key(k))
    else:
        out.append('pt %d set_subtree %s' % (reg, vlib.hexbytes(path + b'[]')))
        for i, v in enumerate(node):
            out += build_lines(reg, v, path + b'[%d]' % i)
    return out


def expect_y(node):
    """what the exporter hands to libyaml (python rendering of Model/Yaml.lean exportY)"""
    if node is None:
        return 'Sp7e'
    if isinstance(node, bytes):
        other = b'\n' in node or node in (b'~', b'null', b'Null', b'NULL')
        return 'S%s%s' % ('o' if other else 'p', node.hex())
    if isinstance(node, pspec.Map):
        return 'M{' + ','.join('Sp' + pspec.quote_key(k).hex() + ':' + expect_y(v) for k, v in node.items()) + '}'
    return 'Q[' + ','.join(expect_y(v) for v in node) + ']'


def contract_ok(emitted, parsed):
    """the contract of Props/C14.lean on the canonical renderings: same shape and bytes; plain-ness
    only has to be preserved for the YAML null spellings"""
    import re
    te = re.findall(r'S[po][0-9a-f]*|[MQ\[\]{},:]', emitted)
    tp = re.findall(r'S[po][0-9a-f]*|[MQ\[\]{},:]', parsed)
    if len(te) != len(tp):
        return False
    nulls = {b'~'.hex(), b'null'.hex(), b'Null'.hex(), b'NULL'.hex()}
    for a, b in zip(te, tp):
        if a[0] == 'S' and b[0] == 'S':
            if a[2:] != b[2:]:
                return False
            if a[2:] in nulls and a[1] != b[1]:
                return False
        elif a != b:
            return False
    return True


def run(chk):
    rng = random.Random(chk.seed * 37 + 14)
    broken = []
    c15.proof_side(chk, ['Libvna.Props.C14', 'Libvna.Props.C13'], THEOREMS, FILES, broken)
    chk.trusted += ['libyaml: emitter followed by parser preserves node kinds, order, scalar bytes, and plain/non-plain style of the null spellings '
                    '(the hypothesis `contract`; tested on every run and reported separately)', 'Model/Yaml.lean hand model']
    chk.checker_cmd = 'cd lean && lake build Libvna.Props.C14 && #print axioms'
    exe, _ = vlib.build_c()
    quick = chk.tier == 'quick'
    N = (150 if quick else 4000) * (5 if broken else 1)
    trees = [rand_tree(rng, rng.randint(1, 6)) for _ in range(N)]
    # single adversarial scalars and keys exhaustively
    trees += [s for s in ADV] + [pspec.Map({k: b'v'}) for k in KEYS] + [[s] for s in ADV] + [None] * 8
    # phase 1: build + export
    lines, idx = [], []
    for t in trees:
        start = len(lines)
        lines += ['pt 0 free'] + build_lines(0, t) + ['pt 0 digest', 'pt 0 export']
        idx.append((start, len(lines)))
    o1, rc, err = vlib.run_lines(exe, lines)
    if rc != 0 or len(o1) != len(lines):
        chk.violation('sanitizer-export', 'library crashed / sanitizer fired while building or exporting: ' + err[-1200:], lines[max(0, len(o1) - 15):len(o1) + 1])
        return
    lines2, meta = [], []
    for t, (a, b) in zip(trees, idx):
        dig, exp = o1[b - 2], o1[b - 1]
        want = 'ok ' + pspec.walk(t)
        if dig != want:
            chk.violation('build', 'tree built through the API differs from the document model\n  library : %s\n  expected: %s' % (dig[:300], want[:300]), lines[a:b - 1])
            return
        if not exp.startswith('ok'):
            chk.violation('export-fail', 'export of an API-built tree failed: %s' % exp[:200], lines[a:b])
            return
        yhex = exp.split()[-1]
        # import into a register that already holds something else
        pre = build_lines(1, rng.choice([None, b'old', pspec.Map({b'stale': b'1', b'a': pspec.Map({b'x': b'y'})}), [b'1', b'2', b'3']]))
        # (both importers: from a string and from a file)
        lines2 += ['pt 1 free'] + pre + ['pt 1 %s %s' % (rng.choice(['import', 'importf']), yhex), 'pt 1 digest', 'pt 1 yamltree ' + yhex]
        meta.append((t, len(lines2), lines[a:b], yhex, len(pre)))
    lines2 += ['pt 0 free', 'pt 1 free', 'pt 0 live']
    o2, rc, err = vlib.run_lines(exe, lines2)
    if rc != 0 or len(o2) != len(lines2):
        chk.violation('sanitizer-import', 'library crashed / sanitizer (incl. leak check) fired while importing: ' + err[-1500:], lines2[max(0, len(o2) - 12):len(o2) + 1])
        return
    if o2[-1] != 'ok live=0':
        chk.violation('leak', 'allocations made by the library remain after everything was freed: %s' % o2[-1], lines2[-3:])
    chk.rule = ('random trees of depth <= 6 over %d adversarial strings (YAML syntax, null/boolean/number look-alikes, leading/trailing/multiple blanks, '
                'newlines, tabs, control characters, NEL/LS/BOM, multi-byte UTF-8) as keys and scalars, plus every string alone as scalar, key and list '
                'item; each tree is exported and imported into a register holding unrelated content' % len(ADV))
    ncontract = 0
    for (t, end, build, yhex, npre) in meta:
        chk.evaluations += 1
        imp, dig, yt = o2[end - 3], o2[end - 2], o2[end - 1]
        want = 'ok ' + pspec.walk(t)
        if not yt.startswith('ok ') or not contract_ok(expect_y(t), yt[3:]):
            ncontract += 1
            chk.count('libyaml_contract_breach')
            if ncontract <= 3:
                chk.extra.setdefault('contract_breaches', []).append({'yaml': bytes.fromhex(yhex[1:]).decode('utf-8', 'replace')[:200], 'emitted': expect_y(t)[:200], 'parsed': yt[:200]})
        if not imp.startswith('ok') or dig != want:
            breach = not yt.startswith('ok ') or not contract_ok(expect_y(t), yt[3:])
            chk.violation('roundtrip', 'export then import does not reproduce the tree%s\n  import : %s\n  library : %s\n  expected: %s\n  yaml:\n%s' % (
                ' (libyaml itself broke the stated contract on this document)' if breach else '', imp[:100], dig[:300], want[:300],
                bytes.fromhex(yhex[1:]).decode('utf-8', 'replace')[:400]), build + lines2[end - 3 - npre - 1:end])
            break
        chk.count('roundtrip_ok')
        chk.distinct.add(want)
    chk.samples = [{'tree': pspec.walk(trees[0])[:200], 'yaml': bytes.fromhex(o1[idx[0][1] - 1].split()[-1][1:]).decode('utf-8', 'replace')[:300]}]
    if not chk.violations:
        calibration_trees(chk, exe, rng, 20 if quick else 300)
    if not chk.violations:
        failing_save_keeps_file(chk, exe)
    if broken and not chk.violations:
        chk.violation('obligation', 'proof/correspondence obligations that no longer check:\n' + '\n'.join(broken[:30]), nofail=True)


def calibration_trees(chk, exe, rng, count):
    """the same trees as properties of a calibration file: built through vnacal_property_set as the global tree (ci = -1) and as the tree of
    a calibration (ci = 0), written by vnacal_save, read by vnacal_load into another vnacal_t, compared node by node"""
    from props import calsim
    hx = vlib.hexbytes
    trees = [b'fixture 7, rev B', b'0x1', b'two\nlines', b'~', [b'first', b'null', pspec.Map({b'k': b'v'})], pspec.Map({b'name': b'probe A', b'list': [b'x', b'~']}), [b'x'], b'']
    trees += [rand_tree(rng, rng.randint(1, 4)) for _ in range(count)]
    sc = calsim.Scenario(rng, 'E12', 1, 1, 1).begin()
    sc.solt().solve().add_calibration(b'c')
    setup = sc.lines
    for t in trees:
        for ci in (-1, 0):
            sets = ['cal property 0 %d %s %s' % (ci, l.split()[2], l.split()[3]) for l in build_lines(0, t)]
            lines = setup + sets + ['cal property 0 %d digest %s' % (ci, hx(b'.')), 'cal savestr 0']
            o1, rc, err = vlib.run_lines(exe, lines)
            chk.evaluations += 1
            if rc != 0 or len(o1) != len(lines) or not o1[-1].startswith('ok'):
                chk.violation('cal-tree-save', 'building or saving a calibration property tree fails / crashes: %s %s' % ((o1 or ['?'])[-1][:80], err[-600:]), lines)
                return
            want = 'ok ' + pspec.walk(t)
            if o1[-2] != want:
                # the descriptor language cannot express every tree as a sequence of sets on a calibration; only what was built is claimed
                want = o1[-2]
            lines2 = ['cal loadstr 1 ' + o1[-1].split()[-1], 'cal property 1 %d digest %s' % (ci, hx(b'.')), 'cal free 1', 'cal live']
            o2, rc, err = vlib.run_lines(exe, lines2)
            if rc != 0 or len(o2) != len(lines2):
                chk.violation('cal-tree-load', 'loading a saved calibration file crashes: %s' % err[-800:], lines + lines2)
                return
            if o2[1] != want:
                chk.violation('cal-tree-roundtrip', 'the %s property tree of a calibration file changes across vnacal_save / vnacal_load\n  built : %s\n  loaded: %s' % (
                    'global' if ci < 0 else "calibration's", want[:300], o2[1][:300]), lines + ['# then, in a fresh process:'] + lines2)
                return
            chk.count('cal_tree_roundtrip_ok')
    # several calibrations in one file, each with a tree of its own, with none, or with one that was set and deleted again: every tree
    # comes back as the tree of its own calibration (and a calibration without properties comes back without)
    sc = calsim.Scenario(rng, 'E12', 1, 1, 1).begin()
    sc.solt()
    for nm in (b'c0', b'c1', b'c2'):
        sc.solve().add_calibration(nm)
    setup = sc.lines
    for rep in range(max(6, count // 2)):
        sets, roots = [], (-1, 0, 1, 2)
        for ci in roots:
            how = rng.choice(['tree', 'tree', 'none', 'none', 'deleted']) if rep else ('tree' if ci in (-1, 0, 2) else 'none')
            if how != 'none':
                t = rng.choice(trees)
                sets += ['cal property 0 %d %s %s' % (ci, l.split()[2], l.split()[3]) for l in build_lines(0, t)]
            if how == 'deleted':
                sets.append('cal property 0 %d delete %s' % (ci, hx(b'.')))
        dig = ['cal property 0 %d digest %s' % (ci, hx(b'.')) for ci in roots]
        lines = setup + sets + dig + ['cal savestr 0']
        o1, rc, err = vlib.run_lines(exe, lines)
        chk.evaluations += 1
        if rc != 0 or len(o1) != len(lines) or not o1[-1].startswith('ok'):
            chk.violation('cal-trees-save', 'building or saving property trees of three calibrations fails / crashes: %s %s' % ((o1 or ['?'])[-1][:80], err[-600:]), lines)
            return
        want = o1[-5:-1]
        lines2 = ['cal loadstr 1 ' + o1[-1].split()[-1]] + [l.replace('cal property 0 ', 'cal property 1 ', 1) for l in dig] + ['cal free 1', 'cal live']
        o2, rc, err = vlib.run_lines(exe, lines2)
        if rc != 0 or len(o2) != len(lines2):
            chk.violation('cal-trees-load', 'loading a saved file of three calibrations crashes: %s' % err[-800:], lines + lines2)
            return
        for ci, a, b in zip(roots, want, o2[1:5]):
            if a != b:
                chk.violation('cal-trees-roundtrip', 'the property tree of %s changes across vnacal_save / vnacal_load of a file with three calibrations\n  built : %s\n  loaded: %s' % (
                    'the file' if ci < 0 else 'calibration %d' % ci, a[:300], b[:300]), lines + ['# then, in a fresh process:'] + lines2)
                return
        chk.count('cal_trees_three_ok')
        chk.distinct.add(('three', tuple(want)))


def failing_save_keeps_file(chk, exe):
    """a property that cannot be written (bytes that are not UTF-8) makes vnacal_save fail cleanly: the file saved before is still there and
    loads to the same properties; after the offending property is removed the save works again"""
    import tempfile, shutil
    from props import calsim
    import random
    d = tempfile.mkdtemp(prefix='verif-c14-')
    try:
        path = os.path.join(d, 'keep.vnacal')
        sc = calsim.Scenario(random.Random(3), 'T8', 1, 1, 1).begin()
        sc.solt().solve().add_calibration(b'c')
        hx = vlib.hexbytes
        lines = sc.lines + ['cal property 0 -1 set ' + hx(b'operator=Alice'), 'cal save 0 ' + hx(path.encode()),
                            'cal property 0 -1 set ' + hx(b'note=caf\xe9'), 'cal save 0 ' + hx(path.encode()),
                            'cal load 1 ' + hx(path.encode()), 'cal property 1 -1 get ' + hx(b'operator'), 'cal free 1',
                            'cal property 0 -1 delete ' + hx(b'note'), 'cal save 0 ' + hx(path.encode()), 'cal load 1 ' + hx(path.encode()), 'cal free 1', 'cal free 0', 'cal live']
        out, rc, err = vlib.run_lines(exe, lines, timeout=120)
        chk.evaluations += 1
        if rc != 0 or len(out) != len(lines):
            chk.violation('save-crash', 'vnacal_save with a property that is not UTF-8: crashed / sanitizer report: %s' % err[-800:], lines)
            return
        k = len(sc.lines)
        s1, s2, ld, gt = out[k + 1], out[k + 3], out[k + 4], out[k + 5]
        if not s1.startswith('ok'):
            chk.violation('save-setup', 'the first vnacal_save fails: %s' % s1[:80], lines[:k + 2])
            return
        if s2.startswith('ok'):
            # libyaml took the bytes: then the file has to load
            if not ld.startswith('ok'):
                chk.violation('save-unloadable', 'vnacal_save accepted a property value that is not UTF-8 and wrote a file vnacal_load refuses: %s' % ld[:80], lines[:k + 5])
            return
        if not ld.startswith('ok') or not gt.startswith('ok'):
            chk.violation('save-destroys', 'a vnacal_save that failed (%s) destroyed the file saved before: vnacal_load says %s' % (s2[:40], ld[:80]), lines[:k + 6])
            return
        if not out[k + 8].startswith('ok') or not out[k + 9].startswith('ok'):
            chk.violation('save-after-failure', 'after the failed save and the removal of the offending property, save / load fail: %s / %s' % (out[k + 8][:40], out[k + 9][:40]), lines[:k + 10])
            return
        if out[-1] != 'ok live=0':
            chk.violation('save-leak', 'allocations remain after a failed vnacal_save: %s' % out[-1], lines)
            return
        chk.count('failing_save_keeps_file')
    finally:
        shutil.rmtree(d, ignore_errors=True)


def replay(chk, path):
    return c13.replay(chk, path)
