"""C05 — vnadata_convert applies the right conversion with the right impedances.

Proof side : tr_tables regenerates the dispatch tables from vnadata_convert.c; Libvna.Props.C05 re-checks
             `dispatch_correct` over all 121 entries (decide), the refusal frame, the per-frequency
             specification of in-place conversion and that conversion to Zin keeps the invariant.
Tie        : translator (tables) + correspondence run of the convert model against the compiled C.
Oracle     : the real vnaconv_* function named by the manual for the pair, applied per frequency with that
             frequency's impedances; in-place == out-of-place; hidden cells after ->Zin are initial; refused
             conversions leave the output unchanged; A->B->C == A->C.
"""
import os, random, sys, json
import vlib
from props import c04n
from props.vspec import VSpec, ZERO, Z50, Z
from props import c15

THEOREMS = ['Libvna.VD.' + t for t in ('dispatch_correct', 'dispatch_functions_exist', 'convert_reject_frame',
                                       'convertInPlace_spec', 'convertInPlace_zin_inv')]
FILES = ['Model/VConvert.lean', 'Props/C05.lean', 'Gen/Tables.lean']
LET = {1: 's', 2: 't', 3: 'u', 4: 'z', 5: 'y', 6: 'h', 7: 'g', 8: 'a', 9: 'b'}
NPORT = (1, 4, 5)


def manual_fn(src, dst, n):
    """the function vnaconv(3)/vnadata(3) name for the pair, or None (invalid), or '' (copy)"""
    if src == dst:
        return ''
    if src in LET and dst in LET:
        if src in NPORT and dst in NPORT:
            return 'vnaconv_%sto%sn' % (LET[src], LET[dst])
        return 'vnaconv_%sto%s' % (LET[src], LET[dst])
    if src in LET and dst == 10:
        return 'vnaconv_%stozin' % LET[src] if src in NPORT else 'vnaconv_%stozi' % LET[src]
    return None


def dims_ok(src, dst, r, c):
    fn = manual_fn(src, dst, r)
    if fn is None:
        return False
    if fn == '':
        if src == 10:
            return r == 1 or c == 1
        if src in (0, 1):
            return True
        return r == c if src in NPORT else (r == 2 and c == 2)
    if fn.endswith('n'):
        return r == c
    return r == 2 and c == 2


def rc(rng):
    return complex(round(rng.gauss(0, 1), 3), round(rng.gauss(0, 1), 3))


def build_object(rng, slot, t, r, c, nf, perF):
    """script lines that build a type-t r x c object with nf frequencies; returns (lines, spec)"""
    v = VSpec()
    lines = ['vd %d alloc' % slot]

    def do(op, args):
        a = ' '.join(str(x) for x in args)
        lines.append(('vd %d %s %s' % (slot, op, a)).rstrip())
        return v.apply(op, a.split())
    do('init', [t, r, c, nf])
    if nf:
        do('set_frequency_vector', [vlib.d2h(1e9 * (i + 1)) for i in range(nf)])
    for f in range(nf):
        M = [rc(rng) for _ in range(r * c)]
        if t in (4, 8) or t == 9:
            M = [x * 30 for x in M]
        if r * c:
            do('set_matrix', [f] + [vlib.c2h(x) for x in M])
    ports = max(r, c)
    if perF and nf:
        for f in range(nf):
            do('set_fz0_vector', [f] + [vlib.c2h(z) for z in c04n.z0_vector(rng, ports)])
    elif ports:
        do('set_z0_vector', [vlib.c2h(z) for z in c04n.z0_vector(rng, ports)])
    if rng.random() < 0.3:
        do('set_fprecision', [rng.randint(1, 9)])
        do('set_filetype', [rng.randint(0, 3)])
    return lines, v


def conv_line(fn, n, cells, z0):
    if fn.endswith('n'):
        return 'convn %s %d sep %s %s' % (fn, n, ' '.join(cells), ' '.join(z0))
    return 'conv %s sep %s %s' % (fn, ' '.join(cells), ' '.join(z0 if z0 else [Z50, Z50]))


def run(chk):
    rng = random.Random(chk.seed * 1013 + 5)
    broken = []
    r = vlib.sh([sys.executable, os.path.join(vlib.VERIF, 'tools', 'tr_tables.py')])
    vlib.log(r.stdout.strip() or r.stderr[-300:])
    if r.returncode != 0:
        broken.append('tr_tables failed: ' + r.stderr[-300:])
    c15.proof_side(chk, ['Libvna.Props.C05'], THEOREMS, FILES, broken)
    chk.trusted += ['tools/tr_tables.py (clang AST of conversion_table, group_* arrays, enum values)',
                    'Model/VConvert.lean hand model of the control flow, tied by the correspondence run',
                    'numeric conversion functions: C04']
    chk.checker_cmd = 'python3-vt tools/tr_tables.py && cd lean && lake build Libvna.Props.C05 && #print axioms'
    exe, _ = vlib.build_c()
    quick = chk.tier == 'quick'
    # ---- scenarios
    scen = []
    pairs = [(a, b) for a in range(11) for b in range(11)]
    reps = (1 if quick else 6) * (5 if broken else 1)
    for rep_ in range(reps):
        for (src, dst) in pairs:
            for shape in ('2x2', 'NxN'):
                for inplace in (False, True):
                    if shape == '2x2':
                        r_, c_ = 2, 2
                    else:
                        n = rng.choice([1, 2, 3, 4, 5])
                        r_, c_ = n, n
                    if src == 10:
                        r_ = 1
                    if src == 0 and rng.random() < 0.5:
                        r_, c_ = rng.randint(0, 3), rng.randint(0, 3)
                    if not c15.VSpec or True:
                        pass
                    from props.vspec import validate_type
                    if not validate_type(src, r_, c_):
                        continue
                    # the first pass always has data to compare; empty objects are a class of the later passes and of one in five here
                    nf = rng.choice([1, 2, 3, 4]) if rep_ == 0 and rng.random() < 0.8 else rng.choice([0, 1, 2, 3, 4])
                    perF = rng.random() < 0.5
                    scen.append(dict(src=src, dst=dst, r=r_, c=c_, nf=nf, perF=perF, inplace=inplace))
    # phase 1: objects and oracle calls
    pre = []       # conv lines
    for sc in scen:
        lines, v = build_object(rng, 0, sc['src'], sc['r'], sc['c'], sc['nf'], sc['perF'])
        sc['build'], sc['spec'] = lines, v
        fn = manual_fn(sc['src'], sc['dst'], sc['r'])
        sc['fn'] = fn
        sc['valid'] = dims_ok(sc['src'], sc['dst'], sc['r'], sc['c'])
        sc['pre'] = []
        if sc['valid'] and fn:
            for f in range(sc['nf']):
                z0 = v.fz0[f] if v.perF else v.z0
                sc['pre'].append(len(pre))
                pre.append(conv_line(fn, sc['r'], v.data[f], z0[:sc['r']] if fn.endswith('n') else z0[:2]))
    pout, prc, perr = vlib.run_lines(exe, pre) if pre else ([], 0, '')
    if prc != 0 or len(pout) != len(pre):
        chk.violation('sanitizer-pre', 'harness died computing oracle values: ' + perr[-800:], pre[:3])
        return
    # phase 2: the conversions
    scripts = []
    for sc in scen:
        v = sc['spec']
        lines = list(sc['build'])
        exp = None
        dslot = 0 if sc['inplace'] else 1
        if not sc['inplace']:
            # a destination with unrelated previous content
            dl, dv = build_object(rng, 1, rng.choice([1, 0, 4]), *(lambda n: (n, n))(rng.randint(0, 3)), rng.randint(0, 3), rng.random() < 0.5)
            lines += dl
            sc['dspec'] = dv
        lines.append('vd 0 convert %d %d' % (dslot, sc['dst']))
        lines.append('vd %d digest' % dslot)
        sc['digest_at'] = len(lines) - 1
        if not sc['inplace']:
            lines.append('vd 0 digest')
        # expose hidden storage of the result
        lines.append('vd %d resize 0 %d %d %d' % (dslot, max(sc['r'], 2) + 1, max(sc['c'], 2) + 1, sc['nf'] + 1))
        lines.append('vd %d digest' % dslot)
        sc['expose_at'] = len(lines) - 1
        lines.append('vd 0 free')
        if not sc['inplace']:
            lines.append('vd 1 free')
        # expected result object (abstract)
        if sc['valid']:
            o = VSpec()
            fn = sc['fn']
            if fn.endswith('zin') or fn.endswith('zi'):
                o.resize(0, 1, min(sc['r'], sc['c']), 0)
            else:
                o.resize(0, sc['r'], sc['c'], 0)
            o.resize(0, o.rows, o.cols, sc['nf'])
            o.fvec = list(v.fvec)
            if v.perF and sc['nf']:
                o.perF = True
                o.fz0 = [list(row[:o.ports]) + [Z50] * (o.ports - len(row)) for row in v.fz0]
                o.z0 = []
            else:
                o.perF = v.perF if sc['inplace'] else False
                if o.perF:
                    o.fz0, o.z0 = [], []
                else:
                    o.z0 = (list(v.z0) + [Z50] * o.ports)[:o.ports]
            o.ft, o.fp, o.dp = v.ft, v.fp, v.dp
            o.type = sc['dst']
            if fn == '':
                o.data = [list(row) for row in v.data]
            else:
                o.data = []
                for k in sc['pre']:
                    w = pout[k].split()[1:]
                    o.data.append([w[i] + ' ' + w[i + 1] for i in range(0, len(w) - 1, 2)])
            sc['exp_digest'] = o.digest()
            o.resize(0, max(sc['r'], 2) + 1, max(sc['c'], 2) + 1, sc['nf'] + 1)
            sc['exp_expose'] = o.digest()
        sc['lines'] = lines
        scripts.append(lines)
    alll = [l for s in scripts for l in s]
    cout, crc, cerr = vlib.run_lines(exe, alll)
    if crc != 0 or len(cout) != len(alll):
        k = min(len(cout), len(alll) - 1)
        pos = 0
        for sc in scen:
            if pos <= k < pos + len(sc['lines']):
                chk.violation('sanitizer', 'library crashed / sanitizer fired in vnadata_convert scenario %s->%s:\n%s' % (sc['src'], sc['dst'], cerr[-1500:]), sc['lines'])
                break
            pos += len(sc['lines'])
        return
    mout, mrc, merr = vlib.run_lines(vlib.model_exe(), alll)
    if mrc != 0 or len(mout) != len(alll):
        broken.append('model driver failed: rc=%s %s' % (mrc, merr[-300:]))
        mout = None
    chk.rule = ('all 121 (from,to) pairs x {2x2, NxN N=1..5} x {in-place, into a destination with unrelated content} x 0..4 '
                'frequencies x ordinary/per-frequency z0; each followed by a resize that exposes hidden storage; '
                'non-trivial = the conversion was accepted and produced data')
    pos = 0
    nmis = 0
    for sc in scen:
        n = len(sc['lines'])
        out = cout[pos:pos + n]
        chk.evaluations += 1
        conv_at = sc['digest_at'] - 1
        res = out[conv_at]
        tag = '%d->%d %dx%d nf=%d %s %s' % (sc['src'], sc['dst'], sc['r'], sc['c'], sc['nf'], 'fz0' if sc['perF'] else 'z0', 'inplace' if sc['inplace'] else 'into')
        if sc['valid']:
            if not res.startswith('ok'):
                chk.violation('reject-valid', 'a conversion the manual documents was refused (%s): %s' % (tag, res), sc['lines'][:conv_at + 1])
            else:
                for at, key, what in ((sc['digest_at'], 'exp_digest', 'result'), (sc['expose_at'], 'exp_expose', 'result after exposing hidden storage')):
                    if not vlib.same_line(out[at], sc[key], 1e-9):
                        chk.violation('convert-' + key, 'vnadata_convert %s: %s differs from vnaconv applied per frequency / a fresh object\n  library : %s\n  expected: %s' % (
                            tag, what, out[at][:400], sc[key][:400]), sc['lines'][:at + 1])
                        break
                else:
                    chk.count('ok_' + ('zin' if sc['dst'] == 10 and sc['src'] != 10 else 'same' if sc['src'] == sc['dst'] else 'matrix'))
                    if sc['nf'] and sc['fn']:
                        chk.distinct.add(tag)
        else:
            # must be refused and the destination unchanged
            if not res.startswith('fail EINVAL'):
                chk.violation('accept-invalid', 'an invalid type/dimension combination was not refused (%s): %s' % (tag, res), sc['lines'][:conv_at + 1])
            else:
                want = (sc['spec'] if sc['inplace'] else sc['dspec']).digest()
                if not vlib.same_line(out[sc['digest_at']], want):
                    chk.violation('reject-frame', 'a refused conversion modified the output (%s)\n  library : %s\n  expected: %s' % (tag, out[sc['digest_at']][:300], want[:300]), sc['lines'][:sc['digest_at'] + 1])
                else:
                    chk.count('refused_unchanged')
        if mout is not None:
            d = vlib.first_diff(out, mout[pos:pos + n], 1e-8)
            if d is not None:
                nmis += 1
                if nmis <= 3:
                    broken.append('correspondence (%s): model and library differ at `%s`\n  library: %s\n  model  : %s' % (tag, sc['lines'][d][:100], out[d][:300], mout[pos + d][:300]))
        pos += n
    chk.extra['model_mismatches'] = nmis
    chk.samples = [scen[len(scen) // 3]['lines'][-8:], scen[-1]['lines'][-6:]]
    chain(chk, exe, rng, 40 if quick else 600)
    if not chk.violations:
        degenerate(chk, exe, rng, 1 if quick else 8)
    if broken and not chk.violations:
        chk.violation('obligation', 'proof/correspondence obligations that no longer check:\n' + '\n'.join(broken[:30]), nofail=True)


def degenerate(chk, exe, rng, reps):
    """in place equals into a second object, on objects a resize history left degenerate: no ports (0x0), no frequencies, with
    ordinary and per-frequency impedances, to every type"""
    for _ in range(reps):
        for t in (1, 4, 5, 2, 9):
            for (n1, nf1, n2, nf2) in ((2, 2, 0, 2), (2, 1, 2, 0), (3, 2, 0, 0), (2, 2, 2, 2), (1, 1, 0, 1), (0, 2, 0, 2), (0, 0, 0, 0), (0, 1, 0, 3)):
                for perF in (False, True):
                    if t not in (1, 4, 5) and n2 != 2:
                        continue        # the two-port-only types stay 2x2
                    n1_ = n1 if t in (1, 4, 5) else 2
                    bl, v = build_object(rng, 0, t, n1_, n1_, nf1, perF)
                    if perF and not (nf1 and n1_):
                        continue
                    bl.append('vd 0 resize %d %d %d %d' % (t, n2, n2, nf2))
                    both = bl + [l.replace('vd 0 ', 'vd 1 ', 1) for l in bl]
                    for dst, fresh in [(d_, f_) for d_ in range(11) for f_ in ((False, True) if nf2 == 0 else (rng.random() < 0.3,))]:
                        # the target: one that held other data before (a dirty target), or one vnadata_alloc just returned (it never held
                        # a frequency or a port: nothing is allocated in it)
                        s = both + ['vd 2 alloc'] + ([] if fresh else ['vd 2 init 5 3 3 2', 'vd 2 set_fz0 1 2 %s' % vlib.c2h(33.0)]) + [
                                    'vd 0 convert 0 %d' % dst, 'vd 1 convert 2 %d' % dst, 'vd 0 digest', 'vd 2 digest', 'vd 0 has_fz0', 'vd 2 has_fz0',
                                    'vd 0 free', 'vd 1 free', 'vd 2 free']
                        out, rc, err = vlib.run_lines(exe, s)
                        chk.evaluations += 1
                        tag = 'type %d, %dx%d with %d frequencies resized to %dx%d with %d, %s impedances, to type %d (%s target)' % (
                            t, n1_, n1_, nf1, n2, n2, nf2, 'per-frequency' if perF else 'ordinary', dst, 'fresh' if fresh else 'used')
                        if rc != 0 or len(out) != len(s):
                            chk.violation('sanitizer-degenerate', '%s: crash / sanitizer report:\n%s' % (tag, err[-1200:]), s[:len(out) + 1])
                            return
                        r_in, r_out = out[-9], out[-8]
                        if r_in.split()[0] != r_out.split()[0]:
                            chk.violation('degenerate-rc', '%s: in place answers %s, into a second object %s' % (tag, r_in[:40], r_out[:40]), s)
                            return
                        if r_in.startswith('ok') and (out[-7] != out[-6] or out[-5] != out[-4]):
                            chk.violation('degenerate-differs', '%s: in place and into a second object differ\n  in place: %s (%s)\n  second  : %s (%s)' % (
                                tag, out[-7][:300], out[-5], out[-6][:300], out[-4]), s)
                            return
                        chk.count('degenerate_' + ('ok' if r_in.startswith('ok') else 'refused'))
                        chk.distinct.add(('degenerate', t, n2, nf2, perF, dst, fresh))


def chain(chk, exe, rng, count):
    """A -> B -> C equals A -> C (through vnadata_convert, 2x2 objects)"""
    lines, cases = [], []
    for _ in range(count):
        a, b, c = rng.sample(range(1, 10), 3)
        bl, v = build_object(rng, 0, a, 2, 2, 2, rng.random() < 0.5)
        s = bl + ['vd 1 alloc', 'vd 2 alloc', 'vd 3 alloc', 'vd 0 convert 1 %d' % b, 'vd 1 convert 2 %d' % c, 'vd 0 convert 3 %d' % c,
                  'vd 2 digest', 'vd 3 digest', 'vd 0 free', 'vd 1 free', 'vd 2 free', 'vd 3 free']
        cases.append((len(lines), s, (a, b, c)))
        lines += s
    out, rc, err = vlib.run_lines(exe, lines)
    if rc != 0 or len(out) != len(lines):
        chk.violation('sanitizer-chain', 'library crashed in chain scenario: ' + err[-800:], lines[:40])
        return
    for pos, s, abc in cases:
        chk.evaluations += 1
        d2, d3 = out[pos + len(s) - 6], out[pos + len(s) - 5]
        seg = d2.split(' D')[1].split(' Z')[0] if ' D' in d2 else ''
        vals = [abs(vlib.h2d(x)) for x in seg.split() if len(x) == 16]
        if not d2.startswith('ok') or any(x != x or x > 1e4 for x in vals):
            chk.count('chain_skipped')
            continue
        if not vlib.same_line(d2, d3, 1e-6):
            chk.violation('chain', 'converting %d->%d->%d differs from %d->%d\n  via : %s\n  direct: %s' % (abc[0], abc[1], abc[2], abc[0], abc[2], d2[:300], d3[:300]), s)
            return
        chk.count('chain_ok')
        chk.distinct.add(('chain',) + abc)


def replay(chk, path):
    return c15.replay(chk, path)
