"""C16 — calibration and parameter handles stay valid, distinct and correctly indexed.

Proof side : Libvna.Props.C16 — add returns the index find then reports, replace in place, delete empties one
             slot, end is one past the highest live index; the slot handed out by the parameter allocator was
             free (handles unique while live), predefined handles permanent, refused deletes change nothing.
Tie        : Model/CalTable.lean executed in lock-step with the compiled C on every line it models.
Oracle     : an abstract table (name -> index, set of live handles with their values) replayed over the history.
"""
import os, random
import numpy as np
import vlib
from props import calsim, c15

THEOREMS = ['Libvna.CT.' + t for t in (
    'findName_spec', 'firstNone_spec', 'add_index', 'add_frame', 'add_replaces_in_place', 'add_then_find', 'delete_one_slot',
    'delete_empties', 'calEnd_spec', 'scanFree_spec', 'alloc_fresh', 'alloc_frame', 'setup_predefined', 'predefined_permanent',
    'delete_refused_frame')] + ['Libvna.PH.' + t for t in (
    'lookupL_iff', 'lookup_iff', 'put_inv', 'put_mem', 'expand_spec', 'insert_spec', 'build_spec', 'lookup_build')]
FILES = ['Model/CalTable.lean', 'Props/C16.lean', 'Driver/CalDrv.lean', 'Model/ParamHash.lean', 'Props/C16Hash.lean']
NAMES = [b'a', b'b', b'cal one', b'x', b'y', b'z', b'n1', b'n2', b'n3', b'n4', b'n5']


def history(rng, exe, length, box, f0=1e9):
    """drive one random handle history interactively; returns (session, error text or None)"""
    S = vlib.Session(exe)
    live = {0: 0j, 1: 1 + 0j, 2: -1 + 0j}      # valid handles -> scalar value (None: vector / unknown)
    dead = set()
    cals = {}                                 # name -> (index, dut-independent marker)
    news = {}                                 # slot -> dict(used, vals, codes)
    vecs = {}                                 # handle of a vector parameter -> (frequencies, values)

    def val(o):
        w = o.split()
        return int(w[1]) if len(w) > 1 and w[0] == 'ok' else None

    def fail(msg):
        return S, msg + '\n  at `%s` -> %s' % (S.lines[-1][:100], S.outs[-1][:100])

    def check_end():
        e = val(S.send('cal get_calibration_end 0'))
        if e != (max(cals.values()) + 1 if cals else 0):
            return 'get_calibration_end returned %s: not one past the highest live index %s (live indices %s)' % (
                e, max(cals.values()) if cals else None, sorted(cals.values()))
        for name, ci in list(cals.items())[:3]:
            if val(S.send('cal find_calibration 0 ' + vlib.hexbytes(name))) != ci:
                return 'find(%r) no longer returns index %d' % (name, ci)
        return None
    if not S.send('cal create 0').startswith('ok'):
        return fail('create failed')
    for _ in range(length):
        r = rng.random()
        ready = [n for n in news if len(news[n]['codes']) >= 3]
        if ready and rng.random() < 0.45:
            r = 0.85
        elif len(cals) >= 2 and rng.random() < 0.08:
            r = 0.93
        lv = [h for h in live if h >= 3]
        if r < 0.16:
            # (values that share the real or the imaginary part with a predefined one are ordinary scalars)
            g = rng.choice([0j, 1 + 0j, -1 + 0j, calsim.rc(rng, 0.5), calsim.rc(rng, 0.5), calsim.rc(rng, 0.5),
                            complex(rng.choice([1.0, -1.0, 0.0]), rng.choice([0.25, -0.5, 1.0, -1.0])), complex(rng.choice([0.5, -0.3]), 0.0)])
            h = val(S.send('cal make_scalar 0 ' + vlib.c2h(g)))
            if h is None:
                return fail('make_scalar failed')
            if g in (0j, 1 + 0j, -1 + 0j):
                if h != {0j: 0, 1 + 0j: 1, -1 + 0j: 2}[g]:
                    return fail('make_scalar(%r) did not return the predefined handle' % g)
            else:
                if h in live or h < 3:
                    return fail('make_scalar returned handle %d which is already a live handle' % h)
                live[h] = g
                dead.discard(h)
        elif r < 0.22:
            k = rng.randint(1, 3)
            fs = [f0 * (0.5 + i) for i in range(k)]
            if rng.random() < 0.4:
                # a narrow-band sweep around the calibration frequency: neighbouring points a few hertz to a few kilohertz apart
                k = rng.randint(2, 6)
                step = rng.choice([1.0, 100.0, 1e3, 1e5])
                fs = [f0 + step * (i - rng.randrange(k)) for i in range(k)]
                fs = sorted(set(fs))
                if f0 not in fs:
                    fs = sorted(fs + [f0])
            vs = [calsim.rc(rng, 0.4) for _ in fs]
            h = val(S.send('cal make_vector 0 %d %s %s' % (len(fs), ' '.join(vlib.d2h(x) for x in fs), ' '.join(vlib.c2h(v) for v in vs))))
            if h is None or h in live or h < 3:
                return fail('make_vector failed or returned a live handle')
            live[h] = None
            vecs[h] = (fs, vs)
            dead.discard(h)
        elif r < 0.30:
            other = rng.choice(list(live) + list(dead) + [-1, 99]) if rng.random() < 0.4 else rng.choice(list(live))
            o = S.send('cal make_unknown 0 %d' % other)
            if other in live:
                h = val(o)
                if h is None or h in live or h < 3:
                    return fail('make_unknown of a valid handle failed or returned a live handle')
                live[h] = None
                dead.discard(h)
            elif not o.startswith('fail EINVAL'):
                return fail('make_unknown of an invalid handle should fail with EINVAL')
        elif r < 0.33:
            # correlated with any live parameter; over a 2-point vector (directly or through unknowns) the sigma frequencies may be borrowed
            other = rng.choice(list(live))
            o = S.send('cal make_correlated 0 %d 1 N %s' % (other, vlib.d2h(0.05)))
            h = val(o)
            if h is None or h in live or h < 3:
                return fail('make_correlated of a valid handle failed or returned a live handle')
            live[h] = None
            dead.discard(h)
        elif r < 0.44:
            h = rng.choice(lv + list(dead) + [0, 1, 2, 57]) if rng.random() < 0.5 or not lv else rng.choice(lv)
            o = S.send('cal delete_parameter 0 %d' % h)
            if h in (0, 1, 2):
                if not o.startswith('ok'):
                    return fail('delete of a predefined handle must be accepted')
            elif h in live:
                if not o.startswith('ok'):
                    return fail('delete of live handle %d failed' % h)
                del live[h]
                vecs.pop(h, None)
                dead.add(h)
            elif not o.startswith('fail EINVAL'):
                return fail('delete of a deleted / unknown handle should fail with EINVAL')
        elif r < 0.54:
            h = rng.choice(list(live) + list(dead))
            o = S.send('cal get_parameter_value 0 %d %s' % (h, vlib.d2h(f0)))
            if h in live and live[h] is not None:
                if not (o.startswith('ok') and vlib.hs2c(o.split()[-2:])[0] == live[h]):
                    return fail('value of scalar handle %d is not the supplied %r' % (h, live[h]))
            elif h in live and h in vecs:
                # at a frequency the vector was given for, the value is the one given for it
                fs, vs = vecs[h]
                for i in rng.sample(range(len(fs)), min(len(fs), 3)):
                    o = S.send('cal get_parameter_value 0 %d %s' % (h, vlib.d2h(fs[i])))
                    if not (o.startswith('ok') and vlib.hs2c(o.split()[-2:])[0] == vs[i]):
                        return fail('vector parameter %d given %r at %.17g Hz (point %d of %d)' % (h, vs[i], fs[i], i + 1, len(fs)))
            elif h in dead and not o.startswith('fail EINVAL'):
                return fail('value of a deleted handle should fail with EINVAL')
        elif r < 0.62:
            free = [n for n in range(3) if n not in news]
            if free:
                n = free[0]
                news[n] = dict(used=set(), vals={}, codes=set())
                if not S.send('cal new_alloc 0 %d 0 1 1 1' % n).startswith('ok') or not S.send('cal new_set_frequency_vector %d %s' % (n, vlib.d2h(f0))).startswith('ok'):
                    return fail('new_alloc / set_frequency_vector failed')
        elif r < 0.80 and news:
            n = rng.choice(list(news))
            N = news[n]
            cands = [h for h in live if live[h] is not None] + [h for h in N['used'] if h in dead]
            if rng.random() < 0.15:
                cands = list(dead - N['used']) + [-1, 77]
            h = rng.choice(cands)
            usable = (h in live and live[h] is not None) or (h in N['used'])
            if usable:
                v = live.get(h, N['vals'].get(h))
                M = box.measure([[v]], 0)
                o = S.send('cal add %d single_reflect m 1 %s %d 1' % (n, calsim.cells([np.array(M)]), h))
                if not o.startswith('ok'):
                    return fail('standard with %s handle %d refused' % ('deleted-but-in-use' if h not in live else 'live', h))
                N['used'].add(h)
                N['vals'][h] = v
                N['codes'].add(complex(round(v.real, 9), round(v.imag, 9)))
                m = table_ok(S.send('cal hash_dump %d' % n), {0} | N['used'])
                if m:
                    return fail(m)
            else:
                o = S.send('cal add %d single_reflect m 1 1 1 %s %d 1' % (n, vlib.c2h(0.1), h))
                if not o.startswith('fail EINVAL'):
                    return fail('standard with invalid handle %d should be refused with EINVAL' % h)
                m = table_ok(S.send('cal hash_dump %d' % n), {0} | N['used'])
                if m:
                    return fail(m)
        elif r < 0.88 and news:
            n = rng.choice(ready) if ready else rng.choice(list(news))
            N = news[n]
            if len(N['codes']) >= 3:
                if not S.send('cal solve %d' % n).startswith('ok'):
                    return fail('solve with %d distinct known reflects failed' % len(N['codes']))
                name = rng.choice(NAMES)
                ci = val(S.send('cal add_calibration 0 %s %d' % (vlib.hexbytes(name), n)))
                if ci is None:
                    return fail('add_calibration failed')
                if name in cals:
                    if ci != cals[name]:
                        return fail('adding existing name %r did not replace slot %d' % (name, cals[name]))
                elif ci in cals.values():
                    return fail('add_calibration returned index %d which holds another calibration' % ci)
                cals[name] = ci
                m = check_end()
                if m:
                    return fail(m)
                dut = [[calsim.rc(rng, 0.5)]]
                o = S.send('cal apply 0 %d m 1 %s %s' % (ci, vlib.d2h(f0), calsim.cells([np.array(box.measure(dut, 0))])))
                ok, Sm = calsim.parse_apply(o, 1)
                if not ok or abs(Sm[0][0, 0] - dut[0][0]) > 1e-8:
                    return fail('calibration built from (partly deleted) handles does not correct a device')
        elif r < 0.91 and news:
            n = rng.choice(list(news))
            del news[n]
            if not S.send('cal new_free %d' % n).startswith('ok'):
                return fail('new_free failed')
        elif r < 0.95:
            if cals and rng.random() < 0.7:
                name = rng.choice(list(cals))
                if not S.send('cal delete_calibration 0 %d' % cals[name]).startswith('ok'):
                    return fail('delete_calibration of a live index failed')
                del cals[name]
                m = check_end()
                if m:
                    return fail(m)
            else:
                bad = rng.choice([-1, 50] + [i for i in range(12) if i not in cals.values()])
                if not S.send('cal delete_calibration 0 %d' % bad).startswith('fail ENOENT'):
                    return fail('delete of an empty slot should fail with ENOENT')
        else:
            name = rng.choice(NAMES)
            o = S.send('cal find_calibration 0 ' + vlib.hexbytes(name))
            if name in cals:
                if val(o) != cals[name]:
                    return fail('find(%r) does not return the index add returned (%d)' % (name, cals[name]))
                o = S.send('cal get_info 0 %d' % cals[name])
                if not (o.startswith('ok') and o.split()[3] == 'x' + name.hex()):
                    return fail('get_name at the index of %r is different' % name)
            elif not o.startswith('fail'):
                return fail('find of an absent name succeeded')
            e = val(S.send('cal get_calibration_end 0'))
            if e != (max(cals.values()) + 1 if cals else 0):
                return fail('get_calibration_end is not one past the highest live index %s' % (max(cals.values()) if cals else None))
    if not S.send('cal free 0').startswith('ok'):
        return fail('free failed')
    if S.send('cal live') != 'ok live=0':
        return fail('allocations remain after vnacal_free')
    return S, None


def table_ok(o, want):
    """the per-calibration parameter table (hook _vnacal_new_verif_hash_dump) holds exactly the parameters the vnacal_new_t uses, each once,
    in the chain of its residue, every chain ascending (what hash_lookup's early stop relies on)"""
    t = o.split()
    if not t or t[0] != 'ok':
        return 'hash_dump failed: %s' % o[:80]
    size = int(t[1])
    chains = ' '.join(t[2:]).split(';')[:-1]
    if len(chains) != size or size < 1:
        return 'parameter table: %d chains dumped for an allocation of %d' % (len(chains), size)
    seen = []
    for i, c in enumerate(chains):
        es = [int(x) for x in c.split()]
        if any(a >= b for a, b in zip(es, es[1:])):
            return 'parameter table: chain %d is not in ascending order: %s' % (i, es)
        if any(e % size != i for e in es):
            return 'parameter table: chain %d holds an index of another residue: %s' % (i, es)
        seen += es
    if sorted(seen) != sorted(want):
        return 'parameter table holds %s, the vnacal_new_t uses %s' % (sorted(seen), sorted(want))
    return None


def run(chk):
    rng = random.Random(chk.seed * 53 + 16)
    broken = []
    c15.proof_side(chk, ['Libvna.Props.C16', 'Libvna.Props.C16Hash'], THEOREMS, FILES, broken)
    chk.trusted += ['Model/CalTable.lean hand model tied by the correspondence run; tools/props/c16.py abstract table as oracle',
                    'Model/ParamHash.lean hand model of the per-calibration parameter table, tied chain by chain through the guarded hook _vnacal_new_verif_hash_dump']
    chk.checker_cmd = 'cd lean && lake build Libvna.Props.C16 Libvna.Props.C16Hash && #print axioms'
    exe, _ = vlib.build_c()
    quick = chk.tier == 'quick'
    nh = (60 if quick else 1500) * (4 if broken else 1)
    nmis = 0
    lines = []
    for k in range(nh):
        box = calsim.ErrorBox(rng, 'T8', 1, 1, 1)
        S, e = history(rng, exe, 60 if quick else 100, box)
        rc, err = S.close()
        lines = S.lines
        chk.evaluations += 1
        if S.dead or rc != 0:
            def dies(ls):
                return vlib.run_lines(exe, ls)[1] != 0
            small = vlib.shrink(lines, dies) if dies(lines) else lines
            o2, rc2, err2 = vlib.run_lines(exe, small)
            chk.violation('sanitizer', 'library crashed / sanitizer fired in a handle history:\n' + (err2 or err)[-1500:], small)
            break
        if e:
            chk.violation('table', 'handle/index table: ' + e, lines)
            break
        mout, mrc, merr = vlib.run_lines(vlib.model_exe(), lines)
        if mrc == 0 and len(mout) == len(lines):
            for l, o, m in zip(lines, S.outs, mout):
                if m == 'unmodelled':
                    continue
                if o != m:
                    nmis += 1
                    if nmis <= 3:
                        broken.append('correspondence: model and library differ at `%s`\n  library: %s\n  model  : %s' % (l[:100], o[:80], m[:80]))
                    break
                chk.count('model_lines_compared')
        else:
            broken.append('model driver failed: %s' % merr[-200:])
        chk.distinct.add(hash(tuple(lines)))
        for l in lines:
            chk.count('op_' + l.split()[1])
    chk.rule = ('random histories of make_scalar/vector/unknown, delete_parameter, get_parameter_value, new_alloc/add/solve/add_calibration/new_free over up to '
                'three vnacal_new_t, delete/find/get_name/get_calibration_end, with deleted, reused, predefined, negative and out-of-range handles and indices; '
                'every calibration built (also from handles deleted while in use) must correct a device')
    chk.extra['model_mismatches'] = nmis
    if not chk.violations:
        many_handles(chk, exe, rng, 3 if chk.tier == 'quick' else 40, broken)
    # values of solved unknown parameters are those last solved: the same handle solved by two vnacal_new_t on different grids
    from props import c02
    if not chk.violations:
        c02.resolve_histories(chk, exe, rng, 1 if chk.tier == 'quick' else 10)
    chk.samples = [[l[:90] for l in lines[:12]]]
    if broken and not chk.violations:
        chk.violation('obligation', 'proof/correspondence obligations that no longer check:\n' + '\n'.join(broken[:30]), nofail=True)


def many_handles(chk, exe, rng, reps, broken):
    """one vnacal_new_t holding many parameters (its per-calibration table grows several times); every handle is deleted while the
    vnacal_new_t uses it and then used there again: it must still be the same parameter (vnacal_delete_parameter(3))"""
    for rep in range(reps):
        typ = rng.choice(['T8', 'U8', 'E12'])
        sc = calsim.Scenario(rng, typ, 1, 1, 1).begin()
        for code in (calsim.SHORT, calsim.OPEN, calsim.MATCH):
            sc.add_reflect(1, code)
        nh = 70 if rep == 0 else rng.choice([9, 17, 24, 35])
        gam = {}
        for k in range(nh):
            g = complex(rng.uniform(-0.8, 0.8), rng.uniform(-0.8, 0.8))
            sc.lines.append('cal make_scalar %d %s' % (sc.c, vlib.c2h(g)))
            gam[3 + k] = g
        order = list(gam)
        used, dumps = {0, 1, 2}, []        # short, open and match are held from the start
        if rep == 0:
            # handles that are congruent modulo 8, 16, 32, 64 next to each other: whenever the table grows, some share a chain
            order.sort(key=lambda hd: (hd % 8, hd))
        else:
            rng.shuffle(order)

        def add(hd):
            S = [calsim.embed(1, [0], [[gam[hd]]], sc.others)]
            sc.lines.append('cal add %d single_reflect %s %d %d' % (sc.n, sc.mtext(sc.meas(S)), hd, 1))
            sc.lines.append('cal hash_dump %d' % sc.n)
            used.add(hd)
            dumps.append((len(sc.lines) - 1, set(used)))
        # every handle is deleted right after its first use (the vnacal_new_t keeps it); earlier ones are used again after every
        # further addition, i.e. in every state of the growing table
        done = []
        for hd in order:
            add(hd)
            sc.lines.append('cal delete_parameter %d %d' % (sc.c, hd))
            done.append(hd)
            for h2 in rng.sample(done, min(len(done), 2)):
                add(h2)
        sc.solve().add_calibration()
        dut = sc.random_dut()
        sc.lines.append(sc.apply_line(0, dut))
        iapply = len(sc.lines) - 1
        sc.lines += ['cal free 0', 'cal live']
        out, rc, err = vlib.run_lines(exe, sc.lines, timeout=300)
        chk.evaluations += 1
        tag = 'many handles (%d) in one %s vnacal_new_t' % (nh, typ)
        if rc != 0 or len(out) != len(sc.lines):
            chk.violation('sanitizer-many', '%s: crashed / sanitizer report:\n%s' % (tag, err[-1200:]), sc.lines[:len(out) + 1])
            return
        bad = [(l, x) for l, x in zip(sc.lines[:iapply + 1], out) if not x.startswith('ok')]
        if bad:
            chk.violation('held-handle', '%s: `%s` -> %s (a handle deleted while the vnacal_new_t uses it must keep working there)' % (
                tag, bad[0][0][:60] + ' ... ' + bad[0][0][-12:], bad[0][1][:100]), sc.lines[:sc.lines.index(bad[0][0]) + 1])
            return
        for i, want in dumps:
            m = table_ok(out[i], want)
            if m:
                chk.violation('param-table', '%s: %s' % (tag, m), sc.lines[:i + 1])
                return
        mout, mrc, merr = vlib.run_lines(vlib.model_exe(), sc.lines, timeout=300)
        if mrc != 0 or len(mout) != len(sc.lines):
            broken.append('model driver failed on a many-handles script: %s' % merr[-200:])
        else:
            for i, want in dumps:
                if mout[i] != out[i]:
                    broken.append('correspondence: Model/ParamHash and the library table differ after `%s`\n  library: %s\n  model  : %s' % (
                        sc.lines[i - 1][-24:], out[i][:160], mout[i][:160]))
                    break
                chk.count('param_table_dumps_compared')
        ok, S = calsim.parse_apply(out[iapply], 1)
        e = max(np.abs(S[f] - dut[f]).max() for f in range(len(dut))) if ok else float('inf')
        if not e <= 1e-7:
            chk.violation('many-apply', '%s: the calibration does not correct a device (error %.3e)' % (tag, e), sc.lines[:iapply + 1])
            return
        if out[-1] != 'ok live=0':
            chk.violation('many-leak', '%s: allocations remain: %s' % (tag, out[-1]), sc.lines)
            return
        chk.count('many_handles_ok')
        chk.distinct.add(('many', typ, nh))


def replay(chk, path):
    from props import c01
    return c01.replay(chk, path)
