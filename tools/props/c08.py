"""C08 — equivalent spellings of a Touchstone / NPD file load to the same network data.

Proof side : Libvna.Props.C08 — the option line is a fold in which every token sets one field: its result does not depend
             on letter case, nor on the order of the items when no field is given twice; unit scaling is inverted exactly
             over a field; Upper / Lower / Full and 12_21 / 21_12 records of the same matrix load to the same cells and the
             Touchstone 1 framing (21_12 order, R-normalised) of a two-port equals the Touchstone 2 framing (corollaries of
             the C06 theorems).
Tie        : Model/TsOption.lean executed against the compiled C on random option lines (valid, repeated, malformed).
Oracle     : ground-truth networks are written in many spellings by an independent writer (tools/props/nfile.py); every
             spelling must load to the ground truth: type, dimensions, frequencies, impedances, values (to rounding).
"""
import math, os, random
import numpy as np
import vlib
from props import c15, nfile, c06

THEOREMS = ['Libvna.TsOpt.' + t for t in ('parse_case_insensitive', 'step_comm', 'parse_perm', 'parse_defaults', 'unit_scaling_exact')] + \
           ['Libvna.FF.' + t for t in ('upper_equiv_full', 'lower_equiv_full', 'orders_equivalent', 'ts1_framing_equiv')]
FILES = ['Model/TsOption.lean', 'Model/FileFmt.lean', 'Props/C08.lean', 'Driver/FFDrv.lean']
h = vlib.hexbytes
TYPE = c06.TYPE


def gen_net(rng, version):
    param = rng.choice(['s', 's', 'z', 'y', 'h', 'g'])
    n = 2 if param in 'hg' else rng.choice([1, 2, 2, 3, 4] + ([5, 6] if version == 2 else []))
    nf = rng.randint(1, 4)
    f0 = rng.choice([1e3, 2.5e6, 1e9, 3.3e10])
    freqs = [f0 * (1 + 0.37 * k) for k in range(nf)]
    if rng.random() < 0.15:
        freqs = [0.0] + freqs[:-1] if nf > 1 else [0.0]          # a grid that starts at the DC point
    scale = {'z': 50.0, 'y': 0.02}.get(param, 1.0)
    sym = rng.random() < 0.5
    data = []
    for _ in range(nf):
        M = [[complex(rng.gauss(0, 1), rng.gauss(0, 1)) * scale for _ in range(n)] for _ in range(n)]
        if sym:
            for a in range(n):
                for b in range(a):
                    M[a][b] = M[b][a]
        data.append(M)
    if version == 2 and rng.random() < 0.4:
        z0 = [complex(rng.choice([50.0, 75.0, 100.0, 12.5])) for _ in range(n)]
    else:
        z0 = [complex(rng.choice([50.0, 75.0, 1.0, 100.0]))] * n
    return dict(param=param, ports=n, freqs=freqs, data=data, z0=z0, sym=sym)


def write_npd(rng, net, kinds, messy=True):
    """an NPD spelling of the network: header lines in any order, the parameter list separated by commas or blanks, comments, spacing"""
    n = net['ports']
    sp = (lambda: rng.choice([' ', '  ', '\t'])) if messy else (lambda: ' ')
    blocks = [(net['param'], k) for k in kinds]
    hdr = [('version', '1.0'), ('ports', str(n)), ('frequencies', str(len(net['freqs']))),
           ('parameters', (rng.choice([',', ' ', '  ', '\t']) if messy else ',').join((net['param'] if rng.random() < 0.5 else net['param'].upper()) + k for _, k in blocks))]
    if messy and rng.random() < 0.5:
        hdr.append(('fprecision', str(rng.randint(1, 15))))
    if messy and rng.random() < 0.5:
        hdr.append(('dprecision', str(rng.randint(1, 15))))
    z0line = ('z0', ' '.join('%s %sj' % (nfile.fmt_num(rng, z.real, 'r'), nfile.fmt_num(rng, z.imag, 'plus')) for z in net['z0']))
    if messy:
        rng.shuffle(hdr)
        hdr.insert(rng.randint(0, len(hdr)), z0line)
    else:
        hdr.append(z0line)
    out = ['#NPD'] if not messy or rng.random() < 0.7 else []
    for k, v in hdr:
        out.append('#:' + k + sp() + v)
        if messy and rng.random() < 0.2:
            out.append(rng.choice(['#', '# a comment', '', '#: ', '#!x']))
    for f, M in zip(net['freqs'], net['data']):
        toks = [nfile.fmt_num(rng, f)]
        for _, k in blocks:
            for row in M:
                for v in row:
                    a, b = nfile.to_coords(k, v)
                    toks += [nfile.fmt_num(rng, a), nfile.fmt_num(rng, b)]
        out.append((sp() if messy and rng.random() < 0.3 else '') + sp().join(toks) + (sp() if messy and rng.random() < 0.3 else ''))
        if messy and rng.random() < 0.15:
            out.append(rng.choice(['', '# between', '   ']))
    return '\n'.join(out) + '\n'


def option_lines(rng, count):
    """random option lines for the correspondence run: (text, expected by the model is obtained from vmodel)"""
    words = ['hz', 'khz', 'mhz', 'ghz', 'thz', 's', 'y', 'z', 'h', 'g', 'db', 'ma', 'ri']
    out = []
    for _ in range(count):
        toks = []
        for _ in range(rng.randint(0, 6)):
            r = rng.random()
            if r < 0.6:
                w = rng.choice(words)
                toks.append(''.join(c.upper() if rng.random() < 0.5 else c for c in w))
            elif r < 0.85:
                toks += [rng.choice(['R', 'r']), rng.choice(['50', '75.5', '1e2', '1', '0.5', '100', '12.5'])]
            elif r < 0.92:
                toks.append(rng.choice(['R', 'r']))
            else:
                toks.append(rng.choice(['x', 'hzz', 'dbm', '50', 'rr', 'sz']))
        out.append(toks)
    return out


def run(chk):
    rng = random.Random(chk.seed * 67 + 8)
    broken = []
    if os.environ.get('VERIF_DEV_NOPROOF') != '1':
        c15.proof_side(chk, ['Libvna.Props.C08'], THEOREMS, FILES, broken)
    chk.trusted += ['tools/props/nfile.py: independent writer of Touchstone 1/2 per the specification and of NPD per its header keywords',
                    'strtod / libm of the platform']
    chk.checker_cmd = 'cd lean && lake build Libvna.Props.C08 && #print axioms'
    exe, _ = vlib.build_c()
    quick = chk.tier == 'quick'
    N = (60 if quick else 1200) * (3 if broken else 1)
    lines, cases = [], []
    for k in range(N):
        kind = rng.choice(['ts1', 'ts2', 'ts2', 'npd'])
        if kind == 'npd':
            net = gen_net(rng, 2)
            net['z0'] = [complex(z.real, rng.choice([0, 0, 5.0])) for z in net['z0']]
            variants = []
            for v in range(4):
                ks = rng.choice([['ri'], ['ma'], ['ri', 'ma'], ['ma', 'ri']] + ([['db'], ['db', 'ri']] if net['param'] == 's' else []))
                variants.append(('x%d.npd' % v, write_npd(rng, net, ks, messy=v > 0), 'npd %s' % ks, 0))
        else:
            version = 1 if kind == 'ts1' else 2
            net = gen_net(rng, version)
            variants = []
            for v in range(6):
                ver = version
                # the same data in the other framing where it can express them
                if v >= 4 and net['ports'] <= 4 and all(z == net['z0'][0] for z in net['z0']):
                    ver = 3 - version
                unit = rng.choice(['hz', 'khz', 'mhz', 'ghz'])
                fmt = rng.choice(['ri', 'ma', 'db'])
                order = rng.choice(['12_21', '21_12'])
                mformat = rng.choice(['full', 'upper', 'lower']) if (ver == 2 and net['sym']) else 'full'
                noise = [net['freqs'][0] * 0.9, net['freqs'][0] * 1.1] if (net['ports'] == 2 and rng.random() < 0.15) else None
                txt = nfile.write_touchstone(rng, net, ver, unit=unit, fmt=fmt, order=order, mformat=mformat, noise=noise, messy=v > 0)
                name = ('x.s%dp' % net['ports']) if ver == 1 and rng.random() < 0.7 else 'x.ts'
                variants.append((name, txt, 'v%d %s %s %s %s%s' % (ver, unit, fmt, order, mformat, ' noise' if noise else ''), ver))
        for (name, txt, desc, ver) in variants:
            cases.append((net, name, txt, desc, len(lines)))
            lines += ['vd 0 alloc', 'vd 0 loadstr %s x%s' % (h(name), txt.encode().hex()), 'vd 0 digest', 'vd 0 free']
    lines.append('cal live')
    out, rc, err = vlib.run_lines(exe, lines, timeout=3000)
    if rc != 0 or len(out) != len(lines):
        k = min(len(out), len(lines) - 1)
        chk.violation('sanitizer', 'library crashed / sanitizer fired while loading a spelling:\n%s' % err[-1500:], lines[max(0, k - 2):k + 1])
        return
    if out[-1] != 'ok live=0':
        chk.violation('leak', 'allocations remain: %s' % out[-1], lines[:8])
    nbad = 0
    for (net, name, txt, desc, i) in cases:
        chk.evaluations += 1
        tag = '%s %d-port %s, spelling %s as %s' % (net['param'].upper(), net['ports'], 'symmetric' if net['sym'] else 'general', desc, name)
        rep = lines[i:i + 3] + ['# file:'] + ['# ' + x for x in txt.split('\n')[:30]]
        problem = None
        if not out[i + 1].startswith('ok'):
            problem = ('refused', 'a valid spelling is rejected: %s' % out[i + 1][:60])
        else:
            d = c06.parse_digest(out[i + 2])
            n = net['ports']
            if c06.TNAME.get(d['type']) != net['param'] or d['rows'] != n or d['cols'] != n or d['nf'] != len(net['freqs']):
                problem = ('shape', 'loaded as type %s %dx%dx%d' % (c06.TNAME.get(d['type']), d['rows'], d['cols'], d['nf']))
            else:
                for q in range(n):
                    if not abs(d['z0'][q] - net['z0'][q]) <= 1e-12 * abs(net['z0'][q]):
                        problem = ('z0', 'reference impedance of port %d loaded as %r, ground truth %r' % (q + 1, d['z0'][q], net['z0'][q]))
                for k, f in enumerate(net['freqs']):
                    if not abs(d['freqs'][k] - f) <= 1e-12 * f:
                        problem = problem or ('frequency', 'frequency %d loaded as %r, ground truth %r' % (k, d['freqs'][k], f))
                    sc = max(abs(v) for row in net['data'][k] for v in row)
                    for a in range(n):
                        for b in range(n):
                            if not abs(d['data'][k][a][b] - net['data'][k][a][b]) <= 1e-9 * sc:
                                problem = problem or ('value', '%s%d%d at frequency %d loaded as %r, ground truth %r' % (
                                    net['param'].upper(), a + 1, b + 1, k, d['data'][k][a][b], net['data'][k][a][b]))
        if problem:
            nbad += 1
            if nbad <= 4:
                chk.violation('spelling-' + problem[0], '%s: %s' % (tag, problem[1]), rep)
        else:
            chk.count('loaded_' + desc.split()[0])
            chk.distinct.add((net['param'], net['ports'], desc))
    # correspondence: the option-line model against the C
    ol = option_lines(rng, 150 if quick else 2000)
    clines, mlines = [], []
    for toks in ol:
        txt = '# ' + ' '.join(toks) + '\n1 0.5 0.25 0.1 0 0.2 0 0.3 0\n'
        clines += ['vd 0 alloc', 'vd 0 loadstr %s x%s' % (h('o.s2p'), txt.encode().hex()), 'vd 0 digest', 'vd 0 free']
        mlines.append('ff option ' + ' '.join(toks))
    cout, crc, cerr = vlib.run_lines(exe, clines)
    mout, mrc, merr = vlib.run_lines(vlib.model_exe(), mlines)
    if crc != 0 or mrc != 0 or len(mout) != len(mlines):
        broken.append('correspondence (option line): harness rc=%s model rc=%s %s' % (crc, mrc, (cerr or merr)[-300:]))
    else:
        nm = 0
        for k, (toks, mo) in enumerate(zip(ol, mout)):
            lo, dg = cout[4 * k + 1], cout[4 * k + 2]
            if not lo.startswith('ok'):
                cres = 'fail'
            else:
                d = c06.parse_digest(dg)
                if d['nf'] != 1 or d['rows'] != 2:
                    nm += 1
                    broken.append('correspondence: option line `# %s`: loaded %dx%dx%d from a one-line two-port file' % (' '.join(toks), d['rows'], d['cols'], d['nf']))
                    continue
                f, v, z = d['freqs'][0], d['data'][0][0][0], d['z0'][0]
                mult = round(math.log10(f))
                # value 0.5 0.25 under the three coordinate systems (S: no normalisation; Z, Y: by R)
                t = c06.TNAME[d['type']]
                raw = v / z.real if t in 'zh' else (v * z.real if t in 'yg' else v)     # entry 11 of Z, H is in ohms, of Y, G in siemens
                fm = 'R' if abs(raw - complex(0.5, 0.25)) < 1e-12 else ('M' if abs(abs(raw) - 0.5) < 1e-12 else 'D')
                cres = 'ok %d %s %s %s' % (mult, t, fm, vlib.d2h(z.real))
            if cres != mo:
                nm += 1
                if nm <= 3:
                    broken.append('correspondence: option line `# %s`: C %s, model %s' % (' '.join(toks), cres, mo))
            else:
                chk.count('option_same_' + cres.split()[0])
        chk.extra['option_mismatches'] = nm
    chk.rule = ('ground-truth networks (S, Z, Y 1..6 ports, H, G; symmetric and general) written as Touchstone 1 and 2 with unit Hz/kHz/MHz/GHz x RI/MA/DB x '
                '12_21/21_12 x Full/Upper/Lower x letter case x comments x blank lines x spacing x line breaks x option order x noise data, the same data in the other '
                'Touchstone framing, and as NPD with permuted header lines and block orders; distinct = (parameter, ports, spelling)')
    chk.samples = [[cases[1][2][:400]], [cases[-1][2][:400]]]
    if broken and not chk.violations:
        chk.violation('obligation', 'proof/correspondence obligations that no longer check:\n' + '\n'.join(broken[:30]), nofail=True)


def replay(chk, path):
    from props import c01
    return c01.replay(chk, path)
