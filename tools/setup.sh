#!/bin/sh
# Build the whole framework offline from files on disk: translators, Lean library + driver, C harness.
set -e
cd "$(dirname "$0")/.."
python3-vt tools/gen_all.py
(cd lean && lake build Libvna vmodel 2>&1 | grep -E '^✖|error|Build completed|build failed' || true)
(cd lean && lake build Libvna vmodel >/dev/null 2>&1)
python3-vt -c "import sys; sys.path.insert(0,'tools'); import vlib; print(vlib.build_c()[0])"
