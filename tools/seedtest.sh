#!/bin/sh
# seedtest.sh <seed-dir-name> <Cxx> [tier] [more Cyy ...]: harvest a seeded change from /tmp/seed-<name> into
# /verif/seeded/<name>/ (if not yet there), apply it to /repo, run the named checks, and undo it.
set -u
N=$1; shift
S=/verif/seeded/$N
if [ -d /tmp/seed-$N ] && [ ! -f $S/patch.diff ]; then
  mkdir -p $S
  git -C /tmp/seed-$N diff > $S/patch.diff
  cp -r /tmp/seed-$N/demo/. $S/ 2>/dev/null
  rm -f $S/demo $S/*.o 2>/dev/null
  find $S -type f -size +200k -delete
fi
[ -s $S/patch.diff ] || { echo "no patch"; exit 2; }
git -C /repo apply $S/patch.diff || { echo "patch does not apply"; exit 2; }
TIER=quick
for c in "$@"; do
  case $c in quick|thorough) TIER=$c; continue;; esac
  echo "== $c ($TIER) against seeded/$N"
  (cd /verif && python3-vt tools/check.py $c --tier $TIER 2>&1 | grep -v "^WARNING conda" | grep -E "^violation|VIOLATION|KNOWN|pass$|FAIL$" | cut -c1-400 | head -12) | tee /tmp/seedtest.$$
  if grep -q "^VIOLATION property=$c" /tmp/seedtest.$$; then R=caught; else R=missed; fi
  echo "$N $c $TIER $R $(grep -m1 '^violation' /tmp/seedtest.$$ | cut -c1-160)" >> /verif/seeded/results.txt
  rm -f /tmp/seedtest.$$
done
git -C /repo checkout -- .
git -C /repo diff --quiet && echo "(repo restored)"
