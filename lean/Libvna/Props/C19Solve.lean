/-
C19 — the substitution loops: `_vnacommon_mldivide` solves A X = B and `_vnacommon_minverse` returns the inverse
(exact arithmetic, every size, every pivot choice), on top of `lu_factors` / `lu_det` (Props/C19Loop).
The definitions proved about are the ones the driver executes against the C (Model/LinAlg.lean).
-/
import Libvna.Props.C19Loop
import Libvna.Model.ConvN
import Mathlib.LinearAlgebra.Matrix.NonsingularInverse
import Mathlib.Tactic.LinearCombination
open Libvna Finset

namespace Libvna.LULoop
variable {K : Type} [Field K] [Inhabited K]

theorem accSub_eq (s0 : K) (f : Nat → K) (cnt : Nat) : LA.accSub s0 f cnt = s0 - ∑ k ∈ range cnt, f k := by
  induction cnt with
  | zero => simp [LA.accSub]
  | succ m ih => rw [LA.accSub, ih, sum_range_succ]; ring

/-- entry (i, j) of an m×n flat array -/
def X (x : Array K) (n i j : Nat) : K := x[i * n + j]!

theorem X_set (x : Array K) {m n i j i' j' : Nat} (v : K) (hs : x.size = m * n) (hi : i < m) (hj : j < n) (hj' : j' < n) :
    X (x.set! (i * n + j) v) n i' j' = if i = i' ∧ j = j' then v else X x n i' j' := by
  unfold X
  have hlt : i * n + j < m * n := by
    calc i * n + j < i * n + n := by omega
      _ = (i + 1) * n := by ring
      _ ≤ m * n := Nat.mul_le_mul_right n hi
  split
  · next h =>
    obtain ⟨rfl, rfl⟩ := h
    simp [hs, hlt]
  · next h =>
    have hne : i * n + j ≠ i' * n + j' := fun he => h (idx_inj hj hj' he)
    simp only [getElem!_def, Array.set!_eq_setIfInBounds, Array.getElem?_setIfInBounds, hne, if_false]

theorem fwdCol_spec (a x : Array K) (rhs : Nat → K) {m n j : Nat} (hs : x.size = m * n) (hj : j < n) (cnt : Nat) (hc : cnt ≤ m) :
    (LA.fwdCol a rhs m n j cnt x).size = m * n ∧
    (∀ i c, i < m → c < n → ¬ (c = j ∧ i < cnt) → X (LA.fwdCol a rhs m n j cnt x) n i c = X x n i c) ∧
    (∀ i, i < cnt → X (LA.fwdCol a rhs m n j cnt x) n i j =
        rhs i - ∑ k ∈ range i, LA.get a m i k * X (LA.fwdCol a rhs m n j cnt x) n k j) := by
  induction cnt with
  | zero => exact ⟨hs, fun _ _ _ _ _ => rfl, fun i hi => absurd hi (Nat.not_lt_zero i)⟩
  | succ c ih =>
    obtain ⟨hs', hun, hup⟩ := ih (by omega)
    have hcm : c < m := by omega
    simp only [LA.fwdCol]
    refine ⟨by simp [hs'], ?_, ?_⟩
    · intro i cc hi hcn hne
      rw [X_set _ _ hs' hcm hj hcn]
      have : ¬ (c = i ∧ j = cc) := by rintro ⟨rfl, rfl⟩; exact hne ⟨rfl, Nat.lt_succ_self _⟩
      rw [if_neg this]
      exact hun i cc hi hcn (fun h => hne ⟨h.1, by omega⟩)
    · intro i hi
      have hsum : ∀ i', i' ≤ c → ∀ v, ∑ k ∈ range i', LA.get a m i' k * X ((LA.fwdCol a rhs m n j c x).set! (c * n + j) v) n k j
            = ∑ k ∈ range i', LA.get a m i' k * X (LA.fwdCol a rhs m n j c x) n k j := by
        intro i' hi' v
        apply sum_congr rfl
        intro k hk
        have hk' : k < i' := mem_range.mp hk
        rw [X_set _ _ hs' hcm hj hj]
        have : ¬ (c = k ∧ j = j) := by rintro ⟨rfl, _⟩; omega
        rw [if_neg this]
      rw [X_set _ _ hs' hcm hj hj]
      by_cases hic : i = c
      · subst hic
        rw [if_pos ⟨rfl, rfl⟩, hsum i (le_refl _), accSub_eq]
        rfl
      · have : ¬ (c = i ∧ j = j) := by rintro ⟨rfl, _⟩; exact hic rfl
        rw [if_neg this, hsum i (by omega)]
        exact hup i (by omega)

theorem backCol_spec (a x : Array K) {m n j : Nat} (hs : x.size = m * n) (hj : j < n) (cnt : Nat) (hc : cnt ≤ m) :
    (LA.backCol a m n j cnt x).size = m * n ∧
    (∀ i c, i < m → c < n → ¬ (c = j ∧ m - cnt ≤ i) → X (LA.backCol a m n j cnt x) n i c = X x n i c) ∧
    (∀ i, m - cnt ≤ i → i < m → X (LA.backCol a m n j cnt x) n i j =
        (X x n i j - ∑ t ∈ range (m - (i + 1)), LA.get a m i (i + 1 + t) * X (LA.backCol a m n j cnt x) n (i + 1 + t) j)
          / LA.get a m i i) := by
  induction cnt with
  | zero => exact ⟨hs, fun _ _ _ _ _ => rfl, fun i h1 h2 => by omega⟩
  | succ c ih =>
    obtain ⟨hs', hun, hup⟩ := ih (by omega)
    have hr : m - 1 - c < m := by omega
    simp only [LA.backCol]
    refine ⟨by simp [hs'], ?_, ?_⟩
    · intro i cc hi hcn hne
      rw [X_set _ _ hs' hr hj hcn]
      have : ¬ (m - 1 - c = i ∧ j = cc) := by rintro ⟨rfl, rfl⟩; exact hne ⟨rfl, by omega⟩
      rw [if_neg this]
      exact hun i cc hi hcn (fun h => hne ⟨h.1, by omega⟩)
    · intro i hi1 hi2
      have hsum : ∀ i', m - 1 - c ≤ i' → i' < m → ∀ v,
          ∑ t ∈ range (m - (i' + 1)), LA.get a m i' (i' + 1 + t) *
              X ((LA.backCol a m n j c x).set! ((m - 1 - c) * n + j) v) n (i' + 1 + t) j
            = ∑ t ∈ range (m - (i' + 1)), LA.get a m i' (i' + 1 + t) * X (LA.backCol a m n j c x) n (i' + 1 + t) j := by
        intro i' h1 h2 v
        apply sum_congr rfl
        intro t ht
        rw [X_set _ _ hs' hr hj hj]
        have : ¬ (m - 1 - c = i' + 1 + t ∧ j = j) := by rintro ⟨e, _⟩; omega
        rw [if_neg this]
      rw [X_set _ _ hs' hr hj hj]
      by_cases hic : i = m - 1 - c
      · subst hic
        rw [if_pos ⟨rfl, rfl⟩, hsum _ (le_refl _) hr, accSub_eq]
        have : X (LA.backCol a m n j c x) n (m - 1 - c) j = X x n (m - 1 - c) j :=
          hun _ j hr hj (by omega)
        unfold X at this ⊢
        rw [this]
      · have : ¬ (m - 1 - c = i ∧ j = j) := by rintro ⟨e, _⟩; exact hic e.symm
        rw [if_neg this, hsum i (by omega) hi2]
        exact hup i (by omega) hi2

/-- column j of x solves the two triangular systems left by the LU loop -/
def ColSolved (a x : Array K) (rhs : Nat → Nat → K) (m n j : Nat) : Prop :=
  ∃ y : Nat → K,
    (∀ i, i < m → y i = rhs i j - ∑ k ∈ range i, LA.get a m i k * y k) ∧
    (∀ i, i < m → X x n i j =
        (y i - ∑ t ∈ range (m - (i + 1)), LA.get a m i (i + 1 + t) * X x n (i + 1 + t) j) / LA.get a m i i)

theorem colSolved_congr {a x x' : Array K} {rhs : Nat → Nat → K} {m n j : Nat}
    (h : ColSolved a x rhs m n j) (he : ∀ i, i < m → X x' n i j = X x n i j) : ColSolved a x' rhs m n j := by
  obtain ⟨y, hy, hx⟩ := h
  refine ⟨y, hy, fun i hi => ?_⟩
  rw [he i hi, hx i hi]
  congr 2
  apply sum_congr rfl
  intro t ht
  have := mem_range.mp ht
  rw [he (i + 1 + t) (by omega)]

theorem solveCols_spec (a x : Array K) (rhs : Nat → Nat → K) {m n : Nat} (hs : x.size = m * n) (cnt : Nat) (hc : cnt ≤ n) :
    (LA.solveCols a rhs m n cnt x).size = m * n ∧
    (∀ i c, i < m → c < n → cnt ≤ c → X (LA.solveCols a rhs m n cnt x) n i c = X x n i c) ∧
    (∀ j, j < cnt → ColSolved a (LA.solveCols a rhs m n cnt x) rhs m n j) := by
  induction cnt with
  | zero => exact ⟨hs, fun _ _ _ _ _ => rfl, fun j hj => absurd hj (Nat.not_lt_zero j)⟩
  | succ j ih =>
    obtain ⟨hs0, hun0, hsolved0⟩ := ih (by omega)
    have hj : j < n := by omega
    obtain ⟨hs1, hun1, hup1⟩ := fwdCol_spec a (LA.solveCols a rhs m n j x) (fun i => rhs i j) hs0 hj m (le_refl _)
    obtain ⟨hs2, hun2, hup2⟩ := backCol_spec a (LA.fwdCol a (fun i => rhs i j) m n j m (LA.solveCols a rhs m n j x)) hs1 hj m (le_refl _)
    simp only [LA.solveCols]
    refine ⟨hs2, ?_, ?_⟩
    · intro i c hi hcn hcc
      rw [hun2 i c hi hcn (by omega), hun1 i c hi hcn (by omega), hun0 i c hi hcn (by omega)]
    · intro j' hj'
      by_cases e : j' = j
      · subst e
        refine ⟨fun i => X (LA.fwdCol a (fun i => rhs i j') m n j' m (LA.solveCols a rhs m n j' x)) n i j', ?_, ?_⟩
        · intro i hi; exact hup1 i hi
        · intro i hi; exact hup2 i (by omega) hi
      · have hlt : j' < j := by omega
        apply colSolved_congr (hsolved0 j' hlt)
        intro i hi
        rw [hun2 i j' hi (by omega) (by omega), hun1 i j' hi (by omega) (by omega)]

theorem sum_above_eq_fin {m i : Nat} (hi : i < m) (f : Nat → K) :
    ∑ t ∈ range (m - (i + 1)), f (i + 1 + t) = ∑ k : Fin m, if i < (k : Nat) then f k else 0 := by
  rw [Fin.sum_univ_eq_sum_range (fun k => if i < k then f k else 0) m, ← Finset.sum_filter]
  have : (range m).filter (fun k => i < k) = Finset.Ico (i + 1) m := by
    ext k; simp only [mem_filter, mem_range, Finset.mem_Ico]; omega
  rw [this, Finset.sum_Ico_eq_sum_range]

/-- **a column that went through the two substitution loops solves the system** (exact arithmetic): with the factors of
    `lu_factors` and no zero pivot, column j of x satisfies `A x_j = B_j` -/
theorem colSolved_solves (a0 a x : Array K) (ri : Array Nat) {m n j : Nat} (B : Nat → Nat → K)
    (hf : Lmat a m * Umat a m = Pmat a0 ri m) (hp : ∀ i, i < m → LA.get a m i i ≠ 0)
    (π : Equiv.Perm (Fin m)) (hπ : ∀ i : Fin m, ri[(i : Nat)]! = ((π i : Fin m) : Nat))
    (h : ColSolved a x (fun i j => B ri[i]! j) m n j) (r : Fin m) :
    ∑ c : Fin m, LA.get a0 m r c * X x n c j = B r j := by
  obtain ⟨y, hy, hx⟩ := h
  have hLd : ∀ i : Fin m, Lmat a m i i = 1 := by intro i; simp [Lmat]
  have hLu : ∀ i k : Fin m, i < k → Lmat a m i k = 0 := by
    intro i k hik
    have h1 : ¬ ((k : Nat) < i) := by have := Fin.lt_def.mp hik; omega
    have h2 : ¬ (k = i) := fun e => by subst e; exact absurd hik (lt_irrefl _)
    simp [Lmat, h1, h2]
  have hUl : ∀ i k : Fin m, k < i → Umat a m i k = 0 := by
    intro i k hki
    have h1 : ¬ ((i : Nat) ≤ k) := by have := Fin.lt_def.mp hki; omega
    simp [Umat, h1]
  have key := Libvna.LU.solve_correct (Pmat a0 ri m) (Lmat a m) (Umat a m)
    (fun i : Fin m => B ri[(i : Nat)]! j) (fun i : Fin m => y i) (fun i : Fin m => X x n i j) hf hLd hLu hUl
    (by intro i
        rw [hy i i.isLt, sum_range_eq_fin (le_of_lt i.isLt)]
        congr 1
        apply Finset.sum_congr rfl
        intro k _
        by_cases hk : (k : Nat) < i
        · have hk' : k < i := Fin.lt_def.mpr hk
          simp [Lmat, hk, hk']
        · have hk' : ¬ k < i := fun h => hk (Fin.lt_def.mp h)
          simp [hk, hk'])
    (by intro i
        have hpi := hp i i.isLt
        have hU : Umat a m i i = LA.get a m i i := by simp [Umat]
        rw [hU, hx i i.isLt, div_mul_cancel₀ _ hpi, sum_above_eq_fin i.isLt (fun k => LA.get a m i k * X x n k j)]
        congr 1
        apply Finset.sum_congr rfl
        intro k _
        by_cases hk : (i : Nat) < k
        · have hk' : i < k := Fin.lt_def.mpr hk
          have hle : (i : Nat) ≤ k := by omega
          simp [Umat, hk, hk', hle]
        · have hk' : ¬ i < k := fun h => hk (Fin.lt_def.mp h)
          simp [hk, hk'])
  have hrow := congrFun key (π.symm r)
  simp only [Matrix.mulVec, dotProduct, Pmat] at hrow
  have e : ri[((π.symm r : Fin m) : Nat)]! = (r : Nat) := by rw [hπ]; simp
  rw [e] at hrow
  exact hrow

/-- **`_vnacommon_mldivide` solves `A X = B`** (exact arithmetic, every m, n, every pivot choice; no zero pivot) and returns det A -/
theorem mldivide_solves (mag : K → Float) (a0 b : Array K) (m n : Nat) (hs : a0.size = m * m)
    (hp : ∀ i, i < m → LA.get (LA.lu mag a0 m).1 m i i ≠ 0) :
    (∀ (r : Fin m) (j : Nat), j < n →
      ∑ c : Fin m, LA.get a0 m r c * X (LA.mldivide mag a0 b m n).1 n c j = X b n r j) ∧
    (LA.mldivide mag a0 b m n).2 = (Amat a0 m).det := by
  obtain ⟨hdet, π, hπ⟩ := lu_det mag a0 m hs hp
  refine ⟨?_, hdet⟩
  intro r j hj
  have hsz : (Array.replicate (m * n) (0 : K)).size = m * n := by simp
  obtain ⟨_, _, hsolved⟩ := solveCols_spec (LA.lu mag a0 m).1 (Array.replicate (m * n) (0 : K))
    (fun i j => b[(LA.lu mag a0 m).2.1[i]! * n + j]!) hsz n (le_refl _)
  exact colSolved_solves a0 (LA.lu mag a0 m).1 _ (LA.lu mag a0 m).2.1 (fun r j => X b n r j)
    (lu_factors mag a0 m hs hp) hp π hπ (hsolved j hj) r

/-- **`_vnacommon_minverse` returns the inverse**: `A X = 1` -/
theorem minverse_inverts (mag : K → Float) (a0 : Array K) (n : Nat) (hs : a0.size = n * n)
    (hp : ∀ i, i < n → LA.get (LA.lu mag a0 n).1 n i i ≠ 0) :
    Amat a0 n * (Matrix.of fun i j : Fin n => X (LA.minverse mag a0 n).1 n i j) = 1 := by
  obtain ⟨_, π, hπ⟩ := lu_det mag a0 n hs hp
  have hsz : (Array.replicate (n * n) (0 : K)).size = n * n := by simp
  obtain ⟨_, _, hsolved⟩ := solveCols_spec (LA.lu mag a0 n).1 (Array.replicate (n * n) (0 : K))
    (fun i j => if (LA.lu mag a0 n).2.1[i]! == j then (1 : K) else 0) hsz n (le_refl _)
  ext r j
  have h := colSolved_solves a0 (LA.lu mag a0 n).1 _ (LA.lu mag a0 n).2.1 (fun r j => if r == j then (1 : K) else 0)
    (lu_factors mag a0 n hs hp) hp π hπ (hsolved j j.isLt) r
  rw [Matrix.mul_apply]
  simp only [Amat, Matrix.of_apply]
  rw [show (∑ c : Fin n, LA.get a0 n r c * X (LA.minverse mag a0 n).1 n c j) = _ from h]
  by_cases e : r = j
  · subst e; simp
  · have : ¬ (r : Nat) = j := fun h => e (Fin.ext h)
    simp [e, this]


/-- `v = Z i ⇔ i = Y v` for mutually inverse matrices -/
theorem inv_relation_of_inverse {n : Nat} (Z Y : Matrix (Fin n) (Fin n) K) (h : Z * Y = 1) (v i : Fin n → K) :
    v = Z.mulVec i ↔ i = Y.mulVec v := by
  have h' : Y * Z = 1 := mul_eq_one_comm.mp h
  constructor
  · intro e; rw [e, Matrix.mulVec_mulVec, h', Matrix.one_mulVec]
  · intro e; rw [e, Matrix.mulVec_mulVec, h, Matrix.one_mulVec]

/-- **n-port Z ↔ Y (`vnaconv_ztoyn`, `vnaconv_ytozn`), every n ≥ 1** (C04): the matrix the function returns relates exactly
    the port voltage and current vectors the input matrix relates (exact arithmetic, no zero pivot in the elimination) -/
theorem ztoyn_relation (mag : K → Float) (z : Array K) (n : Nat) (hn : 0 < n) (hs : z.size = n * n)
    (hp : ∀ i, i < n → LA.get (LA.lu mag z n).1 n i i ≠ 0) (v i : Fin n → K) :
    v = (Amat z n).mulVec i ↔ i = (Matrix.of fun r c : Fin n => X (ConvN.inv mag z n) n r c).mulVec v := by
  have e : ConvN.inv mag z n = (LA.minverse mag z n).1 := by
    unfold ConvN.inv; rw [if_neg (by omega)]
  rw [e]
  exact inv_relation_of_inverse _ _ (minverse_inverts mag z n hs hp) v i


/-! ### `_vnacommon_mrdivide` -/

/-- `ri` lists 0..n-1 in some order -/
structure IsPerm (ri : Array Nat) (n : Nat) : Prop where
  lt : ∀ j, j < n → ri[j]! < n
  inj : ∀ j k, j < n → k < n → ri[j]! = ri[k]! → j = k

theorem mrFwd_spec (a b x : Array K) (ri : Array Nat) {m n i : Nat} (hs : x.size = m * n) (hi : i < m) (hri : IsPerm ri n)
    (cnt : Nat) (hc : cnt ≤ n) :
    (LA.mrFwd a b ri n i cnt x).size = m * n ∧
    (∀ i' c, i' < m → c < n → ¬ (i' = i ∧ ∃ j, j < cnt ∧ c = ri[j]!) → X (LA.mrFwd a b ri n i cnt x) n i' c = X x n i' c) ∧
    (∀ j, j < cnt → X (LA.mrFwd a b ri n i cnt x) n i ri[j]! =
        (X b n i j - ∑ k ∈ range j, LA.get a n k j * X (LA.mrFwd a b ri n i cnt x) n i ri[k]!) / LA.get a n j j) := by
  induction cnt with
  | zero => exact ⟨hs, fun _ _ _ _ _ => rfl, fun j hj => absurd hj (Nat.not_lt_zero j)⟩
  | succ c ih =>
    obtain ⟨hs', hun, hup⟩ := ih (by omega)
    have hcn : c < n := by omega
    have hrc := hri.lt c hcn
    simp only [LA.mrFwd]
    refine ⟨by simp [hs'], ?_, ?_⟩
    · intro i' cc hi' hccn hne
      rw [X_set _ _ hs' hi hrc hccn]
      have : ¬ (i = i' ∧ ri[c]! = cc) := by
        rintro ⟨rfl, rfl⟩; exact hne ⟨rfl, c, Nat.lt_succ_self _, rfl⟩
      rw [if_neg this]
      exact hun i' cc hi' hccn (fun ⟨h1, j, hj, hjc⟩ => hne ⟨h1, j, by omega, hjc⟩)
    · intro j hj
      have hsum : ∀ j', j' ≤ c → ∀ v, ∑ k ∈ range j', LA.get a n k j' * X ((LA.mrFwd a b ri n i c x).set! (i * n + ri[c]!) v) n i ri[k]!
            = ∑ k ∈ range j', LA.get a n k j' * X (LA.mrFwd a b ri n i c x) n i ri[k]! := by
        intro j' hj' v
        apply sum_congr rfl
        intro k hk
        have hk' : k < j' := mem_range.mp hk
        rw [X_set _ _ hs' hi hrc (hri.lt k (by omega))]
        have : ¬ (i = i ∧ ri[c]! = ri[k]!) := by
          rintro ⟨_, e⟩; have := hri.inj c k hcn (by omega) e; omega
        rw [if_neg this]
      rw [X_set _ _ hs' hi hrc (hri.lt j (by omega))]
      by_cases hjc : j = c
      · subst hjc
        rw [if_pos ⟨rfl, rfl⟩, hsum j (le_refl _), accSub_eq]
        rfl
      · have : ¬ (i = i ∧ ri[c]! = ri[j]!) := by
          rintro ⟨_, e⟩; have := hri.inj c j hcn (by omega) e; omega
        rw [if_neg this, hsum j (by omega)]
        exact hup j (by omega)

theorem mrBack_spec (a x : Array K) (ri : Array Nat) {m n i : Nat} (hs : x.size = m * n) (hi : i < m) (hri : IsPerm ri n)
    (cnt : Nat) (hc : cnt ≤ n) :
    (LA.mrBack a ri n i cnt x).size = m * n ∧
    (∀ i' c, i' < m → c < n → ¬ (i' = i ∧ ∃ j, n - cnt ≤ j ∧ j < n ∧ c = ri[j]!) →
        X (LA.mrBack a ri n i cnt x) n i' c = X x n i' c) ∧
    (∀ j, n - cnt ≤ j → j < n → X (LA.mrBack a ri n i cnt x) n i ri[j]! =
        X x n i ri[j]! - ∑ t ∈ range (n - (j + 1)), LA.get a n (j + 1 + t) j * X (LA.mrBack a ri n i cnt x) n i ri[j + 1 + t]!) := by
  induction cnt with
  | zero => exact ⟨hs, fun _ _ _ _ _ => rfl, fun j h1 h2 => by omega⟩
  | succ c ih =>
    obtain ⟨hs', hun, hup⟩ := ih (by omega)
    have hr : n - 1 - c < n := by omega
    have hrc := hri.lt _ hr
    simp only [LA.mrBack]
    refine ⟨by simp [hs'], ?_, ?_⟩
    · intro i' cc hi' hccn hne
      rw [X_set _ _ hs' hi hrc hccn]
      have : ¬ (i = i' ∧ ri[n - 1 - c]! = cc) := by
        rintro ⟨rfl, rfl⟩; exact hne ⟨rfl, n - 1 - c, by omega, hr, rfl⟩
      rw [if_neg this]
      exact hun i' cc hi' hccn (fun ⟨h1, j, hj1, hj2, hjc⟩ => hne ⟨h1, j, by omega, hj2, hjc⟩)
    · intro j hj1 hj2
      have hsum : ∀ j', n - 1 - c ≤ j' → j' < n → ∀ v,
          ∑ t ∈ range (n - (j' + 1)), LA.get a n (j' + 1 + t) j' *
              X ((LA.mrBack a ri n i c x).set! (i * n + ri[n - 1 - c]!) v) n i ri[j' + 1 + t]!
            = ∑ t ∈ range (n - (j' + 1)), LA.get a n (j' + 1 + t) j' * X (LA.mrBack a ri n i c x) n i ri[j' + 1 + t]! := by
        intro j' h1 h2 v
        apply sum_congr rfl
        intro t ht
        have ht' := mem_range.mp ht
        rw [X_set _ _ hs' hi hrc (hri.lt _ (by omega))]
        have : ¬ (i = i ∧ ri[n - 1 - c]! = ri[j' + 1 + t]!) := by
          rintro ⟨_, e⟩; have := hri.inj _ _ hr (by omega) e; omega
        rw [if_neg this]
      rw [X_set _ _ hs' hi hrc (hri.lt j hj2)]
      by_cases hjc : j = n - 1 - c
      · subst hjc
        rw [if_pos ⟨rfl, rfl⟩, hsum _ (le_refl _) hr, accSub_eq]
        have : X (LA.mrBack a ri n i c x) n i ri[n - 1 - c]! = X x n i ri[n - 1 - c]! :=
          hun _ _ hi hrc (by rintro ⟨_, j, hj1', hj2', e⟩; have := hri.inj _ _ hr hj2' e; omega)
        unfold X at this ⊢
        rw [this]
      · have : ¬ (i = i ∧ ri[n - 1 - c]! = ri[j]!) := by
          rintro ⟨_, e⟩; have := hri.inj _ _ hr hj2 e; omega
        rw [if_neg this, hsum j (by omega) hj2]
        exact hup j (by omega) hj2

/-- row i of x solves `x A = b_i` through the factors: the permuted view `w j = x[i][ri[j]]` satisfies the two row-vector recurrences -/
def RowSolved (a b x : Array K) (ri : Array Nat) (n i : Nat) : Prop :=
  ∃ y : Nat → K,
    (∀ j, j < n → y j = (X b n i j - ∑ k ∈ range j, LA.get a n k j * y k) / LA.get a n j j) ∧
    (∀ j, j < n → X x n i ri[j]! =
        y j - ∑ t ∈ range (n - (j + 1)), LA.get a n (j + 1 + t) j * X x n i ri[j + 1 + t]!)

theorem rowSolved_congr {a b x x' : Array K} {ri : Array Nat} {n i : Nat}
    (h : RowSolved a b x ri n i) (he : ∀ c, c < n → X x' n i c = X x n i c) (hri : IsPerm ri n) : RowSolved a b x' ri n i := by
  obtain ⟨y, hy, hx⟩ := h
  refine ⟨y, hy, fun j hj => ?_⟩
  rw [he _ (hri.lt j hj), hx j hj]
  congr 1
  apply sum_congr rfl
  intro t ht
  have := mem_range.mp ht
  rw [he _ (hri.lt _ (by omega))]

theorem mrRows_spec (a b x : Array K) (ri : Array Nat) {m n : Nat} (hs : x.size = m * n) (hri : IsPerm ri n)
    (cnt : Nat) (hc : cnt ≤ m) :
    (LA.mrRows a b ri n cnt x).size = m * n ∧
    (∀ i c, i < m → c < n → cnt ≤ i → X (LA.mrRows a b ri n cnt x) n i c = X x n i c) ∧
    (∀ i, i < cnt → RowSolved a b (LA.mrRows a b ri n cnt x) ri n i) := by
  induction cnt with
  | zero => exact ⟨hs, fun _ _ _ _ _ => rfl, fun i hi => absurd hi (Nat.not_lt_zero i)⟩
  | succ i ih =>
    obtain ⟨hs0, hun0, hsolved0⟩ := ih (by omega)
    have hi : i < m := by omega
    obtain ⟨hs1, hun1, hup1⟩ := mrFwd_spec a b (LA.mrRows a b ri n i x) ri hs0 hi hri n (le_refl _)
    obtain ⟨hs2, hun2, hup2⟩ := mrBack_spec a (LA.mrFwd a b ri n i n (LA.mrRows a b ri n i x)) ri hs1 hi hri n (le_refl _)
    simp only [LA.mrRows]
    refine ⟨hs2, ?_, ?_⟩
    · intro i' c hi' hcn hcc
      rw [hun2 i' c hi' hcn (by rintro ⟨e, _⟩; omega), hun1 i' c hi' hcn (by rintro ⟨e, _⟩; omega), hun0 i' c hi' hcn (by omega)]
    · intro i' hi'
      by_cases e : i' = i
      · subst e
        refine ⟨fun j => X (LA.mrFwd a b ri n i' n (LA.mrRows a b ri n i' x)) n i' ri[j]!, ?_, ?_⟩
        · intro j hj; exact hup1 j hj
        · intro j hj; exact hup2 j (by omega) hj
      · have hlt : i' < i := by omega
        apply rowSolved_congr (hsolved0 i' hlt) _ hri
        intro c hc
        rw [hun2 i' c (by omega) hc (by rintro ⟨e', _⟩; omega), hun1 i' c (by omega) hc (by rintro ⟨e', _⟩; omega)]

/-- row vector times an upper triangular matrix: `y_j U_jj = b_j − Σ_{k<j} y_k U_kj` ⇒ `y U = b` -/
theorem rowvec_upper {n : Nat} (U : Matrix (Fin n) (Fin n) K) (b y : Fin n → K)
    (hUl : ∀ i j, j < i → U i j = 0)
    (hy : ∀ j, y j * U j j = b j - ∑ k, if k < j then y k * U k j else 0) :
    Matrix.vecMul y U = b := by
  ext j
  simp only [Matrix.vecMul, dotProduct]
  rw [Libvna.LU.sum_split3 (fun k => y k * U k j) j]
  have hz : (∑ k, if j < k then y k * U k j else 0) = 0 := by
    apply Finset.sum_eq_zero; intro k _
    by_cases hk : j < k
    · simp [hk, hUl k j hk]
    · simp [hk]
  rw [hz, add_zero, hy j]
  ring

/-- row vector times a unit lower triangular matrix: `w_j = y_j − Σ_{k>j} w_k L_kj` ⇒ `w L = y` -/
theorem rowvec_unit_lower {n : Nat} (L : Matrix (Fin n) (Fin n) K) (y w : Fin n → K)
    (hLd : ∀ i, L i i = 1) (hLu : ∀ i j, i < j → L i j = 0)
    (hw : ∀ j, w j = y j - ∑ k, if j < k then w k * L k j else 0) :
    Matrix.vecMul w L = y := by
  ext j
  simp only [Matrix.vecMul, dotProduct]
  rw [Libvna.LU.sum_split3 (fun k => w k * L k j) j]
  have hz : (∑ k, if k < j then w k * L k j else 0) = 0 := by
    apply Finset.sum_eq_zero; intro k _
    by_cases hk : k < j
    · simp [hk, hLu k j hk]
    · simp [hk]
  rw [hz, zero_add, hLd, mul_one]
  have := hw j
  linear_combination this

theorem isPerm_of_perm {ri : Array Nat} {n : Nat} (π : Equiv.Perm (Fin n))
    (hπ : ∀ i : Fin n, ri[(i : Nat)]! = ((π i : Fin n) : Nat)) : IsPerm ri n := by
  constructor
  · intro j hj
    have := hπ ⟨j, hj⟩
    simp only at this
    rw [this]; exact (π ⟨j, hj⟩).isLt
  · intro j k hj hk e
    have h1 := hπ ⟨j, hj⟩
    have h2 := hπ ⟨k, hk⟩
    simp only at h1 h2
    rw [h1, h2] at e
    have := π.injective (Fin.ext e)
    exact Fin.mk.inj_iff.mp this

/-- **a row that went through the two loops of `_vnacommon_mrdivide` solves `x A = b`** -/
theorem rowSolved_solves (a0 a b x : Array K) (ri : Array Nat) {n i : Nat}
    (hf : Lmat a n * Umat a n = Pmat a0 ri n) (hp : ∀ j, j < n → LA.get a n j j ≠ 0)
    (π : Equiv.Perm (Fin n)) (hπ : ∀ j : Fin n, ri[(j : Nat)]! = ((π j : Fin n) : Nat))
    (h : RowSolved a b x ri n i) (c : Fin n) :
    ∑ r : Fin n, X x n i r * LA.get a0 n r c = X b n i c := by
  obtain ⟨y, hy, hx⟩ := h
  have hLd : ∀ j : Fin n, Lmat a n j j = 1 := by intro j; simp [Lmat]
  have hLu : ∀ j k : Fin n, j < k → Lmat a n j k = 0 := by
    intro j k hjk
    have h1 : ¬ ((k : Nat) < j) := by have := Fin.lt_def.mp hjk; omega
    have h2 : ¬ (k = j) := fun e => by subst e; exact absurd hjk (lt_irrefl _)
    simp [Lmat, h1, h2]
  have hUl : ∀ j k : Fin n, k < j → Umat a n j k = 0 := by
    intro j k hkj
    have h1 : ¬ ((j : Nat) ≤ k) := by have := Fin.lt_def.mp hkj; omega
    simp [Umat, h1]
  have h1 : Matrix.vecMul (fun j : Fin n => y j) (Umat a n) = fun j : Fin n => X b n i j := by
    apply rowvec_upper _ _ _ hUl
    intro j
    have hpj := hp j j.isLt
    have hU : Umat a n j j = LA.get a n j j := by simp [Umat]
    rw [hU, hy j j.isLt, div_mul_cancel₀ _ hpj, sum_range_eq_fin (le_of_lt j.isLt) (fun k => LA.get a n k j * y k)]
    congr 1
    apply Finset.sum_congr rfl
    intro k _
    by_cases hk : (k : Nat) < j
    · have hk' : k < j := Fin.lt_def.mpr hk
      have hle : (k : Nat) ≤ j := by omega
      simp [Umat, hk, hk', hle, mul_comm]
    · have hk' : ¬ k < j := fun h => hk (Fin.lt_def.mp h)
      simp [hk, hk']
  have h2 : Matrix.vecMul (fun j : Fin n => X x n i ri[(j : Nat)]!) (Lmat a n) = fun j : Fin n => y j := by
    apply rowvec_unit_lower _ _ _ hLd hLu
    intro j
    rw [hx j j.isLt, sum_above_eq_fin j.isLt (fun k => LA.get a n k j * X x n i ri[k]!)]
    congr 1
    apply Finset.sum_congr rfl
    intro k _
    by_cases hk : (j : Nat) < k
    · have hk' : j < k := Fin.lt_def.mpr hk
      simp [Lmat, hk, hk', mul_comm]
    · have hk' : ¬ j < k := fun h => hk (Fin.lt_def.mp h)
      simp [hk, hk']
  have h3 : Matrix.vecMul (fun j : Fin n => X x n i ri[(j : Nat)]!) (Pmat a0 ri n) = fun j : Fin n => X b n i j := by
    rw [← hf, ← Matrix.vecMul_vecMul, h2, h1]
  have hc := congrFun h3 c
  simp only [Matrix.vecMul, dotProduct, Pmat] at hc
  rw [← hc]
  -- reindex the sum over rows by the permutation
  rw [← Equiv.sum_comp π (fun r : Fin n => X x n i r * LA.get a0 n r c)]
  apply Finset.sum_congr rfl
  intro k _
  rw [hπ k]

/-- **`_vnacommon_mrdivide` solves `X A = B`** (exact arithmetic, every m, n, every pivot choice; no zero pivot) -/
theorem mrdivide_solves (mag : K → Float) (a0 b : Array K) (m n : Nat) (hs : a0.size = n * n)
    (hp : ∀ i, i < n → LA.get (LA.lu mag a0 n).1 n i i ≠ 0) (i : Nat) (hi : i < m) (c : Fin n) :
    ∑ r : Fin n, X (LA.mrdivide mag b a0 m n).1 n i r * LA.get a0 n r c = X b n i c := by
  obtain ⟨_, π, hπ⟩ := lu_det mag a0 n hs hp
  have hri := isPerm_of_perm π hπ
  have hsz : (Array.replicate (m * n) (0 : K)).size = m * n := by simp
  obtain ⟨_, _, hsolved⟩ := mrRows_spec (LA.lu mag a0 n).1 b (Array.replicate (m * n) (0 : K)) (LA.lu mag a0 n).2.1 hsz hri m (le_refl _)
  exact rowSolved_solves a0 (LA.lu mag a0 n).1 b _ (LA.lu mag a0 n).2.1 (lu_factors mag a0 n hs hp) hp π hπ (hsolved i hi) c


end Libvna.LULoop
