/-
C15 — vnadata_t behaves like a typed frequency x rows x columns array with z0 modes.

Property theorems about the concrete model of Model/VData.lean (tied to the C by the
correspondence run of tools/props/c15.py).  Everything holds for every value type, every history
and every (also negative / out of range) argument.
-/
import Libvna.Proofs.VDataResize
import Libvna.Model.VDataStep

namespace Libvna.VD
variable {V F : Type}

/-! ### every operation keeps the invariant -/

theorem toZ0_inv (c : Cfg V F) (s : VData V F) (h : Inv c s) : Inv c (s.toZ0 c) := by
  unfold VData.toZ0
  by_cases hp : s.perF = true
  · simp only [hp, ↓reduceIte]
    refine ⟨h.cells_le, h.freqs_le, h.ports_le, h.data_hidden, h.fvec_hidden, ?_, ?_⟩
    · intro _ p hp1 hp2
      simp only at hp1 hp2 ⊢
      simp only [hp2, ↓reduceIte]
    · intro hx; simp at hx
  · simp only [hp, Bool.false_eq_true, ↓reduceIte]; exact h

theorem toFz0_inv (c : Cfg V F) (s : VData V F) (h : Inv c s) : Inv c (s.toFz0 c) := by
  unfold VData.toFz0
  by_cases hp : s.perF = true
  · simp only [hp, ↓reduceIte]; exact h
  · have hp' : s.perF = false := by simpa using hp
    simp only [hp, Bool.false_eq_true, ↓reduceIte]
    refine ⟨h.cells_le, h.freqs_le, h.ports_le, h.data_hidden, h.fvec_hidden, ?_, ?_⟩
    · intro hx; simp at hx
    · intro _ f p hf hpa hor
      simp only at hf hpa hor ⊢
      simp only [hf, hpa, and_self, ↓reduceIte]
      by_cases hfr : f < s.freqs
      · simp only [hfr, ↓reduceIte]
        exact h.z0_hidden hp' p (by omega) hpa
      · simp only [hfr, ↓reduceIte]

@[simp] theorem toZ0_rows (c : Cfg V F) (s : VData V F) : (s.toZ0 c).rows = s.rows := by
  unfold VData.toZ0; split <;> rfl
@[simp] theorem toZ0_cols (c : Cfg V F) (s : VData V F) : (s.toZ0 c).cols = s.cols := by
  unfold VData.toZ0; split <;> rfl
@[simp] theorem toZ0_pAlloc (c : Cfg V F) (s : VData V F) : (s.toZ0 c).pAlloc = s.pAlloc := by
  unfold VData.toZ0; split <;> rfl
@[simp] theorem toZ0_perF (c : Cfg V F) (s : VData V F) : (s.toZ0 c).perF = false := by
  unfold VData.toZ0; split
  · rfl
  · next h => simpa using h
@[simp] theorem toFz0_rows (c : Cfg V F) (s : VData V F) : (s.toFz0 c).rows = s.rows := by
  unfold VData.toFz0; split <;> rfl
@[simp] theorem toFz0_cols (c : Cfg V F) (s : VData V F) : (s.toFz0 c).cols = s.cols := by
  unfold VData.toFz0; split <;> rfl
@[simp] theorem toFz0_freqs (c : Cfg V F) (s : VData V F) : (s.toFz0 c).freqs = s.freqs := by
  unfold VData.toFz0; split <;> rfl
@[simp] theorem toFz0_pAlloc (c : Cfg V F) (s : VData V F) : (s.toFz0 c).pAlloc = s.pAlloc := by
  unfold VData.toFz0; split <;> rfl
@[simp] theorem toFz0_fAlloc (c : Cfg V F) (s : VData V F) : (s.toFz0 c).fAlloc = s.fAlloc := by
  unfold VData.toFz0; split <;> rfl
@[simp] theorem toFz0_perF (c : Cfg V F) (s : VData V F) : (s.toFz0 c).perF = true := by
  unfold VData.toFz0; split
  · next h => exact h
  · rfl

/-- a store into a *logical* cell cannot disturb the hidden region -/
theorem data_update_inv (c : Cfg V F) (s : VData V F) (h : Inv c s) (d : Nat → Nat → V)
    (hd : ∀ f k, (s.freqs ≤ f ∨ s.rows * s.cols ≤ k) → d f k = s.data f k) :
    Inv c { s with data := d } :=
  ⟨h.cells_le, h.freqs_le, h.ports_le,
   fun f k hf hk hor => by show d f k = c.zero; rw [hd f k hor]; exact h.data_hidden f k hf hk hor,
   h.fvec_hidden, h.z0_hidden, h.fz0_hidden⟩

theorem fvec_update_inv (c : Cfg V F) (s : VData V F) (h : Inv c s) (d : Nat → F)
    (hd : ∀ f, s.freqs ≤ f → d f = s.fvec f) : Inv c { s with fvec := d } :=
  ⟨h.cells_le, h.freqs_le, h.ports_le, h.data_hidden,
   fun f hf hfa => by show d f = c.fzero; rw [hd f hf]; exact h.fvec_hidden f hf hfa, h.z0_hidden, h.fz0_hidden⟩

theorem z0_update_inv (c : Cfg V F) (s : VData V F) (h : Inv c s) (d : Nat → V)
    (hd : ∀ p, max s.rows s.cols ≤ p → d p = s.z0 p) : Inv c { s with z0 := d } :=
  ⟨h.cells_le, h.freqs_le, h.ports_le, h.data_hidden, h.fvec_hidden,
   fun hp p hpp hpa => by show d p = c.z50; rw [hd p hpp]; exact h.z0_hidden hp p hpp hpa, h.fz0_hidden⟩

theorem fz0_update_inv (c : Cfg V F) (s : VData V F) (h : Inv c s) (d : Nat → Nat → V)
    (hd : ∀ f p, (s.freqs ≤ f ∨ max s.rows s.cols ≤ p) → d f p = s.fz0 f p) : Inv c { s with fz0 := d } :=
  ⟨h.cells_le, h.freqs_le, h.ports_le, h.data_hidden, h.fvec_hidden, h.z0_hidden,
   fun hp f p hf hpa hor => by show d f p = c.z50; rw [hd f p hor]; exact h.fz0_hidden hp f p hf hpa hor⟩

theorem inRange_iff {i : Int} {n : Nat} : inRange i n = true ↔ 0 ≤ i ∧ i < n := by
  simp [inRange]

theorem toNat_lt {i : Int} {n : Nat} (h : inRange i n = true) : i.toNat < n := by
  have := inRange_iff.mp h; omega

theorem setAllZ0_inv (c : Cfg V F) (s : VData V F) (z : V) (h : Inv c s) :
    Inv c (s.setAllZ0 c z).1 ∧ ∀ w, (s.setAllZ0 c z).2 ≠ .ub w := by
  have h' := toZ0_inv c s h
  unfold VData.setAllZ0
  have hp : (s.toZ0 c).ports ≤ (s.toZ0 c).pAlloc := h'.ports_le
  simp only [hp, ↓reduceIte]
  refine ⟨?_, by intro w; simp⟩
  apply z0_update_inv c _ h'
  intro p hpp
  have : ¬ p < (s.toZ0 c).ports := by simp only [VData.ports]; omega
  simp only [this, ↓reduceIte]

theorem init_inv (c : Cfg V F) (s : VData V F) (t r k n : Int) (h : Inv c s) :
    Inv c (s.init c t r k n).1 ∧ ∀ w, (s.init c t r k n).2 ≠ .ub w := by
  unfold VData.init
  split
  · exact ⟨h, by intro w; simp⟩
  split
  · exact ⟨h, by intro w; simp⟩
  have h1 := resize_inv c s 0 0 0 0 h
  generalize s.resize c 0 0 0 0 = p1 at h1 ⊢
  obtain ⟨s1, r1⟩ := p1
  simp only at h1 ⊢
  cases r1 with
  | ub w => exact absurd rfl (h1.2 w)
  | ok _ =>
    simp only
    have h2 := setAllZ0_inv c s1 c.z50 h1.1
    generalize s1.setAllZ0 c c.z50 = p2 at h2 ⊢
    obtain ⟨s2, r2⟩ := p2
    simp only at h2 ⊢
    cases r2 with
    | ub w => exact absurd rfl (h2.2 w)
    | ok _ => exact resize_inv c s2 t r k n h2.1
    | fail e => exact resize_inv c s2 t r k n h2.1
  | fail e =>
    simp only
    have h2 := setAllZ0_inv c s1 c.z50 h1.1
    generalize s1.setAllZ0 c c.z50 = p2 at h2 ⊢
    obtain ⟨s2, r2⟩ := p2
    simp only at h2 ⊢
    cases r2 with
    | ub w => exact absurd rfl (h2.2 w)
    | ok _ => exact resize_inv c s2 t r k n h2.1
    | fail e => exact resize_inv c s2 t r k n h2.1

theorem setType_inv (c : Cfg V F) (s : VData V F) (t : Int) (h : Inv c s) :
    Inv c (s.setType t).1 ∧ ∀ w, (s.setType t).2 ≠ .ub w := by
  unfold VData.setType
  split
  · exact ⟨⟨h.cells_le, h.freqs_le, h.ports_le, h.data_hidden, h.fvec_hidden, h.z0_hidden, h.fz0_hidden⟩,
      by intro w; simp⟩
  · exact ⟨h, by intro w; simp⟩

theorem addFrequency_inv (c : Cfg V F) (s : VData V F) (x : F) (h : Inv c s) :
    Inv c (s.addFrequency c x).1 ∧ ∀ w, (s.addFrequency c x).2 ≠ .ub w := by
  unfold VData.addFrequency
  split
  · exact ⟨h, by intro w; simp⟩
  · simp only
    -- the state after the optional extension
    have key : ∀ s' : VData V F, Inv c s' → s'.freqs < s'.fAlloc →
        Inv c { s' with fvec := fun f => if f = s'.freqs then x else s'.fvec f, freqs := s'.freqs + 1 } := by
      intro s' h' hlt
      refine ⟨h'.cells_le, by simp only; omega, h'.ports_le, ?_, ?_, h'.z0_hidden, ?_⟩
      · intro f k hf hk hor
        simp only at hf hk hor ⊢
        exact h'.data_hidden f k hf hk (by omega)
      · intro f hf hfa
        simp only at hf hfa ⊢
        have : ¬ f = s'.freqs := by omega
        simp only [this, ↓reduceIte]
        exact h'.fvec_hidden f (by omega) hfa
      · intro hp f p hf hpa hor
        simp only at hp hf hpa hor ⊢
        exact h'.fz0_hidden hp f p hf hpa (by omega)
    by_cases hx : s.freqs + 1 > s.fAlloc
    · simp only [hx, ↓reduceIte]
      have hI := extendF_inv c s (max 50 (s.fAlloc + s.fAlloc / 2)) h
      have hA := extendF_fAlloc c s (max 50 (s.fAlloc + s.fAlloc / 2))
      have hfr : (s.extendF c (max 50 (s.fAlloc + s.fAlloc / 2))).freqs = s.freqs := by simp
      have hlt : (s.extendF c (max 50 (s.fAlloc + s.fAlloc / 2))).freqs <
          (s.extendF c (max 50 (s.fAlloc + s.fAlloc / 2))).fAlloc := by
        rw [hfr, hA]; have := h.freqs_le; omega
      simp only [hlt, ↓reduceIte]
      exact ⟨key _ hI hlt, by intro w; simp⟩
    · simp only [hx, ↓reduceIte]
      have hlt : s.freqs < s.fAlloc := by omega
      simp only [hlt, ↓reduceIte]
      exact ⟨key _ h hlt, by intro w; simp⟩

theorem setFrequency_inv (c : Cfg V F) (s : VData V F) (i : Int) (x : F) (h : Inv c s) :
    Inv c (s.setFrequency i x).1 ∧ ∀ w, (s.setFrequency i x).2 ≠ .ub w := by
  unfold VData.setFrequency
  by_cases hi : inRange i s.freqs = true
  · have hlt := toNat_lt hi
    have hfa : i.toNat < s.fAlloc := by have := h.freqs_le; omega
    simp only [hi, not_true_eq_false, ↓reduceIte, hfa]
    refine ⟨fvec_update_inv c s h _ ?_, by intro w; simp⟩
    intro f hf
    have : ¬ f = i.toNat := by omega
    simp only [this, ↓reduceIte]
  · simp only [hi, not_false_eq_true, ↓reduceIte]
    exact ⟨h, by intro w; simp⟩

theorem setFrequencyVector_inv (c : Cfg V F) (s : VData V F) (xs : List F) (h : Inv c s) :
    Inv c (s.setFrequencyVector xs).1 ∧ ∀ w, (s.setFrequencyVector xs).2 ≠ .ub w := by
  unfold VData.setFrequencyVector
  simp only [h.freqs_le, ↓reduceIte]
  refine ⟨fvec_update_inv c s h _ ?_, by intro w; simp⟩
  intro f hf
  have : ¬ (f < s.freqs ∧ f < xs.length) := by omega
  simp only [this, ↓reduceDIte]

theorem setCell_inv (c : Cfg V F) (s : VData V F) (f r k : Int) (x : V) (h : Inv c s) :
    Inv c (s.setCell f r k x).1 ∧ ∀ w, (s.setCell f r k x).2 ≠ .ub w := by
  unfold VData.setCell
  by_cases hf : inRange f s.freqs = true
  · by_cases hr : inRange r s.rows = true
    · by_cases hk : inRange k s.cols = true
      · have hidx := idx_lt (toNat_lt hr) (toNat_lt hk)
        have hf' := toNat_lt hf
        have h1 : f.toNat < s.fAlloc ∧ r.toNat * s.cols + k.toNat < s.mAlloc := by
          have := h.freqs_le; have := h.cells_le; omega
        simp only [hf, hr, hk, not_true_eq_false, ↓reduceIte, h1, and_self]
        refine ⟨data_update_inv c s h _ ?_, by intro w; simp⟩
        intro g j hor
        have : ¬ (g = f.toNat ∧ j = r.toNat * s.cols + k.toNat) := by omega
        simp only [this, ↓reduceIte]
      · simp only [hf, hr, hk, not_true_eq_false, not_false_eq_true, ↓reduceIte]
        exact ⟨h, by intro w; simp⟩
    · simp only [hf, hr, not_true_eq_false, not_false_eq_true, ↓reduceIte]
      exact ⟨h, by intro w; simp⟩
  · simp only [hf, not_false_eq_true, ↓reduceIte]
    exact ⟨h, by intro w; simp⟩

theorem setMatrix_inv (c : Cfg V F) (s : VData V F) (f : Int) (xs : List V) (h : Inv c s) :
    Inv c (s.setMatrix f xs).1 ∧ ∀ w, (s.setMatrix f xs).2 ≠ .ub w := by
  unfold VData.setMatrix
  by_cases hf : inRange f s.freqs = true
  · have hf' := toNat_lt hf
    have h1 : f.toNat < s.fAlloc ∧ s.cells ≤ s.mAlloc := ⟨by have := h.freqs_le; omega, h.cells_le⟩
    simp only [hf, not_true_eq_false, ↓reduceIte, h1, and_self]
    refine ⟨data_update_inv c s h _ ?_, by intro w; simp⟩
    intro g j hor
    have : ¬ (g = f.toNat ∧ j < s.cells ∧ j < xs.length) := by simp only [VData.cells]; omega
    simp only [this, ↓reduceDIte]
  · simp only [hf, not_false_eq_true, ↓reduceIte]
    exact ⟨h, by intro w; simp⟩

theorem setFromVector_inv (c : Cfg V F) (s : VData V F) (r k : Int) (xs : List V) (h : Inv c s) :
    Inv c (s.setFromVector r k xs).1 ∧ ∀ w, (s.setFromVector r k xs).2 ≠ .ub w := by
  unfold VData.setFromVector
  by_cases hr : inRange r s.rows = true
  · by_cases hk : inRange k s.cols = true
    · have hidx := idx_lt (toNat_lt hr) (toNat_lt hk)
      have h1 : s.freqs ≤ s.fAlloc ∧ r.toNat * s.cols + k.toNat < s.mAlloc := by
        have := h.freqs_le; have := h.cells_le; omega
      simp only [hr, hk, not_true_eq_false, ↓reduceIte, h1, and_self]
      refine ⟨data_update_inv c s h _ ?_, by intro w; simp⟩
      intro g j hor
      have : ¬ (g < s.freqs ∧ j = r.toNat * s.cols + k.toNat ∧ g < xs.length) := by omega
      simp only [this, ↓reduceDIte]
    · simp only [hr, hk, not_true_eq_false, not_false_eq_true, ↓reduceIte]
      exact ⟨h, by intro w; simp⟩
  · simp only [hr, not_false_eq_true, ↓reduceIte]
    exact ⟨h, by intro w; simp⟩

theorem setZ0_inv (c : Cfg V F) (s : VData V F) (p : Int) (z : V) (h : Inv c s) :
    Inv c (s.setZ0 c p z).1 ∧ ∀ w, (s.setZ0 c p z).2 ≠ .ub w := by
  unfold VData.setZ0
  by_cases hp : inRange p s.ports = true
  · have h' := toZ0_inv c s h
    have hlt := toNat_lt hp
    have h1 : p.toNat < (s.toZ0 c).pAlloc := by
      have := h.ports_le; simp only [toZ0_pAlloc]; simp only [VData.ports] at hlt; omega
    simp only [hp, not_true_eq_false, ↓reduceIte, h1]
    refine ⟨z0_update_inv c _ h' _ ?_, by intro w; simp⟩
    intro q hq
    have : ¬ q = p.toNat := by simp only [toZ0_rows, toZ0_cols] at hq; simp only [VData.ports] at hlt; omega
    simp only [this, ↓reduceIte]
  · simp only [hp, not_false_eq_true, ↓reduceIte]
    exact ⟨h, by intro w; simp⟩

theorem setZ0Vector_inv (c : Cfg V F) (s : VData V F) (zs : List V) (h : Inv c s) :
    Inv c (s.setZ0Vector c zs).1 ∧ ∀ w, (s.setZ0Vector c zs).2 ≠ .ub w := by
  unfold VData.setZ0Vector
  have h' := toZ0_inv c s h
  have hp : (s.toZ0 c).ports ≤ (s.toZ0 c).pAlloc := h'.ports_le
  simp only [hp, ↓reduceIte]
  refine ⟨z0_update_inv c _ h' _ ?_, by intro w; simp⟩
  intro q hq
  have : ¬ (q < (s.toZ0 c).ports ∧ q < zs.length) := by simp only [VData.ports]; omega
  simp only [this, ↓reduceDIte]

theorem setFz0_inv (c : Cfg V F) (s : VData V F) (f p : Int) (z : V) (h : Inv c s) :
    Inv c (s.setFz0 c f p z).1 ∧ ∀ w, (s.setFz0 c f p z).2 ≠ .ub w := by
  unfold VData.setFz0
  by_cases hf : inRange f s.freqs = true
  · by_cases hp : inRange p s.ports = true
    · have h' := toFz0_inv c s h
      have hf' := toNat_lt hf
      have hp' := toNat_lt hp
      have h1 : f.toNat < (s.toFz0 c).fAlloc ∧ p.toNat < (s.toFz0 c).pAlloc := by
        have := h.freqs_le; have := h.ports_le
        simp only [toFz0_fAlloc, toFz0_pAlloc]; simp only [VData.ports] at hp'; omega
      simp only [hf, hp, not_true_eq_false, ↓reduceIte, h1, and_self]
      refine ⟨fz0_update_inv c _ h' _ ?_, by intro w; simp⟩
      intro g q hor
      have : ¬ (g = f.toNat ∧ q = p.toNat) := by
        simp only [toFz0_freqs, toFz0_rows, toFz0_cols] at hor; simp only [VData.ports] at hp'; omega
      simp only [this, ↓reduceIte]
    · simp only [hf, hp, not_true_eq_false, not_false_eq_true, ↓reduceIte]
      exact ⟨h, by intro w; simp⟩
  · simp only [hf, not_false_eq_true, ↓reduceIte]
    exact ⟨h, by intro w; simp⟩

theorem setFz0Vector_inv (c : Cfg V F) (s : VData V F) (f : Int) (zs : List V) (h : Inv c s) :
    Inv c (s.setFz0Vector c f zs).1 ∧ ∀ w, (s.setFz0Vector c f zs).2 ≠ .ub w := by
  unfold VData.setFz0Vector
  by_cases hf : inRange f s.freqs = true
  · have h' := toFz0_inv c s h
    have hf' := toNat_lt hf
    have h1 : f.toNat < (s.toFz0 c).fAlloc ∧ (s.toFz0 c).ports ≤ (s.toFz0 c).pAlloc := by
      refine ⟨?_, h'.ports_le⟩
      have := h.freqs_le; simp only [toFz0_fAlloc]; omega
    simp only [hf, not_true_eq_false, ↓reduceIte, h1, and_self]
    refine ⟨fz0_update_inv c _ h' _ ?_, by intro w; simp⟩
    intro g q hor
    have : ¬ (g = f.toNat ∧ q < (s.toFz0 c).ports ∧ q < zs.length) := by
      simp only [toFz0_freqs] at hor; simp only [VData.ports]; omega
    simp only [this, ↓reduceDIte]
  · simp only [hf, not_false_eq_true, ↓reduceIte]
    exact ⟨h, by intro w; simp⟩

/-! ### getters never leave an allocation -/

theorem getters_no_ub (c : Cfg V F) (s : VData V F) (h : Inv c s) (w : String) :
    (∀ i, s.getFrequency i ≠ .ub w) ∧ s.getFmin ≠ .ub w ∧ s.getFmax ≠ .ub w ∧
    (∀ f r k, s.getCell f r k ≠ .ub w) ∧ (∀ f, s.getMatrix f ≠ .ub w) ∧ (∀ r k, s.getToVector r k ≠ .ub w) ∧
    (∀ p, s.getZ0 p ≠ .ub w) ∧ s.getZ0Vector ≠ .ub w ∧ (∀ f p, s.getFz0 f p ≠ .ub w) ∧
    (∀ f, s.getFz0Vector f ≠ .ub w) := by
  have h1 := h.cells_le; have h2 := h.freqs_le; have h3 := h.ports_le
  refine ⟨?_, ?_, ?_, ?_, ?_, ?_, ?_, ?_, ?_, ?_⟩
  · intro i; unfold VData.getFrequency
    by_cases hi : inRange i s.freqs = true
    · have := toNat_lt hi
      have hfa : i.toNat < s.fAlloc := by omega
      simp [hi, hfa]
    · simp [hi]
  · unfold VData.getFmin
    by_cases h0 : s.freqs = 0
    · simp [h0]
    · have : 0 < s.fAlloc := by omega
      simp [h0, this]
  · unfold VData.getFmax
    by_cases h0 : s.freqs = 0
    · simp [h0]
    · have : s.freqs - 1 < s.fAlloc := by omega
      simp [h0, this]
  · intro f r k; unfold VData.getCell
    by_cases hf : inRange f s.freqs = true
    · by_cases hr : inRange r s.rows = true
      · by_cases hk : inRange k s.cols = true
        · have hidx := idx_lt (toNat_lt hr) (toNat_lt hk)
          have := toNat_lt hf
          have h1 : f.toNat < s.fAlloc ∧ r.toNat * s.cols + k.toNat < s.mAlloc := by omega
          simp [hf, hr, hk, h1]
        · simp [hf, hr, hk]
      · simp [hf, hr]
    · simp [hf]
  · intro f; unfold VData.getMatrix
    by_cases hf : inRange f s.freqs = true
    · have := toNat_lt hf
      have h1 : f.toNat < s.fAlloc ∧ s.cells ≤ s.mAlloc := ⟨by omega, h1⟩
      simp [hf, h1]
    · simp [hf]
  · intro r k; unfold VData.getToVector
    by_cases hr : inRange r s.rows = true
    · by_cases hk : inRange k s.cols = true
      · have hidx := idx_lt (toNat_lt hr) (toNat_lt hk)
        have h1 : s.freqs ≤ s.fAlloc ∧ r.toNat * s.cols + k.toNat < s.mAlloc := by omega
        simp [hr, hk, h1]
      · simp [hr, hk]
    · simp [hr]
  · intro p; unfold VData.getZ0
    by_cases hp : inRange p s.ports = true
    · have := toNat_lt hp
      have h1 : p.toNat < s.pAlloc := by simp only [VData.ports] at this; omega
      by_cases hpf : s.perF = true <;> simp [hp, hpf, h1]
    · simp [hp]
  · unfold VData.getZ0Vector
    have : s.ports ≤ s.pAlloc := h3
    by_cases hpf : s.perF = true <;> simp [hpf, this]
  · intro f p; unfold VData.getFz0
    by_cases hf : inRange f s.freqs = true
    · by_cases hp : inRange p s.ports = true
      · have := toNat_lt hp; have := toNat_lt hf
        have h1 : p.toNat < s.pAlloc := by simp only [VData.ports] at *; omega
        have h2 : f.toNat < s.fAlloc := by omega
        by_cases hpf : s.perF = true <;> simp [hf, hp, hpf, h1, h2]
      · simp [hf, hp]
    · simp [hf]
  · intro f; unfold VData.getFz0Vector
    by_cases hf : inRange f s.freqs = true
    · have := toNat_lt hf
      have h2 : f.toNat < s.fAlloc := by omega
      have : s.ports ≤ s.pAlloc := h3
      by_cases hpf : s.perF = true <;> simp [hf, hpf, h2, this]
    · simp [hf]

/-! ### every history: invariant and no out-of-allocation access (C15, and the vnadata part of C03) -/

theorem step_inv (c : Cfg V F) (s : VData V F) (op : Op V F) (h : Inv c s) :
    Inv c (step c s op).1 ∧ ∀ w, (step c s op).2 ≠ .ub w := by
  have lift : ∀ p : VData V F × Res Unit, (Inv c p.1 ∧ ∀ w, p.2 ≠ .ub w) →
      Inv c (liftU p).1 ∧ ∀ w, (liftU (F := F) p).2 ≠ .ub w := by
    intro p hp
    refine ⟨hp.1, ?_⟩
    intro w
    unfold liftU
    obtain ⟨s', r⟩ := p
    cases r with
    | ok _ => simp
    | fail e => simp
    | ub w' => exact absurd rfl (hp.2 w')
  have mp : ∀ {α : Type} (g : α → Payload V F) (r : Res α) (w : String), r ≠ .ub w → mapRes g r ≠ .ub w := by
    intro α g r w hr
    cases r with
    | ok _ => simp [mapRes]
    | fail e => simp [mapRes]
    | ub w' => simp [mapRes]; intro hx; exact hr (by rw [hx])
  cases op with
  | resize t r k n => exact lift _ (resize_inv c s t r k n h)
  | init t r k n => exact lift _ (init_inv c s t r k n h)
  | setType t => exact lift _ (setType_inv c s t h)
  | addFrequency x => exact lift _ (addFrequency_inv c s x h)
  | setFrequency i x => exact lift _ (setFrequency_inv c s i x h)
  | setFrequencyVector xs => exact lift _ (setFrequencyVector_inv c s xs h)
  | setCell f r k x => exact lift _ (setCell_inv c s f r k x h)
  | setMatrix f xs => exact lift _ (setMatrix_inv c s f xs h)
  | setFromVector r k xs => exact lift _ (setFromVector_inv c s r k xs h)
  | setZ0 p z => exact lift _ (setZ0_inv c s p z h)
  | setAllZ0 z => exact lift _ (setAllZ0_inv c s z h)
  | setZ0Vector zs => exact lift _ (setZ0Vector_inv c s zs h)
  | setFz0 f p z => exact lift _ (setFz0_inv c s f p z h)
  | setFz0Vector f zs => exact lift _ (setFz0Vector_inv c s f zs h)
  | getFrequency i => exact ⟨h, fun w => mp _ _ w ((getters_no_ub c s h w).1 i)⟩
  | getFmin => exact ⟨h, fun w => mp _ _ w (getters_no_ub c s h w).2.1⟩
  | getFmax => exact ⟨h, fun w => mp _ _ w (getters_no_ub c s h w).2.2.1⟩
  | getCell f r k => exact ⟨h, fun w => mp _ _ w ((getters_no_ub c s h w).2.2.2.1 f r k)⟩
  | getMatrix f => exact ⟨h, fun w => mp _ _ w ((getters_no_ub c s h w).2.2.2.2.1 f)⟩
  | getToVector r k => exact ⟨h, fun w => mp _ _ w ((getters_no_ub c s h w).2.2.2.2.2.1 r k)⟩
  | getZ0 p => exact ⟨h, fun w => mp _ _ w ((getters_no_ub c s h w).2.2.2.2.2.2.1 p)⟩
  | getZ0Vector => exact ⟨h, fun w => mp _ _ w (getters_no_ub c s h w).2.2.2.2.2.2.2.1⟩
  | getFz0 f p => exact ⟨h, fun w => mp _ _ w ((getters_no_ub c s h w).2.2.2.2.2.2.2.2.1 f p)⟩
  | getFz0Vector f => exact ⟨h, fun w => mp _ _ w ((getters_no_ub c s h w).2.2.2.2.2.2.2.2.2 f)⟩

/-- after any history of operations on a freshly allocated object the invariant holds … -/
theorem reachable_inv (c : Cfg V F) (jv : V) (jf : F) (ops : List (Op V F)) :
    Inv c (run c (VData.alloc jv jf) ops) := by
  suffices ∀ s, Inv c s → Inv c (run c s ops) from this _ (alloc_inv c jv jf)
  induction ops with
  | nil => intro s h; exact h
  | cons op ops ih => intro s h; exact ih _ (step_inv c s op h).1

/-- … and the next operation, whatever it is and whatever its arguments, stays inside the object's allocations -/
theorem reachable_no_ub (c : Cfg V F) (jv : V) (jf : F) (ops : List (Op V F)) (op : Op V F) (w : String) :
    (step c (run c (VData.alloc jv jf) ops) op).2 ≠ .ub w :=
  (step_inv c _ op (reachable_inv c jv jf ops)).2 w

/-! ### any index outside [0, n) — including n — is refused, with no effect -/

theorem index_refused (c : Cfg V F) (s : VData V F) (z : V) (x : F) :
    (∀ p : Int, ¬ (0 ≤ p ∧ p < (s.ports : Int)) →
        s.getZ0 p = .fail .EINVAL ∧ s.setZ0 c p z = (s, .fail .EINVAL) ∧
        (∀ f, s.getFz0 f p = .fail .EINVAL) ∧ (∀ f, s.setFz0 c f p z = (s, .fail .EINVAL))) ∧
    (∀ f : Int, ¬ (0 ≤ f ∧ f < (s.freqs : Int)) →
        s.getFrequency f = .fail .EINVAL ∧ s.setFrequency f x = (s, .fail .EINVAL) ∧
        (∀ r k, s.getCell f r k = .fail .EINVAL) ∧ (∀ r k, s.setCell f r k z = (s, .fail .EINVAL)) ∧
        s.getMatrix f = .fail .EINVAL ∧ (∀ xs, s.setMatrix f xs = (s, .fail .EINVAL)) ∧
        (∀ p, s.getFz0 f p = .fail .EINVAL) ∧ (∀ p, s.setFz0 c f p z = (s, .fail .EINVAL)) ∧
        s.getFz0Vector f = .fail .EINVAL ∧ (∀ zs, s.setFz0Vector c f zs = (s, .fail .EINVAL))) ∧
    (∀ r : Int, ¬ (0 ≤ r ∧ r < (s.rows : Int)) →
        (∀ f k, s.getCell f r k = .fail .EINVAL) ∧ (∀ f k, s.setCell f r k z = (s, .fail .EINVAL)) ∧
        (∀ k, s.getToVector r k = .fail .EINVAL) ∧ (∀ k xs, s.setFromVector r k xs = (s, .fail .EINVAL))) ∧
    (∀ k : Int, ¬ (0 ≤ k ∧ k < (s.cols : Int)) →
        (∀ f r, s.getCell f r k = .fail .EINVAL) ∧ (∀ f r, s.setCell f r k z = (s, .fail .EINVAL)) ∧
        (∀ r, s.getToVector r k = .fail .EINVAL) ∧ (∀ r xs, s.setFromVector r k xs = (s, .fail .EINVAL))) := by
  refine ⟨?_, ?_, ?_, ?_⟩
  · intro p hp
    have hp' : inRange p s.ports = false := by
      cases hx : inRange p s.ports
      · rfl
      · exact absurd (inRange_iff.mp hx) hp
    refine ⟨by simp [VData.getZ0, hp'], by simp [VData.setZ0, hp'], ?_, ?_⟩
    · intro f; unfold VData.getFz0; by_cases hf : inRange f s.freqs = true <;> simp [hf, hp']
    · intro f; unfold VData.setFz0; by_cases hf : inRange f s.freqs = true <;> simp [hf, hp']
  · intro f hf
    have hf' : inRange f s.freqs = false := by
      cases hx : inRange f s.freqs
      · rfl
      · exact absurd (inRange_iff.mp hx) hf
    simp [VData.getFrequency, VData.setFrequency, VData.getCell, VData.setCell, VData.getMatrix, VData.setMatrix,
      VData.getFz0, VData.setFz0, VData.getFz0Vector, VData.setFz0Vector, hf']
  · intro r hr
    have hr' : inRange r s.rows = false := by
      cases hx : inRange r s.rows
      · rfl
      · exact absurd (inRange_iff.mp hx) hr
    refine ⟨?_, ?_, by simp [VData.getToVector, hr'], by simp [VData.setFromVector, hr']⟩
    · intro f k; unfold VData.getCell; by_cases hf : inRange f s.freqs = true <;> simp [hf, hr']
    · intro f k; unfold VData.setCell; by_cases hf : inRange f s.freqs = true <;> simp [hf, hr']
  · intro k hk
    have hk' : inRange k s.cols = false := by
      cases hx : inRange k s.cols
      · rfl
      · exact absurd (inRange_iff.mp hx) hk
    refine ⟨?_, ?_, ?_, ?_⟩
    · intro f r; unfold VData.getCell
      by_cases hf : inRange f s.freqs = true <;> by_cases hr : inRange r s.rows = true <;> simp [hf, hr, hk']
    · intro f r; unfold VData.setCell
      by_cases hf : inRange f s.freqs = true <;> by_cases hr : inRange r s.rows = true <;> simp [hf, hr, hk']
    · intro r; unfold VData.getToVector; by_cases hr : inRange r s.rows = true <;> simp [hr, hk']
    · intro r xs; unfold VData.setFromVector; by_cases hr : inRange r s.rows = true <;> simp [hr, hk']

/-- a refused resize / init-less set_type / add_frequency leaves the object exactly as it was -/
theorem refused_frame (c : Cfg V F) (s : VData V F) :
    (∀ t r k n e, (s.resize c t r k n).2 = .fail e → (s.resize c t r k n).1 = s) ∧
    (∀ t e, (s.setType t).2 = .fail e → (s.setType t).1 = s) ∧
    (∀ x e, (s.addFrequency c x).2 = .fail e → (s.addFrequency c x).1 = s) := by
  refine ⟨?_, ?_, ?_⟩
  · intro t r k n e
    unfold VData.resize
    split
    · intro _; rfl
    · split
      · intro _; rfl
      · simp only
        split <;> simp
  · intro t e; unfold VData.setType; split <;> simp
  · intro x e; unfold VData.addFrequency
    split
    · intro _; rfl
    · simp only
      intro hx
      split at hx <;> (split at hx <;> simp at hx)

/-! ### resize preserves what is documented and exposes initial values -/

/-- After a successful resize of an object satisfying the invariant: every cell, frequency and
    impedance that was visible before and is still visible is unchanged (cells keep their flat
    position, as documented), and every newly visible one reads 0, 0, 50 ohm. -/
theorem resize_exposes_initial (c : Cfg V F) (s : VData V F) (t r k n : Int) (h : Inv c s)
    (hok : (s.resize c t r k n).2 = .ok ()) :
    let s' := (s.resize c t r k n).1
    s'.rows = r.toNat ∧ s'.cols = k.toNat ∧ s'.freqs = n.toNat ∧ s'.type = t.toNat ∧ s'.perF = s.perF ∧
    (∀ f j, f < s'.freqs → j < s'.rows * s'.cols →
        s'.data f j = if f < s.freqs ∧ j < s.rows * s.cols then s.data f j else c.zero) ∧
    (∀ f, f < s'.freqs → s'.fvec f = if f < s.freqs then s.fvec f else c.fzero) ∧
    (s.perF = false → ∀ p, p < max s'.rows s'.cols →
        s'.z0 p = if p < max s.rows s.cols then s.z0 p else c.z50) ∧
    (s.perF = true → ∀ f p, f < s'.freqs → p < max s'.rows s'.cols →
        s'.fz0 f p = if f < s.freqs ∧ p < max s.rows s.cols then s.fz0 f p else c.z50) := by
  unfold VData.resize at hok ⊢
  by_cases h1 : r < 0 ∨ k < 0 ∨ n < 0
  · simp [h1] at hok
  · simp only [h1, ↓reduceIte] at hok ⊢
    by_cases h2 : validateType t r.toNat k.toNat = true
    · simp only [h2, not_true_eq_false, ↓reduceIte] at hok ⊢
      have hP := extendP_inv c s (max r.toNat k.toNat) h
      have hM := extendM_inv c _ (r.toNat * k.toNat) hP
      have hI := extendF_inv c _ n.toNat hM
      -- content of the extended object
      have hv := vacate_some c _ t.toNat r.toNat k.toNat n.toNat hI
      obtain ⟨s', hs'⟩ := hv
      rw [hs']
      have e1 := h.cells_le; have e2 := h.freqs_le; have e3 := h.ports_le
      have i1 := hI.cells_le; have i2 := hI.freqs_le; have i3 := hI.ports_le
      simp only [VData.vacate, VData.ports, VData.cells, i1, i2, i3, and_self, not_true_eq_false, ↓reduceIte,
        Option.some.injEq] at hs'
      subst hs'
      simp only [extendF_rows, extendM_rows, extendP_rows, extendF_cols, extendM_cols, extendP_cols,
        extendF_freqs, extendM_freqs, extendP_freqs, extendF_perF, extendM_perF, extendP_perF, true_and] at i1 i2 i3 ⊢
      refine ⟨?_, ?_, ?_, ?_⟩
      · intro f j hf hj
        by_cases a1 : n.toNat ≤ f ∧ f < s.freqs ∧ j < s.rows * s.cols
        · omega
        · by_cases a2 : f < s.freqs ∧ r.toNat * k.toNat ≤ j ∧ j < s.rows * s.cols
          · omega
          · rw [if_neg a1, if_neg a2]
            by_cases a3 : f < s.freqs ∧ j < s.rows * s.cols
            · rw [if_pos a3]
              rw [extendF_data _ _ _ _ _ (by simp only [extendM_fAlloc, extendP_fAlloc]; omega),
                extendM_data _ _ _ _ _ (by simp only [extendP_mAlloc]; omega), extendP_data]
            · rw [if_neg a3]
              apply hI.data_hidden f j
              · simp only [extendF_fAlloc]; omega
              · simp only [extendF_mAlloc, extendM_mAlloc]; omega
              · simp only [extendF_rows, extendM_rows, extendP_rows, extendF_cols, extendM_cols, extendP_cols,
                  extendF_freqs, extendM_freqs, extendP_freqs]; omega
      · intro f hf
        by_cases a1 : n.toNat ≤ f ∧ f < s.freqs
        · omega
        · rw [if_neg a1]
          by_cases a3 : f < s.freqs
          · rw [if_pos a3]
            rw [extendF_fvec _ _ _ _ (by simp only [extendM_fAlloc, extendP_fAlloc]; omega), extendM_fvec, extendP_fvec]
          · rw [if_neg a3]
            apply hI.fvec_hidden f
            · simp only [extendF_freqs, extendM_freqs, extendP_freqs]; omega
            · simp only [extendF_fAlloc]; omega
      · intro hpf p hp
        by_cases a1 : max r.toNat k.toNat ≤ p ∧ p < max s.rows s.cols
        · omega
        · rw [if_neg (fun hx => a1 hx.2)]
          by_cases a3 : p < max s.rows s.cols
          · rw [if_pos a3]
            rw [extendF_z0, extendM_z0, extendP_z0 _ _ _ _ (by omega)]
          · rw [if_neg a3]
            apply hI.z0_hidden (by simpa using hpf) p
            · simp only [extendF_rows, extendM_rows, extendP_rows, extendF_cols, extendM_cols, extendP_cols]; omega
            · simp only [extendF_pAlloc, extendM_pAlloc, extendP_pAlloc]; omega
      · intro hpf f p hf hp
        by_cases a1 : n.toNat ≤ f ∧ f < s.freqs ∧ p < max s.rows s.cols
        · omega
        · by_cases a2 : f < s.freqs ∧ max r.toNat k.toNat ≤ p ∧ p < max s.rows s.cols
          · omega
          · rw [if_neg (fun hx => a1 hx.2), if_neg (fun hx => a2 hx.2)]
            by_cases a3 : f < s.freqs ∧ p < max s.rows s.cols
            · rw [if_pos a3]
              rw [extendF_fz0 _ _ _ _ _ (by simp only [extendM_fAlloc, extendP_fAlloc]; omega), extendM_fz0,
                extendP_fz0 _ _ _ _ _ (by omega)]
            · rw [if_neg a3]
              apply hI.fz0_hidden (by simpa using hpf) f p
              · simp only [extendF_fAlloc]; omega
              · simp only [extendF_pAlloc, extendM_pAlloc, extendP_pAlloc]; omega
              · simp only [extendF_rows, extendM_rows, extendP_rows, extendF_cols, extendM_cols, extendP_cols,
                  extendF_freqs, extendM_freqs, extendP_freqs]; omega
    · simp [h2] at hok

end Libvna.VD
