/-
C01 / C20 — the leakage terms outside the linear system (TE10, UE10, UE14, E12): `_vnacal_new_solve_start_frequency` averages, per
off-diagonal measurement cell, the measurements of the standards that gave the cell and have no signal path through it.
The executed model (Model/Leakage.lean, run against the terms `vnacal_save` writes) has: exact data give the network's leakage
(`leak_exact`), standards that did not measure the cell or connect the ports change nothing (`leak_frame`), the order of the
standards does not matter (`leak_perm`), no sample means zero (`leak_none`).
-/
import Libvna.Model.Leakage
import Mathlib.Algebra.Field.Basic
import Mathlib.Algebra.CharZero.Defs
import Mathlib.Data.Nat.Cast.Field
import Mathlib.Tactic.FieldSimp
import Mathlib.Tactic.Ring
import Mathlib.Data.List.Perm.Basic

namespace Libvna.LK
variable {K : Type} [Field K]

theorem natK_eq (n : Nat) : (natK n : K) = (n : K) := by
  induction n with
  | zero => simp [natK]
  | succ k ih => simp [natK, ih]

/-- the count is the number of contributing standards, the sum their sum -/
theorem accum_spec (cell : Nat) (stds : List (Std K)) :
    accum cell stds = (((stds.filterMap fun s => sample s cell).sum), (stds.filterMap fun s => sample s cell).length) := by
  induction stds with
  | nil => simp [accum]
  | cons s rest ih =>
    simp only [accum, ih, List.filterMap_cons]
    cases h : sample s cell <;> simp

theorem sum_const (L : List K) (e : K) (h : ∀ v ∈ L, v = e) : L.sum = (L.length : K) * e := by
  induction L with
  | nil => simp
  | cons a t ih =>
    have ha : a = e := h a (by simp)
    have := ih (fun v hv => h v (by simp [hv]))
    simp only [List.sum_cons, List.length_cons, this, ha]; push_cast; ring

/-- **exact data**: if every contributing measurement of the cell equals `e` (the leakage of the error network) and there is at least
one, the term is `e`, whatever else was measured and in whatever shapes -/
theorem leak_exact [CharZero K] (cell : Nat) (stds : List (Std K)) (e : K)
    (hall : ∀ s ∈ stds, ∀ v, sample s cell = some v → v = e) (hone : ∃ s ∈ stds, (sample s cell).isSome) :
    leak stds cell = e := by
  unfold leak
  rw [accum_spec]
  set L := stds.filterMap fun s => sample s cell with hL
  have hval : ∀ v ∈ L, v = e := by
    intro v hv
    obtain ⟨s, hs, hsv⟩ := List.mem_filterMap.mp hv
    exact hall s hs v hsv
  have hne : L.length ≠ 0 := by
    obtain ⟨s, hs, hsome⟩ := hone
    obtain ⟨v, hv⟩ := Option.isSome_iff_exists.mp hsome
    have : v ∈ L := List.mem_filterMap.mpr ⟨s, hs, hv⟩
    exact fun h => by rw [List.length_eq_zero_iff] at h; rw [h] at this; exact absurd this (List.not_mem_nil)
  have hsum : L.sum = (L.length : K) * e := sum_const L e hval
  simp only [hne, if_false, natK_eq, hsum]
  have : (L.length : K) ≠ 0 := by exact_mod_cast hne
  field_simp

/-- a standard that did not measure the cell, or connects the two ports, changes nothing (abbreviated matrices, throughs) -/
theorem leak_frame (cell : Nat) (stds : List (Std K)) (s : Std K) (h : sample s cell = none) :
    leak (s :: stds) cell = leak stds cell := by
  unfold leak
  simp only [accum, h]

/-- the order in which the standards were added does not matter -/
theorem leak_perm (cell : Nat) (l1 l2 : List (Std K)) (h : l1.Perm l2) : leak l1 cell = leak l2 cell := by
  unfold leak
  rw [accum_spec, accum_spec]
  have hp : (l1.filterMap fun s => sample s cell).Perm (l2.filterMap fun s => sample s cell) := h.filterMap _
  rw [hp.sum_eq, hp.length_eq]

/-- no sample at all: the term is zero -/
theorem leak_none (cell : Nat) (stds : List (Std K)) (h : ∀ s ∈ stds, sample s cell = none) : leak stds cell = 0 := by
  unfold leak
  rw [accum_spec]
  have : (stds.filterMap fun s => sample s cell) = [] := by
    rw [List.filterMap_eq_nil_iff]; exact h
  simp [this]

end Libvna.LK
