/- C04 — hand-written property theorems (the per-function theorems are generated, see Gen/Conv2Thm). -/
import Libvna.Gen.Conv2All
import Libvna.Props.C19Solve
import Libvna.Props.C04N

namespace Libvna.C04
open Libvna.LULoop

/-- n-port Z ↔ Y, every n ≥ 1: `vnaconv_ztoyn` / `vnaconv_ytozn` (the executed model `ConvN.inv`) return a matrix that relates
    exactly the port voltage / current vectors the input relates; proved in Props/C19Solve on top of the LU kernel theorems -/
theorem nport_ztoy_exact {K : Type} [Field K] [Inhabited K] (mag : K → Float) (z : Array K) (n : Nat) (hn : 0 < n)
    (hs : z.size = n * n) (hp : ∀ i, i < n → LA.get (LA.lu mag z n).1 n i i ≠ 0) (v i : Fin n → K) :
    v = (Amat z n).mulVec i ↔ i = (Matrix.of fun r c : Fin n => X (ConvN.inv mag z n) n r c).mulVec v :=
  ztoyn_relation mag z n hn hs hp v i

end Libvna.C04
