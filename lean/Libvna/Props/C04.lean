/- C04 — hand-written property theorems (the per-function theorems are generated, see Gen/Conv2Thm). -/
import Libvna.Gen.Conv2All
