/-
C13 — the property tree behaves like a map/list/scalar document model.

Theorems about Model/PropTree.lean (core Lean only).
-/
import Libvna.Model.PropTree

namespace Libvna.PT

/-! ### maps: lookup / set / erase on the ordered association list -/

def akeys (kvs : List (Bytes × Node)) : List Bytes := kvs.map (·.1)

theorem alookup_aset_same (k : Bytes) (v : Node) (kvs : List (Bytes × Node)) :
    alookup k (aset k v kvs) = some v := by
  induction kvs with
  | nil => simp [aset, alookup]
  | cons p r ih =>
    obtain ⟨k', v'⟩ := p
    simp only [aset]
    by_cases h : k' = k
    · simp [h, alookup]
    · simp [h, alookup, ih]

theorem alookup_aset_other (k k' : Bytes) (v : Node) (kvs : List (Bytes × Node)) (h : k' ≠ k) :
    alookup k' (aset k v kvs) = alookup k' kvs := by
  induction kvs with
  | nil => simp [aset, alookup, Ne.symm h]
  | cons p r ih =>
    obtain ⟨k2, v2⟩ := p
    simp only [aset]
    by_cases h2 : k2 = k
    · subst h2
      simp [alookup, Ne.symm h]
    · simp only [h2, ↓reduceIte, alookup]
      by_cases h3 : k2 = k'
      · simp [h3]
      · simp [h3, ih]

/-- setting an existing key keeps the key order; a new key goes to the end -/
theorem akeys_aset (k : Bytes) (v : Node) (kvs : List (Bytes × Node)) :
    akeys (aset k v kvs) = if k ∈ akeys kvs then akeys kvs else akeys kvs ++ [k] := by
  induction kvs with
  | nil => simp [aset, akeys]
  | cons p r ih =>
    obtain ⟨k', v'⟩ := p
    simp only [aset]
    by_cases h : k' = k
    · subst h; simp [akeys]
    · simp only [h, ↓reduceIte, akeys, List.map_cons, List.mem_cons] at ih ⊢
      have hk : ¬ k = k' := fun e => h e.symm
      simp only [hk, false_or]
      split
      · next hm => simp [hm] at ih; simp [ih]
      · next hm => simp [hm] at ih; simp [ih]

theorem akeys_nodup_aset (k : Bytes) (v : Node) (kvs : List (Bytes × Node)) (h : (akeys kvs).Nodup) :
    (akeys (aset k v kvs)).Nodup := by
  rw [akeys_aset]
  split
  · exact h
  · next hm =>
    rw [List.nodup_append]
    refine ⟨h, by simp, ?_⟩
    intro a ha b hb
    simp only [List.mem_singleton] at hb
    subst hb
    intro e; subst e; exact hm ha

theorem alookup_aerase_same (k : Bytes) (kvs : List (Bytes × Node)) (h : (akeys kvs).Nodup) :
    alookup k (aerase k kvs) = none := by
  induction kvs with
  | nil => simp [aerase, alookup]
  | cons p r ih =>
    obtain ⟨k', v'⟩ := p
    simp only [akeys, List.map_cons, List.nodup_cons] at h
    simp only [aerase]
    by_cases hk : k' = k
    · subst hk
      simp only [↓reduceIte]
      -- k' does not occur in the rest
      have : ∀ l : List (Bytes × Node), k' ∉ l.map (·.1) → alookup k' l = none := by
        intro l
        induction l with
        | nil => intro _; rfl
        | cons q t iht =>
          intro hn
          simp only [List.map_cons, List.mem_cons, not_or] at hn
          simp only [alookup]
          have : ¬ q.1 = k' := fun e => hn.1 e.symm
          simp [this, iht hn.2]
      exact this r h.1
    · simp only [hk, ↓reduceIte, alookup]
      exact ih h.2

theorem alookup_aerase_other (k k' : Bytes) (kvs : List (Bytes × Node)) (h : k' ≠ k) :
    alookup k' (aerase k kvs) = alookup k' kvs := by
  induction kvs with
  | nil => simp [aerase]
  | cons p r ih =>
    obtain ⟨k2, v2⟩ := p
    simp only [aerase]
    by_cases h2 : k2 = k
    · subst h2; simp [alookup, Ne.symm h]
    · simp only [h2, ↓reduceIte, alookup]
      by_cases h3 : k2 = k'
      · simp [h3]
      · simp [h3, ih]

/-- deleting a key removes exactly that key and keeps the order of the others -/
theorem akeys_aerase (k : Bytes) (kvs : List (Bytes × Node)) : akeys (aerase k kvs) = (akeys kvs).erase k := by
  induction kvs with
  | nil => simp [aerase, akeys]
  | cons p r ih =>
    obtain ⟨k', v'⟩ := p
    simp only [aerase]
    by_cases h : k' = k
    · subst h; simp [akeys]
    · simp only [h, ↓reduceIte, akeys, List.map_cons] at ih ⊢
      rw [List.erase_cons_tail (by simpa using h)]
      simp [ih]

/-! ### set then get: the addressed node holds what was stored, for every tree and every plain path -/

/-- paths made of keys and plain subscripts (what readers accept) -/
def Plain : List Step → Prop
  | [] => True
  | .key _ :: r => Plain r
  | .idx _ :: r => Plain r
  | _ :: _ => False

theorem padTo_length (xs : List Node) (n : Nat) : (padTo xs n).length = max xs.length n := by
  simp [padTo]; omega

theorem getPath_update (f : Node → Node) (n : Node) (p : List Step) (hp : Plain p) :
    ∃ old, getPath (update f n p) p = .ok (f old) := by
  induction p generalizing n with
  | nil => exact ⟨n, by simp [update, getPath]⟩
  | cons st rest ih =>
    cases st with
    | key k =>
      obtain ⟨old, ho⟩ := ih ((alookup k (asMap n)).getD .null) hp
      exact ⟨old, by simp [update, getPath, alookup_aset_same, ho]⟩
    | idx i =>
      have hlen : i < (padTo (asList n) (i + 1)).length := by rw [padTo_length]; omega
      obtain ⟨old, ho⟩ := ih ((padTo (asList n) (i + 1))[i]?.getD .null) hp
      refine ⟨old, ?_⟩
      simp only [update, getPath]
      rw [List.getElem?_set_self hlen]
      exact ho
    | ins _ => exact absurd hp (by simp [Plain])
    | app => exact absurd hp (by simp [Plain])
    | absMap => exact absurd hp (by simp [Plain])
    | absList => exact absurd hp (by simp [Plain])
    | dot => exact absurd hp (by simp [Plain])

/-- `vnaproperty_set d=v` then `vnaproperty_get d`: the stored value, whatever the tree looked like before
    (conflicting nodes along the path are replaced) -/
theorem set_get (n : Node) (p : List Step) (hp : Plain p) (v : Node) :
    getPath (update (fun _ => v) n p) p = .ok v := by
  obtain ⟨_, h⟩ := getPath_update (fun _ => v) n p hp
  exact h

/-- a different key of the same map is untouched by a set below key k -/
theorem set_frame_map (f : Node → Node) (kvs : List (Bytes × Node)) (k k' : Bytes) (rest q : List Step)
    (h : k' ≠ k) :
    getPath (update f (.map kvs) (.key k :: rest)) (.key k' :: q) = getPath (.map kvs) (.key k' :: q) := by
  simp [update, getPath, asMap, alookup_aset_other k k' _ kvs h]

/-- a different index of the same list is untouched by a set below index i (no insert) -/
theorem set_frame_list (f : Node → Node) (xs : List Node) (i j : Nat) (rest q : List Step)
    (h : j ≠ i) (hj : j < xs.length) :
    getPath (update f (.list xs) (.idx i :: rest)) (.idx j :: q) = getPath (.list xs) (.idx j :: q) := by
  simp only [update, getPath, asList]
  rw [List.getElem?_set_ne (Ne.symm h)]
  simp [padTo, List.getElem?_append_left hj]

/-- insertion shifts the higher indices up by one and leaves the lower ones alone -/
theorem ins_shifts (f : Node → Node) (xs : List Node) (i : Nat) (rest : List Step) (hi : i < xs.length) (j : Nat) :
    (asList (update f (.list xs) (.ins i :: rest)))[j]? =
      if j < i then xs[j]? else if j = i then some (update f .null rest) else xs[j - 1]? := by
  have hni : ¬ i ≥ xs.length := by omega
  simp only [update, asList, hni, ↓reduceIte]
  by_cases h1 : j < i
  · simp only [h1, ↓reduceIte]
    rw [List.append_assoc, List.getElem?_append_left (by simp; omega)]
    simp [List.getElem?_take, h1]
  · simp only [h1, ↓reduceIte]
    by_cases h2 : j = i
    · subst h2
      simp only [↓reduceIte]
      rw [List.append_assoc, List.getElem?_append_right (by simp; omega)]
      simp [List.length_take, Nat.min_eq_left (Nat.le_of_lt hi)]
    · simp only [h2, ↓reduceIte]
      rw [List.append_assoc, List.getElem?_append_right (by simp; omega)]
      simp only [List.length_take, Nat.min_eq_left (Nat.le_of_lt hi)]
      rw [List.getElem?_append_right (by simp; omega)]
      simp only [List.length_singleton, List.getElem?_drop]
      congr 1; omega

/-- append puts the new element at the end -/
theorem app_appends (f : Node → Node) (xs : List Node) (rest : List Step) :
    asList (update f (.list xs) (.app :: rest)) = xs ++ [update f .null rest] := by
  simp [update, asList]

/-! ### delete -/

theorem delete_map_key (kvs : List (Bytes × Node)) (k : Bytes) (h : (akeys kvs).Nodup) :
    getPath (deleteAt (.map kvs) [.key k]) [.key k] = .error .ENOENT ∧
    ∀ k', k' ≠ k → ∀ q, getPath (deleteAt (.map kvs) [.key k]) (.key k' :: q) = getPath (.map kvs) (.key k' :: q) := by
  constructor
  · simp [deleteAt, getPath, alookup_aerase_same k kvs h]
  · intro k' hk q
    simp [deleteAt, getPath, alookup_aerase_other k k' kvs hk]

/-- deleting list element i moves the elements with higher indices down by one -/
theorem delete_list_shift (xs : List Node) (i j : Nat) :
    (asList (deleteAt (.list xs) [.idx i]))[j]? = if j < i then xs[j]? else xs[j + 1]? := by
  simp only [deleteAt, asList]
  rw [List.getElem?_eraseIdx]

/-- a trailing dot (or `{}` / `[]`) keeps the entry and nulls its value -/
theorem delete_dot_nulls (kvs : List (Bytes × Node)) (k : Bytes) (c : Node) (h : alookup k kvs = some c) :
    getPath (deleteAt (.map kvs) [.key k, .dot]) [.key k] = .ok .null := by
  simp [deleteAt, h, getPath, alookup_aset_same]

/-- what is refused changes nothing: a delete or set that fails returns the tree it was given -/
theorem refused_unchanged (root : Node) (d : Bytes) (e : Err) :
    ((opDelete root d).2 = .error e → (opDelete root d).1 = root) ∧
    ((opSet root d).2 = .error e → (opSet root d).1 = root) ∧
    ((opSetSubtree root d).2 = .error e → (opSetSubtree root d).1 = root) := by
  refine ⟨?_, ?_, ?_⟩
  · unfold opDelete
    cases parse d with
    | none => intro _; rfl
    | some p =>
      obtain ⟨steps, tail⟩ := p
      simp only
      cases getPath root steps with
      | error e' => intro _; rfl
      | ok _ => cases tail <;> simp
  · unfold opSet
    cases parse d with
    | none => intro _; rfl
    | some p =>
      obtain ⟨steps, tail⟩ := p
      simp only
      split
      · intro _; rfl
      · cases tail <;> simp
  · unfold opSetSubtree
    cases parse d with
    | none => intro _; rfl
    | some p =>
      obtain ⟨steps, tail⟩ := p
      cases tail <;> simp

/-! ### `vnaproperty_quote_key` yields a descriptor component that addresses exactly the key -/

theorem isId_of_isId1 (c : UInt8) (h : isId1 c = true) : isId c = true := by
  simp only [isId1, isId, Bool.or_eq_true] at h ⊢
  rcases h with ((h | h) | h) | h <;> simp [h]

/-- the flag the scanner attaches to the byte at a position ≥ 1 of a quoted key -/
def restFlag (c : UInt8) (r : Bytes) : Bool := !isId c || c == 92 || (c == 32 && r.all (· == 32))

def restFlags : Bytes → List (UInt8 × Bool)
  | [] => []
  | c :: r => (c, restFlag c r) :: restFlags r

/-- scanning the quoted tail of a key gives back its bytes, each flagged "escaped" exactly when
    quote_key escaped it, and stops at the first byte that cannot belong to a key -/
theorem scanKeyChars_quoteRest (cs rest : Bytes) (hz : ∀ c ∈ cs, c ≠ 0)
    (hrest : rest = [] ∨ ∃ c r, rest = c :: r ∧ isId c = false) (fuel : Nat) (hf : cs.length < fuel) :
    scanKeyChars fuel (quoteRest cs ++ rest) = some (restFlags cs, rest) := by
  induction cs generalizing fuel with
  | nil =>
    cases fuel with
    | zero => omega
    | succ f =>
      simp only [quoteRest, List.nil_append, restFlags]
      rcases hrest with h | ⟨c, r, h, hc⟩
      · subst h; simp [scanKeyChars]
      · subst h; simp [scanKeyChars, hc]
  | cons c r ih =>
    cases fuel with
    | zero => simp at hf
    | succ f =>
      have hz' : ∀ c ∈ r, c ≠ 0 := fun x hx => hz x (List.mem_cons_of_mem _ hx)
      have hc0 : c ≠ 0 := hz c (List.mem_cons_self ..)
      have ihr := ih hz' f (by simp at hf; omega)
      simp only [quoteRest, restFlags]
      by_cases hs : restFlag c r = true
      · have hs' : (!isId c || c == 92 || (c == 32 && r.all (· == 32))) = true := hs
        simp only [hs', ↓reduceIte, List.cons_append, List.nil_append]
        have h92 : isId 92 = true := by decide
        simp only [scanKeyChars, h92, not_true_eq_false, ↓reduceIte, beq_self_eq_true]
        have : (c == 0) = false := by simpa using hc0
        simp only [this, Bool.false_eq_true, ↓reduceIte, ihr, Option.map_some, hs]
      · have hs' : (!isId c || c == 92 || (c == 32 && r.all (· == 32))) = false := by
          simpa [restFlag] using hs
        have hsf : restFlag c r = false := by simpa using hs
        simp only [hs', Bool.false_eq_true, ↓reduceIte, List.cons_append, List.nil_append]
        simp only [Bool.or_eq_false_iff, Bool.not_eq_false'] at hs'
        have hid : isId c = true := hs'.1.1
        have hb : (c == 92) = false := hs'.1.2
        simp only [scanKeyChars, hid, not_true_eq_false, ↓reduceIte, hb, Bool.false_eq_true, ihr,
          Option.map_some, hsf]

/-- the last flagged byte is never an unescaped blank, so nothing is trimmed -/
theorem restFlags_last (cs : Bytes) (p : UInt8 × Bool) (h : (restFlags cs).getLast? = some p) :
    ¬ (p.1 == 32 && !p.2) = true := by
  induction cs with
  | nil => simp [restFlags] at h
  | cons c r ih =>
    cases r with
    | nil =>
      simp only [restFlags, List.getLast?_singleton, Option.some.injEq] at h
      subst h
      simp only [restFlag, List.all_nil, Bool.and_true]
      cases hc : (c == 32) <;> simp
    | cons c2 r2 =>
      simp only [restFlags] at h ih
      rw [List.getLast?_cons_cons] at h
      exact ih h

theorem dropWhile_reverse_noop {α : Type} (l : List α) (p : α → Bool)
    (h : ∀ x, l.getLast? = some x → ¬ p x = true) : (l.reverse.dropWhile p).reverse = l := by
  cases hl : l.reverse with
  | nil => simp at hl; subst hl; simp
  | cons a t =>
    have : l.getLast? = some a := by
      rw [List.getLast?_eq_head?_reverse, hl]; rfl
    have hp := h a this
    simp only [List.dropWhile_cons, hp, Bool.false_eq_true, ↓reduceIte]
    rw [← hl, List.reverse_reverse]

theorem restFlags_map_fst (cs : Bytes) : (restFlags cs).map (·.1) = cs := by
  induction cs with
  | nil => rfl
  | cons c r ih => simp [restFlags, ih]

/-- Scanning `quote_key k` followed by any delimiter yields exactly `k`: for every non-empty key without
    NUL bytes, whatever bytes it contains (dots, brackets, `=`, `#`, blanks at either end, UTF-8, …). -/
theorem scanKey_quoteKey (k rest : Bytes) (hne : k ≠ []) (hz : ∀ c ∈ k, c ≠ 0)
    (hrest : rest = [] ∨ ∃ c r, rest = c :: r ∧ isId c = false) :
    scanKey (quoteKey k ++ rest) = some (k, rest) := by
  cases k with
  | nil => exact absurd rfl hne
  | cons c r =>
    have hz' : ∀ x ∈ r, x ≠ 0 := fun x hx => hz x (List.mem_cons_of_mem _ hx)
    have hc0 : (c == 0) = false := by simpa using hz c (List.mem_cons_self ..)
    have hfuel : ∀ extra : Nat, r.length < (quoteKey (c :: r) ++ rest).length + 1 - extra ∨ True := fun _ => Or.inr trivial
    -- enough fuel: the quoted text is at least as long as the key
    have hlen : r.length ≤ (quoteRest r ++ rest).length := by
      have : ∀ l : Bytes, l.length ≤ (quoteRest l).length := by
        intro l; induction l with
        | nil => simp [quoteRest]
        | cons a t iht => simp only [quoteRest]; split <;> simp <;> omega
      have := this r
      simp; omega
    have key : ∀ flag, trimBlanks ((c, flag) :: restFlags r) = (c, flag) :: restFlags r := by
      intro flag
      simp only [trimBlanks]
      rw [dropWhile_reverse_noop _ _ (fun x hx => restFlags_last r x hx)]
    unfold scanKey quoteKey
    by_cases hs : (!isId1 c || c == 92) = true
    · simp only [hs, ↓reduceIte, List.cons_append, List.nil_append, List.length_cons]
      have h92 : isId 92 = true := by decide
      simp only [scanKeyChars, h92, not_true_eq_false, ↓reduceIte, beq_self_eq_true, hc0, Bool.false_eq_true]
      rw [scanKeyChars_quoteRest r rest hz' hrest _ (by omega)]
      simp only [Option.map_some, key, List.map_cons, restFlags_map_fst]
    · have hs' : (!isId1 c || c == 92) = false := by simpa using hs
      simp only [hs', Bool.false_eq_true, ↓reduceIte, List.cons_append, List.nil_append, List.length_cons]
      simp only [Bool.or_eq_false_iff, Bool.not_eq_false'] at hs'
      have hid : isId c = true := isId_of_isId1 c hs'.1
      simp only [scanKeyChars, hid, not_true_eq_false, ↓reduceIte, hs'.2, Bool.false_eq_true]
      rw [scanKeyChars_quoteRest r rest hz' hrest _ (by omega)]
      simp only [Option.map_some, key, List.map_cons, restFlags_map_fst]

/-- hence the whole descriptor `quote_key k` parses to the single path element `key k` -/
theorem parse_quoteKey (k : Bytes) (hne : k ≠ []) (hz : ∀ c ∈ k, c ≠ 0) :
    parse (quoteKey k) = some ([.key k], .eof) := by
  have hs := scanKey_quoteKey k [] hne hz (Or.inl rfl)
  simp only [List.append_nil] at hs
  cases k with
  | nil => exact absurd rfl hne
  | cons c r =>
    -- the first byte of the quoted key is a backslash or an identifier-start byte: never white space
    have hfirst : ∃ b t, quoteKey (c :: r) = b :: t ∧ isId1 b = true ∧ isWs b = false := by
      unfold quoteKey
      by_cases hq : (!isId1 c || c == 92) = true
      · exact ⟨92, c :: quoteRest r, by simp [hq], by decide, by decide⟩
      · have hq' : (!isId1 c || c == 92) = false := by simpa using hq
        simp only [Bool.or_eq_false_iff, Bool.not_eq_false'] at hq'
        refine ⟨c, quoteRest r, by simp [hq], hq'.1, ?_⟩
        -- identifier-start bytes are not white space
        have h1 := hq'.1
        simp only [isId1, isAlpha, Bool.or_eq_true, Bool.and_eq_true, decide_eq_true_eq, beq_iff_eq] at h1
        simp only [isWs, Bool.or_eq_false_iff, beq_eq_false_iff_ne, ne_eq]
        rcases h1 with ((((h | h) | h) | h) | h) <;>
          (refine ⟨⟨⟨⟨⟨?_, ?_⟩, ?_⟩, ?_⟩, ?_⟩, ?_⟩ <;> intro e <;> subst e <;> simp_all (config := { decide := true }))
    obtain ⟨b, t, hq, hb1, hbw⟩ := hfirst
    unfold parse
    rw [hq] at hs ⊢
    have hfuel : (b :: t).length + 2 = ((b :: t).length + 1) + 1 := by omega
    rw [hfuel]
    simp only [parseLoop, skipWs, hbw, Bool.false_eq_true, ↓reduceIte]
    have hdot : ¬ (b == 46) = true := by
      intro e; have : b = 46 := by simpa using e
      subst this; revert hb1; decide
    simp [hdot, hb1, hs, parseLoop, skipWs, classifyTail]

/-- … so the quoted key addresses exactly the entry stored under `k`, in every tree -/
theorem quote_key_addresses_key (root : Node) (k : Bytes) (v : Node) (hne : k ≠ []) (hz : ∀ c ∈ k, c ≠ 0) :
    readNode (update (fun _ => v) root [.key k]) (quoteKey k) = .ok v := by
  simp [readNode, parse_quoteKey k hne hz, update, getPath, alookup_aset_same]

end Libvna.PT
