/-
C20 / C01 — the connectivity matrix of a calibration standard (`find`, `build_connectivity_matrix` of src/vnacal_new_add_common.c):
the union-find over the ports, run over the off-diagonal S cells that are not known to be zero, marks two ports as connected exactly
when a chain of such cells joins them (`conn_iff`: the equivalence closure, for every port count and every pattern of cells).  The
library uses the matrix to decide which measured cells give an equation of the error-term system and which are leakage samples, so
"every determining set of standards solves" and "too few are refused" rest on it.  Executed model: Model/Connect.lean, compared with
the library's matrices through the guarded hook `_vnacal_new_verif_connectivity_dump`.
-/
import Libvna.Model.Connect
import Mathlib.Logic.Relation
import Mathlib.Tactic.Set
namespace Libvna.UF

def Inv (s : Nat → Nat) : Prop := ∀ x, s x ≤ x

theorem root_le {s : Nat → Nat} (h : Inv s) : ∀ f i, root s f i ≤ i := by
  intro f
  induction f with
  | zero => intro i; simp [root]
  | succ f ih =>
    intro i
    simp only [root]
    split
    · exact Nat.le_refl _
    · exact Nat.le_trans (ih (s i)) (h i)

theorem root_isRoot {s : Nat → Nat} (h : Inv s) : ∀ f i, i ≤ f → s (root s f i) = root s f i := by
  intro f
  induction f with
  | zero =>
    intro i hi
    have : i = 0 := by omega
    subst this
    simp only [root]
    have := h 0
    omega
  | succ f ih =>
    intro i hi
    simp only [root]
    split
    · next hs => exact hs
    · next hs =>
      have := h i
      exact ih (s i) (by omega)

theorem root_fuel {s : Nat → Nat} (h : Inv s) : ∀ f g i, i ≤ f → i ≤ g → root s f i = root s g i := by
  intro f
  induction f with
  | zero =>
    intro g i hi _
    have : i = 0 := by omega
    subst this
    have h0 : s 0 = 0 := by have := h 0; omega
    cases g with
    | zero => rfl
    | succ g => simp [root, h0]
  | succ f ih =>
    intro g i hi hg
    cases g with
    | zero =>
      have : i = 0 := by omega
      subst this
      have h0 : s 0 = 0 := by have := h 0; omega
      simp [root, h0]
    | succ g =>
      simp only [root]
      split
      · rfl
      · next hs =>
        have := h i
        exact ih g (s i) (by omega) (by omega)

theorem rt_eq {s : Nat → Nat} (h : Inv s) (i : Nat) : rt s i = if s i = i then i else rt s (s i) := by
  cases i with
  | zero =>
    have h0 : s 0 = 0 := by have := h 0; omega
    simp [rt, root, h0]
  | succ k =>
    simp only [rt, root]
    split
    · rfl
    · next hs =>
      have := h (k + 1)
      exact root_fuel h k (s (k + 1)) (s (k + 1)) (by omega) (Nat.le_refl _)

theorem rt_le {s : Nat → Nat} (h : Inv s) (i : Nat) : rt s i ≤ i := root_le h i i
theorem rt_isRoot {s : Nat → Nat} (h : Inv s) (i : Nat) : s (rt s i) = rt s i := root_isRoot h i i (Nat.le_refl _)
theorem rt_of_root {s : Nat → Nat} (h : Inv s) {i : Nat} (hi : s i = i) : rt s i = i := by rw [rt_eq h, if_pos hi]

theorem inv_upd {s : Nat → Nat} (h : Inv s) {k v : Nat} (hv : v ≤ k) : Inv (upd s k v) := by
  intro x
  simp only [upd]
  split
  · next hx => omega
  · exact h x

theorem rt_eq_step {s : Nat → Nat} (h : Inv s) {x : Nat} (hsx : s x ≠ x) : rt s x = rt s (s x) := by
  rw [rt_eq h x, if_neg hsx]

/-- re-pointing an element at its leader changes no leader -/
theorem rt_compress {s : Nat → Nat} (h : Inv s) (k : Nat) : ∀ x, rt (upd s k (rt s k)) x = rt s x := by
  have h' : Inv (upd s k (rt s k)) := inv_upd h (rt_le h k)
  intro x
  induction x using Nat.strongRecOn with
  | _ x ih =>
    rw [rt_eq h', rt_eq h x]
    by_cases hx : x = k
    · subst hx
      simp only [upd, if_true]
      by_cases hl : rt s x = x
      · have hsx : s x = x := by
          by_cases hne : s x = x
          · exact hne
          · have e := rt_eq h x
            rw [if_neg hne] at e
            have := rt_le h (s x)
            have := h x
            omega
        simp [hl, hsx]
      · have hsx : s x ≠ x := fun e => hl (rt_of_root h e)
        rw [if_neg hl, if_neg hsx]
        have hlt : rt s x < x := by have := rt_le h x; omega
        rw [ih _ hlt, rt_of_root h (rt_isRoot h x), ← rt_eq_step h hsx]
    · have e : upd s k (rt s k) x = s x := by simp [upd, hx]
      rw [e]
      split
      · rfl
      · next hs =>
        have := h x
        exact ih (s x) (by omega)

/-- making the leader `i` the parent of the larger leader `j` maps the leader `j` to `i` and leaves the others -/
theorem rt_link {s : Nat → Nat} (h : Inv s) {i j : Nat} (hi : s i = i) (hj : s j = j) (hij : i < j) :
    ∀ x, rt (upd s j i) x = if rt s x = j then i else rt s x := by
  have h' : Inv (upd s j i) := inv_upd h (Nat.le_of_lt hij)
  intro x
  induction x using Nat.strongRecOn with
  | _ x ih =>
    rw [rt_eq h']
    by_cases hx : x = j
    · subst hx
      have e : upd s x i x = i := by simp [upd]
      rw [e, if_neg (by omega), ih i hij, rt_of_root h hi, rt_of_root h hj]
      simp
    · have e : upd s j i x = s x := by simp [upd, hx]
      rw [e, rt_eq h x]
      split
      · next hs => simp
      · next hs =>
        have := h x
        exact ih (s x) (by omega)

end Libvna.UF
namespace Libvna.UF

/-- what the double loop keeps true: entries never exceed their index; every cell acted on so far has both its ports under one
    leader; and every equivalence relation that relates the ports of those cells relates each element to its entry -/
structure St (s : Nat → Nat) (E : List (Nat × Nat)) : Prop where
  inv : Inv s
  joined : ∀ e ∈ E, rt s e.1 = rt s e.2
  least : ∀ Q : Nat → Nat → Prop, Equivalence Q → (∀ e ∈ E, Q e.1 e.2) → ∀ x, Q x (s x)

theorem least_rt {s : Nat → Nat} (h : Inv s) {Q : Nat → Nat → Prop} (hQ : Equivalence Q) (hs : ∀ x, Q x (s x)) :
    ∀ x, Q x (rt s x) := by
  intro x
  induction x using Nat.strongRecOn with
  | _ x ih =>
    rw [rt_eq h]
    split
    · exact hQ.refl x
    · next hne =>
      have := h x
      exact hQ.trans (hs x) (ih (s x) (by omega))

theorem st_id : St id [] :=
  ⟨fun x => Nat.le_refl x, fun e he => by simp at he, fun Q hQ _ x => hQ.refl x⟩

theorem union_def (s : Nat → Nat) (r c : Nat) :
    union s r c = if (find s r).2 < (find (find s r).1 c).2 then upd (find (find s r).1 c).1 (find (find s r).1 c).2 (find s r).2
      else if (find (find s r).1 c).2 < (find s r).2 then upd (find (find s r).1 c).1 (find s r).2 (find (find s r).1 c).2
      else (find (find s r).1 c).1 := by
  simp only [union, unionB]
  split
  · rfl
  · split <;> rfl

theorem foldl_box (E : List (Nat × Nat)) : ∀ b : Box,
    (E.foldl (fun b e => unionB b e.1 e.2) b).f = E.foldl (fun s e => union s e.1 e.2) b.f := by
  induction E with
  | nil => intro b; rfl
  | cons e t ih => intro b; simp only [List.foldl_cons]; rw [ih]; rfl

theorem build_def (nz : Nat → Nat → Bool) (rows cols : Nat) :
    build nz rows cols = (edges nz rows cols).foldl (fun s e => union s e.1 e.2) id := by
  simp only [build, buildB]; rw [foldl_box]

theorem union_st {s : Nat → Nat} {E : List (Nat × Nat)} (st : St s E) (r c : Nat) : St (union s r c) (E ++ [(r, c)]) := by
  obtain ⟨h, hj, hl⟩ := st
  -- the two finds
  have h1 : Inv (upd s r (rt s r)) := inv_upd h (rt_le h r)
  have e1 : ∀ x, rt (upd s r (rt s r)) x = rt s x := rt_compress h r
  set s1 := upd s r (rt s r) with hs1
  have h2 : Inv (upd s1 c (rt s1 c)) := inv_upd h1 (rt_le h1 c)
  have e2 : ∀ x, rt (upd s1 c (rt s1 c)) x = rt s x := fun x => (rt_compress h1 c x).trans (e1 x)
  set s2 := upd s1 c (rt s1 c) with hs2
  have hi : s2 (rt s r) = rt s r := by have := rt_isRoot h2 r; rwa [e2] at this
  have hjr : s2 (rt s c) = rt s c := by have := rt_isRoot h2 c; rwa [e2] at this
  have hc : rt s1 c = rt s c := e1 c
  -- every equivalence containing the cells relates each element to its entry in s2
  have l2 : ∀ Q : Nat → Nat → Prop, Equivalence Q → (∀ e ∈ E, Q e.1 e.2) → ∀ x, Q x (s2 x) := by
    intro Q hQ hE x
    have hs := hl Q hQ hE
    have hr := least_rt h hQ hs
    simp only [hs2, hs1, upd]
    split
    · next hx => subst hx; rw [← hs1, hc]; exact hr x
    · split
      · next hx => subst hx; exact hr x
      · exact hs x
  have key : union s r c = if rt s r < rt s c then upd s2 (rt s c) (rt s r)
      else if rt s c < rt s r then upd s2 (rt s r) (rt s c) else s2 := by
    rw [union_def]
    simp only [find, ← hs1, hc]
    simp only [hs2, hc]
  rw [key]
  have hQE : ∀ Q : Nat → Nat → Prop, (∀ e ∈ E ++ [(r, c)], Q e.1 e.2) → (∀ e ∈ E, Q e.1 e.2) ∧ Q r c := by
    intro Q hq
    exact ⟨fun e he => hq e (List.mem_append_left _ he), hq (r, c) (by simp)⟩
  split
  · next hlt =>
    have e3 := rt_link h2 hi hjr hlt
    refine ⟨inv_upd h2 (Nat.le_of_lt hlt), ?_, ?_⟩
    · intro e he
      rcases List.mem_append.mp he with he | he
      · rw [e3, e3, e2, e2, hj e he]
      · simp only [List.mem_singleton] at he
        subst he
        rw [e3, e3, e2, e2]
        simp only [if_true]
        rw [if_neg (by omega)]
    · intro Q hQ hq x
      obtain ⟨hE, hrc⟩ := hQE Q hq
      have hs := hl Q hQ hE
      have hr := least_rt h hQ hs
      simp only [upd]
      split
      · next hx =>
        subst hx
        exact hQ.trans (hQ.symm (hr c)) (hQ.trans (hQ.symm hrc) (hr r))
      · exact l2 Q hQ hE x
  · split
    · next hnlt hlt =>
      have e3 := rt_link h2 hjr hi hlt
      refine ⟨inv_upd h2 (Nat.le_of_lt hlt), ?_, ?_⟩
      · intro e he
        rcases List.mem_append.mp he with he | he
        · rw [e3, e3, e2, e2, hj e he]
        · simp only [List.mem_singleton] at he
          subst he
          rw [e3, e3, e2, e2]
          simp only [if_true]
          rw [if_neg (by omega)]
      · intro Q hQ hq x
        obtain ⟨hE, hrc⟩ := hQE Q hq
        have hs := hl Q hQ hE
        have hr := least_rt h hQ hs
        simp only [upd]
        split
        · next hx =>
          subst hx
          exact hQ.trans (hQ.symm (hr r)) (hQ.trans hrc (hr c))
        · exact l2 Q hQ hE x
    · next hn1 hn2 =>
      have heq : rt s r = rt s c := by omega
      refine ⟨h2, ?_, ?_⟩
      · intro e he
        rcases List.mem_append.mp he with he | he
        · rw [e2, e2, hj e he]
        · simp only [List.mem_singleton] at he
          subst he
          rw [e2, e2, heq]
      · intro Q hQ hq x
        exact l2 Q hQ (hQE Q hq).1 x

theorem foldl_st (E' : List (Nat × Nat)) : ∀ (s : Nat → Nat) (E : List (Nat × Nat)), St s E →
    St (E'.foldl (fun s e => union s e.1 e.2) s) (E ++ E') := by
  induction E' with
  | nil => intro s E st; simpa using st
  | cons e t ih =>
    intro s E st
    have := ih (union s e.1 e.2) (E ++ [(e.1, e.2)]) (union_st st e.1 e.2)
    simpa [List.append_assoc] using this

theorem build_st (nz : Nat → Nat → Bool) (rows cols : Nat) : St (build nz rows cols) (edges nz rows cols) := by
  have := foldl_st (edges nz rows cols) id [] st_id
  simpa [build_def] using this

theorem mem_edges {nz : Nat → Nat → Bool} {rows cols : Nat} {e : Nat × Nat} :
    e ∈ edges nz rows cols ↔ e.1 < rows ∧ e.2 < cols ∧ e.1 ≠ e.2 ∧ nz e.1 e.2 = true := by
  obtain ⟨a, b⟩ := e
  simp only [edges, List.mem_flatMap, List.mem_range, List.mem_filterMap]
  constructor
  · rintro ⟨r, hr, c, hc, hrc⟩
    split at hrc
    · next hh => simp only [Option.some.injEq, Prod.mk.injEq] at hrc; obtain ⟨rfl, rfl⟩ := hrc; exact ⟨hr, hc, hh.1, hh.2⟩
    · simp at hrc
  · rintro ⟨h1, h2, h3, h4⟩
    exact ⟨a, h1, b, h2, by simp [h3, h4]⟩

/-- the cells of the standard's S matrix that are off the diagonal and not known to be zero -/
def Path (nz : Nat → Nat → Bool) (rows cols : Nat) (a b : Nat) : Prop :=
  a < rows ∧ b < cols ∧ a ≠ b ∧ nz a b = true

/-- **the connectivity matrix is the equivalence closure of the cells that may carry a signal**: two ports are marked connected
    exactly when a chain of such cells (in either direction) joins them — for every port count and every pattern of cells -/
theorem conn_iff (nz : Nat → Nat → Bool) (rows cols : Nat) (a b : Nat) :
    conn nz rows cols a b = true ↔ Relation.EqvGen (Path nz rows cols) a b := by
  have st := build_st nz rows cols
  have hP : ∀ x y, Path nz rows cols x y ↔ (x, y) ∈ edges nz rows cols := fun x y => (mem_edges (e := (x, y))).symm
  constructor
  · intro hc
    simp only [conn, Bool.or_eq_true, beq_iff_eq] at hc
    rcases hc with rfl | hc
    · exact Relation.EqvGen.refl _
    · have hQ : Equivalence (Relation.EqvGen (Path nz rows cols)) := Relation.EqvGen.is_equivalence _
      have hs := st.least _ hQ (fun e he => Relation.EqvGen.rel _ _ ((hP e.1 e.2).mpr he))
      have hr := least_rt st.inv hQ hs
      exact hQ.trans (hr a) (hc ▸ hQ.symm (hr b))
  · intro hg
    have : rt (build nz rows cols) a = rt (build nz rows cols) b := by
      induction hg with
      | rel x y hxy => exact st.joined (x, y) ((hP x y).mp hxy)
      | refl x => rfl
      | symm x y _ ih => exact ih.symm
      | trans x y z _ _ ih1 ih2 => exact ih1.trans ih2
    simp [conn, this]

theorem conn_refl (nz : Nat → Nat → Bool) (rows cols a : Nat) : conn nz rows cols a a = true := by simp [conn]

theorem conn_symm (nz : Nat → Nat → Bool) (rows cols a b : Nat) : conn nz rows cols a b = conn nz rows cols b a := by
  rw [Bool.eq_iff_iff]
  simp only [conn, Bool.or_eq_true, beq_iff_eq]
  constructor
  · rintro (h | h)
    · exact Or.inl h.symm
    · exact Or.inr h.symm
  · rintro (h | h)
    · exact Or.inl h.symm
    · exact Or.inr h.symm

theorem conn_trans (nz : Nat → Nat → Bool) (rows cols a b c : Nat) (h1 : conn nz rows cols a b = true) (h2 : conn nz rows cols b c = true) :
    conn nz rows cols a c = true := by
  rw [conn_iff] at *
  exact Relation.EqvGen.trans _ _ _ h1 h2

/-- a cell that may carry a signal connects its two ports -/
theorem conn_cell (nz : Nat → Nat → Bool) (rows cols a b : Nat) (h : Path nz rows cols a b) : conn nz rows cols a b = true :=
  (conn_iff nz rows cols a b).mpr (Relation.EqvGen.rel _ _ h)

/-- ports outside the standard (no cell of theirs may carry a signal) are connected to nothing but themselves -/
theorem conn_isolated (nz : Nat → Nat → Bool) (rows cols a b : Nat) (hab : a ≠ b)
    (ha : ∀ x, ¬ Path nz rows cols a x ∧ ¬ Path nz rows cols x a) : conn nz rows cols a b = false := by
  by_cases hc : conn nz rows cols a b = true
  · exfalso
    rw [conn_iff] at hc
    have : ∀ x y, Relation.EqvGen (Path nz rows cols) x y → (x = a ↔ y = a) := by
      intro x y hg
      induction hg with
      | rel x y hxy =>
        constructor
        · intro hx; subst hx; exact absurd hxy (ha y).1
        · intro hy; subst hy; exact absurd hxy (ha x).2
      | refl x => rfl
      | symm x y _ ih => exact ih.symm
      | trans x y z _ _ ih1 ih2 => exact ih1.trans ih2
    exact hab ((this a b hc).mp rfl).symm
  · simpa using hc

/-- the matrix the driver prints is `conn`, cell by cell -/
theorem connAll_get (nz : Nat → Nat → Bool) (rows cols n k : Nat) (hk : k < n * n) :
    (connAll nz rows cols n)[k]? = some (conn nz rows cols (k / n) (k % n)) := by
  simp [connAll, conn, build, hk]

example : conn (fun r c => (r, c) == (0, 2) || (r, c) == (3, 2)) 4 4 0 3 = true ∧
          conn (fun r c => (r, c) == (0, 2) || (r, c) == (3, 2)) 4 4 0 1 = false := by decide

end Libvna.UF
