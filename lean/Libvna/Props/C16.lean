/-
C16 — calibration and parameter handles stay valid, distinct and correctly indexed.
-/
import Libvna.Model.CalTable
import Mathlib.Tactic.Common
import Mathlib.Data.List.Basic
import Mathlib.Data.List.TakeWhile

namespace Libvna.CT

/-! ### calibration table -/

theorem findName_spec (name : String) (slots : List (Option String)) (base : Nat) :
    match findName name slots base with
    | some i => base ≤ i ∧ i < base + slots.length ∧ slots[i - base]? = some (some name) ∧
        ∀ j : Nat, j < i - base → slots[j]? ≠ some (some name)
    | none => ∀ j : Nat, slots[j]? ≠ some (some name) := by
  induction slots generalizing base with
  | nil => simp [findName]
  | cons x r ih =>
    cases x with
    | none =>
      simp only [findName]
      have := ih (base + 1)
      cases h : findName name r (base + 1) with
      | none =>
        rw [h] at this
        intro j
        cases j with
        | zero => simp
        | succ k => simpa using this k
      | some i =>
        rw [h] at this
        simp only at this ⊢
        obtain ⟨h1, h2, h3, h4⟩ := this
        refine ⟨by omega, by simp; omega, ?_, ?_⟩
        · have : i - base = (i - (base + 1)) + 1 := by omega
          rw [this]; simpa using h3
        · intro j hj
          cases j with
          | zero => simp
          | succ k => simpa using h4 k (by omega)
    | some n =>
      simp only [findName]
      by_cases hn : n = name
      · subst hn
        simp only [↓reduceIte]
        exact ⟨le_refl _, by simp, by simp, fun j hj => by omega⟩
      · simp only [hn, ↓reduceIte]
        have := ih (base + 1)
        cases h : findName name r (base + 1) with
        | none =>
          rw [h] at this
          intro j
          cases j with
          | zero => simp; exact hn
          | succ k => simpa using this k
        | some i =>
          rw [h] at this
          simp only at this ⊢
          obtain ⟨h1, h2, h3, h4⟩ := this
          refine ⟨by omega, by simp; omega, ?_, ?_⟩
          · have : i - base = (i - (base + 1)) + 1 := by omega
            rw [this]; simpa using h3
          · intro j hj
            cases j with
            | zero => simp; exact hn
            | succ k => simpa using h4 k (by omega)

theorem firstNone_spec (slots : List (Option String)) (base : Nat) :
    match firstNone slots base with
    | some i => base ≤ i ∧ i < base + slots.length ∧ slots[i - base]? = some none
    | none => ∀ j : Nat, j < slots.length → ∃ n, slots[j]? = some (some n) := by
  induction slots generalizing base with
  | nil => simp [firstNone]
  | cons x r ih =>
    cases x with
    | none => simp [firstNone]
    | some n =>
      simp only [firstNone]
      have := ih (base + 1)
      cases h : firstNone r (base + 1) with
      | none =>
        rw [h] at this
        intro j hj
        cases j with
        | zero => exact ⟨n, by simp⟩
        | succ k => simpa using this k (by simpa using hj)
      | some i =>
        rw [h] at this
        simp only at this ⊢
        obtain ⟨h1, h2, h3⟩ := this
        refine ⟨by omega, by simp; omega, ?_⟩
        have : i - base = (i - (base + 1)) + 1 := by omega
        rw [this]; simpa using h3

/-- **add returns the index at which the calibration then sits** -/
theorem add_index (slots : List (Option String)) (name : String) :
    (addCal slots name).1[(addCal slots name).2]? = some (some name) := by
  unfold addCal
  have hf := findName_spec name slots 0
  cases h : findName name slots 0 with
  | some i =>
    rw [h] at hf
    simp only at hf ⊢
    rw [List.getElem?_set_self (by omega)]
  | none =>
    simp only
    have hn := firstNone_spec slots 0
    cases h2 : firstNone slots 0 with
    | some i =>
      rw [h2] at hn
      simp only at hn ⊢
      rw [List.getElem?_set_self (by omega)]
    | none =>
      simp only
      rw [List.getElem?_set_self]
      simp only [List.length_append, List.length_replicate, growC]
      split
      · omega
      · split <;> omega

/-- adding an existing name replaces that calibration in place; every other slot keeps its content -/
theorem add_frame (slots : List (Option String)) (name : String) (j : Nat) (hj : j < slots.length)
    (hne : j ≠ (addCal slots name).2) : (addCal slots name).1[j]? = slots[j]? := by
  unfold addCal at hne ⊢
  cases h : findName name slots 0 with
  | some i =>
    simp only [h] at hne ⊢
    rw [List.getElem?_set_ne (Ne.symm hne)]
  | none =>
    simp only [h] at hne ⊢
    cases h2 : firstNone slots 0 with
    | some i =>
      simp only [h2] at hne ⊢
      rw [List.getElem?_set_ne (Ne.symm hne)]
    | none =>
      simp only [h2] at hne ⊢
      rw [List.getElem?_set_ne (Ne.symm hne), List.getElem?_append_left hj]

theorem add_replaces_in_place (slots : List (Option String)) (name : String) (i : Nat)
    (h : findName name slots 0 = some i) : (addCal slots name).2 = i := by
  simp [addCal, h]

/-- after add, find returns the index add returned (names are unique: the first slot with that name) -/
theorem add_then_find (slots : List (Option String)) (name : String) :
    findName name (addCal slots name).1 0 = some (addCal slots name).2 := by
  have hs := findName_spec name (addCal slots name).1 0
  have hi := add_index slots name
  cases h : findName name (addCal slots name).1 0 with
  | none =>
    rw [h] at hs
    exact absurd hi (hs _)
  | some k =>
    rw [h] at hs
    simp only [Nat.sub_zero, Nat.zero_add] at hs
    obtain ⟨_, hk, hk3, hk4⟩ := hs
    -- k is the first slot holding the name; the slot add used holds it too, so k ≤ idx; and no slot
    -- before idx held the name (frame + how idx was chosen)
    congr 1
    rcases Nat.lt_trichotomy k (addCal slots name).2 with hlt | heq | hgt
    · exfalso
      -- slot k < idx held the name already before the add
      have hf := findName_spec name slots 0
      have hidx := add_frame slots name k
      unfold addCal at hlt hidx hk3
      cases h0 : findName name slots 0 with
      | some i =>
        simp only [h0] at hlt hidx hk3 hf
        simp only [Nat.sub_zero] at hf
        have hkl : k < slots.length := by omega
        rw [hidx hkl (by omega)] at hk3
        exact hf.2.2.2 k hlt hk3
      | none =>
        simp only [h0] at hlt hidx hk3 hf
        cases h2 : firstNone slots 0 with
        | some i =>
          have hn := firstNone_spec slots 0
          simp only [h2] at hlt hidx hk3 hn
          have hkl : k < slots.length := by omega
          rw [hidx hkl (by omega)] at hk3
          exact hf k hk3
        | none =>
          simp only [h2] at hlt hidx hk3
          rw [hidx hlt (by omega)] at hk3
          exact hf k hk3
    · exact heq
    · exact absurd hi (hk4 _ hgt)

theorem delete_one_slot (slots : List (Option String)) (ci : Int) (j : Nat) (hne : (j : Int) ≠ ci) :
    (deleteCal slots ci).1[j]? = slots[j]? := by
  unfold deleteCal
  split
  · rfl
  · split
    · next h => rw [List.getElem?_set_ne]; intro e; apply hne; omega
    · rfl

theorem delete_empties (slots : List (Option String)) (ci : Int) (h : (deleteCal slots ci).2 = true) :
    (deleteCal slots ci).1[ci.toNat]? = some none := by
  unfold deleteCal at h ⊢
  split
  · next hneg => simp [hneg] at h
  · split
    · next heq =>
      have : ci.toNat < slots.length := by
        by_contra hc
        rw [List.getElem?_eq_none (by omega)] at heq
        simp at heq
      rw [List.getElem?_set_self this]
    · next hx => simp [hx] at h

/-- `get_calibration_end` is one past the highest live index -/
theorem calEnd_spec (slots : List (Option String)) :
    (∀ j, calEnd slots ≤ j → slots[j]? = none ∨ slots[j]? = some none) ∧
    (0 < calEnd slots → ∃ n, slots[calEnd slots - 1]? = some (some n)) := by
  unfold calEnd
  cases hs : slots with
  | nil => simp
  | cons x r =>
    simp only
    rw [← hs]
    generalize hl : slots.reverse.dropWhile (· == none) = l
    have hsplit : ∃ pre, slots.reverse = pre ++ l ∧ ∀ y ∈ pre, y = none := by
      refine ⟨slots.reverse.takeWhile (· == none), ?_, ?_⟩
      · rw [← hl, List.takeWhile_append_dropWhile]
      · intro y hy
        have := List.mem_takeWhile_imp hy
        simpa using this
    obtain ⟨pre, hrev, hpre⟩ := hsplit
    have hslots : slots = l.reverse ++ pre.reverse := by
      have := congrArg List.reverse hrev
      simpa using this
    cases hlc : l with
    | nil =>
      simp only
      subst hlc
      refine ⟨?_, by simp⟩
      intro j _
      simp only [List.reverse_nil, List.nil_append] at hslots
      by_cases hj : j < slots.length
      · right
        rw [hslots, List.getElem?_eq_getElem (by rw [← hslots]; exact hj)]
        congr 1
        apply hpre
        exact List.mem_reverse.mp (List.getElem_mem _)
      · left; exact List.getElem?_eq_none (by omega)
    | cons a t =>
      simp only
      rw [← hlc]
      have hhead : (a == none) = false := by
        have := List.head?_dropWhile_not (· == none) slots.reverse
        rw [hl, hlc] at this
        simpa using this
      constructor
      · intro j hj
        by_cases hjl : j < slots.length
        · right
          have hj2 : l.reverse.length ≤ j := by simpa using hj
          rw [hslots, List.getElem?_append_right hj2]
          have hidx : j - l.reverse.length < pre.reverse.length := by
            have : slots.length = l.reverse.length + pre.reverse.length := by rw [hslots]; simp
            omega
          rw [List.getElem?_eq_getElem hidx]
          congr 1
          apply hpre
          exact List.mem_reverse.mp (List.getElem_mem _)
        · left; exact List.getElem?_eq_none (by omega)
      · intro _
        have hlen : l.length - 1 < l.reverse.length := by simp [hlc]
        rw [hslots, List.getElem?_append_left hlen, List.getElem?_reverse (by simp [hlc])]
        have : l.length - 1 - (l.length - 1) = 0 := by omega
        simp only [List.length_reverse, this] at *
        rw [hlc]
        cases a with
        | none => simp at hhead
        | some n => exact ⟨n, by simp⟩

/-! ### parameter table -/

def occupied (slots : List (Option PRec)) (i : Nat) : Prop := ∃ r, slots[i]? = some (some r)

theorem scanFree_spec (slots : List (Option PRec)) (fuel start : Nat) :
    start ≤ scanFree slots fuel start ∧
    (∀ j, start ≤ j → j < scanFree slots fuel start → occupied slots j) ∧
    (scanFree slots fuel start < start + fuel → ¬ occupied slots (scanFree slots fuel start)) := by
  induction fuel generalizing start with
  | zero =>
    simp only [scanFree]
    exact ⟨Nat.le_refl _, fun j h1 h2 => by omega, fun h => by omega⟩
  | succ f ih =>
    unfold scanFree
    cases h : slots[start]? with
    | none =>
      simp only
      refine ⟨le_refl _, fun j h1 h2 => by omega, ?_⟩
      intro _ ⟨r, hr⟩; rw [h] at hr; cases hr
    | some x =>
      cases x with
      | none =>
        simp only
        refine ⟨le_refl _, fun j h1 h2 => by omega, ?_⟩
        intro _ ⟨r, hr⟩; rw [h] at hr; cases hr
      | some r =>
        simp only
        obtain ⟨h1, h2, h3⟩ := ih (start + 1)
        refine ⟨by omega, ?_, ?_⟩
        · intro j hj1 hj2
          rcases Nat.eq_or_lt_of_le hj1 with he | hl
          · subst he; exact ⟨r, h⟩
          · exact h2 j (by omega) hj2
        · intro hlt; exact h3 (by omega)

/-- **handles are unique while live**: the slot `alloc` hands out was not occupied — whenever the table
    has a free slot at or after `first_free` (which the invariant of the C guarantees when count < allocation),
    or the table is grown -/
theorem alloc_fresh (t : PTab) (r : PRec)
    (hfree : t.count < t.slots.length → ∃ j, t.firstFree ≤ j ∧ j < t.slots.length ∧ ¬ occupied t.slots j)
    (hfull : ¬ t.count < t.slots.length → t.count = t.slots.length) :
    ¬ occupied t.slots (t.alloc r).2 ∧ (t.alloc r).1.slots[(t.alloc r).2]? = some (some r) := by
  unfold PTab.alloc
  by_cases hc : t.count < t.slots.length
  · simp only [hc, ↓reduceIte]
    obtain ⟨j, hj1, hj2, hj3⟩ := hfree hc
    obtain ⟨s1, s2, s3⟩ := scanFree_spec t.slots t.slots.length t.firstFree
    have hle : scanFree t.slots t.slots.length t.firstFree ≤ j := by
      by_contra hgt
      exact hj3 (s2 j hj1 (by omega))
    refine ⟨s3 (by omega), ?_⟩
    rw [List.getElem?_set_self (by omega)]
  · simp only [hc, ↓reduceIte]
    have he := hfull hc
    constructor
    · intro ⟨x, hx⟩
      rw [List.getElem?_eq_none (by omega)] at hx
      cases hx
    · rw [List.getElem?_set_self]
      simp only [List.length_append, List.length_replicate, growP]
      split
      · omega
      · split <;> omega

/-- every other slot is untouched by an allocation -/
theorem alloc_frame (t : PTab) (r : PRec) (j : Nat) (hj : j < t.slots.length) (hne : j ≠ (t.alloc r).2) :
    (t.alloc r).1.slots[j]? = t.slots[j]? := by
  unfold PTab.alloc at hne ⊢
  by_cases hc : t.count < t.slots.length
  · simp only [hc, ↓reduceIte] at hne ⊢
    rw [List.getElem?_set_ne (Ne.symm hne)]
  · simp only [hc, ↓reduceIte] at hne ⊢
    rw [List.getElem?_set_ne (Ne.symm hne), List.getElem?_append_left hj]

/-- the predefined match / open / short handles exist from the start … -/
theorem setup_predefined : PTab.setup.valid 0 = true ∧ PTab.setup.valid 1 = true ∧ PTab.setup.valid 2 = true := by
  decide

/-- … and deleting them is accepted and changes nothing: they are permanent -/
theorem predefined_permanent (t : PTab) (h : Int) (h0 : 0 ≤ h) (hh : h < 3) : t.delete h = (t, true) := by
  have : ¬ h < 0 := by omega
  simp [PTab.delete, hh, this]

/-- a refused delete (invalid or already deleted handle) changes nothing -/
theorem delete_refused_frame (t : PTab) (h : Int) (hr : (t.delete h).2 = false) : (t.delete h).1 = t := by
  unfold PTab.delete at hr ⊢
  by_cases hneg : h < 0
  · simp [hneg]
  by_cases h3 : h < 3
  · simp [h3, hneg]
  · simp only [hneg, h3, ↓reduceIte] at hr ⊢
    by_cases hv : t.valid h = true
    · simp only [hv, ↓reduceIte] at hr ⊢
      cases hg : t.get? h.toNat with
      | none => rfl
      | some r => simp [hg] at hr
    · simp [hv]

end Libvna.CT
