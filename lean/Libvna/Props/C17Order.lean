/-
C17 — the order in which the standards are added does not matter, exact data or not (algebraic part): the least-squares problem
`min ‖A x - b‖` the library solves for the error terms has the same normal equations whatever the order of its rows; with a set of
standards that determines the terms (independent columns) their solution is unique, so every order gives the same terms; and what the
modelled `_vnacommon_qrsolve` returns for the equations in two orders is the same vector (`qrsolve_order_independent`, on top of
`qrsolve_normal` of Props/C19QR.lean).  Exact arithmetic; the check's stage `order_noisy` measures the same on the library to rounding.
-/
import Libvna.Props.C19QR
import Mathlib.Algebra.BigOperators.Group.Finset.Basic
import Mathlib.LinearAlgebra.Matrix.DotProduct

set_option linter.unusedSectionVars false

namespace Libvna.Order
open Matrix Libvna.QR
variable {m n : Type} [Fintype m] [DecidableEq m] [Fintype n] [DecidableEq n]

/-- the residual of the re-ordered system is the re-ordered residual -/
theorem residual_perm (A : Matrix m n ℂ) (b : m → ℂ) (σ : m ≃ m) (x : n → ℂ) :
    (A.submatrix σ id) *ᵥ x - b ∘ σ = (A *ᵥ x - b) ∘ σ := by
  funext i
  simp [mulVec, dotProduct, submatrix]

/-- **the normal equations do not see the order of the equations**: the rows of the coefficient matrix and of the right-hand side
    permuted together (the standards added in another order) give the same `Aᴴ (A x - b)` -/
theorem normal_perm (A : Matrix m n ℂ) (b : m → ℂ) (σ : m ≃ m) (x : n → ℂ) :
    (A.submatrix σ id)ᴴ *ᵥ ((A.submatrix σ id) *ᵥ x - b ∘ σ) = Aᴴ *ᵥ (A *ᵥ x - b) := by
  rw [residual_perm]
  funext j
  simp only [mulVec, dotProduct, conjTranspose_apply, submatrix_apply, id_eq, Function.comp_apply]
  exact Equiv.sum_comp σ (fun i => star (A i j) * (A *ᵥ x - b) i)

theorem nrm2_perm (w : m → ℂ) (σ : m ≃ m) : nrm2 (w ∘ σ) = nrm2 w := by
  unfold nrm2
  congr 1
  simp only [dotProduct, Pi.star_apply, Function.comp_apply]
  exact Equiv.sum_comp σ (fun i => star (w i) * w i)

/-- a least-squares solution for one order of the equations is one for every order, with the same residual norm -/
theorem ls_row_order (A : Matrix m n ℂ) (b : m → ℂ) (σ : m ≃ m) (x : n → ℂ) :
    ((A.submatrix σ id)ᴴ *ᵥ ((A.submatrix σ id) *ᵥ x - b ∘ σ) = 0 ↔ Aᴴ *ᵥ (A *ᵥ x - b) = 0) ∧
    nrm2 ((A.submatrix σ id) *ᵥ x - b ∘ σ) = nrm2 (A *ᵥ x - b) := by
  refine ⟨by rw [normal_perm], ?_⟩
  rw [residual_perm, nrm2_perm]

theorem nrm2_eq_zero {w : m → ℂ} (h : nrm2 w = 0) : w = 0 := by
  unfold nrm2 at h
  simp only [dotProduct, Pi.star_apply, Complex.re_sum] at h
  have hnn : ∀ i ∈ Finset.univ, 0 ≤ (star (w i) * w i).re := by
    intro i _
    rw [Complex.star_def, mul_comm, Complex.mul_conj]
    simp [Complex.normSq_nonneg]
  have := (Finset.sum_eq_zero_iff_of_nonneg hnn).mp h
  funext i
  have hi := this i (Finset.mem_univ i)
  rw [Complex.star_def, mul_comm, Complex.mul_conj] at hi
  simpa using hi

/-- with independent columns (a set of standards that determines the terms) the normal equations have one solution: every order
    of the standards gives the same error terms, exact data or not -/
theorem ls_unique (A : Matrix m n ℂ) (b : m → ℂ) (hinj : Function.Injective A.mulVec) (x y : n → ℂ)
    (hx : Aᴴ *ᵥ (A *ᵥ x - b) = 0) (hy : Aᴴ *ᵥ (A *ᵥ y - b) = 0) : x = y := by
  have hd : Aᴴ *ᵥ (A *ᵥ (x - y)) = 0 := by
    have : A *ᵥ (x - y) = (A *ᵥ x - b) - (A *ᵥ y - b) := by rw [mulVec_sub]; abel
    rw [this, mulVec_sub, hx, hy, sub_zero]
  have hz : nrm2 (A *ᵥ (x - y)) = 0 := by
    unfold nrm2
    rw [star_mulVec, ← dotProduct_mulVec, hd, dotProduct_zero]
    simp
  have h0 : A *ᵥ (x - y) = 0 := nrm2_eq_zero hz
  have : A *ᵥ x = A *ᵥ y := by
    rw [mulVec_sub] at h0
    exact sub_eq_zero.mp h0
  exact hinj this

/-- the two together: solved from the equations in any two orders, a determining set gives the same terms -/
theorem order_independent (A : Matrix m n ℂ) (b : m → ℂ) (hinj : Function.Injective A.mulVec) (σ : m ≃ m) (x y : n → ℂ)
    (hx : Aᴴ *ᵥ (A *ᵥ x - b) = 0)
    (hy : (A.submatrix σ id)ᴴ *ᵥ ((A.submatrix σ id) *ᵥ y - b ∘ σ) = 0) : x = y :=
  ls_unique A b hinj x y hx ((ls_row_order A b σ y).1.mp hy)

example : Function.Injective (!![1, 0; 0, 1; 1, 1] : Matrix (Fin 3) (Fin 2) ℂ).mulVec := by
  intro x y h
  have h0 := congrFun h 0
  have h1 := congrFun h 1
  simp [mulVec, dotProduct, Fin.sum_univ_two] at h0 h1
  funext i; fin_cases i <;> simp [h0, h1]

end Libvna.Order

namespace Libvna.QRLoop
open Matrix

/-- **`_vnacommon_qrsolve` on the same equations in another order returns the same solution** (over ℂ, exact arithmetic, m ≥ n,
    independent columns, no zero norm or zero diagonal met in either factorisation): `a1`, `b1` hold the rows of `a0`, `b0` permuted
    by `σ` -/
theorem qrsolve_order_independent (a0 b0 a1 b1 : Array ℂ) (m n o : Nat) (hs0 : a0.size = m * n) (hb0 : b0.size = m * o)
    (hs1 : a1.size = m * n) (hb1 : b1.size = m * o) (hmn : n ≤ m) (σ : Fin m ≃ Fin m)
    (hA : A0mat a1 m n = (A0mat a0 m n).submatrix σ id) (kk : Nat) (hkk : kk < o) (hB : bcol b1 m o kk = bcol b0 m o kk ∘ σ)
    (hinj : Function.Injective (A0mat a0 m n).mulVec)
    (hnz0 : ∀ d, d < min m n → stepNrm complexOps m n (LA.qrdLoop complexOps m n d (st0 a0 m n)) d ≠ 0)
    (hd0 : ∀ i, i < n → (LA.qrd complexOps a0 m n).dv[i]! ≠ 0)
    (hnz1 : ∀ d, d < min m n → stepNrm complexOps m n (LA.qrdLoop complexOps m n d (st0 a1 m n)) d ≠ 0)
    (hd1 : ∀ i, i < n → (LA.qrd complexOps a1 m n).dv[i]! ≠ 0) :
    (fun j : Fin n => LA.get (LA.qrsolve complexOps a0 b0 m n o).1 o j kk) =
      (fun j : Fin n => LA.get (LA.qrsolve complexOps a1 b1 m n o).1 o j kk) := by
  have h0 := qrsolve_normal complexOps complexOps_spec two_ne_zero a0 b0 m n o hs0 hb0 hmn hnz0 hd0 kk hkk
  have h1 := qrsolve_normal complexOps complexOps_spec two_ne_zero a1 b1 m n o hs1 hb1 hmn hnz1 hd1 kk hkk
  rw [hA, hB] at h1
  exact Libvna.Order.order_independent _ _ hinj σ _ _ h0 h1

end Libvna.QRLoop
