/-
C04 — the n-port S/Z/Y conversions (`vnaconv_stozn`, `_stoyn`, `_ztosn`, `_ytosn`), every n ≥ 1.

Part 1 (matrices over any field of characteristic ≠ 2): the formulas the C implements relate exactly the port states the input relates.
Part 2: the executed model functions (`Model/ConvN.lean`, the ones the driver runs against the C) compute those formulas — through
`mldivide_solves` / `mrdivide_solves` of Props/C19Solve — so the relation theorems hold of the executed functions, for every pivot
choice of the elimination, whenever no pivot it divides by is zero.
-/
import Mathlib.LinearAlgebra.Matrix.NonsingularInverse
import Mathlib.Data.Matrix.Diagonal
import Mathlib.Algebra.BigOperators.Field
import Mathlib.Tactic.FieldSimp
import Mathlib.Tactic.Ring
import Mathlib.Tactic.LinearCombination
import Libvna.Props.C19Solve

namespace Libvna.C04N
open Matrix
variable {n : ℕ} {K : Type} [Field K]

/-- port states of an n-port linked to reference impedances z (conjugates zc, k = sqrt|Re z|), as in vnaconv(3):
    a = ½ (v + z i)/k, b = ½ (v − z* i)/k -/
def Linked (z zc k v i a b : Fin n → K) : Prop :=
  ∀ p, a p = (v p + z p * i p) / (2 * k p) ∧ b p = (v p - zc p * i p) / (2 * k p)

theorem mulVec_cancel {A : Matrix (Fin n) (Fin n) K} (hA : A.det ≠ 0) {u w : Fin n → K} (h : A.mulVec u = A.mulVec w) : u = w := by
  have hu : IsUnit A.det := isUnit_iff_ne_zero.mpr hA
  have := congrArg (A⁻¹).mulVec h
  rwa [mulVec_mulVec, mulVec_mulVec, nonsing_inv_mul A hu, one_mulVec, one_mulVec] at this

/-- voltages and currents divided by k -/
def sc (k x : Fin n → K) : Fin n → K := fun p => x p / k p

/-- the wave relation in terms of the scaled voltages and currents: b = S a ⇔ (1 − S) v' = (diag z* + S diag z) i' -/
theorem waves_iff (h2 : (2 : K) ≠ 0) (S : Matrix (Fin n) (Fin n) K) (z zc k : Fin n → K) (hk : ∀ p, k p ≠ 0)
    (v i a b : Fin n → K) (hl : Linked z zc k v i a b) :
    b = S.mulVec a ↔ (1 - S).mulVec (sc k v) = (diagonal zc + S * diagonal z).mulVec (sc k i) := by
  have hhalf : (1 / 2 : K) ≠ 0 := by simp [h2]
  have ha : a = (1 / 2 : K) • (sc k v + (diagonal z).mulVec (sc k i)) := by
    funext p; rw [(hl p).1]; simp only [sc, mulVec_diagonal, Pi.smul_apply, Pi.add_apply, smul_eq_mul]; have := hk p; field_simp
  have hb : b = (1 / 2 : K) • (sc k v - (diagonal zc).mulVec (sc k i)) := by
    funext p; rw [(hl p).2]; simp only [sc, mulVec_diagonal, Pi.smul_apply, Pi.sub_apply, smul_eq_mul]; have := hk p; field_simp
  rw [ha, hb, mulVec_smul, sub_mulVec, one_mulVec, add_mulVec, ← mulVec_mulVec, mulVec_add,
    (smul_right_injective (Fin n → K) hhalf).eq_iff]
  constructor
  · intro h
    funext p
    have hp := congrFun h p
    simp only [Pi.sub_apply, Pi.add_apply] at hp ⊢
    linear_combination hp
  · intro h
    funext p
    have hp := congrFun h p
    simp only [Pi.sub_apply, Pi.add_apply] at hp ⊢
    linear_combination hp

/-- undoing the scaling: x' = X y' ⇔ x = M y when M_pq = X_pq k_p / k_q -/
theorem scaled_iff (X M : Matrix (Fin n) (Fin n) K) (k : Fin n → K) (hk : ∀ p, k p ≠ 0)
    (hM : ∀ p q, M p q = X p q * (k p / k q)) (x y : Fin n → K) :
    sc k x = X.mulVec (sc k y) ↔ x = M.mulVec y := by
  constructor
  · intro h
    funext p
    have hp := congrFun h p
    simp only [sc, mulVec, dotProduct] at hp ⊢
    have hkp := hk p
    rw [div_eq_iff hkp] at hp
    rw [hp, Finset.sum_mul]
    apply Finset.sum_congr rfl
    intro q _
    rw [hM p q]; have := hk q; field_simp
  · intro h
    funext p
    have hp := congrFun h p
    simp only [sc, mulVec, dotProduct] at hp ⊢
    have hkp := hk p
    rw [div_eq_iff hkp, hp, Finset.sum_mul]
    apply Finset.sum_congr rfl
    intro q _
    rw [hM p q]; have := hk q; field_simp

/-- **S → Z, n ports** (`vnaconv_stozn`): X = (1 − S)⁻¹ (diag z* + S diag z), Z_pq = X_pq k_p / k_q -/
theorem stoz_matrix (h2 : (2 : K) ≠ 0) (S X Zm : Matrix (Fin n) (Fin n) K) (z zc k : Fin n → K) (hk : ∀ p, k p ≠ 0)
    (hAX : (1 - S) * X = diagonal zc + S * diagonal z) (hdet : (1 - S).det ≠ 0)
    (hZ : ∀ p q, Zm p q = X p q * (k p / k q))
    (v i a b : Fin n → K) (hl : Linked z zc k v i a b) :
    b = S.mulVec a ↔ v = Zm.mulVec i := by
  rw [waves_iff h2 S z zc k hk v i a b hl, ← hAX, ← mulVec_mulVec, ← scaled_iff X Zm k hk hZ]
  exact ⟨fun h => mulVec_cancel hdet h, fun h => by rw [h]⟩

/-- **S → Y, n ports** (`vnaconv_stoyn`): X = (diag z* + S diag z)⁻¹ (1 − S), Y_pq = X_pq k_p / k_q -/
theorem stoy_matrix (h2 : (2 : K) ≠ 0) (S X Ym : Matrix (Fin n) (Fin n) K) (z zc k : Fin n → K) (hk : ∀ p, k p ≠ 0)
    (hAX : (diagonal zc + S * diagonal z) * X = 1 - S) (hdet : (diagonal zc + S * diagonal z).det ≠ 0)
    (hY : ∀ p q, Ym p q = X p q * (k p / k q))
    (v i a b : Fin n → K) (hl : Linked z zc k v i a b) :
    b = S.mulVec a ↔ i = Ym.mulVec v := by
  rw [waves_iff h2 S z zc k hk v i a b hl, ← hAX, ← mulVec_mulVec, ← scaled_iff X Ym k hk hY]
  exact ⟨fun h => (mulVec_cancel hdet h).symm, fun h => by rw [h]⟩

/-- the wave relation with the k's cleared: b = S a ⇔ β = X α for α = v + z i, β = v − z* i, when S_pq = X_pq k_q / k_p -/
theorem waves_unscaled_iff (h2 : (2 : K) ≠ 0) (S X : Matrix (Fin n) (Fin n) K) (z zc k : Fin n → K) (hk : ∀ p, k p ≠ 0)
    (hS : ∀ p q, S p q = X p q * (k q / k p))
    (v i a b : Fin n → K) (hl : Linked z zc k v i a b) :
    b = S.mulVec a ↔ (fun p => v p - zc p * i p) = X.mulVec (fun p => v p + z p * i p) := by
  constructor
  · intro h
    funext p
    have hp := congrFun h p
    simp only [mulVec, dotProduct] at hp ⊢
    rw [(hl p).2] at hp
    have hkp := hk p
    have : v p - zc p * i p = 2 * k p * ∑ q, S p q * a q := by rw [← hp]; field_simp
    rw [this, Finset.mul_sum]
    apply Finset.sum_congr rfl
    intro q _
    rw [hS p q, (hl q).1]; have := hk q; field_simp
  · intro h
    funext p
    have hp := congrFun h p
    simp only [mulVec, dotProduct] at hp ⊢
    rw [(hl p).2, hp]
    have hkp := hk p
    rw [Finset.sum_div]
    apply Finset.sum_congr rfl
    intro q _
    rw [hS p q, (hl q).1]; have := hk q; field_simp

/-- **Z → S, n ports** (`vnaconv_ztosn`): X = (Z − diag z*) (Z + diag z)⁻¹, S_pq = X_pq k_q / k_p -/
theorem ztos_matrix (h2 : (2 : K) ≠ 0) (Zm X S : Matrix (Fin n) (Fin n) K) (z zc k : Fin n → K) (hk : ∀ p, k p ≠ 0)
    (hre : ∀ p, z p + zc p ≠ 0)
    (hXA : X * (Zm + diagonal z) = Zm - diagonal zc) (hdet : (Zm + diagonal z).det ≠ 0)
    (hS : ∀ p q, S p q = X p q * (k q / k p))
    (v i a b : Fin n → K) (hl : Linked z zc k v i a b) :
    v = Zm.mulVec i ↔ b = S.mulVec a := by
  rw [waves_unscaled_iff h2 S X z zc k hk hS v i a b hl]
  have hα : ∀ w : Fin n → K, (fun p => (Zm.mulVec w) p + z p * w p) = (Zm + diagonal z).mulVec w := by
    intro w; funext p; simp [add_mulVec, mulVec_diagonal]
  have hβ : ∀ w : Fin n → K, (fun p => (Zm.mulVec w) p - zc p * w p) = (Zm - diagonal zc).mulVec w := by
    intro w; funext p; simp [sub_mulVec, mulVec_diagonal]
  constructor
  · intro hv
    subst hv
    rw [hα i, hβ i, ← hXA, mulVec_mulVec]
  · intro h
    -- i* := A⁻¹ α
    have hu : IsUnit (Zm + diagonal z).det := isUnit_iff_ne_zero.mpr hdet
    set α : Fin n → K := fun p => v p + z p * i p with hαdef
    set istar : Fin n → K := (Zm + diagonal z)⁻¹.mulVec α with histar
    have hAi : (Zm + diagonal z).mulVec istar = α := by
      rw [histar, mulVec_mulVec, mul_nonsing_inv _ hu, one_mulVec]
    have hBi : (Zm - diagonal zc).mulVec istar = fun p => v p - zc p * i p := by
      rw [← hXA, ← mulVec_mulVec, hAi]; exact h.symm
    have hi : i = istar := by
      funext p
      have h1 := congrFun hAi p
      have h2' := congrFun hBi p
      simp only [add_mulVec, sub_mulVec, mulVec_diagonal, Pi.add_apply, Pi.sub_apply, hαdef] at h1 h2'
      have : (z p + zc p) * (i p - istar p) = 0 := by linear_combination h2' - h1
      rcases mul_eq_zero.mp this with h0 | h0
      · exact absurd h0 (hre p)
      · exact sub_eq_zero.mp h0
    funext p
    have h1 := congrFun hAi p
    rw [← hi] at h1
    simp only [add_mulVec, mulVec_diagonal, Pi.add_apply, hαdef] at h1
    linear_combination -h1

/-- **Y → S, n ports** (`vnaconv_ytosn`): X = (1 − diag z* Y) (1 + diag z Y)⁻¹, S_pq = X_pq k_q / k_p -/
theorem ytos_matrix (h2 : (2 : K) ≠ 0) (Ym X S : Matrix (Fin n) (Fin n) K) (z zc k : Fin n → K) (hk : ∀ p, k p ≠ 0)
    (hre : ∀ p, z p + zc p ≠ 0)
    (hXA : X * (1 + diagonal z * Ym) = 1 - diagonal zc * Ym) (hdet : (1 + diagonal z * Ym).det ≠ 0)
    (hS : ∀ p q, S p q = X p q * (k q / k p))
    (v i a b : Fin n → K) (hl : Linked z zc k v i a b) :
    i = Ym.mulVec v ↔ b = S.mulVec a := by
  rw [waves_unscaled_iff h2 S X z zc k hk hS v i a b hl]
  have hα : ∀ w : Fin n → K, (fun p => w p + z p * (Ym.mulVec w) p) = (1 + diagonal z * Ym).mulVec w := by
    intro w; funext p; simp [add_mulVec, ← mulVec_mulVec, mulVec_diagonal]
  have hβ : ∀ w : Fin n → K, (fun p => w p - zc p * (Ym.mulVec w) p) = (1 - diagonal zc * Ym).mulVec w := by
    intro w; funext p; simp [sub_mulVec, ← mulVec_mulVec, mulVec_diagonal]
  constructor
  · intro hi
    subst hi
    rw [hα v, hβ v, ← hXA, mulVec_mulVec]
  · intro h
    have hu : IsUnit (1 + diagonal z * Ym).det := isUnit_iff_ne_zero.mpr hdet
    set α : Fin n → K := fun p => v p + z p * i p with hαdef
    set vstar : Fin n → K := (1 + diagonal z * Ym)⁻¹.mulVec α with hvstar
    have hAv : (1 + diagonal z * Ym).mulVec vstar = α := by
      rw [hvstar, mulVec_mulVec, mul_nonsing_inv _ hu, one_mulVec]
    have hBv : (1 - diagonal zc * Ym).mulVec vstar = fun p => v p - zc p * i p := by
      rw [← hXA, ← mulVec_mulVec, hAv]; exact h.symm
    -- i = Y v*  and then v = v*
    have hiy : i = Ym.mulVec vstar := by
      funext p
      have h1 := congrFun hAv p
      have h2' := congrFun hBv p
      rw [← hα vstar] at h1
      rw [← hβ vstar] at h2'
      simp only [hαdef] at h1 h2'
      have : (z p + zc p) * (i p - (Ym.mulVec vstar) p) = 0 := by linear_combination h2' - h1
      rcases mul_eq_zero.mp this with h0 | h0
      · exact absurd h0 (hre p)
      · exact sub_eq_zero.mp h0
    have hvv : v = vstar := by
      funext p
      have h1 := congrFun hAv p
      rw [← hα vstar] at h1
      simp only [hαdef] at h1
      have e := congrFun hiy p
      rw [← e] at h1
      linear_combination -h1
    rw [hvv]
    exact hiy


/-! ### Part 2: the executed functions -/
open Libvna Libvna.LULoop

variable [Inhabited K]

theorem get_mk (n : Nat) (f : Nat → Nat → K) {i j : Nat} (hi : i < n) (hj : j < n) :
    LA.get (ConvN.mk n f) n i j = f i j := by
  unfold LA.get ConvN.mk
  have hlt : i * n + j < n * n := idx_lt hi hj
  have hn : 0 < n := by omega
  have h1 : (i * n + j) / n = i := by
    rw [Nat.add_comm, Nat.add_mul_div_right _ _ hn, Nat.div_eq_of_lt hj]; simp
  have h2 : (i * n + j) % n = j := by
    rw [Nat.add_comm, Nat.add_mul_mod_self_right, Nat.mod_eq_of_lt hj]
  simp [hlt, h1, h2]

theorem size_mk (n : Nat) (f : Nat → Nat → K) : (ConvN.mk n f).size = n * n := by
  simp [ConvN.mk]

theorem kvec_get (cj sqa : K → K) (z0 : Array K) (n : Nat) {p : Nat} (hp : p < n) :
    (ConvN.kvec cj sqa z0 n)[p]! = sqa ((z0[p]! + cj z0[p]!) / 2) := by
  simp [ConvN.kvec, hp]

/-- the solution of `A X = B` returned entry by entry is the matrix equation -/
theorem matrix_of_solves {n : Nat} (a0 b x : Array K)
    (h : ∀ (r : Fin n) (j : Nat), j < n → ∑ c : Fin n, LA.get a0 n r c * X x n c j = X b n r j) :
    Amat a0 n * (Matrix.of fun r c : Fin n => X x n r c) = Amat b n := by
  ext r j
  rw [Matrix.mul_apply]
  simp only [Amat, Matrix.of_apply]
  exact h r j j.isLt

theorem det_ne_zero_of_pivots (mag : K → Float) (a0 : Array K) (n : Nat) (hs : a0.size = n * n)
    (hp : ∀ i, i < n → LA.get (LA.lu mag a0 n).1 n i i ≠ 0) : (Amat a0 n).det ≠ 0 :=
  Matrix.det_ne_zero_of_right_inverse (minverse_inverts mag a0 n hs hp)

/-- **`vnaconv_stozn` (executed model), every n ≥ 1**: the returned matrix relates the port voltages and currents exactly when the
    input relates the waves, for reference impedances `z0[p]` with "conjugate" `cj z0[p]` and `k_p = sqa((z0_p + cj z0_p)/2) ≠ 0` -/
theorem stozn_relation (h2 : (2 : K) ≠ 0) (mag : K → Float) (cj sqa : K → K) (s z0 : Array K) (n : Nat) (hn : 0 < n)
    (hk : ∀ p, p < n → (ConvN.kvec cj sqa z0 n)[p]! ≠ 0)
    (hp : ∀ i, i < n → LA.get (LA.lu mag (ConvN.oneMinus s n) n).1 n i i ≠ 0)
    (v i a b : Fin n → K)
    (hl : Linked (fun p : Fin n => z0[(p : Nat)]!) (fun p : Fin n => cj z0[(p : Nat)]!) (fun p : Fin n => (ConvN.kvec cj sqa z0 n)[(p : Nat)]!) v i a b) :
    b = (Amat s n).mulVec a ↔ v = (Matrix.of fun r c : Fin n => X (ConvN.stozn mag cj sqa s z0 n) n r c).mulVec i := by
  have hsA : (ConvN.oneMinus s n).size = n * n := size_mk n _
  obtain ⟨hsol, _⟩ := mldivide_solves mag (ConvN.oneMinus s n) (ConvN.zcPlusSz cj s z0 n) n n hsA hp
  have hAX := matrix_of_solves (ConvN.oneMinus s n) (ConvN.zcPlusSz cj s z0 n) _ hsol
  have hA : Amat (ConvN.oneMinus s n) n = 1 - Amat s n := by
    ext r c
    simp only [Amat, ConvN.oneMinus, get_mk n _ r.isLt c.isLt, Matrix.sub_apply, Matrix.one_apply]
    by_cases e : r = c
    · subst e; simp; ring
    · have : ¬ (r : Nat) = c := fun h => e (Fin.ext h)
      simp [e, this]
  have hB : Amat (ConvN.zcPlusSz cj s z0 n) n = Matrix.diagonal (fun p : Fin n => cj z0[(p : Nat)]!) + Amat s n * Matrix.diagonal (fun p : Fin n => z0[(p : Nat)]!) := by
    ext r c
    simp only [Amat, ConvN.zcPlusSz, get_mk n _ r.isLt c.isLt, Matrix.add_apply, Matrix.mul_diagonal, Matrix.diagonal_apply]
    by_cases e : r = c
    · subst e; simp; ring
    · have : ¬ (r : Nat) = c := fun h => e (Fin.ext h)
      simp [e, this]
  rw [hA, hB] at hAX
  have hdet : (1 - Amat s n).det ≠ 0 := by
    rw [← hA]; exact det_ne_zero_of_pivots mag _ n hsA hp
  apply stoz_matrix h2 (Amat s n) _ _ _ _ _ (fun p => hk p p.isLt) hAX hdet _ v i a b hl
  intro p q
  have e : ConvN.stozn mag cj sqa s z0 n =
      ConvN.rescale (LA.mldivide mag (ConvN.oneMinus s n) (ConvN.zcPlusSz cj s z0 n) n n).1 n
        fun i j => (ConvN.kvec cj sqa z0 n)[i]! / (ConvN.kvec cj sqa z0 n)[j]! := by
    unfold ConvN.stozn; rw [if_neg (by omega)]
  simp only [Matrix.of_apply, e, X]
  show LA.get (ConvN.rescale _ n _) n p q = _
  unfold ConvN.rescale
  rw [get_mk n _ p.isLt q.isLt]
  by_cases hpq : (p : Nat) = q
  · have hkp := hk p p.isLt
    simp only [hpq, bne_self_eq_false, Bool.false_eq_true, if_false, LA.get]
    rw [← hpq, div_self hkp, mul_one]
  · simp [hpq, LA.get]


theorem matrix_of_rsolves {n : Nat} (a0 b x : Array K)
    (h : ∀ (i : Nat), i < n → ∀ c : Fin n, ∑ r : Fin n, X x n i r * LA.get a0 n r c = X b n i c) :
    (Matrix.of fun r c : Fin n => X x n r c) * Amat a0 n = Amat b n := by
  ext r j
  rw [Matrix.mul_apply]
  simp only [Amat, Matrix.of_apply]
  exact h r r.isLt j

theorem rescale_apply (x : Array K) (n : Nat) (f : Nat → Nat → K) (p q : Fin n) (hd : f p p = 1) :
    X (ConvN.rescale x n f) n p q = X x n p q * f p q := by
  show LA.get (ConvN.rescale x n f) n p q = _
  unfold ConvN.rescale
  rw [get_mk n _ p.isLt q.isLt]
  by_cases hpq : (p : Nat) = q
  · simp only [hpq, bne_self_eq_false, Bool.false_eq_true, if_false, LA.get, X]
    rw [← hpq, hd, mul_one]
  · simp [hpq, LA.get, X]

theorem amat_oneMinus (s : Array K) (n : Nat) : Amat (ConvN.oneMinus s n) n = 1 - Amat s n := by
  ext r c
  simp only [Amat, ConvN.oneMinus, get_mk n _ r.isLt c.isLt, Matrix.sub_apply, Matrix.one_apply]
  by_cases e : r = c
  · subst e; simp; ring
  · have : ¬ (r : Nat) = c := fun h => e (Fin.ext h)
    simp [e, this]

theorem amat_zcPlusSz (cj : K → K) (s z0 : Array K) (n : Nat) :
    Amat (ConvN.zcPlusSz cj s z0 n) n =
      Matrix.diagonal (fun p : Fin n => cj z0[(p : Nat)]!) + Amat s n * Matrix.diagonal (fun p : Fin n => z0[(p : Nat)]!) := by
  ext r c
  simp only [Amat, ConvN.zcPlusSz, get_mk n _ r.isLt c.isLt, Matrix.add_apply, Matrix.mul_diagonal, Matrix.diagonal_apply]
  by_cases e : r = c
  · subst e; simp; ring
  · have : ¬ (r : Nat) = c := fun h => e (Fin.ext h)
    simp [e, this]

/-- **`vnaconv_stoyn` (executed model), every n ≥ 1** -/
theorem stoyn_relation (h2 : (2 : K) ≠ 0) (mag : K → Float) (cj sqa : K → K) (s z0 : Array K) (n : Nat) (hn : 0 < n)
    (hk : ∀ p, p < n → (ConvN.kvec cj sqa z0 n)[p]! ≠ 0)
    (hp : ∀ i, i < n → LA.get (LA.lu mag (ConvN.zcPlusSz cj s z0 n) n).1 n i i ≠ 0)
    (v i a b : Fin n → K)
    (hl : Linked (fun p : Fin n => z0[(p : Nat)]!) (fun p : Fin n => cj z0[(p : Nat)]!) (fun p : Fin n => (ConvN.kvec cj sqa z0 n)[(p : Nat)]!) v i a b) :
    b = (Amat s n).mulVec a ↔ i = (Matrix.of fun r c : Fin n => X (ConvN.stoyn mag cj sqa s z0 n) n r c).mulVec v := by
  have hsA : (ConvN.zcPlusSz cj s z0 n).size = n * n := size_mk n _
  obtain ⟨hsol, _⟩ := mldivide_solves mag (ConvN.zcPlusSz cj s z0 n) (ConvN.oneMinus s n) n n hsA hp
  have hAX := matrix_of_solves (ConvN.zcPlusSz cj s z0 n) (ConvN.oneMinus s n) _ hsol
  rw [amat_oneMinus, amat_zcPlusSz] at hAX
  have hdet : (Matrix.diagonal (fun p : Fin n => cj z0[(p : Nat)]!) + Amat s n * Matrix.diagonal (fun p : Fin n => z0[(p : Nat)]!)).det ≠ 0 := by
    rw [← amat_zcPlusSz]; exact det_ne_zero_of_pivots mag _ n hsA hp
  apply stoy_matrix h2 (Amat s n) _ _ _ _ _ (fun p => hk p p.isLt) hAX hdet _ v i a b hl
  intro p q
  have e : ConvN.stoyn mag cj sqa s z0 n =
      ConvN.rescale (LA.mldivide mag (ConvN.zcPlusSz cj s z0 n) (ConvN.oneMinus s n) n n).1 n
        fun i j => (ConvN.kvec cj sqa z0 n)[i]! / (ConvN.kvec cj sqa z0 n)[j]! := by
    unfold ConvN.stoyn; rw [if_neg (by omega)]
  simp only [Matrix.of_apply, e]
  exact rescale_apply _ n _ p q (div_self (hk p p.isLt))

theorem amat_zPlus (z z0 : Array K) (n : Nat) :
    Amat (ConvN.zPlus z z0 n) n = Amat z n + Matrix.diagonal (fun p : Fin n => z0[(p : Nat)]!) := by
  ext r c
  simp only [Amat, ConvN.zPlus, get_mk n _ r.isLt c.isLt, Matrix.add_apply, Matrix.diagonal_apply]
  by_cases e : r = c
  · subst e; simp
  · have : ¬ (r : Nat) = c := fun h => e (Fin.ext h)
    simp [e, this]

theorem amat_zMinus (cj : K → K) (z z0 : Array K) (n : Nat) :
    Amat (ConvN.zMinus cj z z0 n) n = Amat z n - Matrix.diagonal (fun p : Fin n => cj z0[(p : Nat)]!) := by
  ext r c
  simp only [Amat, ConvN.zMinus, get_mk n _ r.isLt c.isLt, Matrix.sub_apply, Matrix.diagonal_apply]
  by_cases e : r = c
  · subst e; simp
  · have : ¬ (r : Nat) = c := fun h => e (Fin.ext h)
    simp [e, this]

/-- **`vnaconv_ztosn` (executed model), every n ≥ 1** (Re z0 ≠ 0: `z0_p + cj z0_p ≠ 0`) -/
theorem ztosn_relation (h2 : (2 : K) ≠ 0) (mag : K → Float) (cj sqa : K → K) (z z0 : Array K) (n : Nat) (hn : 0 < n)
    (hk : ∀ p, p < n → (ConvN.kvec cj sqa z0 n)[p]! ≠ 0)
    (hre : ∀ p, p < n → z0[p]! + cj z0[p]! ≠ 0)
    (hp : ∀ i, i < n → LA.get (LA.lu mag (ConvN.zPlus z z0 n) n).1 n i i ≠ 0)
    (v i a b : Fin n → K)
    (hl : Linked (fun p : Fin n => z0[(p : Nat)]!) (fun p : Fin n => cj z0[(p : Nat)]!) (fun p : Fin n => (ConvN.kvec cj sqa z0 n)[(p : Nat)]!) v i a b) :
    v = (Amat z n).mulVec i ↔ b = (Matrix.of fun r c : Fin n => X (ConvN.ztosn mag cj sqa z z0 n) n r c).mulVec a := by
  have hsA : (ConvN.zPlus z z0 n).size = n * n := size_mk n _
  have hsol := fun (r : Nat) (hr : r < n) (c : Fin n) => mrdivide_solves mag (ConvN.zPlus z z0 n) (ConvN.zMinus cj z z0 n) n n hsA hp r hr c
  have hXA := matrix_of_rsolves (ConvN.zPlus z z0 n) (ConvN.zMinus cj z z0 n) _ hsol
  rw [amat_zPlus, amat_zMinus] at hXA
  have hdet : (Amat z n + Matrix.diagonal (fun p : Fin n => z0[(p : Nat)]!)).det ≠ 0 := by
    rw [← amat_zPlus]; exact det_ne_zero_of_pivots mag _ n hsA hp
  apply ztos_matrix h2 (Amat z n) _ _ _ _ _ (fun p => hk p p.isLt) (fun p => hre p p.isLt) hXA hdet _ v i a b hl
  intro p q
  have e : ConvN.ztosn mag cj sqa z z0 n =
      ConvN.rescale (LA.mrdivide mag (ConvN.zMinus cj z z0 n) (ConvN.zPlus z z0 n) n n).1 n
        fun i j => (ConvN.kvec cj sqa z0 n)[j]! / (ConvN.kvec cj sqa z0 n)[i]! := by
    unfold ConvN.ztosn; rw [if_neg (by omega)]
  simp only [Matrix.of_apply, e]
  exact rescale_apply _ n _ p q (div_self (hk p p.isLt))

theorem amat_onePlusZY (y z0 : Array K) (n : Nat) :
    Amat (ConvN.onePlusZY y z0 n) n = 1 + Matrix.diagonal (fun p : Fin n => z0[(p : Nat)]!) * Amat y n := by
  ext r c
  simp only [Amat, ConvN.onePlusZY, get_mk n _ r.isLt c.isLt, Matrix.add_apply, Matrix.one_apply, Matrix.diagonal_mul]
  by_cases e : r = c
  · subst e; simp; ring
  · have : ¬ (r : Nat) = c := fun h => e (Fin.ext h)
    simp [e, this]

theorem amat_oneMinusZcY (cj : K → K) (y z0 : Array K) (n : Nat) :
    Amat (ConvN.oneMinusZcY cj y z0 n) n = 1 - Matrix.diagonal (fun p : Fin n => cj z0[(p : Nat)]!) * Amat y n := by
  ext r c
  simp only [Amat, ConvN.oneMinusZcY, get_mk n _ r.isLt c.isLt, Matrix.sub_apply, Matrix.one_apply, Matrix.diagonal_mul]
  by_cases e : r = c
  · subst e; simp; ring
  · have : ¬ (r : Nat) = c := fun h => e (Fin.ext h)
    simp [e, this]

/-- **`vnaconv_ytosn` (executed model), every n ≥ 1** -/
theorem ytosn_relation (h2 : (2 : K) ≠ 0) (mag : K → Float) (cj sqa : K → K) (y z0 : Array K) (n : Nat) (hn : 0 < n)
    (hk : ∀ p, p < n → (ConvN.kvec cj sqa z0 n)[p]! ≠ 0)
    (hre : ∀ p, p < n → z0[p]! + cj z0[p]! ≠ 0)
    (hp : ∀ i, i < n → LA.get (LA.lu mag (ConvN.onePlusZY y z0 n) n).1 n i i ≠ 0)
    (v i a b : Fin n → K)
    (hl : Linked (fun p : Fin n => z0[(p : Nat)]!) (fun p : Fin n => cj z0[(p : Nat)]!) (fun p : Fin n => (ConvN.kvec cj sqa z0 n)[(p : Nat)]!) v i a b) :
    i = (Amat y n).mulVec v ↔ b = (Matrix.of fun r c : Fin n => X (ConvN.ytosn mag cj sqa y z0 n) n r c).mulVec a := by
  have hsA : (ConvN.onePlusZY y z0 n).size = n * n := size_mk n _
  have hsol := fun (r : Nat) (hr : r < n) (c : Fin n) => mrdivide_solves mag (ConvN.onePlusZY y z0 n) (ConvN.oneMinusZcY cj y z0 n) n n hsA hp r hr c
  have hXA := matrix_of_rsolves (ConvN.onePlusZY y z0 n) (ConvN.oneMinusZcY cj y z0 n) _ hsol
  rw [amat_onePlusZY, amat_oneMinusZcY] at hXA
  have hdet : (1 + Matrix.diagonal (fun p : Fin n => z0[(p : Nat)]!) * Amat y n).det ≠ 0 := by
    rw [← amat_onePlusZY]; exact det_ne_zero_of_pivots mag _ n hsA hp
  apply ytos_matrix h2 (Amat y n) _ _ _ _ _ (fun p => hk p p.isLt) (fun p => hre p p.isLt) hXA hdet _ v i a b hl
  intro p q
  have e : ConvN.ytosn mag cj sqa y z0 n =
      ConvN.rescale (LA.mrdivide mag (ConvN.oneMinusZcY cj y z0 n) (ConvN.onePlusZY y z0 n) n n).1 n
        fun i j => (ConvN.kvec cj sqa z0 n)[j]! / (ConvN.kvec cj sqa z0 n)[i]! := by
    unfold ConvN.ytosn; rw [if_neg (by omega)]
  simp only [Matrix.of_apply, e]
  exact rescale_apply _ n _ p q (div_self (hk p p.isLt))

end Libvna.C04N
