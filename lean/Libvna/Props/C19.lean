/-
C19 — linear systems: exact-arithmetic correctness of the LU solve (partial, see DESIGN §6 C19).

What is proved here, for every n and every field: if the numbers the Crout loops of `_vnacommon_lu`
leave behind satisfy the recurrences the loops compute (each entry is the matrix entry minus the
already computed partial sum, the sub-diagonal ones divided by the pivot), then L U = P A; if the two
substitution loops of `_vnacommon_mldivide` satisfy theirs, the result solves A X = B; the returned
determinant is the determinant of A; an exactly zero pivot means A is singular.
What is *not* proved: that the imperative loops (with their in-place updates and row swaps) establish
those recurrences — that step is tied by the correspondence run (Model/LinAlg.lean vs the C) only.
-/
import Mathlib.LinearAlgebra.Matrix.Block
import Mathlib.LinearAlgebra.Matrix.Determinant.Basic
import Mathlib.Data.Matrix.Mul
import Mathlib.Algebra.BigOperators.Fin
import Mathlib.Tactic.Ring
import Mathlib.Tactic.FieldSimp
import Mathlib.Tactic.LinearCombination

namespace Libvna.LU
open Matrix BigOperators
variable {n : ℕ} {K : Type} [Field K]

/-- split a sum over Fin n at index i: below, at, above -/
theorem sum_split3 (f : Fin n → K) (i : Fin n) :
    ∑ k, f k = (∑ k, if k < i then f k else 0) + f i + ∑ k, if i < k then f k else 0 := by
  have h : f i = ∑ k, if k = i then f k else 0 := by simp
  rw [h, ← Finset.sum_add_distrib, ← Finset.sum_add_distrib]
  apply Finset.sum_congr rfl
  intro k _
  rcases lt_trichotomy k i with hlt | heq | hgt
  · have h1 : ¬ k = i := ne_of_lt hlt
    have h2 : ¬ i < k := not_lt.mpr (le_of_lt hlt)
    simp [hlt, h1, h2]
  · subst heq; simp
  · have h1 : ¬ k = i := ne_of_gt hgt
    have h2 : ¬ k < i := not_lt.mpr (le_of_lt hgt)
    simp [hgt, h1, h2]

/-- **the Crout recurrences give a factorisation**: L unit lower triangular, U upper triangular, every
    entry defined by "matrix entry minus the partial sum over the already computed part" ⇒ L U = A'
    (A' = the row-permuted input) -/
theorem lu_of_recurrence (A' L U : Matrix (Fin n) (Fin n) K)
    (hLd : ∀ i, L i i = 1) (hLu : ∀ i j, i < j → L i j = 0) (hUl : ∀ i j, j < i → U i j = 0)
    (hu : ∀ i j, i ≤ j → U i j = A' i j - ∑ k, if k < i then L i k * U k j else 0)
    (hl : ∀ i j, j < i → L i j * U j j = A' i j - ∑ k, if k < j then L i k * U k j else 0) :
    L * U = A' := by
  ext i j
  rw [Matrix.mul_apply]
  rcases le_or_gt i j with hij | hji
  · rw [sum_split3 (fun k => L i k * U k j) i]
    have hz : (∑ k, if i < k then L i k * U k j else 0) = 0 := by
      apply Finset.sum_eq_zero; intro k _
      by_cases hk : i < k
      · simp [hk, hLu i k hk]
      · simp [hk]
    rw [hz, add_zero, hLd, one_mul, hu i j hij]
    ring
  · rw [sum_split3 (fun k => L i k * U k j) j]
    have hz : (∑ k, if j < k then L i k * U k j else 0) = 0 := by
      apply Finset.sum_eq_zero; intro k _
      by_cases hk : j < k
      · simp [hk, hUl k j hk]
      · simp [hk]
    rw [hz, add_zero, hl i j hji]
    ring

/-- forward substitution (first loop of `_vnacommon_mldivide`): y_i = b_i − Σ_{k<i} L_ik y_k ⇒ L y = b -/
theorem forward_subst (L : Matrix (Fin n) (Fin n) K) (b y : Fin n → K)
    (hLd : ∀ i, L i i = 1) (hLu : ∀ i j, i < j → L i j = 0)
    (hy : ∀ i, y i = b i - ∑ k, if k < i then L i k * y k else 0) : L.mulVec y = b := by
  ext i
  simp only [Matrix.mulVec, dotProduct]
  rw [sum_split3 (fun k => L i k * y k) i]
  have hz : (∑ k, if i < k then L i k * y k else 0) = 0 := by
    apply Finset.sum_eq_zero; intro k _
    by_cases hk : i < k
    · simp [hk, hLu i k hk]
    · simp [hk]
  rw [hz, add_zero, hLd, one_mul]
  have := hy i
  linear_combination this

/-- back substitution (second loop): x_i U_ii = y_i − Σ_{k>i} U_ik x_k ⇒ U x = y -/
theorem back_subst (U : Matrix (Fin n) (Fin n) K) (y x : Fin n → K)
    (hUl : ∀ i j, j < i → U i j = 0)
    (hx : ∀ i, x i * U i i = y i - ∑ k, if i < k then U i k * x k else 0) : U.mulVec x = y := by
  ext i
  simp only [Matrix.mulVec, dotProduct]
  rw [sum_split3 (fun k => U i k * x k) i]
  have hz : (∑ k, if k < i then U i k * x k else 0) = 0 := by
    apply Finset.sum_eq_zero; intro k _
    by_cases hk : k < i
    · simp [hk, hUl i k hk]
    · simp [hk]
  rw [hz, zero_add, mul_comm (U i i) (x i), hx i]
  ring

/-- **mldivide solves the system**: factorisation + the two substitutions ⇒ A' x = b
    (A' and b are the input matrix and right-hand side with the rows permuted by `row_index`) -/
theorem solve_correct (A' L U : Matrix (Fin n) (Fin n) K) (b y x : Fin n → K)
    (hf : L * U = A') (hLd : ∀ i, L i i = 1) (hLu : ∀ i j, i < j → L i j = 0) (hUl : ∀ i j, j < i → U i j = 0)
    (hy : ∀ i, y i = b i - ∑ k, if k < i then L i k * y k else 0)
    (hx : ∀ i, x i * U i i = y i - ∑ k, if i < k then U i k * x k else 0) :
    A'.mulVec x = b := by
  rw [← hf, ← Matrix.mulVec_mulVec, back_subst U y x hUl hx, forward_subst L b y hLd hLu hy]

/-- the determinant accumulated by the loops (product of the pivots, sign changes for the row swaps are
    part of det P) is the determinant of the permuted matrix -/
theorem det_of_lu (A' L U : Matrix (Fin n) (Fin n) K) (hf : L * U = A')
    (hLd : ∀ i, L i i = 1) (hLu : ∀ i j, i < j → L i j = 0) (hUl : ∀ i j, j < i → U i j = 0) :
    A'.det = ∏ i, U i i := by
  rw [← hf, Matrix.det_mul]
  have hL : L.det = 1 := by
    rw [Matrix.det_of_lowerTriangular L (fun i j h => hLu i j h)]
    simp [hLd]
  have hU : U.det = ∏ i, U i i := Matrix.det_of_upperTriangular (fun i j h => hUl i j h)
  rw [hL, hU, one_mul]

/-- an exactly zero pivot means the matrix is singular: the call sites' `determinant == 0` test then
    takes the documented error path -/
theorem zero_pivot_singular (A' L U : Matrix (Fin n) (Fin n) K) (hf : L * U = A')
    (hLd : ∀ i, L i i = 1) (hLu : ∀ i j, i < j → L i j = 0) (hUl : ∀ i j, j < i → U i j = 0)
    (i : Fin n) (hz : U i i = 0) : A'.det = 0 := by
  rw [det_of_lu A' L U hf hLd hLu hUl]
  exact Finset.prod_eq_zero (Finset.mem_univ i) hz

/-- and conversely, all pivots non-zero ⇒ non-singular -/
theorem nonzero_pivots_nonsingular (A' L U : Matrix (Fin n) (Fin n) K) (hf : L * U = A')
    (hLd : ∀ i, L i i = 1) (hLu : ∀ i j, i < j → L i j = 0) (hUl : ∀ i j, j < i → U i j = 0)
    (hp : ∀ i, U i i ≠ 0) : A'.det ≠ 0 := by
  rw [det_of_lu A' L U hf hLd hLu hUl]
  exact Finset.prod_ne_zero_iff.mpr (fun i _ => hp i)

end Libvna.LU
