/-
C05 — vnadata_convert applies the right conversion with the right impedances.
-/
import Libvna.Model.VConvert
import Libvna.Props.C15

namespace Libvna.VD
open Libvna.Gen.Tables
variable {V F : Type}

/-! ### the dispatch table extracted from vnadata_convert.c, entry by entry -/

def typeLetter : Nat → String
  | 1 => "s" | 2 => "t" | 3 => "u" | 4 => "z" | 5 => "y" | 6 => "h" | 7 => "g" | 8 => "a" | 9 => "b" | _ => "?"

/-- S, Z, Y are defined for any number of ports -/
def nPortType (t : Nat) : Bool := t = 1 || t = 4 || t = 5
def matrixType (t : Nat) : Bool := 1 ≤ t && t ≤ 9

/-- what vnadata(3)/vnaconv(3) say the entry for (src, dst) has to be -/
def expected (src dst : Nat) : Option Disp :=
  let takes (fn : String) : Bool := (fnTakesZ0.lookup fn).getD false
  if src = dst then
    if src = 0 || src = 1 then some ⟨CONV_NONE, DIM_ANY, false, ""⟩
    else if src = 10 then some ⟨CONV_NONE, DIM_VEC, false, ""⟩
    else if nPortType src then some ⟨CONV_NONE, DIM_NxN, false, ""⟩
    else if matrixType src then some ⟨CONV_NONE, DIM_2x2, false, ""⟩
    else none
  else if matrixType src && matrixType dst then
    if nPortType src && nPortType dst then
      let fn := "vnaconv_" ++ typeLetter src ++ "to" ++ typeLetter dst ++ "n"
      some ⟨CONV_xtoy, DIM_NxN, takes fn, fn⟩
    else
      let fn := "vnaconv_" ++ typeLetter src ++ "to" ++ typeLetter dst
      some ⟨CONV_xtoy, DIM_2x2, takes fn, fn⟩
  else if matrixType src && dst = 10 then
    if nPortType src then
      let fn := "vnaconv_" ++ typeLetter src ++ "tozin"
      some ⟨CONV_xtoI, DIM_NxN, takes fn, fn⟩
    else
      let fn := "vnaconv_" ++ typeLetter src ++ "tozi"
      some ⟨CONV_xtoI, DIM_2x2, takes fn, fn⟩
  else none

/-- every one of the 121 entries: INVAL exactly where no conversion exists, otherwise the function
    named `vnaconv_<src>to<dst>[n]`, in the group whose calling convention (dimension class, z0
    argument) is that function's own -/
theorem dispatch_correct : ∀ src < 11, ∀ dst < 11, lookup src dst = expected src dst := by
  decide +kernel

/-- every function selected by the table exists in vnaconv.h -/
theorem dispatch_functions_exist :
    ∀ src < 11, ∀ dst < 11, ∀ d, lookup src dst = some d → d.fn = "" ∨ (fnTakesZ0.lookup d.fn).isSome := by
  decide +kernel

/-! ### refused conversions change nothing -/

theorem convert_reject_frame (c : Cfg V F) (conv : ConvFn V) (s o : VData V F) (t : Int)
    (h : s.convertCheck t = none) :
    s.convertInPlace c conv t = (s, .fail .EINVAL) ∧ s.convertInto c conv o t = (o, .fail .EINVAL) := by
  simp [VData.convertInPlace, VData.convertInto, h]

/-! ### in-place conversion: the right function, this frequency's impedances, invariant kept -/

/-- per-frequency result of a successful in-place matrix→matrix conversion -/
theorem convertInPlace_spec (c : Cfg V F) (conv : ConvFn V) (s : VData V F) (t : Int) (d : Disp)
    (hI : Inv c s) (hc : s.convertCheck t = some d) (hne : t.toNat ≠ s.type) (hk : d.conv ≠ CONV_xtoI) :
    let s' := (s.convertInPlace c conv t).1
    (s.convertInPlace c conv t).2 = .ok () ∧ s'.type = t.toNat ∧ s'.rows = s.rows ∧ s'.cols = s.cols ∧
    s'.freqs = s.freqs ∧ s'.fvec = s.fvec ∧ s'.z0 = s.z0 ∧ s'.fz0 = s.fz0 ∧ s'.perF = s.perF ∧
    ∀ f k, f < s.freqs → (hk : k < (conv d.fn (s.cellsAt f) (s.z0At f) s.rows).length) → k < s.cells →
      s'.data f k = (conv d.fn (s.cellsAt f) (s.z0At f) s.rows)[k] := by
  have h1 := hI.cells_le; have h2 := hI.freqs_le; have h3 := hI.ports_le
  have hb : s.freqs ≤ s.fAlloc ∧ s.cells ≤ s.mAlloc ∧ s.ports ≤ s.pAlloc := ⟨h2, h1, h3⟩
  simp only [VData.convertInPlace, hc, hne, ↓reduceIte, hb, and_self, not_true_eq_false, hk, true_and]
  intro f k hf hk hkc
  simp only [hf, hk, hkc, and_self, ↓reduceDIte]

/-- Converting to input impedances in place shrinks through `resize`, so every cell that a later
    resize can expose is initial: the object is indistinguishable from a freshly built 1 x ports one
    holding the zi values. -/
theorem convertInPlace_zin_inv (c : Cfg V F) (conv : ConvFn V) (s : VData V F) (t : Int)
    (hI : Inv c s) : Inv c (s.convertInPlace c conv t).1 ∧ ∀ w, (s.convertInPlace c conv t).2 ≠ .ub w := by
  unfold VData.convertInPlace
  cases hc : s.convertCheck t with
  | none => exact ⟨hI, by intro w; simp⟩
  | some d =>
    simp only
    by_cases hne : t.toNat = s.type
    · simp only [hne, ↓reduceIte]; exact ⟨hI, by intro w; simp⟩
    · have h1 := hI.cells_le; have h2 := hI.freqs_le; have h3 := hI.ports_le
      have hb : s.freqs ≤ s.fAlloc ∧ s.cells ≤ s.mAlloc ∧ s.ports ≤ s.pAlloc := ⟨h2, h1, h3⟩
      simp only [hne, ↓reduceIte, hb, and_self, not_true_eq_false]
      -- the object after the per-frequency stores: only logical cells were written
      have hI1 : Inv c { s with
          data := fun f k => if h : f < s.freqs ∧ k < (conv d.fn (s.cellsAt f) (s.z0At f) s.rows).length ∧ k < s.cells
            then (conv d.fn (s.cellsAt f) (s.z0At f) s.rows)[k]'h.2.1 else s.data f k,
          type := t.toNat } := by
        refine ⟨hI.cells_le, hI.freqs_le, hI.ports_le, ?_, hI.fvec_hidden, hI.z0_hidden, hI.fz0_hidden⟩
        intro f k hf hk hor
        simp only at hf hk hor ⊢
        by_cases hx : f < s.freqs ∧ k < (conv d.fn (s.cellsAt f) (s.z0At f) s.rows).length ∧ k < s.cells
        · exfalso; have := hx.1; have := hx.2.2; simp only [VData.cells] at this; omega
        · simp only [hx, ↓reduceDIte]; exact hI.data_hidden f k hf hk hor
      by_cases hk : d.conv = CONV_xtoI
      · simp only [hk, ↓reduceIte]
        exact resize_inv c _ t 1 _ _ hI1
      · simp only [hk, ↓reduceIte]
        exact ⟨hI1, by intro w; simp⟩

end Libvna.VD
