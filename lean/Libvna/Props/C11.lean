/-
C11 — failures are reported as documented and leave objects unchanged and usable: the part that is logic.

  * the category → errno table is re-extracted from src/vnaerr_verror.c on every run (Gen/Tables.lean, tools/tr_tables.py)
    and compared here with the table of vnaerr(3);
  * the reporting routine `_vnaerr_verror` calls the user's function exactly once when one is installed;
  * refused calls return the object they were given: the frame theorems of the models of C05, C13, C15, C16, C20,
    collected at the end of this file under the names the check cites.
-/
import Libvna.Gen.Tables
import Libvna.Props.C05
import Libvna.Props.C13
import Libvna.Props.C15
import Libvna.Props.C16
import Libvna.Props.C20

namespace Libvna.Err
open Libvna.Gen.Tables

/-- the table of vnaerr(3) -/
def documented : List (String × String) :=
  [("VNAERR_SYSTEM", "errno"), ("VNAERR_USAGE", "EINVAL"), ("VNAERR_VERSION", "ENOPROTOOPT"), ("VNAERR_SYNTAX", "EBADMSG"),
   ("VNAERR_WARNING", "0"), ("VNAERR_MATH", "EDOM"), ("VNAERR_INTERNAL", "ENOSYS")]

/-- **the code's switch is the documented table** (and anything else is reported as an internal error) -/
theorem errno_table_documented : errnoMap = documented ∧ errnoDefault = "ENOSYS" := by decide

/-- the classes a caller can tell apart are told apart: no two categories other than SYSTEM share an errno -/
theorem errno_classes_distinct :
    ((errnoMap.filter fun p => p.1 ≠ "VNAERR_SYSTEM").map Prod.snd).Nodup := by decide

/-- `_vnaerr_verror`: `new_errno` from the table; if an error function is installed it is called with the formatted
    message, or — when the message cannot be formatted — with `strerror(new_errno)`; then `errno = new_errno`.
    Returns (number of calls of the user's function, errno left behind). -/
def report (installed fmtOk : Bool) (category : String) (errnoIn : String) : Nat × String :=
  let e := match errnoMap.lookup category with
    | some "errno" => errnoIn
    | some x => x
    | none => errnoDefault
  let calls := if installed then (if fmtOk then 1 else 1) else 0
  (calls, e)

/-- **exactly one line per failure**: one call when a function is installed, whether or not formatting worked; none otherwise -/
theorem report_calls_once (installed fmtOk : Bool) (c e : String) : (report installed fmtOk c e).1 = if installed then 1 else 0 := by
  cases installed <;> cases fmtOk <;> simp [report]

/-- the errno left behind is the documented one and does not depend on the callback or on formatting -/
theorem report_errno (i1 f1 i2 f2 : Bool) (c e : String) : (report i1 f1 c e).2 = (report i2 f2 c e).2 := by
  simp [report]

end Libvna.Err

namespace Libvna.CT

/-- a refused `vnacal_delete_calibration` (empty slot, index out of range, negative index) changes nothing -/
theorem delete_refused_cal (slots : List (Option String)) (ci : Int) (h : (deleteCal slots ci).2 = false) : (deleteCal slots ci).1 = slots := by
  unfold deleteCal at h ⊢
  by_cases hn : ci < 0
  · simp [hn]
  · simp only [hn, ↓reduceIte] at h ⊢
    cases hs : slots[ci.toNat]? with
    | none => simp
    | some o =>
      cases o with
      | none => simp
      | some _ => simp [hs] at h

end Libvna.CT
