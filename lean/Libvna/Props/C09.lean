/-
C09 — every file parser is total: the part that is logic.

`scan` (Model/NpdScan.lean) is accepted by Lean as a structurally recursive, hence total, function.  Here: what it
returns is well formed (fields non-empty, free of blanks), every call consumes input, so the loop of records that
`_vnadata_load_npd` runs over a file ends after at most as many records as the file has bytes.
The bounds theorems of C06 (`npd_offsets_in_line`, `symmetric_fill`) say that what is then indexed or written lies
inside what was checked or sized.
-/
import Libvna.Model.NpdScan
import Libvna.Props.C06

namespace Libvna.Npd

def GoodField (f : List Nat) : Prop := f ≠ [] ∧ ∀ c ∈ f, isSpace c = false

def Inv (m : Mode) (fields : List (List Nat)) (cur : List Nat) : Prop :=
  (∀ f ∈ fields, GoodField f) ∧ (∀ c ∈ cur, isSpace c = false) ∧ (m = .fld → cur ≠ [])

theorem goodField_reverse {cur : List Nat} (h1 : ∀ c ∈ cur, isSpace c = false) (h2 : cur ≠ []) : GoodField cur.reverse := by
  constructor
  · simpa using h2
  · intro c hc; exact h1 c (List.mem_reverse.mp hc)

theorem scan_fields_good (m : Mode) (fields : List (List Nat)) (cur input : List Nat) (h : Inv m fields cur) :
    ∀ f ∈ (scan m fields cur input).fields, GoodField f := by
  induction input generalizing m fields cur with
  | nil =>
    obtain ⟨h1, h2, h3⟩ := h
    cases m <;> simp only [scan] <;> intro f hf <;> simp only [List.mem_reverse, List.mem_cons] at hf
    all_goals first
      | exact h1 f hf
      | (rcases hf with rfl | hf
         · exact goodField_reverse h2 (h3 rfl)
         · exact h1 f hf)
  | cons c rest ih =>
    obtain ⟨h1, h2, h3⟩ := h
    have hnil : Inv .top [] [] := ⟨by simp, by simp, by simp⟩
    have hkeep : ∀ m', m' ≠ .fld → Inv m' fields [] := fun m' hm => ⟨h1, by simp, fun e => absurd e hm⟩
    have hdone : ∀ f ∈ fields.reverse, GoodField f := fun f hf => h1 f (List.mem_reverse.mp hf)
    cases m <;> simp only [scan]
    · -- top
      split
      · split
        · exact ih _ _ _ hnil
        · exact hdone
      · split
        · exact ih _ _ _ (hkeep .top (by decide))
        · split
          · exact ih _ _ _ (hkeep .hash (by decide))
          · rename_i hs _ 
            refine ih _ _ _ ⟨h1, ?_, by simp⟩
            intro d hd
            simp only [List.mem_singleton] at hd
            subst hd
            simpa using hs
    · -- skip
      split
      · split
        · exact ih _ _ _ hnil
        · exact hdone
      · exact ih _ _ _ (hkeep .skip (by decide))
    · -- hash
      split
      · exact ih _ _ _ (hkeep .hashc (by decide))
      · split
        · split
          · exact ih _ _ _ hnil
          · exact hdone
        · exact ih _ _ _ (hkeep .skip (by decide))
    · -- hashc
      split
      · rename_i ha
        refine ih _ _ _ ⟨h1, ?_, by simp⟩
        intro d hd
        simp only [List.mem_cons, List.not_mem_nil, or_false] at hd
        rcases hd with rfl | rfl | rfl
        · -- a letter is not a blank
          simp only [isAlpha, Bool.or_eq_true, Bool.and_eq_true, decide_eq_true_eq] at ha
          simp only [isSpace, Bool.or_eq_false_iff, decide_eq_false_iff_not, Bool.and_eq_false_iff]
          omega
        · decide
        · decide
      · split
        · split
          · exact ih _ _ _ hnil
          · exact hdone
        · exact ih _ _ _ (hkeep .skip (by decide))
    · -- fld
      have hcur : GoodField cur.reverse := goodField_reverse h2 (h3 rfl)
      have hpush : ∀ f ∈ cur.reverse :: fields, GoodField f := by
        intro f hf
        rcases List.mem_cons.mp hf with rfl | hf
        · exact hcur
        · exact h1 f hf
      split
      · split
        · intro f hf
          exact hpush f (List.mem_reverse.mp hf)
        · exact ih _ _ _ ⟨hpush, by simp, by simp⟩
      · rename_i hs
        refine ih _ _ _ ⟨h1, ?_, by simp⟩
        intro d hd
        rcases List.mem_cons.mp hd with rfl | hd
        · simpa using hs
        · exact h2 d hd

/-- every field of a record is non-empty -/
theorem scanFields_nonempty (input : List Nat) : ∀ f ∈ (scanLine input).fields, f ≠ [] :=
  fun f hf => (scan_fields_good .top [] [] input ⟨by simp, by simp, by simp⟩ f hf).1

/-- no field contains a blank: `strtod` / `strtol` are handed one token each -/
theorem scanFields_no_blank (input : List Nat) : ∀ f ∈ (scanLine input).fields, ∀ c ∈ f, isSpace c = false :=
  fun f hf => (scan_fields_good .top [] [] input ⟨by simp, by simp, by simp⟩ f hf).2

theorem scan_rest_le (m : Mode) (fields : List (List Nat)) (cur input : List Nat) :
    (scan m fields cur input).rest.length ≤ input.length := by
  induction input generalizing m fields cur with
  | nil => cases m <;> simp [scan]
  | cons c rest ih =>
    cases m <;> simp only [scan, List.length_cons]
    all_goals (repeat' split) <;> first | exact Nat.le_succ_of_le (ih _ _ _) | simp

/-- **progress**: cutting a record out of a non-empty input leaves strictly less input -/
theorem scan_progress (c : Nat) (t : List Nat) : (scanLine (c :: t)).rest.length < (c :: t).length := by
  unfold scanLine
  simp only [scan, List.length_cons]
  (repeat' split) <;> first | exact Nat.lt_succ_of_le (scan_rest_le _ _ _ _) | simp

/-- the records of a whole file, as the loader's loop meets them; the definition is accepted because of
    `scan_progress` -/
def records : List Nat → List (List (List Nat))
  | [] => []
  | c :: t =>
    let r := scanLine (c :: t)
    if r.fields = [] then [] else r.fields :: records r.rest
termination_by l => l.length
decreasing_by exact scan_progress c t

/-- **totality with a bound**: a file of `n` bytes has at most `n` records -/
theorem scan_total (input : List Nat) : (records input).length ≤ input.length := by
  induction h : input.length using Nat.strong_induction_on generalizing input with
  | _ n ih =>
    cases input with
    | nil => simp [records]
    | cons c t =>
      rw [records]
      split
      · simp
      · have hp := scan_progress c t
        have := ih _ (by rw [← h]; exact hp) (scanLine (c :: t)).rest rfl
        simp only [List.length_cons] at *
        omega

end Libvna.Npd
