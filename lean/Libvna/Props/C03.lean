/-
C03 — no API call sequence corrupts memory: what the object models carry.

The memory-safety statements live with the models they are about; this file adds the bounds facts of the handle
tables and is the place the C03 check cites:
  * `Libvna.VD.reachable_no_ub` (C15): no operation of any vnadata history reaches outside an allocation;
  * `Libvna.VD.partial_extension_inv` (C12): also after a failed allocation;
  * `Libvna.CT.alloc_fresh` (C16): the slot handed out was free;
  * `Libvna.FF.symmetric_fill`, `Libvna.FF.npd_offsets_in_line` (C06), `Libvna.Npd.scan_progress` (C09): the loaders.
-/
import Libvna.Props.C06
import Libvna.Props.C09
import Libvna.Props.C12
import Libvna.Props.C16

namespace Libvna.CT

/-- a handle the parameter table accepts indexes inside the slot vector -/
theorem valid_in_bounds (t : PTab) (h : Int) (hv : t.valid h = true) : 0 ≤ h ∧ h.toNat < t.slots.length := by
  unfold PTab.valid at hv
  by_cases hn : h < 0
  · simp [hn] at hv
  · simp only [hn, ↓reduceIte] at hv
    refine ⟨by omega, ?_⟩
    cases hs : t.slots[h.toNat]? with
    | none => simp [hs] at hv
    | some o => exact (List.getElem?_eq_some_iff.mp hs).1

/-- lookups with any integer are answered, never indexed blindly: negative and too large handles / indices are refused,
    and a calibration delete never changes the size of the table -/
theorem lookups_total (t : PTab) (slots : List (Option String)) (h : Int) :
    ((h < 0 ∨ (t.slots.length : Int) ≤ h) → t.valid h = false) ∧
    ((h < 0 ∨ (slots.length : Int) ≤ h) → deleteCal slots h = (slots, false)) ∧
    (deleteCal slots h).1.length = slots.length := by
  refine ⟨?_, ?_, ?_⟩
  · intro hb
    unfold PTab.valid
    by_cases hn : h < 0
    · simp [hn]
    · have : t.slots.length ≤ h.toNat := by omega
      simp [hn, List.getElem?_eq_none this]
  · intro hb
    unfold deleteCal
    by_cases hn : h < 0
    · simp [hn]
    · have : slots.length ≤ h.toNat := by omega
      simp [hn, List.getElem?_eq_none this]
  · unfold deleteCal
    by_cases hn : h < 0
    · simp [hn]
    · simp only [hn, ↓reduceIte]
      cases hs : slots[h.toNat]? with
      | none => simp
      | some o => cases o <;> simp

end Libvna.CT
