/-
C06 — network data survive save and load in Touchstone 1, Touchstone 2 and NPD: the format-level logic.

The theorems are about Model/FileFmt.lean (tied to the compiled C by the correspondence runs of the C06/C08 checks):
  * every cell of the matrix receives the value the file holds for it — Full in either two-port order, Upper and
    Lower with symmetric completion, and the Touchstone 1 two-port order written by the saver is undone by the loader;
  * the engineering notation of `print_value` denotes the same number as the `%e` rendering it starts from, its exponent
    is a multiple of three, it never copies more mantissa digits than exist and the text fits the buffer;
  * the Touchstone 1 normalisation and the magnitude/angle and dB/angle coordinates are inverted by the loader's formulas;
  * an NPD block occupies as many fields as the loader reserves, and the loader indexes inside the line it has checked.
-/
import Libvna.Model.FileFmt
import Mathlib.Tactic.FieldSimp
import Mathlib.Tactic.Ring
import Mathlib.Tactic.Linarith
import Mathlib.Analysis.SpecialFunctions.Complex.Arg
import Mathlib.Analysis.SpecialFunctions.Log.Base

namespace Libvna.FF

variable {α : Type}

/-! ### cell order -/

theorem mem_order_full (n r c : Nat) : (r, c) ∈ order n .full ↔ r < n ∧ c < n := by
  simp [order, List.mem_flatMap, List.mem_map, List.mem_range]

theorem mem_order_upper (n r c : Nat) : (r, c) ∈ order n .upper ↔ r ≤ c ∧ c < n := by
  simp only [order, List.mem_flatMap, List.mem_map, List.mem_range, List.mem_filter, decide_eq_true_eq, Prod.mk.injEq]
  constructor
  · rintro ⟨a, _, b, ⟨hb, hab⟩, rfl, rfl⟩; exact ⟨hab, hb⟩
  · rintro ⟨h1, h2⟩; exact ⟨r, by omega, c, ⟨h2, h1⟩, rfl, rfl⟩

theorem mem_order_lower (n r c : Nat) : (r, c) ∈ order n .lower ↔ c ≤ r ∧ r < n := by
  simp only [order, List.mem_flatMap, List.mem_map, List.mem_range, Prod.mk.injEq]
  constructor
  · rintro ⟨a, ha, b, hb, rfl, rfl⟩; exact ⟨by omega, ha⟩
  · rintro ⟨h1, h2⟩; exact ⟨r, h2, c, by omega, rfl, rfl⟩

theorem order_full_length (n : Nat) : (order n .full).length = n * n := by
  simp [order, List.length_flatMap]

/-- number of value pairs of an Upper / Lower record: `ports * (ports + 1) / 2` (`expected_pairs`) -/
theorem order_lower_length (n : Nat) : 2 * (order n .lower).length = n * (n + 1) := by
  simp only [order, List.length_flatMap, List.length_map, List.length_range]
  induction n with
  | zero => simp
  | succ k ih =>
    rw [List.range_succ, List.map_append, List.sum_append]
    simp only [List.map_cons, List.map_nil, List.sum_cons, List.sum_nil]
    have : (k + 1) * (k + 1 + 1) = k * (k + 1) + 2 * (k + 1) := by ring
    omega

/-! ### storing -/

theorem put_apply (m : Nat → Nat → α) (rc : Nat × Nat) (x : α) (r c : Nat) :
    put m rc x r c = if (r, c) = rc then x else m r c := by
  unfold put
  by_cases h : r = rc.1 ∧ c = rc.2
  · have : (r, c) = rc := by cases rc; simp_all
    simp [h, this]
  · have : (r, c) ≠ rc := by
      intro e; apply h; cases rc; simp_all
    simp [h, this]

theorem foldl_put (ts : List (Nat × Nat)) (x : α) (m : Nat → Nat → α) (r c : Nat) :
    ts.foldl (fun m rc => put m rc x) m r c = if (r, c) ∈ ts then x else m r c := by
  induction ts generalizing m with
  | nil => simp
  | cons t ts ih =>
    simp only [List.foldl_cons, ih, List.mem_cons, put_apply]
    by_cases h1 : (r, c) ∈ ts <;> by_cases h2 : (r, c) = t <;> simp [h1, h2]

theorem store_apply (mf : MF) (t21 : Bool) (m : Nat → Nat → α) (e : (Nat × Nat) × α) (r c : Nat) :
    store mf t21 m e r c = if (r, c) ∈ targets mf t21 e.1 then e.2 else m r c := by
  unfold store; exact foldl_put _ _ _ _ _

/-- **every stored value lands where it belongs**: if every value pair carries the value `M` has at each cell
    the pair is written to, then after the record every cell that was written holds `M`'s value and every other
    cell is untouched -/
theorem load_consistent (mf : MF) (t21 : Bool) (M : Nat → Nat → α) (l : List ((Nat × Nat) × α)) (m0 : Nat → Nat → α)
    (h : ∀ e ∈ l, ∀ t ∈ targets mf t21 e.1, e.2 = M t.1 t.2) (r c : Nat) :
    load mf t21 l m0 r c = if ∃ e ∈ l, (r, c) ∈ targets mf t21 e.1 then M r c else m0 r c := by
  unfold load
  induction l generalizing m0 with
  | nil => simp
  | cons e l ih =>
    rw [List.foldl_cons, ih _ (fun e' he' => h e' (List.mem_cons_of_mem _ he'))]
    by_cases h1 : ∃ e' ∈ l, (r, c) ∈ targets mf t21 e'.1
    · have : ∃ e' ∈ e :: l, (r, c) ∈ targets mf t21 e'.1 := by
        obtain ⟨e', he', ht⟩ := h1; exact ⟨e', List.mem_cons_of_mem _ he', ht⟩
      simp [h1, this]
    · rw [if_neg h1, store_apply]
      by_cases h2 : (r, c) ∈ targets mf t21 e.1
      · have : ∃ e' ∈ e :: l, (r, c) ∈ targets mf t21 e'.1 := ⟨e, List.mem_cons_self, h2⟩
        rw [if_pos h2, if_pos this]
        exact h e List.mem_cons_self (r, c) h2
      · have : ¬ ∃ e' ∈ e :: l, (r, c) ∈ targets mf t21 e'.1 := by
          rintro ⟨e', he', ht⟩
          rcases List.mem_cons.mp he' with rfl | hl
          · exact h2 ht
          · exact h1 ⟨e', hl, ht⟩
        rw [if_neg h2, if_neg this]

/-- a Full record in 12_21 order reproduces the matrix it was written from -/
theorem tsCells_full_perm (n : Nat) (M m0 : Nat → Nat → α) (r c : Nat) (hr : r < n) (hc : c < n) :
    load .full false ((order n .full).map fun p => (p, M p.1 p.2)) m0 r c = M r c := by
  rw [load_consistent .full false M]
  · rw [if_pos]
    exact ⟨((r, c), M r c), List.mem_map.mpr ⟨(r, c), (mem_order_full n r c).mpr ⟨hr, hc⟩, rfl⟩, by simp [targets]⟩
  · intro e he t ht
    obtain ⟨p, _, rfl⟩ := List.mem_map.mp he
    simp [targets] at ht; subst ht; rfl

/-- a Full record in 21_12 order (the file holds the transposed sequence) reproduces the matrix -/
theorem two_port_order_involutive (n : Nat) (M m0 : Nat → Nat → α) (r c : Nat) (hr : r < n) (hc : c < n) :
    load .full true ((order n .full).map fun p => (p, M p.2 p.1)) m0 r c = M r c := by
  rw [load_consistent .full true M]
  · rw [if_pos]
    exact ⟨((c, r), M r c), List.mem_map.mpr ⟨(c, r), (mem_order_full n c r).mpr ⟨hc, hr⟩, rfl⟩, by simp [targets]⟩
  · intro e he t ht
    obtain ⟨p, _, rfl⟩ := List.mem_map.mp he
    simp [targets] at ht; subst ht; rfl

/-- an Upper record of a symmetric matrix reproduces the whole matrix -/
theorem tsCells_upper_spec (n : Nat) (M m0 : Nat → Nat → α) (hM : ∀ a b, M a b = M b a) (r c : Nat) (hr : r < n) (hc : c < n) :
    load .upper false ((order n .upper).map fun p => (p, M p.1 p.2)) m0 r c = M r c := by
  rw [load_consistent .upper false M]
  · rw [if_pos]
    by_cases h : r ≤ c
    · exact ⟨((r, c), M r c), List.mem_map.mpr ⟨(r, c), (mem_order_upper n r c).mpr ⟨h, hc⟩, rfl⟩, by simp [targets]⟩
    · exact ⟨((c, r), M c r), List.mem_map.mpr ⟨(c, r), (mem_order_upper n c r).mpr ⟨by omega, hr⟩, rfl⟩, by simp [targets]⟩
  · intro e he t ht
    obtain ⟨p, _, rfl⟩ := List.mem_map.mp he
    simp [targets] at ht
    rcases ht with rfl | rfl
    · rfl
    · exact hM _ _

/-- a Lower record of a symmetric matrix reproduces the whole matrix -/
theorem tsCells_lower_spec (n : Nat) (M m0 : Nat → Nat → α) (hM : ∀ a b, M a b = M b a) (r c : Nat) (hr : r < n) (hc : c < n) :
    load .lower false ((order n .lower).map fun p => (p, M p.1 p.2)) m0 r c = M r c := by
  rw [load_consistent .lower false M]
  · rw [if_pos]
    by_cases h : c ≤ r
    · exact ⟨((r, c), M r c), List.mem_map.mpr ⟨(r, c), (mem_order_lower n r c).mpr ⟨h, hr⟩, rfl⟩, by simp [targets]⟩
    · exact ⟨((c, r), M c r), List.mem_map.mpr ⟨(c, r), (mem_order_lower n c r).mpr ⟨by omega, hc⟩, rfl⟩, by simp [targets]⟩
  · intro e he t ht
    obtain ⟨p, _, rfl⟩ := List.mem_map.mp he
    simp [targets] at ht
    rcases ht with rfl | rfl
    · rfl
    · exact hM _ _

/-- cells outside the matrix are never written (the loader stays inside the object it has just sized) -/
theorem symmetric_fill (n : Nat) (mf : MF) (t21 : Bool) (v : Nat × Nat → α) (m0 : Nat → Nat → α) (r c : Nat) (h : n ≤ r ∨ n ≤ c) :
    load mf t21 ((order n mf).map fun p => (p, v p)) m0 r c = m0 r c := by
  unfold load
  suffices H : ∀ (l : List (Nat × Nat)), (∀ p ∈ l, p.1 < n ∧ p.2 < n) → ∀ m0 : Nat → Nat → α,
      (l.map fun p => (p, v p)).foldl (store mf t21) m0 r c = m0 r c by
    apply H
    intro p hp
    cases mf
    · exact (mem_order_full n p.1 p.2).mp hp
    · have := (mem_order_upper n p.1 p.2).mp hp; omega
    · have := (mem_order_lower n p.1 p.2).mp hp; omega
  intro l hl
  induction l with
  | nil => intro m0; rfl
  | cons p l ih =>
    intro m0
    rw [List.map_cons, List.foldl_cons, ih (fun q hq => hl q (List.mem_cons_of_mem _ hq)), store_apply]
    have hp := hl p List.mem_cons_self
    have : (r, c) ∉ targets mf t21 (p, v p).1 := by
      obtain ⟨p1, p2⟩ := p
      simp only at hp
      cases mf <;> cases t21 <;> simp [targets] <;> omega
    rw [if_neg this]

/-- the Touchstone 1 two-port order written by the saver (11 21 12 22) is undone by the loader, which reads
    version 1 two-port data as 21_12 -/
theorem ts1_two_port_roundtrip (M m0 : Nat → Nat → α) (r c : Nat) (hr : r < 2) (hc : c < 2) :
    load .full true ((order 2 .full).zip ((saveOrder 2 true).map fun p => M p.1 p.2)) m0 r c = M r c := by
  have h2 : order 2 .full = [(0, 0), (0, 1), (1, 0), (1, 1)] := by decide
  simp only [h2, saveOrder, and_self, ↓reduceIte, List.map_cons, List.map_nil, List.zip_cons_cons, List.zip_nil_right,
    load, List.foldl_cons, List.foldl_nil, store_apply, targets]
  have : (r = 0 ∨ r = 1) ∧ (c = 0 ∨ c = 1) := by omega
  rcases this with ⟨rfl | rfl, rfl | rfl⟩ <;> simp

/-! ### print_value -/

/-- the mantissa digits `d₁…dₚ` with the point after `before` digits and exponent `engExp` denote the
    number `d₁.d₂…dₚ × 10^e` of the `%e` rendering (as an identity of decimal exponents) -/
theorem eng_value_preserved (p : Nat) (e : Int) : engExp p e - ((p : Int) - engBefore p e) = e - ((p : Int) - 1) := by
  unfold engExp; omega

/-- from two digits on, the printed exponent is a multiple of three -/
theorem eng_exponent_mod3 (p : Nat) (e : Int) (hp : 2 ≤ p) : engExp p e % 3 = 0 := by
  unfold engExp engBefore
  have h1 : p ≠ 1 := by omega
  by_cases h2 : p = 2
  · simp only [h1, h2, ↓reduceIte]
    split <;> omega
  · simp only [h1, h2, ↓reduceIte]
    split <;> omega

/-- `print_value` copies `before` digits out of a mantissa of `p` digits: never more than exist, never a
    negative count -/
theorem eng_before_range (p : Nat) (e : Int) (hp : 1 ≤ p) :
    0 ≤ engBefore p e ∧ engBefore p e ≤ p ∧ engBefore p e ≤ 3 ∧ (3 ≤ p → 1 ≤ engBefore p e) := by
  unfold engBefore
  by_cases h1 : p = 1
  · subst h1; simp
  by_cases h2 : p = 2
  · subst h2
    simp only [OfNat.ofNat_ne_one, ↓reduceIte]
    split <;> omega
  · simp only [h1, h2, ↓reduceIte]
    split <;> omega

/-- the text fits `buf2[MAX(precision, 1) + 8]` including its terminating NUL -/
theorem eng_fits_buffer (p : Nat) (e : Int) (signed pad : Bool) (hp : 1 ≤ p) : engLen p e signed pad + 1 ≤ (p : Int) + 8 := by
  have hb := eng_before_range p e hp
  unfold engLen
  simp only
  split <;> split <;> split <;> (try split) <;> (try split) <;> omega

/-! ### Touchstone 1 normalisation, polar coordinates -/

section field
variable {K : Type} [Field K]

/-- Z, Y (and the mixed H, G entries) are written divided / multiplied by the reference resistance and read back
    with the inverse operation (`vnadata_load_touchstone.c`, `if (version == 1)`): nothing is lost for `R ≠ 0` -/
theorem ts1_normalise_roundtrip (x R : K) (hR : R ≠ 0) : (x / R) * R = x ∧ (x * R) / R = x := by
  constructor <;> field_simp

end field

open Complex in
/-- magnitude / angle in degrees, as written (`cabs`, `180/π·carg`) and as read (`v1 * cexp(I·π/180·v2)`) -/
theorem ma_roundtrip (z : ℂ) :
    ((‖z‖ : ℝ) : ℂ) * Complex.exp (Complex.I * ((Real.pi / 180 * (180 / Real.pi * Complex.arg z) : ℝ) : ℂ)) = z := by
  have hpi : Real.pi ≠ 0 := Real.pi_ne_zero
  have : Real.pi / 180 * (180 / Real.pi * Complex.arg z) = Complex.arg z := by field_simp
  rw [this, mul_comm Complex.I]
  exact Complex.norm_mul_exp_arg_mul_I z

/-- decibels as written (`20 log10 |z|`) and as read (`pow(10, v1/20)`) -/
theorem db_roundtrip (r : ℝ) (hr : 0 < r) : (10 : ℝ) ^ ((20 * Real.logb 10 r) / 20) = r := by
  have : (20 * Real.logb 10 r) / 20 = Real.logb 10 r := by ring
  rw [this]
  exact Real.rpow_logb (by norm_num) (by norm_num) hr

/-! ### NPD lines -/

/-- every block occupies exactly the fields the loader reserves for it -/
theorem npd_fields_writer_eq_loader (k : Kind) (isZin : Bool) (ports : Nat)
    (hz : isZin = true → k ≠ .il ∧ k ≠ .rl ∧ k ≠ .vswr ∧ k ≠ .db)
    (hm : isZin = false → k ≠ .prc ∧ k ≠ .prl ∧ k ≠ .src ∧ k ≠ .srl) :
    fieldsW k isZin ports = fieldsL k isZin ports := by
  cases isZin <;> cases k <;> simp_all [fieldsW, fieldsL]

theorem offset_mono (fz0 : Bool) (ports : Nat) (blocks : List (Kind × Bool)) (i : Nat) (hi : i < blocks.length) :
    offset fz0 ports blocks i + fieldsL blocks[i].1 blocks[i].2 ports ≤ lineFields fz0 ports blocks := by
  unfold lineFields offset
  have h1 : blocks.take blocks.length = blocks := List.take_length
  rw [h1]
  have : blocks = blocks.take i ++ blocks[i] :: blocks.drop (i + 1) := by
    rw [List.getElem_cons_drop, List.take_append_drop]
  conv => rhs; rw [this]
  simp only [List.map_append, List.map_cons, List.sum_append, List.sum_cons]
  omega

/-- **the loader indexes inside the line**: for a block it can load (quality > 0) the last field it converts,
    `best_field + 2 * cell + 1`, lies below the field count it has compared the line against -/
theorem npd_offsets_in_line (fz0 : Bool) (ports : Nat) (blocks : List (Kind × Bool)) (i : Nat) (hi : i < blocks.length)
    (hq : 0 < quality blocks[i].1 blocks[i].2) (cell : Nat) (hc : cell < cellsRead blocks[i].2 ports) :
    offset fz0 ports blocks i + 2 * cell + 1 < lineFields fz0 ports blocks := by
  have h := offset_mono fz0 ports blocks i hi
  have hf : 2 * cellsRead blocks[i].2 ports ≤ fieldsL blocks[i].1 blocks[i].2 ports := by
    generalize blocks[i] = b at hq ⊢
    obtain ⟨k, z⟩ := b
    cases z <;> cases k <;> simp_all [quality, fieldsL, cellsRead] <;> ring_nf <;> omega
  omega

end Libvna.FF
