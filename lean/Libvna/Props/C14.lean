/-
C14 — property trees survive YAML export and import unchanged.

The libvna side of the round trip (key quoting and re-parsing, null vs "~" discrimination by scalar
style, order-preserving recursion) is proved for every tree; libyaml's emit→parse trip is the
hypothesis `contract`: node kinds, order and scalar bytes are preserved, and a scalar whose text is one
of the YAML null spellings keeps its plain / non-plain style.
-/
import Libvna.Model.Yaml
import Libvna.Props.C13

namespace Libvna.PT

mutual
/-- what libyaml's emitter followed by its parser is assumed to do to a document -/
def contract : Y → Y → Prop
  | .scalar s st, .scalar s' st' => s' = s ∧ (isNullText s = true → st' = st)
  | .map ps, .map ps' => contractPairs ps ps'
  | .seq xs, .seq xs' => contractItems xs xs'
  | _, _ => False
def contractPairs : List (Y × Y) → List (Y × Y) → Prop
  | [], [] => True
  | (k, v) :: r, (k', v') :: r' => contract k k' ∧ contract v v' ∧ contractPairs r r'
  | _, _ => False
def contractItems : List Y → List Y → Prop
  | [], [] => True
  | x :: r, x' :: r' => contract x x' ∧ contractItems r r'
  | _, _ => False
end

mutual
/-- trees the API can build: keys are non-empty, NUL-free and distinct within a map -/
def WF : Node → Prop
  | .null => True
  | .scalar _ => True
  | .map kvs => WFPairs kvs ∧ (akeys kvs).Nodup
  | .list xs => WFItems xs
def WFPairs : List (Bytes × Node) → Prop
  | [] => True
  | (k, v) :: r => k ≠ [] ∧ (∀ c ∈ k, c ≠ 0) ∧ WF v ∧ WFPairs r
def WFItems : List Node → Prop
  | [] => True
  | x :: r => WF x ∧ WFItems r
end

theorem alookup_none_of_not_mem (k : Bytes) (kvs : List (Bytes × Node)) (h : k ∉ akeys kvs) :
    alookup k kvs = none := by
  induction kvs with
  | nil => rfl
  | cons p r ih =>
    obtain ⟨k', v'⟩ := p
    simp only [akeys, List.map_cons, List.mem_cons, not_or] at h
    have : ¬ k' = k := fun e => h.1 e.symm
    simp [alookup, this, ih h.2]

theorem aset_append_of_not_mem (k : Bytes) (v : Node) (kvs : List (Bytes × Node)) (h : k ∉ akeys kvs) :
    aset k v kvs = kvs ++ [(k, v)] := by
  induction kvs with
  | nil => rfl
  | cons p r ih =>
    obtain ⟨k', v'⟩ := p
    simp only [akeys, List.map_cons, List.mem_cons, not_or] at h
    have : ¬ k' = k := fun e => h.1 e.symm
    simp [aset, this, ih h.2]

theorem aset_last (k : Bytes) (v w : Node) (kvs : List (Bytes × Node)) (h : k ∉ akeys kvs) :
    aset k w (kvs ++ [(k, v)]) = kvs ++ [(k, w)] := by
  induction kvs with
  | nil => simp [aset]
  | cons p r ih =>
    obtain ⟨k', v'⟩ := p
    simp only [akeys, List.map_cons, List.mem_cons, not_or] at h
    have : ¬ k' = k := fun e => h.1 e.symm
    simp [aset, this, ih h.2]

mutual
/-- export, libyaml, import into an empty root: the same tree -/
theorem import_export (t : Node) (h : WF t) (y' : Y) (hc : contract (exportY t) y') :
    importY .null y' = some t := by
  cases t with
  | null =>
    cases y' with
    | scalar s st =>
      simp only [exportY, contract] at hc
      obtain ⟨rfl, hst⟩ := hc
      have : st = .plain := hst (by decide)
      subst this
      simp [importY]; decide
    | map ps => simp [exportY, contract] at hc
    | seq xs => simp [exportY, contract] at hc
  | scalar s =>
    cases y' with
    | scalar s' st' =>
      simp only [exportY, contract] at hc
      obtain ⟨rfl, hst⟩ := hc
      simp only [importY]
      by_cases hn : isNullText s' = true
      · have := hst hn
        simp only [hn, Bool.or_true, ↓reduceIte] at this
        subst this
        simp
      · simp [hn]
    | map ps => simp [exportY, contract] at hc
    | seq xs => simp [exportY, contract] at hc
  | map kvs =>
    cases y' with
    | scalar s st => simp [exportY, contract] at hc
    | seq xs => simp [exportY, contract] at hc
    | map ps' =>
      simp only [exportY, contract] at hc
      simp only [WF] at h
      simp only [importY, asMap]
      have := import_export_pairs [] kvs h.1 h.2 (by intro k _ hm; simp [akeys] at hm) ps' hc
      simpa using this
  | list xs =>
    cases y' with
    | scalar s st => simp [exportY, contract] at hc
    | map ps => simp [exportY, contract] at hc
    | seq xs' =>
      simp only [exportY, contract] at hc
      simp only [WF] at h
      simp only [importY, asList]
      have := import_export_items [] xs h xs' hc
      simpa using this

theorem import_export_pairs (acc kvs : List (Bytes × Node)) (h : WFPairs kvs) (hnd : (akeys kvs).Nodup)
    (hfresh : ∀ k ∈ akeys kvs, k ∉ akeys acc) (ps' : List (Y × Y)) (hc : contractPairs (exportPairs kvs) ps') :
    importPairs (.map acc) ps' = some (.map (acc ++ kvs)) := by
  cases kvs with
  | nil =>
    cases ps' with
    | nil => simp [importPairs]
    | cons p r => simp [exportPairs, contractPairs] at hc
  | cons kv r =>
    obtain ⟨k, v⟩ := kv
    cases ps' with
    | nil => simp [exportPairs, contractPairs] at hc
    | cons p' r' =>
      obtain ⟨yk, yv⟩ := p'
      simp only [exportPairs, contractPairs] at hc
      obtain ⟨hk, hv, hr⟩ := hc
      simp only [WFPairs] at h
      obtain ⟨hne, hz, hwv, hwr⟩ := h
      cases yk with
      | map _ => simp [contract] at hk
      | seq _ => simp [contract] at hk
      | scalar qk st =>
        simp only [contract] at hk
        obtain ⟨rfl, _⟩ := hk
        simp only [akeys, List.map_cons, List.nodup_cons] at hnd
        have hkf : k ∉ akeys acc := hfresh k (by simp [akeys])
        simp only [importPairs, parse_quoteKey k hne hz]
        have hl : alookup k acc = none := alookup_none_of_not_mem k acc hkf
        have e1 : update id (.map acc) [.key k] = .map (acc ++ [(k, .null)]) := by
          simp [update, asMap, hl, aset_append_of_not_mem k .null acc hkf]
        have e2 : exceptGetD (getPath (update id (.map acc) [.key k]) [.key k]) .null = .null := by
          rw [e1]
          have : alookup k (acc ++ [(k, Node.null)]) = some .null := by
            rw [← aset_append_of_not_mem k .null acc hkf]; exact alookup_aset_same k .null acc
          simp [getPath, this, exceptGetD]
        rw [e2, import_export v hwv yv hv]
        simp only
        have e3 : update (fun _ => v) (.map acc) [.key k] = .map (acc ++ [(k, v)]) := by
          simp [update, asMap, hl, aset_append_of_not_mem k v acc hkf]
        rw [e3]
        have := import_export_pairs (acc ++ [(k, v)]) r hwr hnd.2 (by
          intro k' hk' hmem
          simp only [akeys, List.map_append, List.map_cons, List.map_nil, List.mem_append, List.mem_singleton] at hmem
          rcases hmem with hm | hm
          · exact hfresh k' (by simp [akeys] at hk' ⊢; exact Or.inr hk') hm
          · subst hm; exact hnd.1 hk') r' hr
        simpa using this

theorem import_export_items (acc xs : List Node) (h : WFItems xs) (xs' : List Y)
    (hc : contractItems (exportItems xs) xs') :
    importItems (.list acc) acc.length xs' = some (.list (acc ++ xs)) := by
  cases xs with
  | nil =>
    cases xs' with
    | nil => simp [importItems]
    | cons p r => simp [exportItems, contractItems] at hc
  | cons x r =>
    cases xs' with
    | nil => simp [exportItems, contractItems] at hc
    | cons y' r' =>
      simp only [exportItems, contractItems] at hc
      simp only [WFItems] at h
      have hlen : acc.length < (padTo acc (acc.length + 1)).length := by rw [padTo_length]; omega
      have hpad : padTo acc (acc.length + 1) = acc ++ [.null] := by simp [padTo]
      have e2 : exceptGetD (getPath (update id (.list acc) [.idx acc.length]) [.idx acc.length]) .null = .null := by
        simp [update, asList, getPath, hpad, exceptGetD]
      simp only [importItems]
      rw [e2, import_export x h.1 y' hc.1]
      simp only
      have e3 : update (fun _ => x) (.list acc) [.idx acc.length] = .list (acc ++ [x]) := by
        simp [update, asList, hpad]
      rw [e3]
      have := import_export_items (acc ++ [x]) r h.2 r' hc.2
      simpa using this
end

end Libvna.PT
