/-
C10 — frequency interpolation is exact at the given points and does not depend on query order.

Theorems over an arbitrary linearly ordered field about the models of Model/Interp.lean.
-/
import Libvna.Model.Interp
import Mathlib.Algebra.Order.Field.Basic
import Mathlib.Algebra.Order.Ring.Abs
import Mathlib.Tactic.Linarith
import Mathlib.Tactic.FieldSimp
import Mathlib.Tactic.Ring

namespace Libvna.Interp
variable {K : Type} [Field K] [LinearOrder K] [IsStrictOrderedRing K]

/-- `x < y` as the C evaluates it -/
def ltB (a b : K) : Bool := decide (a < b)
/-- `fabs(a - b) <= EPS` -/
def nearB (eps : K) (a b : K) : Bool := decide (|a - b| ≤ eps)

/-- the knots are strictly ascending on [0, n) -/
def Ascending (xs : Nat → K) (n : Nat) : Prop := ∀ i j, i < j → j < n → xs i < xs j

theorem Ascending.le {xs : Nat → K} {n : Nat} (h : Ascending xs n) {i j : Nat} (hij : i ≤ j) (hj : j < n) :
    xs i ≤ xs j := by
  rcases Nat.lt_or_eq_of_le hij with h1 | h1
  · exact le_of_lt (h i j h1 hj)
  · subst h1; exact le_refl _

theorem Ascending.inj {xs : Nat → K} {n : Nat} (h : Ascending xs n) {i j : Nat} (hi : i < n) (hj : j < n)
    (he : xs i = xs j) : i = j := by
  rcases Nat.lt_trichotomy i j with h1 | h1 | h1
  · exact absurd he (ne_of_lt (h i j h1 hj))
  · exact h1
  · exact absurd he.symm (ne_of_lt (h j i h1 hi))

theorem Ascending.le_of_le {xs : Nat → K} {n : Nat} (h : Ascending xs n) {i j : Nat} (hi : i < n) (hj : j < n)
    (he : xs i ≤ xs j) : i ≤ j := by
  by_contra hc
  have : j < i := Nat.lt_of_not_le hc
  exact absurd (h j i this hi) (not_lt.mpr he)

/-! ### the segment search -/

theorem descend_spec (xs : Nat → K) (x : K) (seg : Nat) :
    descend ltB xs x seg ≤ seg ∧
    (descend ltB xs x seg = 0 ∨ ¬ x < xs (descend ltB xs x seg)) ∧
    (∀ j, descend ltB xs x seg < j → j ≤ seg → x < xs j) := by
  induction seg with
  | zero =>
    simp only [descend]
    exact ⟨le_refl _, Or.inl trivial, fun j h1 h2 => by omega⟩
  | succ s ih =>
    unfold descend
    by_cases hx : x < xs (s + 1)
    · have hx' : ltB x (xs (s + 1)) = true := by simp [ltB, hx]
      rw [hx']
      simp only [↓reduceIte]
      refine ⟨by omega, ih.2.1, ?_⟩
      intro j hj hjs
      rcases Nat.lt_or_eq_of_le hjs with h1 | h1
      · exact ih.2.2 j hj (by omega)
      · subst h1; exact hx
    · have hx' : ltB x (xs (s + 1)) = false := by simp [ltB, hx]
      rw [hx']
      simp only [Bool.false_eq_true, ↓reduceIte]
      refine ⟨le_refl _, Or.inr hx, ?_⟩
      intro j hj hjs; omega

theorem ascend_spec (xs : Nat → K) (x : K) (n : Nat) (fuel seg : Nat) (hfuel : n ≤ fuel + seg + 2) :
    seg ≤ ascend ltB xs x n fuel seg ∧
    (seg + 2 ≤ n → ascend ltB xs x n fuel seg + 2 ≤ n) ∧
    (n ≤ ascend ltB xs x n fuel seg + 2 ∨ ¬ xs (ascend ltB xs x n fuel seg + 1) < x) ∧
    (∀ j, seg < j → j ≤ ascend ltB xs x n fuel seg → xs j < x) := by
  induction fuel generalizing seg with
  | zero =>
    simp only [ascend]
    exact ⟨le_refl _, fun h => h, Or.inl (by omega), fun j h1 h2 => by omega⟩
  | succ f ih =>
    unfold ascend
    by_cases hc : seg + 2 < n ∧ xs (seg + 1) < x
    · have hc' : (seg + 2 < n ∧ ltB (xs (seg + 1)) x = true) := ⟨hc.1, by simp [ltB, hc.2]⟩
      simp only [hc', and_self, ↓reduceIte]
      have := ih (seg + 1) (by omega)
      refine ⟨by omega, fun _ => this.2.1 (by omega), this.2.2.1, ?_⟩
      intro j hj1 hj2
      rcases Nat.lt_or_eq_of_le (Nat.succ_le_of_lt hj1) with h1 | h1
      · exact this.2.2.2 j h1 hj2
      · rw [← h1]; exact hc.2
    · have hc' : ¬ (seg + 2 < n ∧ ltB (xs (seg + 1)) x = true) := by
        intro hx; exact hc ⟨hx.1, by simpa [ltB] using hx.2⟩
      simp only [hc', ↓reduceIte]
      refine ⟨le_refl _, fun h => h, ?_, fun j h1 h2 => by omega⟩
      by_cases h2 : seg + 2 < n
      · right; intro hx; exact hc ⟨h2, hx⟩
      · left; omega

theorem clampHint_le (n : Nat) (hint : Int) (hn : 2 ≤ n) : clampHint n hint + 2 ≤ n := by
  unfold clampHint
  split
  · omega
  · split <;> omega

/-- what the search guarantees about the segment it returns, for any hint and any x -/
theorem findSegment_spec (xs : Nat → K) (n : Nat) (hn : 2 ≤ n) (hasc : Ascending xs n) (hint : Int) (x : K) :
    let r := findSegment ltB xs n hint x
    r + 2 ≤ n ∧ (r = 0 ∨ xs r ≤ x) ∧ (r + 2 = n ∨ x ≤ xs (r + 1)) := by
  have hcl := clampHint_le n hint hn
  simp only [findSegment]
  by_cases hx : x < xs (clampHint n hint)
  · simp only [ltB, hx, decide_true, ↓reduceIte]
    have hd := descend_spec xs x (clampHint n hint)
    refine ⟨by omega, ?_, ?_⟩
    · rcases hd.2.1 with h0 | h0
      · exact Or.inl h0
      · exact Or.inr (not_lt.mp h0)
    · right
      rcases Nat.lt_or_eq_of_le hd.1 with h1 | h1
      · exact le_of_lt (hd.2.2 _ (by omega) (by omega))
      · -- no step was taken although x < xs seg: only possible at segment 0
        rcases hd.2.1 with h0 | h0
        · rw [h0] at h1 ⊢
          rw [← h1] at hx
          exact le_of_lt (lt_trans hx (hasc 0 1 (by omega) (by omega)))
        · rw [h1] at h0; exact absurd hx h0
  · simp only [ltB, hx, decide_false, Bool.false_eq_true, ↓reduceIte]
    have ha := ascend_spec xs x n n (clampHint n hint) (by omega)
    refine ⟨ha.2.1 hcl, ?_, ?_⟩
    · rcases Nat.lt_or_eq_of_le ha.1 with h1 | h1
      · exact Or.inr (le_of_lt (ha.2.2.2 _ h1 (le_refl _)))
      · rw [← h1]; exact Or.inr (not_lt.mp hx)
    · rcases ha.2.2.1 with h1 | h1
      · left; have := ha.2.1 hcl; omega
      · right; exact not_lt.mp h1

/-! ### rational-function interpolation: exact at the knots, independent of the hint -/

/-- knots are further apart than EPS -/
def Spaced (eps : K) (xs : Nat → K) (n : Nat) : Prop := ∀ i j, i < n → j < n → i ≠ j → eps < |xs i - xs j|

theorem rfi_value_at_knot (eps : K) (heps : 0 ≤ eps) (body : Nat → K → K) (xs ys : Nat → K) (n : Nat)
    (hasc : Ascending xs n) (hsp : Spaced eps xs n) (r k : Nat) (hk : k < n) (hr : r + 2 ≤ n)
    (hlo : r ≤ k) (hhi : k ≤ r + 1) :
    (if nearB eps (xs k) (xs r) then ys r else if nearB eps (xs k) (xs (r + 1)) then ys (r + 1) else body r (xs k)) = ys k := by
  rcases Nat.lt_or_eq_of_le hlo with h1 | h1
  · have hk' : k = r + 1 := by omega
    subst hk'
    have hn1 : nearB eps (xs (r + 1)) (xs r) = false := by
      simp only [nearB, decide_eq_false_iff_not, not_le]
      exact hsp (r + 1) r (by omega) (by omega) (by omega)
    have hn2 : nearB eps (xs (r + 1)) (xs (r + 1)) = true := by simp [nearB, heps]
    simp [hn1, hn2]
  · subst h1
    have hn2 : nearB eps (xs r) (xs r) = true := by simp [nearB, heps]
    simp [hn2]

/-- Every supplied point evaluates to the supplied value: for any number of knots n ≥ 1, any window,
    any hint left behind by earlier queries and any Bulirsch–Stoer body. -/
theorem rfi_exact_at_knots (eps : K) (heps : 0 ≤ eps) (body : Nat → K → K) (xs ys : Nat → K) (n : Nat)
    (hn : 1 ≤ n) (hasc : Ascending xs n) (hsp : Spaced eps xs n) (hint : Int) (k : Nat) (hk : k < n) :
    rfi ltB (nearB eps) body xs ys n hint (xs k) = ys k := by
  unfold rfi
  by_cases h2 : n < 2
  · have : k = 0 := by omega
    subst this; simp [h2]
  · simp only [h2, ↓reduceIte]
    have hs := findSegment_spec xs n (by omega) hasc hint (xs k)
    simp only at hs
    apply rfi_value_at_knot eps heps body xs ys n hasc hsp _ k hk hs.1
    · rcases hs.2.1 with h0 | h0
      · omega
      · exact hasc.le_of_le (by omega) hk h0
    · rcases hs.2.2 with h0 | h0
      · omega
      · exact hasc.le_of_le hk (by omega) h0

/-- The value returned for a query does not depend on the segment hint, hence not on which
    frequencies were queried before — for every x, inside or outside the knot range. -/
theorem rfi_hint_independent (eps : K) (heps : 0 ≤ eps) (body : Nat → K → K) (xs ys : Nat → K) (n : Nat)
    (hn : 1 ≤ n) (hasc : Ascending xs n) (hsp : Spaced eps xs n) (h1 h2 : Int) (x : K) :
    rfi ltB (nearB eps) body xs ys n h1 x = rfi ltB (nearB eps) body xs ys n h2 x := by
  unfold rfi
  by_cases hn2 : n < 2
  · simp [hn2]
  · simp only [hn2, ↓reduceIte]
    have s1 := findSegment_spec xs n (by omega) hasc h1 x
    have s2 := findSegment_spec xs n (by omega) hasc h2 x
    simp only at s1 s2
    generalize findSegment ltB xs n h1 x = r1 at s1 ⊢
    generalize findSegment ltB xs n h2 x = r2 at s2 ⊢
    -- two segments that both bound x are equal, or adjacent with x the knot between them
    have key : ∀ a b : Nat, a < b → a + 2 ≤ n → b + 2 ≤ n → (a + 2 = n ∨ x ≤ xs (a + 1)) → (b = 0 ∨ xs b ≤ x) →
        b = a + 1 ∧ x = xs b := by
      intro a b hab ha hb hua hlb
      have h1 : x ≤ xs (a + 1) := by rcases hua with h | h; omega; exact h
      have h2 : xs b ≤ x := by rcases hlb with h | h; omega; exact h
      have h3 : xs (a + 1) ≤ xs b := hasc.le (by omega) (by omega)
      have hxb : x = xs b := le_antisymm (le_trans h1 h3) h2
      have : xs (a + 1) = xs b := le_antisymm h3 (by rw [← hxb]; exact h1)
      exact ⟨(hasc.inj (by omega) (by omega) this).symm, hxb⟩
    rcases Nat.lt_trichotomy r1 r2 with hlt | heq | hgt
    · obtain ⟨hb, hx⟩ := key r1 r2 hlt s1.1 s2.1 s1.2.2 s2.2.1
      subst hb; subst hx
      rw [rfi_value_at_knot eps heps body xs ys n hasc hsp r1 (r1 + 1) (by omega) s1.1 (by omega) (by omega)]
      rw [rfi_value_at_knot eps heps body xs ys n hasc hsp (r1 + 1) (r1 + 1) (by omega) s2.1 (by omega) (by omega)]
    · subst heq; rfl
    · obtain ⟨hb, hx⟩ := key r2 r1 hgt s2.1 s1.1 s2.2.2 s1.2.1
      subst hb; subst hx
      rw [rfi_value_at_knot eps heps body xs ys n hasc hsp r2 (r2 + 1) (by omega) s2.1 (by omega) (by omega)]
      rw [rfi_value_at_knot eps heps body xs ys n hasc hsp (r2 + 1) (r2 + 1) (by omega) s1.1 (by omega) (by omega)]

/-! ### cubic spline: exact at the knots, exact on linear data, any number n ≥ 1 of segments -/

theorem seg_at_left (xs ys sp : Nat → K) (i : Nat) : segValue xs ys sp i (xs i) = ys i := by
  simp [segValue]

/-- the cubic of a segment reaches the next knot value whatever the second derivatives are -/
theorem seg_at_right (xs ys sp : Nat → K) (i : Nat) (h : xs (i + 1) - xs i ≠ 0) :
    segValue xs ys sp i (xs (i + 1)) = ys (i + 1) := by
  simp only [segValue, coefB, coefC, coefD]
  field_simp
  ring

theorem bsearch_spec (xs : Nat → K) (x : K) (n : Nat) (fuel low high : Nat)
    (hf : high + 1 ≤ fuel + low) (hlh : low ≤ high) (hlo : xs low ≤ x) (hhi : x < xs (high + 1)) :
    let i := bsearch ltB xs x fuel low high
    low ≤ i ∧ i ≤ high ∧ xs i ≤ x ∧ x < xs (i + 1) := by
  induction fuel generalizing low high with
  | zero =>
    have : low = high := by omega
    subst this
    simp only [bsearch]
    have : (low + low) / 2 = low := by omega
    rw [this]; exact ⟨le_refl _, le_refl _, hlo, hhi⟩
  | succ f ih =>
    unfold bsearch
    simp only
    have hi1 : low ≤ (low + high) / 2 := by omega
    have hi2 : (low + high) / 2 ≤ high := by omega
    by_cases h1 : low ≥ high
    · have : low = high := by omega
      subst this
      have : (low + low) / 2 = low := by omega
      simp only [h1, ↓reduceIte, this]
      exact ⟨by simp, by simp, hlo, hhi⟩
    · simp only [h1, ↓reduceIte]
      by_cases h2 : x < xs ((low + high) / 2)
      · have h2' : ltB x (xs ((low + high) / 2)) = true := by simp [ltB, h2]
        simp only [h2', ↓reduceIte]
        have hgt : low < (low + high) / 2 := by
          rcases Nat.lt_or_eq_of_le hi1 with h | h
          · exact h
          · rw [← h] at h2; exact absurd hlo (not_le.mpr h2)
        have hsucc : (low + high) / 2 - 1 + 1 = (low + high) / 2 := by omega
        have := ih low ((low + high) / 2 - 1) (by omega) (by omega) hlo (by rw [hsucc]; exact h2)
        simp only at this
        exact ⟨this.1, by omega, this.2.2.1, this.2.2.2⟩
      · have h2' : ltB x (xs ((low + high) / 2)) = false := by simp [ltB, h2]
        simp only [h2', Bool.false_eq_true, ↓reduceIte]
        by_cases h3 : x < xs ((low + high) / 2 + 1)
        · have h3' : ltB x (xs ((low + high) / 2 + 1)) = true := by simp [ltB, h3]
          simp only [h3', not_true_eq_false, ↓reduceIte]
          exact ⟨hi1, hi2, not_lt.mp h2, h3⟩
        · have h3' : ltB x (xs ((low + high) / 2 + 1)) = false := by simp [ltB, h3]
          simp only [h3', Bool.false_eq_true, not_false_eq_true, ↓reduceIte]
          have hlt : (low + high) / 2 < high := by
            rcases Nat.lt_or_eq_of_le hi2 with h | h
            · exact h
            · rw [h] at h3; exact absurd hhi h3
          have := ih ((low + high) / 2 + 1) high (by omega) (by omega) (not_lt.mp h3) hhi
          simp only at this
          exact ⟨by omega, this.2.1, this.2.2.1, this.2.2.2⟩

/-- Every supplied point of a noise / sigma vector evaluates to the supplied value, for every number
    of segments n ≥ 1 (two or more points) and whatever the second derivatives turn out to be. -/
theorem spline_exact_at_knots (xs ys : Nat → K) (n : Nat) (hn : 1 ≤ n) (hasc : Ascending xs (n + 1))
    (k : Nat) (hk : k ≤ n) : splineEval ltB xs ys n (xs k) = ys k := by
  unfold splineEval
  simp only
  have h0 : ¬ xs k < xs 0 := not_lt.mpr (hasc.le (Nat.zero_le k) (by omega))
  have h0' : ltB (xs k) (xs 0) = false := by simp [ltB, h0]
  simp only [h0', Bool.false_eq_true, ↓reduceIte]
  rcases Nat.lt_or_eq_of_le hk with hlt | heq
  · have h1 : xs k < xs n := hasc k n hlt (by omega)
    have h1' : ltB (xs k) (xs n) = true := by simp [ltB, h1]
    simp only [h1', not_true_eq_false, ↓reduceIte]
    have hb := bsearch_spec xs (xs k) n n 0 (n - 1) (by omega) (by omega)
      (hasc.le (Nat.zero_le k) (by omega)) (by rw [Nat.sub_add_cancel hn]; exact h1)
    simp only at hb
    generalize bsearch ltB xs (xs k) n 0 (n - 1) = i at hb ⊢
    have hik : i = k := by
      have a := hasc.le_of_le (i := i) (j := k) (by omega) (by omega) hb.2.2.1
      have b : k < i + 1 := by
        by_contra hc
        have : xs (i + 1) ≤ xs k := hasc.le (by omega) (by omega)
        exact absurd hb.2.2.2 (not_lt.mpr this)
      omega
    rw [hik]; exact seg_at_left xs ys _ k
  · subst heq
    have h1' : ltB (xs k) (xs k) = false := by simp [ltB]
    simp only [h1', Bool.false_eq_true, not_false_eq_true, ↓reduceIte, sub_self, mul_zero, zero_add]

/-- on linear data the elimination produces a zero right-hand side … -/
theorem elim_linear (xs ys : Nat → K) (a b : K) (hy : ∀ i, ys i = a * xs i + b)
    (hx : ∀ i, xs (i + 1) - xs i ≠ 0) (i : Nat) : (elim xs ys i).2 = 0 := by
  have slope : ∀ j, (ys (j + 1) - ys j) / (xs (j + 1) - xs j) = a := by
    intro j; rw [hy, hy]; have := hx j; field_simp; ring
  induction i with
  | zero =>
    simp only [elim]
    rw [slope 0, show (ys 2 - ys 1) / (xs 2 - xs 1) = a from slope 1]; ring
  | succ i ih =>
    simp only [elim]
    rw [show (ys (i + 2) - ys (i + 1)) / (xs (i + 2) - xs (i + 1)) = a from slope (i + 1),
      show (ys (i + 3) - ys (i + 2)) / (xs (i + 3) - xs (i + 2)) = a from slope (i + 2), ih]
    ring

/-- … hence all second derivatives vanish … -/
theorem secondDeriv_linear (xs ys : Nat → K) (a b : K) (hy : ∀ i, ys i = a * xs i + b)
    (hx : ∀ i, xs (i + 1) - xs i ≠ 0) (n fuel i : Nat) : secondDeriv xs ys n fuel i = 0 := by
  induction fuel generalizing i with
  | zero => simp [secondDeriv]
  | succ f ih =>
    unfold secondDeriv
    split
    · rfl
    · simp only
      rw [ih (i + 1), elim_linear xs ys a b hy hx (i - 1)]
      simp

theorem splineSp_linear (xs ys : Nat → K) (a b : K) (hy : ∀ i, ys i = a * xs i + b)
    (hx : ∀ i, xs (i + 1) - xs i ≠ 0) (n i : Nat) : splineSp xs ys n i = 0 := by
  unfold splineSp; split
  · rfl
  · exact secondDeriv_linear xs ys a b hy hx n _ i

/-- … and the spline *is* the line, between the points and beyond both ends: a linear dependence on
    frequency is reproduced exactly. -/
theorem spline_linear (xs ys : Nat → K) (a b : K) (n : Nat) (hy : ∀ i, ys i = a * xs i + b)
    (hx : ∀ i, xs (i + 1) - xs i ≠ 0) (x : K) : splineEval ltB xs ys n x = a * x + b := by
  have sp0 : splineSp xs ys n = fun _ => 0 := funext (splineSp_linear xs ys a b hy hx n)
  have slope : ∀ j, (ys (j + 1) - ys j) / (xs (j + 1) - xs j) = a := by
    intro j; rw [hy, hy]; have := hx j; field_simp; ring
  have cb : ∀ j, coefB xs ys (fun _ => 0) j = a := by intro j; simp [coefB, slope]
  have cc : ∀ j, coefC (fun _ => (0 : K)) j = 0 := by intro j; simp [coefC]
  have cd : ∀ j, coefD xs (fun _ => (0 : K)) j = 0 := by intro j; simp [coefD]
  unfold splineEval
  simp only [sp0]
  split
  · rw [cb, hy 0]; ring
  · split
    · rw [cb, cc, cd, hy n]; ring
    · simp only [segValue, cb, cc, cd]
      rw [hy]; ring

/-! ### range checks: ≥ 5 % shortfall refused, full coverage accepted (slack eps = 1 %) -/

theorem range_refuses (pmin pmax fmin fmax : K) (hf : 0 < fmin) (hff : fmin ≤ fmax)
    (h : (105 / 100 : K) * fmin ≤ pmin ∨ pmax ≤ (95 / 100 : K) * fmax) :
    rangeRefused ltB (1 / 100 : K) pmin pmax fmin fmax = true := by
  simp only [rangeRefused, ltB, Bool.or_eq_true, decide_eq_true_eq]
  rcases h with h | h
  · left; nlinarith
  · right; nlinarith

theorem range_accepts (pmin pmax fmin fmax : K) (hf : 0 ≤ fmin) (hff : fmin ≤ fmax)
    (h1 : pmin ≤ fmin) (h2 : fmax ≤ pmax) :
    rangeRefused ltB (1 / 100 : K) pmin pmax fmin fmax = false := by
  simp only [rangeRefused, ltB, Bool.or_eq_false_iff, decide_eq_false_iff_not, not_lt]
  constructor <;> nlinarith

end Libvna.Interp
