/-
C18 — measurement-error modelling: what is logic.
-/
import Libvna.Model.PValue
import Libvna.Props.C10
import Mathlib.Analysis.SpecialFunctions.Exponential
import Mathlib.Analysis.SpecialFunctions.Sqrt
import Mathlib.Data.Matrix.Mul

namespace Libvna.PV

/-! ### weights do not bias exact data -/

/-- **weighting cannot move a solution of data that fit exactly**: row weights that are non-zero leave the
    solution set of the equations unchanged (the measurement-error model only rescales rows) -/
theorem weights_irrelevant_exact {m n : Type} [Fintype n] {F : Type} [Field F] (A : Matrix m n F) (b : m → F) (w : m → F)
    (hw : ∀ i, w i ≠ 0) (x : n → F) :
    (∀ i, w i * (A.mulVec x) i = w i * b i) ↔ A.mulVec x = b := by
  constructor
  · intro h; funext i; exact mul_left_cancel₀ (hw i) (h i)
  · intro h i; rw [h]

/-- with a coefficient map that determines the terms, the weighted system has the true terms as its only solution -/
theorem weighted_unique {m n : Type} [Fintype n] {F : Type} [Field F] (A : Matrix m n F) (b : m → F) (w : m → F)
    (hw : ∀ i, w i ≠ 0) (hinj : Function.Injective A.mulVec) (x y : n → F)
    (hx : ∀ i, w i * (A.mulVec x) i = w i * b i) (hy : ∀ i, w i * (A.mulVec y) i = w i * b i) : x = y :=
  hinj (((weights_irrelevant_exact A b w hw x).mp hx).trans ((weights_irrelevant_exact A b w hw y).mp hy).symm)

/-- the weight `1 / sqrt(sigma_nf² + sigma_tr² |m|²)` is positive whenever there is a noise floor -/
theorem weight_pos (nf tr m2 : ℝ) (hnf : 0 < nf) (hm : 0 ≤ m2) : 0 < 1 / Real.sqrt (nf * nf + tr * tr * m2) := by
  have : 0 < nf * nf + tr * tr * m2 := by
    have h1 : 0 < nf * nf := mul_pos hnf hnf
    have h2 : 0 ≤ tr * tr * m2 := mul_nonneg (mul_self_nonneg tr) hm
    linarith
  exact one_div_pos.mpr (Real.sqrt_pos.mpr this)

/-! ### the p-value -/

/-- the recurrence computes the partial sums of the exponential series -/
theorem loopSum_closed (x : ℝ) (k : Nat) :
    (loopSum (fun i => (i : ℝ)) x (k + 1)).1 = x ^ k / (k.factorial : ℝ) ∧
    (loopSum (fun i => (i : ℝ)) x k).2 = ∑ i ∈ Finset.range k, x ^ i / (i.factorial : ℝ) := by
  induction k with
  | zero => simp [loopSum]
  | succ k ih =>
    obtain ⟨ih1, ih2⟩ := ih
    have hs : (loopSum (fun i => (i : ℝ)) x (k + 1)).2 = ∑ i ∈ Finset.range (k + 1), x ^ i / (i.factorial : ℝ) := by
      rw [Finset.sum_range_succ, ← ih2, ← ih1]
      simp [loopSum]
    refine ⟨?_, hs⟩
    have hk : ((k + 1 : ℕ) : ℝ) ≠ 0 := by positivity
    have hf : ((k.factorial : ℕ) : ℝ) ≠ 0 := by positivity
    have hstep : (loopSum (fun i => (i : ℝ)) x (k + 1 + 1)).1 = (loopSum (fun i => (i : ℝ)) x (k + 1)).1 * (x / ((k + 1 : ℕ) : ℝ)) := by
      conv => lhs; rw [loopSum]
      simp
    rw [hstep, ih1, Nat.factorial_succ]
    push_cast
    field_simp
    ring

/-- the p-value of a vanishing statistic is one: exact data are never rejected, whatever the limit below 1 -/
theorem pvalue_at_zero (k : Nat) : pEven Real.exp (fun a b => decide (a ≤ b)) (fun i => (i : ℝ)) k 0 = 1 := by
  simp [pEven]

/-- the p-value is a probability: in (0, 1] for at least two degrees of freedom -/
theorem pvalue_range (k : Nat) (hk : 1 ≤ k) (x2 : ℝ) (hx : 0 ≤ x2) :
    0 < pEven Real.exp (fun a b => decide (a ≤ b)) (fun i => (i : ℝ)) k x2 ∧
    pEven Real.exp (fun a b => decide (a ≤ b)) (fun i => (i : ℝ)) k x2 ≤ 1 := by
  unfold pEven
  simp only
  by_cases h0 : x2 / 2 ≤ 0
  · simp [h0]
  · simp only [h0, decide_false, Bool.false_eq_true, ↓reduceIte]
    have hxp : 0 < x2 / 2 := lt_of_not_ge h0
    rw [(loopSum_closed (x2 / 2) k).2]
    have hsum_le := Real.sum_le_exp_of_nonneg hxp.le k
    have hsum_pos : 0 < ∑ i ∈ Finset.range k, (x2 / 2) ^ i / (i.factorial : ℝ) := by
      apply Finset.sum_pos
      · intro i _; positivity
      · exact ⟨0, Finset.mem_range.mpr (by omega)⟩
    constructor
    · exact mul_pos (Real.exp_pos _) hsum_pos
    · calc Real.exp (-(x2 / 2)) * ∑ i ∈ Finset.range k, (x2 / 2) ^ i / (i.factorial : ℝ)
          ≤ Real.exp (-(x2 / 2)) * Real.exp (x2 / 2) := mul_le_mul_of_nonneg_left hsum_le (Real.exp_pos _).le
        _ = 1 := by rw [← Real.exp_add]; simp

end Libvna.PV
