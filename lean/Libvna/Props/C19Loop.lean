import Libvna.Model.LinAlg
import Mathlib.Algebra.BigOperators.Group.Finset.Basic
import Mathlib.Algebra.BigOperators.Intervals
import Mathlib.Tactic.Ring
import Mathlib.Tactic.FieldSimp
open Libvna

namespace Libvna.LULoop
variable {K : Type} [Field K] [Inhabited K]

theorem idx_inj {n i j i' j' : Nat} (hj : j < n) (hj' : j' < n) (h : i * n + j = i' * n + j') : i = i' ∧ j = j' := by
  have hn : 0 < n := by omega
  have h1 : (i * n + j) / n = i := by
    rw [Nat.add_comm, Nat.add_mul_div_right _ _ hn, Nat.div_eq_of_lt hj]; simp
  have h2 : (i' * n + j') / n = i' := by
    rw [Nat.add_comm, Nat.add_mul_div_right _ _ hn, Nat.div_eq_of_lt hj']; simp
  have hi : i = i' := by rw [← h1, ← h2, h]
  subst hi
  exact ⟨rfl, by omega⟩

theorem idx_lt {n i j : Nat} (hi : i < n) (hj : j < n) : i * n + j < n * n := by
  calc i * n + j < i * n + n := by omega
    _ = (i + 1) * n := by ring
    _ ≤ n * n := Nat.mul_le_mul_right n hi

theorem size_set (a : Array K) (n i j : Nat) (x : K) : (LA.set a n i j x).size = a.size := by
  simp [LA.set]

theorem get_set (a : Array K) {n i j i' j' : Nat} (x : K) (hs : a.size = n * n)
    (hi : i < n) (hj : j < n) (hj' : j' < n) :
    LA.get (LA.set a n i j x) n i' j' = if i = i' ∧ j = j' then x else LA.get a n i' j' := by
  unfold LA.get LA.set
  have hlt := idx_lt hi hj
  split
  · next h =>
    obtain ⟨rfl, rfl⟩ := h
    simp [hs, hlt]
  · next h =>
    have hne : i * n + j ≠ i' * n + j' := fun he => h (idx_inj hj hj' he)
    simp only [getElem!_def, Array.set!_eq_setIfInBounds, Array.getElem?_setIfInBounds, hne, if_false]
open Finset
theorem dotSub_eq (a : Array K) (n i j lim : Nat) :
    LA.dotSub a n i j lim = LA.get a n i j - ∑ k ∈ range lim, LA.get a n i k * LA.get a n k j := by
  induction lim with
  | zero => simp [LA.dotSub]
  | succ m ih => rw [LA.dotSub, ih, sum_range_succ]; ring

/-- effect of the U-part loop on column j -/
theorem upper_spec (a : Array K) {n j : Nat} (hs : a.size = n * n) (hj : j < n) (cnt : Nat) (hc : cnt ≤ j) :
    (LA.upper n j cnt a).size = n * n ∧
    (∀ i c, i < n → c < n → ¬ (c = j ∧ i < cnt) → LA.get (LA.upper n j cnt a) n i c = LA.get a n i c) ∧
    (∀ i, i < cnt → LA.get (LA.upper n j cnt a) n i j =
        LA.get a n i j - ∑ k ∈ range i, LA.get a n i k * LA.get (LA.upper n j cnt a) n k j) := by
  induction cnt with
  | zero => exact ⟨hs, fun _ _ _ _ _ => rfl, fun i hi => absurd hi (Nat.not_lt_zero i)⟩
  | succ m ih =>
    obtain ⟨hs', hun, hup⟩ := ih (by omega)
    have hm : m < n := by omega
    simp only [LA.upper]
    refine ⟨by rw [size_set]; exact hs', ?_, ?_⟩
    · intro i c hi hcn hne
      rw [get_set _ _ hs' hm hj hcn]
      have : ¬ (m = i ∧ j = c) := by
        rintro ⟨rfl, rfl⟩; exact hne ⟨rfl, Nat.lt_succ_self _⟩
      rw [if_neg this]
      exact hun i c hi hcn (fun h => hne ⟨h.1, by omega⟩)
    · intro i hi
      have hsum : ∀ i', i' ≤ m → ∑ k ∈ range i', LA.get a n i' k * LA.get (LA.set (LA.upper n j m a) n m j (LA.dotSub (LA.upper n j m a) n m j m)) n k j
            = ∑ k ∈ range i', LA.get a n i' k * LA.get (LA.upper n j m a) n k j := by
        intro i' hi'
        apply sum_congr rfl
        intro k hk
        have hk' : k < i' := mem_range.mp hk
        rw [get_set _ _ hs' hm hj hj]
        have : ¬ (m = k ∧ j = j) := by rintro ⟨rfl, _⟩; omega
        rw [if_neg this]
      rw [get_set _ _ hs' hm hj hj]
      by_cases him : i = m
      · subst him
        rw [if_pos ⟨rfl, rfl⟩, hsum i (le_refl _), dotSub_eq]
        rw [hun i j hm hj (by omega)]
        congr 1
        apply sum_congr rfl
        intro k hk
        have hk' : k < i := mem_range.mp hk
        rw [hun i k hm (by omega) (by omega)]
      · have : ¬ (m = i ∧ j = j) := by rintro ⟨rfl, _⟩; exact him rfl
        rw [if_neg this, hsum i (by omega)]
        exact hup i (by omega)


/-- effect of the L-part loop (before scaling) on column j, and where the pivot row can be -/
theorem lower_spec (mag : K → Float) (rs : Array Float) (a : Array K) {n j : Nat} (hs : a.size = n * n)
    (hj : j < n) (cnt : Nat) (hc : j + cnt ≤ n) :
    (LA.lower mag rs n j cnt a).1.size = n * n ∧
    (∀ i c, i < n → c < n → LA.get (LA.lower mag rs n j cnt a).1 n i c =
        if c = j ∧ j ≤ i ∧ i < j + cnt then
          LA.get a n i j - ∑ k ∈ range j, LA.get a n i k * LA.get a n k j
        else LA.get a n i c) ∧
    (j ≤ (LA.lower mag rs n j cnt a).2.1 ∧ (LA.lower mag rs n j cnt a).2.1 < n) := by
  induction cnt with
  | zero =>
    refine ⟨hs, ?_, le_refl _, hj⟩
    intro i c _ _
    have : ¬ (c = j ∧ j ≤ i ∧ i < j + 0) := by omega
    rw [if_neg this]; rfl
  | succ m ih =>
    obtain ⟨hs', hget, hb1, hb2⟩ := ih (by omega)
    have hm : j + m < n := by omega
    have key : ∀ x : Array K × Nat × Float,
        x = LA.lower mag rs n j (m + 1) a →
        x.1 = LA.set (LA.lower mag rs n j m a).1 n (j + m) j (LA.dotSub (LA.lower mag rs n j m a).1 n (j + m) j j) ∧
        (x.2.1 = j + m ∨ x.2.1 = (LA.lower mag rs n j m a).2.1) := by
      intro x hx
      simp only [LA.lower] at hx
      split at hx <;> (subst hx; simp)
    obtain ⟨h1, h2⟩ := key _ rfl
    refine ⟨by rw [h1, size_set]; exact hs', ?_, ?_⟩
    · intro i c hi hcn
      rw [h1, get_set _ _ hs' hm hj hcn]
      by_cases h : j + m = i ∧ j = c
      · obtain ⟨rfl, rfl⟩ := h
        rw [if_pos ⟨rfl, rfl⟩, if_pos ⟨rfl, by omega, by omega⟩, dotSub_eq]
        rw [hget _ _ hm hj, if_neg (by omega)]
        congr 1
        apply sum_congr rfl
        intro k hk
        have hk' : k < j := mem_range.mp hk
        rw [hget _ _ hm (by omega), if_neg (by omega), hget _ _ (by omega) hj, if_neg (by omega)]
      · rw [if_neg h, hget i c hi hcn]
        by_cases h' : c = j ∧ j ≤ i ∧ i < j + m
        · rw [if_pos h', if_pos ⟨h'.1, h'.2.1, by omega⟩]
        · rw [if_neg h', if_neg]
          rintro ⟨hcj, h3, h4⟩
          have : i ≠ j + m := fun e => h ⟨e.symm, hcj.symm⟩
          exact h' ⟨hcj, h3, by omega⟩
    · rcases h2 with h2 | h2 <;> rw [h2] <;> omega

/-- effect of the row exchange -/
theorem swapRows_spec (a : Array K) {n r1 r2 : Nat} (hs : a.size = n * n) (h1 : r1 < n) (h2 : r2 < n)
    (cnt : Nat) (hc : cnt ≤ n) :
    (LA.swapRows n r1 r2 cnt a).size = n * n ∧
    (∀ i c, i < n → c < n → LA.get (LA.swapRows n r1 r2 cnt a) n i c =
        if c < cnt then (if i = r1 then LA.get a n r2 c else if i = r2 then LA.get a n r1 c else LA.get a n i c)
        else LA.get a n i c) := by
  induction cnt with
  | zero => exact ⟨hs, fun i c _ _ => by simp [LA.swapRows]⟩
  | succ m ih =>
    obtain ⟨hs', hget⟩ := ih (by omega)
    have hm : m < n := by omega
    simp only [LA.swapRows]
    refine ⟨by rw [size_set, size_set]; exact hs', ?_⟩
    intro i c hi hcn
    rw [get_set _ _ (by rw [size_set]; exact hs') h2 hm hcn, get_set _ _ hs' h1 hm hcn]
    rw [hget r1 m h1 hm, hget r2 m h2 hm, hget i c hi hcn]
    simp only [Nat.lt_irrefl, if_false]
    by_cases hcm : c = m
    · subst hcm
      simp only [Nat.lt_succ_self, if_true, and_true]
      by_cases e2 : r2 = i
      · subst e2; simp
        by_cases e1 : r2 = r1
        · subst e1; simp
        · simp [e1]
      · by_cases e1 : r1 = i
        · subst e1; simp [e2]
        · have e1' : ¬ i = r1 := fun e => e1 e.symm
          have e2' : ¬ i = r2 := fun e => e2 e.symm
          simp [e1, e2, e1', e2']
    · have hm1 : ¬ (m = c) := fun e => hcm e.symm
      simp only [hm1, and_false, if_false]
      by_cases hlt : c < m
      · have : c < m + 1 := by omega
        simp [hlt, this]
      · have : ¬ c < m + 1 := by omega
        simp [hlt, this]

/-- effect of the scaling of the sub-diagonal part of column j -/
theorem scaleCol_spec (a : Array K) {n j : Nat} (scale : K) (hs : a.size = n * n) (hj : j < n)
    (cnt : Nat) (hc : j + 1 + cnt ≤ n) :
    (LA.scaleCol n j scale cnt a).size = n * n ∧
    (∀ i c, i < n → c < n → LA.get (LA.scaleCol n j scale cnt a) n i c =
        if c = j ∧ j < i ∧ i < j + 1 + cnt then LA.get a n i j * scale else LA.get a n i c) := by
  induction cnt with
  | zero =>
    refine ⟨hs, fun i c _ _ => ?_⟩
    have : ¬ (c = j ∧ j < i ∧ i < j + 1 + 0) := by omega
    rw [if_neg this]; rfl
  | succ m ih =>
    obtain ⟨hs', hget⟩ := ih (by omega)
    have hm : j + 1 + m < n := by omega
    simp only [LA.scaleCol]
    refine ⟨by rw [size_set]; exact hs', ?_⟩
    intro i c hi hcn
    rw [get_set _ _ hs' hm hj hcn, hget _ _ hm hj, hget i c hi hcn]
    by_cases h : j + 1 + m = i ∧ j = c
    · obtain ⟨rfl, rfl⟩ := h
      rw [if_pos ⟨rfl, rfl⟩, if_neg (by omega), if_pos ⟨rfl, by omega, by omega⟩]
    · rw [if_neg h]
      by_cases h' : c = j ∧ j < i ∧ i < j + 1 + m
      · rw [if_pos h', if_pos ⟨h'.1, h'.2.1, by omega⟩]
      · rw [if_neg h', if_neg]
        rintro ⟨hcj, h3, h4⟩
        have : i ≠ j + 1 + m := fun e => h ⟨e.symm, hcj.symm⟩
        exact h' ⟨hcj, h3, by omega⟩

end Libvna.LULoop
