import Libvna.Model.LinAlg
import Libvna.Props.C19
import Mathlib.GroupTheory.Perm.Sign
import Mathlib.Algebra.BigOperators.Group.Finset.Basic
import Mathlib.Algebra.BigOperators.Intervals
import Mathlib.Tactic.Ring
import Mathlib.Tactic.FieldSimp
open Libvna

namespace Libvna.LULoop
variable {K : Type} [Field K] [Inhabited K]

theorem idx_inj {n i j i' j' : Nat} (hj : j < n) (hj' : j' < n) (h : i * n + j = i' * n + j') : i = i' ∧ j = j' := by
  have hn : 0 < n := by omega
  have h1 : (i * n + j) / n = i := by
    rw [Nat.add_comm, Nat.add_mul_div_right _ _ hn, Nat.div_eq_of_lt hj]; simp
  have h2 : (i' * n + j') / n = i' := by
    rw [Nat.add_comm, Nat.add_mul_div_right _ _ hn, Nat.div_eq_of_lt hj']; simp
  have hi : i = i' := by rw [← h1, ← h2, h]
  subst hi
  exact ⟨rfl, by omega⟩

theorem idx_lt {n i j : Nat} (hi : i < n) (hj : j < n) : i * n + j < n * n := by
  calc i * n + j < i * n + n := by omega
    _ = (i + 1) * n := by ring
    _ ≤ n * n := Nat.mul_le_mul_right n hi

theorem size_set (a : Array K) (n i j : Nat) (x : K) : (LA.set a n i j x).size = a.size := by
  simp [LA.set]

theorem get_set (a : Array K) {n i j i' j' : Nat} (x : K) (hs : a.size = n * n)
    (hi : i < n) (hj : j < n) (hj' : j' < n) :
    LA.get (LA.set a n i j x) n i' j' = if i = i' ∧ j = j' then x else LA.get a n i' j' := by
  unfold LA.get LA.set
  have hlt := idx_lt hi hj
  split
  · next h =>
    obtain ⟨rfl, rfl⟩ := h
    simp [hs, hlt]
  · next h =>
    have hne : i * n + j ≠ i' * n + j' := fun he => h (idx_inj hj hj' he)
    simp only [getElem!_def, Array.set!_eq_setIfInBounds, Array.getElem?_setIfInBounds, hne, if_false]
open Finset
theorem dotSub_eq (a : Array K) (n i j lim : Nat) :
    LA.dotSub a n i j lim = LA.get a n i j - ∑ k ∈ range lim, LA.get a n i k * LA.get a n k j := by
  induction lim with
  | zero => simp [LA.dotSub]
  | succ m ih => rw [LA.dotSub, ih, sum_range_succ]; ring

/-- effect of the U-part loop on column j -/
theorem upper_spec (a : Array K) {n j : Nat} (hs : a.size = n * n) (hj : j < n) (cnt : Nat) (hc : cnt ≤ j) :
    (LA.upper n j cnt a).size = n * n ∧
    (∀ i c, i < n → c < n → ¬ (c = j ∧ i < cnt) → LA.get (LA.upper n j cnt a) n i c = LA.get a n i c) ∧
    (∀ i, i < cnt → LA.get (LA.upper n j cnt a) n i j =
        LA.get a n i j - ∑ k ∈ range i, LA.get a n i k * LA.get (LA.upper n j cnt a) n k j) := by
  induction cnt with
  | zero => exact ⟨hs, fun _ _ _ _ _ => rfl, fun i hi => absurd hi (Nat.not_lt_zero i)⟩
  | succ m ih =>
    obtain ⟨hs', hun, hup⟩ := ih (by omega)
    have hm : m < n := by omega
    simp only [LA.upper]
    refine ⟨by rw [size_set]; exact hs', ?_, ?_⟩
    · intro i c hi hcn hne
      rw [get_set _ _ hs' hm hj hcn]
      have : ¬ (m = i ∧ j = c) := by
        rintro ⟨rfl, rfl⟩; exact hne ⟨rfl, Nat.lt_succ_self _⟩
      rw [if_neg this]
      exact hun i c hi hcn (fun h => hne ⟨h.1, by omega⟩)
    · intro i hi
      have hsum : ∀ i', i' ≤ m → ∑ k ∈ range i', LA.get a n i' k * LA.get (LA.set (LA.upper n j m a) n m j (LA.dotSub (LA.upper n j m a) n m j m)) n k j
            = ∑ k ∈ range i', LA.get a n i' k * LA.get (LA.upper n j m a) n k j := by
        intro i' hi'
        apply sum_congr rfl
        intro k hk
        have hk' : k < i' := mem_range.mp hk
        rw [get_set _ _ hs' hm hj hj]
        have : ¬ (m = k ∧ j = j) := by rintro ⟨rfl, _⟩; omega
        rw [if_neg this]
      rw [get_set _ _ hs' hm hj hj]
      by_cases him : i = m
      · subst him
        rw [if_pos ⟨rfl, rfl⟩, hsum i (le_refl _), dotSub_eq]
        rw [hun i j hm hj (by omega)]
        congr 1
        apply sum_congr rfl
        intro k hk
        have hk' : k < i := mem_range.mp hk
        rw [hun i k hm (by omega) (by omega)]
      · have : ¬ (m = i ∧ j = j) := by rintro ⟨rfl, _⟩; exact him rfl
        rw [if_neg this, hsum i (by omega)]
        exact hup i (by omega)


/-- effect of the L-part loop (before scaling) on column j, and where the pivot row can be -/
theorem lower_spec (mag : K → Float) (rs : Array Float) (a : Array K) {n j : Nat} (hs : a.size = n * n)
    (hj : j < n) (cnt : Nat) (hc : j + cnt ≤ n) :
    (LA.lower mag rs n j cnt a).1.size = n * n ∧
    (∀ i c, i < n → c < n → LA.get (LA.lower mag rs n j cnt a).1 n i c =
        if c = j ∧ j ≤ i ∧ i < j + cnt then
          LA.get a n i j - ∑ k ∈ range j, LA.get a n i k * LA.get a n k j
        else LA.get a n i c) ∧
    (j ≤ (LA.lower mag rs n j cnt a).2.1 ∧ (LA.lower mag rs n j cnt a).2.1 < n) := by
  induction cnt with
  | zero =>
    refine ⟨hs, ?_, le_refl _, hj⟩
    intro i c _ _
    have : ¬ (c = j ∧ j ≤ i ∧ i < j + 0) := by omega
    rw [if_neg this]; rfl
  | succ m ih =>
    obtain ⟨hs', hget, hb1, hb2⟩ := ih (by omega)
    have hm : j + m < n := by omega
    have key : ∀ x : Array K × Nat × Float,
        x = LA.lower mag rs n j (m + 1) a →
        x.1 = LA.set (LA.lower mag rs n j m a).1 n (j + m) j (LA.dotSub (LA.lower mag rs n j m a).1 n (j + m) j j) ∧
        (x.2.1 = j + m ∨ x.2.1 = (LA.lower mag rs n j m a).2.1) := by
      intro x hx
      simp only [LA.lower] at hx
      split at hx <;> (subst hx; simp)
    obtain ⟨h1, h2⟩ := key _ rfl
    refine ⟨by rw [h1, size_set]; exact hs', ?_, ?_⟩
    · intro i c hi hcn
      rw [h1, get_set _ _ hs' hm hj hcn]
      by_cases h : j + m = i ∧ j = c
      · obtain ⟨rfl, rfl⟩ := h
        rw [if_pos ⟨rfl, rfl⟩, if_pos ⟨rfl, by omega, by omega⟩, dotSub_eq]
        rw [hget _ _ hm hj, if_neg (by omega)]
        congr 1
        apply sum_congr rfl
        intro k hk
        have hk' : k < j := mem_range.mp hk
        rw [hget _ _ hm (by omega), if_neg (by omega), hget _ _ (by omega) hj, if_neg (by omega)]
      · rw [if_neg h, hget i c hi hcn]
        by_cases h' : c = j ∧ j ≤ i ∧ i < j + m
        · rw [if_pos h', if_pos ⟨h'.1, h'.2.1, by omega⟩]
        · rw [if_neg h', if_neg]
          rintro ⟨hcj, h3, h4⟩
          have : i ≠ j + m := fun e => h ⟨e.symm, hcj.symm⟩
          exact h' ⟨hcj, h3, by omega⟩
    · rcases h2 with h2 | h2 <;> rw [h2] <;> omega

/-- effect of the row exchange -/
theorem swapRows_spec (a : Array K) {n r1 r2 : Nat} (hs : a.size = n * n) (h1 : r1 < n) (h2 : r2 < n)
    (cnt : Nat) (hc : cnt ≤ n) :
    (LA.swapRows n r1 r2 cnt a).size = n * n ∧
    (∀ i c, i < n → c < n → LA.get (LA.swapRows n r1 r2 cnt a) n i c =
        if c < cnt then (if i = r1 then LA.get a n r2 c else if i = r2 then LA.get a n r1 c else LA.get a n i c)
        else LA.get a n i c) := by
  induction cnt with
  | zero => exact ⟨hs, fun i c _ _ => by simp [LA.swapRows]⟩
  | succ m ih =>
    obtain ⟨hs', hget⟩ := ih (by omega)
    have hm : m < n := by omega
    simp only [LA.swapRows]
    refine ⟨by rw [size_set, size_set]; exact hs', ?_⟩
    intro i c hi hcn
    rw [get_set _ _ (by rw [size_set]; exact hs') h2 hm hcn, get_set _ _ hs' h1 hm hcn]
    rw [hget r1 m h1 hm, hget r2 m h2 hm, hget i c hi hcn]
    simp only [Nat.lt_irrefl, if_false]
    by_cases hcm : c = m
    · subst hcm
      simp only [Nat.lt_succ_self, if_true, and_true]
      by_cases e2 : r2 = i
      · subst e2; simp
        by_cases e1 : r2 = r1
        · subst e1; simp
        · simp [e1]
      · by_cases e1 : r1 = i
        · subst e1; simp [e2]
        · have e1' : ¬ i = r1 := fun e => e1 e.symm
          have e2' : ¬ i = r2 := fun e => e2 e.symm
          simp [e1, e2, e1', e2']
    · have hm1 : ¬ (m = c) := fun e => hcm e.symm
      simp only [hm1, and_false, if_false]
      by_cases hlt : c < m
      · have : c < m + 1 := by omega
        simp [hlt, this]
      · have : ¬ c < m + 1 := by omega
        simp [hlt, this]

/-- effect of the scaling of the sub-diagonal part of column j -/
theorem scaleCol_spec (a : Array K) {n j : Nat} (scale : K) (hs : a.size = n * n) (hj : j < n)
    (cnt : Nat) (hc : j + 1 + cnt ≤ n) :
    (LA.scaleCol n j scale cnt a).size = n * n ∧
    (∀ i c, i < n → c < n → LA.get (LA.scaleCol n j scale cnt a) n i c =
        if c = j ∧ j < i ∧ i < j + 1 + cnt then LA.get a n i j * scale else LA.get a n i c) := by
  induction cnt with
  | zero =>
    refine ⟨hs, fun i c _ _ => ?_⟩
    have : ¬ (c = j ∧ j < i ∧ i < j + 1 + 0) := by omega
    rw [if_neg this]; rfl
  | succ m ih =>
    obtain ⟨hs', hget⟩ := ih (by omega)
    have hm : j + 1 + m < n := by omega
    simp only [LA.scaleCol]
    refine ⟨by rw [size_set]; exact hs', ?_⟩
    intro i c hi hcn
    rw [get_set _ _ hs' hm hj hcn, hget _ _ hm hj, hget i c hi hcn]
    by_cases h : j + 1 + m = i ∧ j = c
    · obtain ⟨rfl, rfl⟩ := h
      rw [if_pos ⟨rfl, rfl⟩, if_neg (by omega), if_pos ⟨rfl, by omega, by omega⟩]
    · rw [if_neg h]
      by_cases h' : c = j ∧ j < i ∧ i < j + 1 + m
      · rw [if_pos h', if_pos ⟨h'.1, h'.2.1, by omega⟩]
      · rw [if_neg h', if_neg]
        rintro ⟨hcj, h3, h4⟩
        have : i ≠ j + 1 + m := fun e => h ⟨e.symm, hcj.symm⟩
        exact h' ⟨hcj, h3, by omega⟩

/-! ### one column of the Crout loop, on entry functions -/

/-- the row exchange as a map on row numbers -/
def sw (b j i : Nat) : Nat := if i = b then j else if i = j then b else i

theorem sw_lt {b j i : Nat} (hi : i < j) (hb : j ≤ b) : sw b j i = i := by unfold sw; split_ifs <;> omega
theorem sw_bound {n b j i : Nat} (hb : b < n) (hj : j < n) (hi : i < n) : sw b j i < n := by unfold sw; split_ifs <;> omega
theorem sw_ge {b j i : Nat} (hb : j ≤ b) (hi : j ≤ i) : j ≤ sw b j i := by unfold sw; split_ifs <;> omega
theorem sw_sw (b j i : Nat) : sw b j (sw b j i) = i := by unfold sw; split_ifs <;> omega

/-- **one column preserves the Crout invariant.**  `G` are the entries before the column, `G1..G4` after the four phases
    (U part, L part, row exchange with row `b`, scaling), `A0 (p i) c` is the input matrix with its rows in the current order. -/
theorem col_step_fun {A0 : Nat → Nat → K} {n j b : Nat} {p : Nat → Nat} {G G1 G2 G3 G4 : Nat → Nat → K}
    (hj : j < n) (hb1 : j ≤ b) (hb2 : b < n)
    (hR : ∀ i c, i < n → c < n → j ≤ c → G i c = A0 (p i) c)
    (hU : ∀ i c, c < j → i ≤ c → G i c = A0 (p i) c - ∑ k ∈ range i, G i k * G k c)
    (hL : ∀ i c, c < j → c < i → i < n → G i c = (A0 (p i) c - ∑ k ∈ range c, G i k * G k c) / G c c)
    (h1a : ∀ i c, i < n → c < n → ¬ (c = j ∧ i < j) → G1 i c = G i c)
    (h1b : ∀ i, i < j → G1 i j = G i j - ∑ k ∈ range i, G i k * G1 k j)
    (h2 : ∀ i c, i < n → c < n → G2 i c = if c = j ∧ j ≤ i then G1 i j - ∑ k ∈ range j, G1 i k * G1 k j else G1 i c)
    (h3 : ∀ i c, i < n → c < n → G3 i c = G2 (sw b j i) c)
    (h4 : ∀ i c, i < n → c < n → G4 i c = if c = j ∧ j < i then G3 i j * (1 / G3 j j) else G3 i c) :
    (∀ i c, i < n → c < n → j + 1 ≤ c → G4 i c = A0 (p (sw b j i)) c) ∧
    (∀ i c, c < j + 1 → i ≤ c → G4 i c = A0 (p (sw b j i)) c - ∑ k ∈ range i, G4 i k * G4 k c) ∧
    (∀ i c, c < j + 1 → c < i → i < n →
        G4 i c = (A0 (p (sw b j i)) c - ∑ k ∈ range c, G4 i k * G4 k c) / G4 c c) := by
  have swn : ∀ i, i < n → sw b j i < n := fun i hi => sw_bound hb2 hj hi
  -- F1: away from column j the column only sees the row exchange
  have F1 : ∀ i c, i < n → c < n → c ≠ j → G4 i c = G (sw b j i) c := by
    intro i c hi hc hcj
    rw [h4 i c hi hc, if_neg (fun h => hcj h.1), h3 i c hi hc, h2 _ c (swn i hi) hc, if_neg (fun h => hcj h.1),
      h1a _ c (swn i hi) hc (fun h => hcj h.1)]
  -- F2: the U part of column j
  have F2 : ∀ i, i < j → G4 i j = G1 i j := by
    intro i hi
    have hin : i < n := by omega
    rw [h4 i j hin hj, if_neg (by omega), h3 i j hin hj, sw_lt hi hb1, h2 i j hin hj, if_neg (by omega)]
  -- F3: the unscaled L part of column j, in terms of the final entries
  have F3 : ∀ i, j ≤ i → i < n →
      G2 (sw b j i) j = A0 (p (sw b j i)) j - ∑ k ∈ range j, G4 i k * G4 k j := by
    intro i hji hi
    have hs := swn i hi
    have hsj : j ≤ sw b j i := sw_ge hb1 hji
    rw [h2 _ j hs hj, if_pos ⟨rfl, hsj⟩, h1a _ j hs hj (by omega), hR _ j hs hj (le_refl _)]
    congr 1
    apply sum_congr rfl
    intro k hk
    have hk' : k < j := mem_range.mp hk
    rw [h1a _ k hs (by omega) (by omega), F1 i k hi (by omega) (by omega), F2 k hk']
  have F4 : G4 j j = A0 (p (sw b j j)) j - ∑ k ∈ range j, G4 j k * G4 k j := by
    rw [h4 j j hj hj, if_neg (by omega), h3 j j hj hj, F3 j (le_refl _) hj]
  refine ⟨?_, ?_, ?_⟩
  · intro i c hi hc hjc
    rw [F1 i c hi hc (by omega), hR _ c (swn i hi) hc (by omega)]
  · intro i c hc hic
    rcases Nat.lt_or_ge c j with hcj | hcj
    · have hij : i < j := by omega
      rw [F1 i c (by omega) (by omega) (by omega), sw_lt hij hb1, hU i c hcj hic]
      congr 1
      apply sum_congr rfl
      intro k hk
      have hk' : k < i := mem_range.mp hk
      rw [F1 i k (by omega) (by omega) (by omega), sw_lt hij hb1, F1 k c (by omega) (by omega) (by omega),
        sw_lt (show k < j by omega) hb1]
    · have hcj' : c = j := by omega
      subst hcj'
      rcases Nat.lt_or_ge i c with hij | hij
      · rw [F2 i hij, h1b i hij, hR i c (by omega) hj (le_refl _), sw_lt hij hb1]
        congr 1
        apply sum_congr rfl
        intro k hk
        have hk' : k < i := mem_range.mp hk
        rw [F1 i k (by omega) (by omega) (by omega), sw_lt hij hb1, F2 k (by omega)]
      · have : i = c := by omega
        subst this
        exact F4
  · intro i c hc hci hi
    rcases Nat.lt_or_ge c j with hcj | hcj
    · have hcs : c < sw b j i := by
        rcases Nat.lt_or_ge i j with hij | hij
        · rw [sw_lt hij hb1]; exact hci
        · have := sw_ge hb1 hij; omega
      rw [F1 i c hi (by omega) (by omega), hL _ c hcj hcs (swn i hi)]
      have hcc : G4 c c = G c c := by
        rw [F1 c c (by omega) (by omega) (by omega), sw_lt hcj hb1]
      rw [hcc]
      congr 2
      apply sum_congr rfl
      intro k hk
      have hk' : k < c := mem_range.mp hk
      rw [F1 i k hi (by omega) (by omega), F1 k c (by omega) (by omega) (by omega), sw_lt (show k < j by omega) hb1]
    · have hcj' : c = j := by omega
      subst hcj'
      have h44 : G4 c c = G3 c c := by rw [h4 c c hj hj, if_neg (by omega)]
      rw [h4 i c hi hj, if_pos ⟨rfl, hci⟩, h3 i c hi hj, F3 i (by omega) hi, h44]
      ring

/-! ### the loop on arrays -/

/-- the Crout invariant after `j` columns: `a` holds U on and above the diagonal and L (unit diagonal implied) below it in
    columns `< j`, and the rows of the input (`A0`) in the order `ri` in columns `≥ j`. -/
structure Inv (A0 : Nat → Nat → K) (n j : Nat) (a : Array K) (ri : Array Nat) : Prop where
  size : a.size = n * n
  rsize : ri.size = n
  R : ∀ i c, i < n → c < n → j ≤ c → LA.get a n i c = A0 ri[i]! c
  U : ∀ i c, c < j → i ≤ c → LA.get a n i c = A0 ri[i]! c - ∑ k ∈ range i, LA.get a n i k * LA.get a n k c
  L : ∀ i c, c < j → c < i → i < n →
      LA.get a n i c = (A0 ri[i]! c - ∑ k ∈ range c, LA.get a n i k * LA.get a n k c) / LA.get a n c c

theorem ri_swap (ri : Array Nat) {n b j i : Nat} (hs : ri.size = n) (hb : b < n) (hj : j < n) (hi : i < n) :
    ((ri.set! b ri[j]!).set! j ri[b]!)[i]! = ri[sw b j i]! := by
  unfold sw
  simp only [getElem!_def, Array.set!_eq_setIfInBounds, Array.getElem?_setIfInBounds, Array.size_setIfInBounds]
  by_cases h1 : j = i
  · subst h1
    by_cases h2 : j = b
    · subst h2; simp [hs, hj]
    · simp [hs, hj, hb, h2]
  · by_cases h2 : b = i
    · subst h2
      have : ¬ b = j := fun e => h1 e.symm
      simp [hs, hj, hb, h1]
    · have h1' : ¬ i = j := fun e => h1 e.symm
      have h2' : ¬ i = b := fun e => h2 e.symm
      simp [h1, h2, h1', h2']

/-- one column of `_vnacommon_lu` preserves the invariant -/
theorem colStep_spec (mag : K → Float) (A0 : Nat → Nat → K) {n j : Nat} (st : LA.LUState K) (hj : j < n)
    (h : Inv A0 n j st.a st.rowIndex) :
    Inv A0 n (j + 1) (LA.colStep mag n st j).a (LA.colStep mag n st j).rowIndex ∧
    ∃ b, j ≤ b ∧ b < n ∧
      (∀ i, i < n → (LA.colStep mag n st j).rowIndex[i]! = st.rowIndex[sw b j i]!) ∧
      (∀ k, k < j → LA.get (LA.colStep mag n st j).a n k k = LA.get st.a n k k) ∧
      (LA.colStep mag n st j).d = (if b ≠ j then st.d * (-1) else st.d) * LA.get (LA.colStep mag n st j).a n j j := by
  obtain ⟨hs, hrs, hR, hU, hL⟩ := h
  -- the four phases
  obtain ⟨hs1, h1a, h1b⟩ := upper_spec st.a hs hj j (le_refl _)
  obtain ⟨hs2, h2, hb1, hb2⟩ := lower_spec mag st.rowScale (LA.upper n j j st.a) hs1 hj (n - j) (by omega)
  generalize hr : LA.lower mag st.rowScale n j (n - j) (LA.upper n j j st.a) = r at hs2 h2 hb1 hb2
  -- row exchange
  have h3 : ∃ a3 : Array K, a3 = (if r.2.1 != j then LA.swapRows n r.2.1 j n r.1 else r.1) ∧ a3.size = n * n ∧
      ∀ i c, i < n → c < n → LA.get a3 n i c = LA.get r.1 n (sw r.2.1 j i) c := by
    refine ⟨_, rfl, ?_, ?_⟩
    · split
      · exact (swapRows_spec r.1 hs2 hb2 hj n (le_refl _)).1
      · exact hs2
    · intro i c hi hc
      split
      · rw [(swapRows_spec r.1 hs2 hb2 hj n (le_refl _)).2 i c hi hc, if_pos hc]
        unfold sw; split_ifs <;> rfl
      · next hne =>
        have : r.2.1 = j := by simpa using hne
        unfold sw; rw [this]; split_ifs <;> simp_all
  obtain ⟨a3, ha3, hs3, h3g⟩ := h3
  have h4 : ∃ a4 : Array K, a4 = (if j + 1 != n then LA.scaleCol n j ((1 : K) / LA.get a3 n j j) (n - (j + 1)) a3 else a3) ∧
      a4.size = n * n ∧
      ∀ i c, i < n → c < n → LA.get a4 n i c =
        if c = j ∧ j < i then LA.get a3 n i j * (1 / LA.get a3 n j j) else LA.get a3 n i c := by
    refine ⟨_, rfl, ?_, ?_⟩
    · split
      · exact (scaleCol_spec a3 _ hs3 hj (n - (j + 1)) (by omega)).1
      · exact hs3
    · intro i c hi hc
      split
      · rw [(scaleCol_spec a3 _ hs3 hj (n - (j + 1)) (by omega)).2 i c hi hc]
        by_cases hc' : c = j ∧ j < i
        · rw [if_pos hc', if_pos ⟨hc'.1, hc'.2, by omega⟩]
        · rw [if_neg hc', if_neg (fun h => hc' ⟨h.1, h.2.1⟩)]
      · next hne =>
        have : j + 1 = n := by simpa using hne
        rw [if_neg (by omega)]
  obtain ⟨a4, ha4, hs4, h4g⟩ := h4
  have hA : (LA.colStep mag n st j).a = a4 := by
    simp only [LA.colStep, hr]; rw [ha4, ha3]
  have hRI : ∀ i, i < n → (LA.colStep mag n st j).rowIndex[i]! = st.rowIndex[sw r.2.1 j i]! := by
    intro i hi
    simp only [LA.colStep, hr]
    split
    · exact ri_swap st.rowIndex hrs hb2 hj hi
    · next hne =>
      have : r.2.1 = j := by simpa using hne
      unfold sw; rw [this]; split_ifs <;> simp_all
  have hRIs : (LA.colStep mag n st j).rowIndex.size = n := by
    simp only [LA.colStep, hr]
    split <;> simp [hrs]
  have key := col_step_fun (A0 := A0) (n := n) (j := j) (b := r.2.1) (p := fun i => st.rowIndex[i]!)
    (G := fun i c => LA.get st.a n i c) (G1 := fun i c => LA.get (LA.upper n j j st.a) n i c)
    (G2 := fun i c => LA.get r.1 n i c) (G3 := fun i c => LA.get a3 n i c) (G4 := fun i c => LA.get a4 n i c)
    hj hb1 hb2 hR hU hL h1a h1b
    (by intro i c hi hc
        rw [h2 i c hi hc]
        by_cases hc' : c = j ∧ j ≤ i
        · rw [if_pos hc', if_pos ⟨hc'.1, hc'.2, by omega⟩]
        · rw [if_neg hc', if_neg (fun h => hc' ⟨h.1, h.2.1⟩)])
    h3g h4g
  obtain ⟨kR, kU, kL⟩ := key
  have hD : (LA.colStep mag n st j).d = (if r.2.1 ≠ j then st.d * (-1) else st.d) * LA.get a3 n j j := by
    simp only [LA.colStep, hr]
    rw [← ha3]
    congr 1
    by_cases hbj : r.2.1 = j
    · simp [hbj]
    · simp [hbj]
  have h4jj : LA.get a4 n j j = LA.get a3 n j j := by rw [h4g j j hj hj, if_neg (by omega)]
  rw [hA]
  refine ⟨⟨hs4, hRIs, ?_, ?_, ?_⟩, r.2.1, hb1, hb2, hRI, ?_, ?_⟩
  · intro i c hi hc hjc
    rw [hRI i hi]; exact kR i c hi hc hjc
  · intro i c hc hic
    rw [hRI i (by omega)]; exact kU i c hc hic
  · intro i c hc hci hi
    rw [hRI i hi]; exact kL i c hc hci hi
  · intro k hk
    have hkn : k < n := by omega
    rw [h4g k k hkn hkn, if_neg (by omega), h3g k k hkn hkn, sw_lt hk hb1, h2 k k hkn hkn, if_neg (by omega),
      h1a k k hkn hkn (by omega)]
  · rw [hD, h4jj]

theorem luLoop_inv (mag : K → Float) (A0 : Nat → Nat → K) {n : Nat} (st : LA.LUState K)
    (h : Inv A0 n 0 st.a st.rowIndex) (j : Nat) (hj : j ≤ n) :
    Inv A0 n j (LA.luLoop mag n j st).a (LA.luLoop mag n j st).rowIndex := by
  induction j with
  | zero => exact h
  | succ m ih => exact (colStep_spec mag A0 _ (by omega) (ih (by omega))).1

/-! ### the theorem about `_vnacommon_lu` -/

theorem sum_range_eq_fin {n i : Nat} (hi : i ≤ n) (f : Nat → K) :
    ∑ k ∈ range i, f k = ∑ k : Fin n, if (k : Nat) < i then f k else 0 := by
  rw [Fin.sum_univ_eq_sum_range (fun k => if k < i then f k else 0) n, ← Finset.sum_filter]
  congr 1
  ext k
  simp only [mem_range, mem_filter]
  omega

theorem inv_init (a0 : Array K) {n : Nat} (hs : a0.size = n * n) :
    Inv (fun i c => LA.get a0 n i c) n 0 a0 (Array.range n) := by
  refine ⟨hs, by simp, ?_, fun _ _ h => absurd h (Nat.not_lt_zero _), fun _ _ h => absurd h (Nat.not_lt_zero _)⟩
  intro i c hi _ _
  simp [hi]

/-- what `_vnacommon_lu` leaves in `a`, read as the two triangular factors -/
def Lmat (a : Array K) (n : Nat) : Matrix (Fin n) (Fin n) K :=
  fun i c => if (c : Nat) < i then LA.get a n i c else if c = i then 1 else 0
def Umat (a : Array K) (n : Nat) : Matrix (Fin n) (Fin n) K :=
  fun i c => if (i : Nat) ≤ c then LA.get a n i c else 0
/-- the input matrix with its rows in the order the returned `row_index` gives -/
def Pmat (a0 : Array K) (ri : Array Nat) (n : Nat) : Matrix (Fin n) (Fin n) K :=
  fun i c => LA.get a0 n ri[(i : Nat)]! c

/-- **`_vnacommon_lu` factors the row-permuted input** (exact arithmetic, every n, every pivot choice the magnitude function
    makes): when none of the pivots it divided by is zero, the array it returns holds L (below the diagonal, unit diagonal
    implied) and U (on and above) with `L U = P A`, `P` given by the returned row index. -/
theorem lu_factors (mag : K → Float) (a0 : Array K) (n : Nat) (hs : a0.size = n * n)
    (hp : ∀ i, i < n → LA.get (LA.lu mag a0 n).1 n i i ≠ 0) :
    Lmat (LA.lu mag a0 n).1 n * Umat (LA.lu mag a0 n).1 n = Pmat a0 (LA.lu mag a0 n).2.1 n := by
  have hI := luLoop_inv mag (fun i c => LA.get a0 n i c)
    { a := a0, rowIndex := Array.range n, rowScale := LA.rowScales mag a0 n, d := 1 } (inv_init a0 hs) n (le_refl _)
  obtain ⟨_, _, _, hU, hL⟩ := hI
  have ha : (LA.lu mag a0 n).1 = (LA.luLoop mag n n
      { a := a0, rowIndex := Array.range n, rowScale := LA.rowScales mag a0 n, d := 1 }).a := rfl
  have hr : (LA.lu mag a0 n).2.1 = (LA.luLoop mag n n
      { a := a0, rowIndex := Array.range n, rowScale := LA.rowScales mag a0 n, d := 1 }).rowIndex := rfl
  rw [ha] at hp ⊢
  rw [hr]
  generalize (LA.luLoop mag n n { a := a0, rowIndex := Array.range n, rowScale := LA.rowScales mag a0 n, d := 1 }) = st
    at hp hU hL ⊢
  apply Libvna.LU.lu_of_recurrence
  · intro i; simp [Lmat]
  · intro i j hij
    have h1 : ¬ ((j : Nat) < i) := by have := Fin.lt_def.mp hij; omega
    have h2 : ¬ (j = i) := fun e => by subst e; exact absurd hij (lt_irrefl _)
    simp [Lmat, h1, h2]
  · intro i j hji
    have h1 : ¬ ((i : Nat) ≤ j) := by have := Fin.lt_def.mp hji; omega
    simp [Umat, h1]
  · intro i j hij
    have hij' : (i : Nat) ≤ j := Fin.le_def.mp hij
    have := hU i j j.isLt hij'
    simp only [Umat, Pmat, if_pos hij']
    rw [this, sum_range_eq_fin (le_of_lt i.isLt)]
    congr 1
    apply Finset.sum_congr rfl
    intro k _
    by_cases hk : (k : Nat) < i
    · have hk' : k < i := Fin.lt_def.mpr hk
      have hkj : (k : Nat) ≤ j := by omega
      simp [Lmat, hk, hk', hkj]
    · have hk' : ¬ k < i := fun h => hk (Fin.lt_def.mp h)
      simp [hk, hk']
  · intro i j hji
    have hji' : (j : Nat) < i := Fin.lt_def.mp hji
    have := hL i j j.isLt hji' i.isLt
    have hpj := hp j j.isLt
    simp only [Lmat, Umat, Pmat, if_pos hji', if_pos (le_refl (j : Nat))]
    rw [this, div_mul_cancel₀ _ hpj, sum_range_eq_fin (le_of_lt j.isLt)]
    congr 1
    apply Finset.sum_congr rfl
    intro k _
    by_cases hk : (k : Nat) < j
    · have hk' : k < j := Fin.lt_def.mpr hk
      have hki : (k : Nat) < i := by omega
      have hkj : (k : Nat) ≤ j := by omega
      simp [hk, hk', hki, hkj]
    · have hk' : ¬ k < j := fun h => hk (Fin.lt_def.mp h)
      simp [hk, hk']

/-! ### the returned row index is a permutation and the returned determinant is the determinant -/

/-- bookkeeping of `row_index` and `d`: the row index is a permutation π of 0..n-1 and d = sign π · (product of the pivots so far) -/
def DInv (n j : Nat) (a : Array K) (ri : Array Nat) (d : K) : Prop :=
  ∃ π : Equiv.Perm (Fin n), (∀ i : Fin n, ri[(i : Nat)]! = ((π i : Fin n) : Nat)) ∧
    d = (((Equiv.Perm.sign π : ℤˣ) : ℤ) : K) * ∏ k ∈ range j, LA.get a n k k

theorem sw_eq_swap {n b j : Nat} (hb : b < n) (hj : j < n) (i : Fin n) :
    sw b j i = ((Equiv.swap (⟨b, hb⟩ : Fin n) ⟨j, hj⟩ i : Fin n) : Nat) := by
  rw [Equiv.swap_apply_def]
  unfold sw
  by_cases h1 : (i : Nat) = b
  · have : i = ⟨b, hb⟩ := Fin.ext h1
    rw [if_pos h1, if_pos this]
  · have h1' : ¬ i = ⟨b, hb⟩ := fun e => h1 (by rw [e])
    rw [if_neg h1, if_neg h1']
    by_cases h2 : (i : Nat) = j
    · have : i = ⟨j, hj⟩ := Fin.ext h2
      rw [if_pos h2, if_pos this]
    · have h2' : ¬ i = ⟨j, hj⟩ := fun e => h2 (by rw [e])
      rw [if_neg h2, if_neg h2']

theorem luLoop_full (mag : K → Float) (A0 : Nat → Nat → K) {n : Nat} (st : LA.LUState K)
    (h : Inv A0 n 0 st.a st.rowIndex) (hd : DInv n 0 st.a st.rowIndex st.d) (j : Nat) (hj : j ≤ n) :
    Inv A0 n j (LA.luLoop mag n j st).a (LA.luLoop mag n j st).rowIndex ∧
    DInv n j (LA.luLoop mag n j st).a (LA.luLoop mag n j st).rowIndex (LA.luLoop mag n j st).d := by
  induction j with
  | zero => exact ⟨h, hd⟩
  | succ m ih =>
    obtain ⟨hI, π, hπ, hdm⟩ := ih (by omega)
    have hm : m < n := by omega
    obtain ⟨hI', b, hb1, hb2, hRI, hdiag, hd'⟩ := colStep_spec mag A0 (LA.luLoop mag n m st) hm hI
    have e : LA.luLoop mag n (m + 1) st = LA.colStep mag n (LA.luLoop mag n m st) m := rfl
    rw [e]
    refine ⟨hI', π * Equiv.swap ⟨b, hb2⟩ ⟨m, hm⟩, ?_, ?_⟩
    · intro i
      rw [hRI i i.isLt, Equiv.Perm.mul_apply, ← hπ, sw_eq_swap hb2 hm i]
    · rw [hd', Finset.prod_range_succ]
      have hprod : ∏ k ∈ range m, LA.get (LA.colStep mag n (LA.luLoop mag n m st) m).a n k k
          = ∏ k ∈ range m, LA.get (LA.luLoop mag n m st).a n k k :=
        Finset.prod_congr rfl (fun k hk => hdiag k (mem_range.mp hk))
      rw [hprod, Equiv.Perm.sign_mul, Equiv.Perm.sign_swap', hdm]
      by_cases hbm : b = m
      · subst hbm
        simp
        ring
      · have : ¬ (⟨b, hb2⟩ : Fin n) = ⟨m, hm⟩ := fun e => hbm (Fin.mk.inj_iff.mp e)
        simp only [hbm, this, ne_eq, not_false_eq_true, if_true, if_false]
        push_cast
        ring

/-- the input as a matrix -/
def Amat (a0 : Array K) (n : Nat) : Matrix (Fin n) (Fin n) K := fun i c => LA.get a0 n i c

/-- **the determinant `_vnacommon_lu` returns is the determinant of its input** (exact arithmetic, no pivot zero), and the
    row index it returns is a permutation -/
theorem lu_det (mag : K → Float) (a0 : Array K) (n : Nat) (hs : a0.size = n * n)
    (hp : ∀ i, i < n → LA.get (LA.lu mag a0 n).1 n i i ≠ 0) :
    (LA.lu mag a0 n).2.2 = (Amat a0 n).det ∧
    ∃ π : Equiv.Perm (Fin n), ∀ i : Fin n, (LA.lu mag a0 n).2.1[(i : Nat)]! = ((π i : Fin n) : Nat) := by
  have hf := lu_factors mag a0 n hs hp
  have hd0 : DInv n 0 a0 (Array.range n) (1 : K) := ⟨1, fun i => by simp, by simp⟩
  obtain ⟨_, π, hπ, hd⟩ := luLoop_full mag (fun i c => LA.get a0 n i c)
    { a := a0, rowIndex := Array.range n, rowScale := LA.rowScales mag a0 n, d := 1 } (inv_init a0 hs) hd0 n (le_refl _)
  have ha : (LA.lu mag a0 n).1 = (LA.luLoop mag n n
      { a := a0, rowIndex := Array.range n, rowScale := LA.rowScales mag a0 n, d := 1 }).a := rfl
  have hr : (LA.lu mag a0 n).2.1 = (LA.luLoop mag n n
      { a := a0, rowIndex := Array.range n, rowScale := LA.rowScales mag a0 n, d := 1 }).rowIndex := rfl
  have hdd : (LA.lu mag a0 n).2.2 = (LA.luLoop mag n n
      { a := a0, rowIndex := Array.range n, rowScale := LA.rowScales mag a0 n, d := 1 }).d := rfl
  rw [← ha] at hd
  rw [← hr] at hπ
  rw [← hdd] at hd
  refine ⟨?_, π, hπ⟩
  -- det (P A) = product of the pivots
  have hdet := Libvna.LU.det_of_lu _ _ _ hf (by intro i; simp [Lmat])
    (by intro i j hij
        have h1 : ¬ ((j : Nat) < i) := by have := Fin.lt_def.mp hij; omega
        have h2 : ¬ (j = i) := fun e => by subst e; exact absurd hij (lt_irrefl _)
        simp [Lmat, h1, h2])
    (by intro i j hji
        have h1 : ¬ ((i : Nat) ≤ j) := by have := Fin.lt_def.mp hji; omega
        simp [Umat, h1])
  -- P A is A with its rows permuted by π
  have hP : Pmat a0 (LA.lu mag a0 n).2.1 n = (Amat a0 n).submatrix π id := by
    ext i c
    simp [Pmat, Amat, hπ i]
  rw [hP, Matrix.det_permute] at hdet
  have hprod : ∏ i : Fin n, Umat (LA.lu mag a0 n).1 n i i = ∏ k ∈ range n, LA.get (LA.lu mag a0 n).1 n k k := by
    rw [← Fin.prod_univ_eq_prod_range (fun k => LA.get (LA.lu mag a0 n).1 n k k) n]
    apply Finset.prod_congr rfl
    intro i _
    simp [Umat]
  rw [hd, ← hprod, ← hdet, ← mul_assoc]
  have hsq : (((Equiv.Perm.sign π : ℤˣ) : ℤ) : K) * (((Equiv.Perm.sign π : ℤˣ) : ℤ) : K) = 1 := by
    rw [← Int.cast_mul, ← Units.val_mul, Int.units_mul_self]; simp
  rw [hsq, one_mul]

end Libvna.LULoop

namespace Libvna.LULoop
/-- the hypotheses of `lu_factors` / `lu_det` are satisfiable (whatever the magnitude function does) -/
example (mag : ℚ → Float) :
    (#[(5 : ℚ)] : Array ℚ).size = 1 * 1 ∧ ∀ i, i < 1 → LA.get (LA.lu mag #[(5 : ℚ)] 1).1 1 i i ≠ 0 := by
  refine ⟨rfl, ?_⟩
  intro i hi
  have : i = 0 := by omega
  subst this
  have h : (LA.lu mag #[(5 : ℚ)] 1).1 = #[(5 : ℚ)] := by
    simp only [LA.lu, LA.luLoop, LA.colStep, LA.upper, LA.lower, LA.dotSub]
    by_cases hc : 0.0 < (LA.rowScales mag #[(5 : ℚ)] 1)[0]! * mag 5 <;> simp [hc, LA.set, LA.get]
  rw [h]
  simp [LA.get]
end Libvna.LULoop
