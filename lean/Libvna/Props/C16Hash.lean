/-
C16 / C17 / C02 — the per-calibration parameter table of a vnacal_new_t (hash_lookup, hash_insert, hash_expand of
src/vnacal_new_parameter.c): chains in ascending order of the parameter index, lookups that stop at the first larger index.
For the executed model (Model/ParamHash.lean, compared chain by chain with the library through the hook
`_vnacal_new_verif_hash_dump`): the invariant (every chain ascending, every index in the bucket of its residue) is kept by
insertion and by growth (`put_inv`, `expand_spec`, `insert_spec`), and after any sequence of registrations of distinct indices a
lookup finds exactly the registered ones (`lookup_build`) — every length, every growth on the way.
-/
import Libvna.Model.ParamHash
import Mathlib.Data.List.Pairwise
import Mathlib.Data.List.Nodup
import Mathlib.Tactic.Ring

namespace Libvna.PH

theorem mem_ins (p e : Nat) (l : List Nat) : e ∈ ins p l ↔ e = p ∨ e ∈ l := by
  induction l with
  | nil => simp [ins]
  | cons x t ih =>
    simp only [ins]
    split
    · simp
    · simp only [List.mem_cons, ih]; tauto

theorem ins_sorted (p : Nat) (l : List Nat) (hs : l.Pairwise (· < ·)) (hp : p ∉ l) : (ins p l).Pairwise (· < ·) := by
  induction l with
  | nil => simp [ins]
  | cons x t ih =>
    simp only [ins]
    have hx := List.pairwise_cons.mp hs
    have hpx : p ≠ x := fun e => hp (by simp [e])
    split
    · next h =>
      refine List.pairwise_cons.mpr ⟨?_, hs⟩
      intro a ha
      rcases List.mem_cons.mp ha with rfl | ha
      · exact h
      · exact lt_trans h (hx.1 a ha)
    · next h =>
      have hlt : x < p := by omega
      refine List.pairwise_cons.mpr ⟨?_, ih hx.2 (fun hm => hp (List.mem_cons_of_mem _ hm))⟩
      intro a ha
      rcases (mem_ins p a t).mp ha with rfl | ha
      · exact hlt
      · exact hx.1 a ha

/-- on an ascending chain the early stop loses nothing -/
theorem lookupL_iff (p : Nat) (l : List Nat) (hs : l.Pairwise (· < ·)) : lookupL p l = true ↔ p ∈ l := by
  induction l with
  | nil => simp [lookupL]
  | cons x t ih =>
    have hx := List.pairwise_cons.mp hs
    simp only [lookupL]
    by_cases h1 : x = p
    · simp [h1]
    · simp only [h1, if_false]
      by_cases h2 : x > p
      · simp only [h2, if_true]
        constructor
        · intro h; cases h
        · intro hm
          rcases List.mem_cons.mp hm with e | hm
          · exact absurd e.symm h1
          · have := hx.1 p hm; omega
      · simp only [h2, if_false, ih hx.2, List.mem_cons]
        constructor
        · exact fun h => Or.inr h
        · rintro (e | h)
          · exact absurd e.symm h1
          · exact h

/-- the table invariant: every chain ascending, every element in the bucket of its residue, nothing beyond the size -/
structure Inv (h : Tab) : Prop where
  pos : 0 < h.size
  sorted : ∀ i, (h.chain i).Pairwise (· < ·)
  home : ∀ i, ∀ e ∈ h.chain i, e % h.size = i

def Mem (h : Tab) (p : Nat) : Prop := p ∈ h.chain (p % h.size)

theorem lookup_iff (h : Tab) (hi : Inv h) (p : Nat) : lookup h p = true ↔ Mem h p :=
  lookupL_iff p _ (hi.sorted _)

theorem mem_any_chain (h : Tab) (hi : Inv h) (p i : Nat) (hm : p ∈ h.chain i) : Mem h p := by
  have := hi.home i p hm
  unfold Mem; rw [this]; exact hm

theorem put_inv (h : Tab) (hi : Inv h) (p : Nat) (hp : ¬ Mem h p) : Inv (put h p) := by
  refine ⟨hi.pos, ?_, ?_⟩
  · intro i
    simp only [put]
    split
    · next e => subst e; exact ins_sorted p _ (hi.sorted _) hp
    · exact hi.sorted i
  · intro i e he
    simp only [put] at he ⊢
    split at he
    · next ei =>
      rcases (mem_ins p e _).mp he with rfl | he
      · exact ei.symm
      · exact hi.home i e he
    · exact hi.home i e he

theorem put_mem (h : Tab) (hi : Inv h) (p q : Nat) : Mem (put h p) q ↔ q = p ∨ Mem h q := by
  unfold Mem
  simp only [put]
  by_cases e : q % h.size = p % h.size
  · rw [if_pos e, mem_ins]
  · rw [if_neg e]
    constructor
    · exact fun h' => Or.inr h'
    · rintro (rfl | h')
      · exact absurd rfl e
      · exact h'

theorem put_size (h : Tab) (p : Nat) : (put h p).size = h.size := rfl

/-- re-inserting a list of distinct new elements -/
theorem foldl_put (l : List Nat) (h : Tab) (hi : Inv h) (hn : l.Nodup) (hd : ∀ e ∈ l, ¬ Mem h e) :
    Inv (l.foldl put h) ∧ (l.foldl put h).size = h.size ∧ ∀ q, Mem (l.foldl put h) q ↔ q ∈ l ∨ Mem h q := by
  induction l generalizing h with
  | nil => exact ⟨hi, rfl, fun q => by simp⟩
  | cons x t ih =>
    have hx := List.nodup_cons.mp hn
    have hi' := put_inv h hi x (hd x (by simp))
    have hd' : ∀ e ∈ t, ¬ Mem (put h x) e := by
      intro e he hm
      rcases (put_mem h hi x e).mp hm with rfl | hm
      · exact hx.1 he
      · exact hd e (List.mem_cons_of_mem _ he) hm
    obtain ⟨a, b, c⟩ := ih (put h x) hi' hx.2 hd'
    refine ⟨a, by rw [List.foldl_cons, b]; rfl, ?_⟩
    intro q
    rw [List.foldl_cons, c q, put_mem h hi x q, List.mem_cons]
    tauto

theorem mem_elems (h : Tab) (hi : Inv h) (p : Nat) : p ∈ elems h ↔ Mem h p := by
  unfold elems
  rw [List.mem_flatMap]
  constructor
  · rintro ⟨i, _, hm⟩; exact mem_any_chain h hi p i hm
  · intro hm
    exact ⟨p % h.size, List.mem_range.mpr (Nat.mod_lt _ hi.pos), hm⟩

theorem elems_nodup (h : Tab) (hi : Inv h) : (elems h).Nodup := by
  unfold elems
  rw [List.nodup_flatMap]
  constructor
  · intro i _
    exact (hi.sorted i).imp (fun hlt => Nat.ne_of_lt hlt)
  · apply (List.nodup_range).pairwise_of_forall_ne
    intro i _ j _ hij
    intro a hai haj
    -- disjointness: an element cannot have two residues
    have h1 := hi.home i a hai
    have h2 := hi.home j a haj
    exact hij (h1.symm.trans h2)

end Libvna.PH

namespace Libvna.PH

theorem empty_tab_inv (n c : Nat) (hn : 0 < n) : Inv { size := n, chain := fun _ => [], count := c } :=
  ⟨hn, fun _ => List.Pairwise.nil, fun _ e he => by cases he⟩

/-- `hash_expand` keeps the invariant and the contents -/
theorem expand_spec (h : Tab) (hs : (elems h).Nodup) :
    Inv (expand h) ∧ (expand h).size = max (2 * h.size) 8 ∧ ∀ q, Mem (expand h) q ↔ q ∈ elems h := by
  unfold expand
  have hpos : 0 < max (2 * h.size) 8 := by omega
  obtain ⟨a, b, c⟩ := foldl_put (elems h) { size := max (2 * h.size) 8, chain := fun _ => [], count := h.count }
    (empty_tab_inv _ _ hpos) hs (fun e _ hm => by cases hm)
  refine ⟨a, b, ?_⟩
  intro q
  rw [c q]
  constructor
  · rintro (h' | h')
    · exact h'
    · cases h'
  · exact Or.inl

theorem empty_inv : Inv empty ∧ ∀ q, ¬ Mem empty q := by
  have hs : (elems { size := 0, chain := fun _ => [], count := 0 }).Nodup := by simp [elems]
  obtain ⟨a, _, c⟩ := expand_spec { size := 0, chain := fun _ => [], count := 0 } hs
  refine ⟨a, ?_⟩
  intro q hq
  have := (c q).mp hq
  simp [elems] at this

/-- `hash_insert` of an index that is not in the table: the invariant holds afterwards and the contents grew by exactly that index,
whether or not the table was expanded -/
theorem insert_spec (h : Tab) (hi : Inv h) (p : Nat) (hp : ¬ Mem h p) :
    Inv (insert h p) ∧ ∀ q, Mem (insert h p) q ↔ q = p ∨ Mem h q := by
  have hi1 : Inv { put h p with count := h.count + 1 } := by
    have := put_inv h hi p hp
    exact ⟨this.pos, this.sorted, this.home⟩
  have hm1 : ∀ q, Mem { put h p with count := h.count + 1 } q ↔ q = p ∨ Mem h q := fun q => put_mem h hi p q
  unfold insert
  simp only []
  split
  · obtain ⟨a, _, c⟩ := expand_spec _ (elems_nodup _ hi1)
    refine ⟨a, ?_⟩
    intro q
    rw [c q, mem_elems _ hi1 q]
    exact hm1 q
  · exact ⟨hi1, hm1⟩


theorem build_spec (ps : List Nat) (hn : ps.Nodup) : Inv (build ps) ∧ ∀ q, Mem (build ps) q ↔ q ∈ ps := by
  unfold build
  suffices H : ∀ (l : List Nat) (h : Tab), Inv h → l.Nodup → (∀ e ∈ l, ¬ Mem h e) →
      Inv (l.foldl insert h) ∧ ∀ q, Mem (l.foldl insert h) q ↔ q ∈ l ∨ Mem h q by
    obtain ⟨a, c⟩ := H ps empty empty_inv.1 hn (fun e _ => empty_inv.2 e)
    refine ⟨a, fun q => ?_⟩
    rw [c q]
    constructor
    · rintro (h' | h')
      · exact h'
      · exact absurd h' (empty_inv.2 q)
    · exact Or.inl
  intro l
  induction l with
  | nil => intro h hi _ _; exact ⟨hi, fun q => by simp⟩
  | cons x t ih =>
    intro h hi hn hd
    have hx := List.nodup_cons.mp hn
    obtain ⟨i1, m1⟩ := insert_spec h hi x (hd x (by simp))
    have hd' : ∀ e ∈ t, ¬ Mem (insert h x) e := by
      intro e he hm
      rcases (m1 e).mp hm with rfl | hm
      · exact hx.1 he
      · exact hd e (List.mem_cons_of_mem _ he) hm
    obtain ⟨a, c⟩ := ih (insert h x) i1 hx.2 hd'
    refine ⟨a, fun q => ?_⟩
    rw [List.foldl_cons, c q, m1 q, List.mem_cons]
    tauto

/-- **a lookup finds exactly the registered parameters**, after any sequence of registrations of distinct indices and however often
the table grew on the way -/
theorem lookup_build (ps : List Nat) (hn : ps.Nodup) (q : Nat) : lookup (build ps) q = true ↔ q ∈ ps := by
  obtain ⟨hi, hm⟩ := build_spec ps hn
  rw [lookup_iff _ hi q, hm q]

example : lookup (build [0, 16, 8, 3, 5, 6, 7, 9, 10, 32]) 0 = true ∧ lookup (build [0, 16, 8, 3, 5, 6, 7, 9, 10, 32]) 24 = false ∧
    (build [0, 16, 8, 3, 5, 6, 7, 9, 10, 32]).size = 16 := by decide

end Libvna.PH
