/-
C01 — calibrate-then-apply recovers the true S-parameters of any device.

The algebra is done in an arbitrary (non-commutative) ring R; instantiating R with n×n complex
matrices gives the statements for every port count at once.  `El Er Et Em` are the blocks of the
physical error network

    b_vna = El a_vna + Er b_dut        a_dut = Et a_vna + Em b_dut        b_dut = S a_dut

and `measure` is what the VNA reads when a device with scattering matrix S is connected.
-/
import Mathlib.Algebra.Ring.Defs
import Mathlib.Algebra.Group.Invertible.Defs
import Mathlib.Algebra.Group.Invertible.Basic
import Mathlib.Tactic.NoncommRing
import Mathlib.Data.Matrix.Basic
import Mathlib.Data.Matrix.Mul
import Mathlib.Data.Rat.Defs
import Mathlib.Algebra.Field.Rat

namespace Libvna.Cal
variable {R : Type} [Ring R]

/-- the measurement M = El + Er (1 − S Em)⁻¹ S Et -/
def measure (El Er Et Em S : R) [Invertible (1 - S * Em)] : R :=
  El + Er * ⅟(1 - S * Em) * S * Et

/-- push-through: (1 − S Em)⁻¹ S = S (1 − Em S)⁻¹, in the division-free form used below -/
theorem push_through (S Em : R) [Invertible (1 - S * Em)] :
    ⅟(1 - S * Em) * S * (1 - Em * S) = S := by
  have h : S * (1 - Em * S) = (1 - S * Em) * S := by noncomm_ring
  rw [mul_assoc, h, ← mul_assoc, invOf_mul_self, one_mul]

/-- T error terms of an error network with invertible transmission block -/
structure TTerms (R : Type) where
  ts : R
  ti : R
  tx : R
  tm : R

def tOfE (El Er Et Em : R) [Invertible Et] : TTerms R :=
  { ts := Er - El * ⅟Et * Em, ti := El * ⅟Et, tx := -(⅟Et * Em), tm := ⅟Et }

/-- **The E-term network satisfies the T equation the library solves**, for every device S:
    M (Tx S + Tm) = Ts S + Ti. -/
theorem e_to_t (El Er Et Em S : R) [Invertible Et] [Invertible (1 - S * Em)] :
    let t := tOfE El Er Et Em
    measure El Er Et Em S * (t.tx * S + t.tm) = t.ts * S + t.ti := by
  simp only [tOfE, measure]
  have hp := push_through S Em
  have h1 : -(⅟Et * Em) * S + ⅟Et = ⅟Et * (1 - Em * S) := by noncomm_ring
  rw [h1]
  have h2 : (El + Er * ⅟(1 - S * Em) * S * Et) * (⅟Et * (1 - Em * S))
      = El * ⅟Et * (1 - Em * S) + Er * (⅟(1 - S * Em) * S * (Et * ⅟Et) * (1 - Em * S)) := by noncomm_ring
  rw [h2, mul_invOf_self, mul_one, hp]
  noncomm_ring

/-- `vnacal_apply` for T terms: S = (M Tx − Ts)⁻¹ (Ti − M Tm) -/
def applyT (t : TTerms R) (M : R) [Invertible (M * t.tx - t.ts)] : R :=
  ⅟(M * t.tx - t.ts) * (t.ti - M * t.tm)

/-- **apply inverts measure**: whatever terms satisfy the T equation for the device, applying them to
    its measurement returns the device — for any terms, in particular the solved ones. -/
theorem applyT_inverts (t : TTerms R) (M S : R) [Invertible (M * t.tx - t.ts)]
    (h : M * (t.tx * S + t.tm) = t.ts * S + t.ti) : applyT t M = S := by
  have h' : (M * t.tx - t.ts) * S = t.ti - M * t.tm := by
    have : M * t.tx * S + M * t.tm = t.ts * S + t.ti := by rw [← h]; noncomm_ring
    calc (M * t.tx - t.ts) * S = (M * t.tx * S + M * t.tm) - t.ts * S - M * t.tm := by noncomm_ring
      _ = t.ti - M * t.tm := by rw [this]; noncomm_ring
  unfold applyT
  rw [← h', ← mul_assoc, invOf_mul_self, one_mul]

/-- calibrate-then-apply, T form: measuring any device through any E network with invertible Et and
    applying that network's T terms gives the device back -/
theorem calibrate_then_apply_T (El Er Et Em S : R) [Invertible Et] [Invertible (1 - S * Em)]
    [Invertible (measure El Er Et Em S * (tOfE El Er Et Em).tx - (tOfE El Er Et Em).ts)] :
    applyT (tOfE El Er Et Em) (measure El Er Et Em S) = S :=
  applyT_inverts _ _ _ (e_to_t El Er Et Em S)

/-- the T equation rearranged: what `applyT` returns satisfies it -/
theorem applyT_satisfies (t : TTerms R) (M : R) [Invertible (M * t.tx - t.ts)] :
    M * (t.tx * applyT t M + t.tm) = t.ts * applyT t M + t.ti := by
  have h : (M * t.tx - t.ts) * applyT t M = t.ti - M * t.tm := by
    unfold applyT; rw [← mul_assoc, mul_invOf_self, one_mul]
  calc M * (t.tx * applyT t M + t.tm) = (M * t.tx - t.ts) * applyT t M + t.ts * applyT t M + M * t.tm := by noncomm_ring
    _ = t.ts * applyT t M + t.ti := by rw [h]; noncomm_ring

/-- the solved terms are determined only up to a common scalar factor (the unity normalisation picks one
    representative): scaling all four terms by a central invertible c does not change the corrected result -/
theorem applyT_scale_invariant (t : TTerms R) (M c : R) (hc : ∀ x, c * x = x * c)
    [Invertible (M * t.tx - t.ts)] [Invertible (M * (t.tx * c) - t.ts * c)] :
    applyT { ts := t.ts * c, ti := t.ti * c, tx := t.tx * c, tm := t.tm * c } M = applyT t M := by
  apply applyT_inverts
  simp only
  have h := applyT_satisfies t M
  calc M * (t.tx * c * applyT t M + t.tm * c)
      = M * (t.tx * (c * applyT t M) + t.tm * c) := by noncomm_ring
    _ = M * (t.tx * (applyT t M * c) + t.tm * c) := by rw [hc]
    _ = (M * (t.tx * applyT t M + t.tm)) * c := by noncomm_ring
    _ = (t.ts * applyT t M + t.ti) * c := by rw [h]
    _ = t.ts * (applyT t M * c) + t.ti * c := by noncomm_ring
    _ = t.ts * (c * applyT t M) + t.ti * c := by rw [hc]
    _ = t.ts * c * applyT t M + t.ti * c := by noncomm_ring

/-! ### U form: (Um − S Ux) M = S Us − Ui, apply: S = (Um M + Ui)(Ux M + Us)⁻¹ -/

structure UTerms (R : Type) where
  um : R
  ui : R
  ux : R
  us : R

def applyU (u : UTerms R) (M : R) [Invertible (u.ux * M + u.us)] : R :=
  (u.um * M + u.ui) * ⅟(u.ux * M + u.us)

theorem applyU_inverts (u : UTerms R) (M S : R) [Invertible (u.ux * M + u.us)]
    (h : (u.um - S * u.ux) * M = S * u.us - u.ui) : applyU u M = S := by
  have h' : u.um * M + u.ui = S * (u.ux * M + u.us) := by
    have e : u.um * M - S * u.ux * M = S * u.us - u.ui := by rw [← h]; noncomm_ring
    calc u.um * M + u.ui = (u.um * M - S * u.ux * M) + S * u.ux * M + u.ui := by noncomm_ring
      _ = S * (u.ux * M + u.us) := by rw [e]; noncomm_ring
  unfold applyU
  rw [h', mul_assoc, mul_invOf_self, mul_one]

/-- U terms of an error network with invertible reflection-tracking block Er -/
def uOfE (El Er Et Em : R) [Invertible Er] : UTerms R :=
  { um := ⅟Er, ui := -(⅟Er * El), ux := Em * ⅟Er, us := Et - Em * ⅟Er * El }

theorem e_to_u (El Er Et Em S : R) [Invertible Er] [Invertible (1 - S * Em)] :
    let u := uOfE El Er Et Em
    (u.um - S * u.ux) * measure El Er Et Em S = S * u.us - u.ui := by
  simp only [uOfE, measure]
  have h1 : ⅟Er - S * (Em * ⅟Er) = (1 - S * Em) * ⅟Er := by noncomm_ring
  rw [h1]
  have h2 : (1 - S * Em) * ⅟Er * (El + Er * ⅟(1 - S * Em) * S * Et)
      = (1 - S * Em) * ⅟Er * El + (1 - S * Em) * ((⅟Er * Er) * ⅟(1 - S * Em)) * S * Et := by noncomm_ring
  rw [h2, invOf_mul_self, one_mul, mul_invOf_self]
  noncomm_ring

theorem calibrate_then_apply_U (El Er Et Em S : R) [Invertible Er] [Invertible (1 - S * Em)]
    [Invertible ((uOfE El Er Et Em).ux * measure El Er Et Em S + (uOfE El Er Et Em).us)] :
    applyU (uOfE El Er Et Em) (measure El Er Et Em S) = S :=
  applyU_inverts _ _ _ (e_to_u El Er Et Em S)

/-! ### the linear system: the true terms are a solution, and the only one when the standards determine them -/

/-- a consistent system with injective coefficient map has exactly one solution: whatever the solver
    (LU, QR, least squares) returns as a solution of the equations is the true term vector -/
theorem solve_unique {m k : Type} [Fintype k] [Fintype m] {K : Type} [Field K]
    (A : Matrix m k K) (x x0 : k → K) (hinj : Function.Injective A.mulVec)
    (h : A.mulVec x = A.mulVec x0) : x = x0 := hinj h

/-! non-vacuity: the hypotheses are satisfiable (ideal network: no leakage, unit tracking, matched ports) -/
example (S : Matrix (Fin 3) (Fin 3) ℚ) :
    ∃ (_ : Invertible (1 : Matrix (Fin 3) (Fin 3) ℚ)) (_ : Invertible (1 - S * (0 : Matrix (Fin 3) (Fin 3) ℚ))), True := by
  have h1 : Invertible (1 : Matrix (Fin 3) (Fin 3) ℚ) := invertibleOne
  exact ⟨h1, by rw [mul_zero, sub_zero]; exact h1, trivial⟩

end Libvna.Cal
