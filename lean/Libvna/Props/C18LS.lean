/-
C18 — exact data and the measurement-error model, the least-squares form: the weighted problem `min ‖W (A x − b)‖` (W diagonal, no
weight zero) of over-determined data that fit the model exactly has the exact solution as its only minimiser — the same calibration
as without the model, whatever the weights are.
-/
import Libvna.Props.C17Order

set_option linter.unusedSectionVars false

namespace Libvna.PV
open Matrix Libvna.QR
variable {m n : Type} [Fintype m] [DecidableEq m] [Fintype n] [DecidableEq n]

theorem weighted_injective (A : Matrix m n ℂ) (w : m → ℂ) (hw : ∀ i, w i ≠ 0) (hinj : Function.Injective A.mulVec) :
    Function.Injective (diagonal w * A).mulVec := by
  intro u v h
  apply hinj
  funext i
  have hi := congrFun h i
  simp only [← mulVec_mulVec, mulVec_diagonal] at hi
  exact mul_left_cancel₀ (hw i) hi

/-- **weights cannot bias data that fit exactly, over-determined or not**: if `A x = b` and the columns of `A` are independent, every
    solution of the weighted normal equations is `x` -/
theorem weighted_ls_exact (A : Matrix m n ℂ) (b : m → ℂ) (w : m → ℂ) (hw : ∀ i, w i ≠ 0) (hinj : Function.Injective A.mulVec)
    (x : n → ℂ) (hx : A *ᵥ x = b) (y : n → ℂ)
    (hy : (diagonal w * A)ᴴ *ᵥ ((diagonal w * A) *ᵥ y - diagonal w *ᵥ b) = 0) : y = x := by
  have hx' : (diagonal w * A)ᴴ *ᵥ ((diagonal w * A) *ᵥ x - diagonal w *ᵥ b) = 0 := by
    rw [← mulVec_mulVec, hx, sub_self, mulVec_zero]
  exact Libvna.Order.ls_unique _ _ (weighted_injective A w hw hinj) y x hy hx'

/-- and the residual of the exact solution is zero in every weighting: the statistic the p-value is computed from vanishes -/
theorem weighted_residual_exact (A : Matrix m n ℂ) (b : m → ℂ) (w : m → ℂ) (x : n → ℂ) (hx : A *ᵥ x = b) :
    nrm2 ((diagonal w * A) *ᵥ x - diagonal w *ᵥ b) = 0 := by
  rw [← mulVec_mulVec, hx, sub_self]
  simp [nrm2]

end Libvna.PV
