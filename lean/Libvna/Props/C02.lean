/-
C02 — self-calibration: what is logic.

  * the iteration control (Model/IterCtl.lean): bounded work, soundness of a reported convergence, exact
    characterisation of failure, and monotonicity in the iteration limit;
  * with the true parameter values in the standards, the true error terms satisfy every equation the solver
    minimises (instance of the C01 theorems): the residual the iteration drives to zero does vanish at the truth.
-/
import Libvna.Model.IterCtl
import Libvna.Props.C01

namespace Libvna.Iter
variable {σ : Type}

theorem iter_succ' (step : σ → σ) (k : Nat) (s : σ) : iter step (k + 1) s = step (iter step k s) := by
  induction k generalizing s with
  | zero => rfl
  | succ k ih => simp only [iter]; exact ih (step s)

/-- the loop either stops at the first iterate that passes the test, or fails after looking at all of them -/
theorem loop_char (step : σ → σ) (conv : σ → Bool) (limit : Nat) (fuel it : Nat) (s : σ) (hf : fuel + it = limit + 1) (hfuel : 0 < fuel) :
    (∀ j, j < fuel → (∀ i < j, conv (iter step (i + 1) s) = false) → conv (iter step (j + 1) s) = true →
        loop step conv limit fuel it s = .converged (iter step (j + 1) s) (it + j + 1)) ∧
    ((∀ j < fuel, conv (iter step (j + 1) s) = false) → loop step conv limit fuel it s = .failed (limit + 1)) := by
  induction fuel generalizing it s with
  | zero => omega
  | succ fuel ih =>
    constructor
    · intro j hj hbefore hconv
      simp only [loop]
      cases j with
      | zero =>
        have : conv (step s) = true := by simpa [iter] using hconv
        simp [this, iter]
      | succ j =>
        have h0 : conv (step s) = false := by simpa [iter] using hbefore 0 (by omega)
        have hlim : ¬ it ≥ limit := by omega
        simp only [h0, Bool.false_eq_true, ↓reduceIte, hlim]
        have := (ih (it + 1) (step s) (by omega) (by omega)).1 j (by omega)
          (by intro i hi; simpa [iter] using hbefore (i + 1) (by omega)) (by simpa [iter] using hconv)
        rw [this]
        simp only [iter]
        congr 1
        omega
    · intro hall
      simp only [loop]
      have h0 : conv (step s) = false := by simpa [iter] using hall 0 (by omega)
      simp only [h0, Bool.false_eq_true, ↓reduceIte]
      by_cases hlim : it ≥ limit
      · simp only [hlim, ↓reduceIte]
        congr 1
        omega
      · simp only [hlim, ↓reduceIte]
        exact (ih (it + 1) (step s) (by omega) (by omega)).2 (by intro j hj; simpa [iter] using hall (j + 1) (by omega))

/-- **bounded work**: the numerical step is evaluated at most `limit + 1` times -/
theorem loop_bounded (step : σ → σ) (conv : σ → Bool) (limit : Nat) (s0 : σ) : (run step conv limit s0).evals ≤ limit + 1 := by
  unfold run
  by_cases h : ∀ j < limit + 1, conv (iter step (j + 1) s0) = false
  · rw [(loop_char step conv limit (limit + 1) 0 s0 rfl (by omega)).2 h]; simp [Res.evals]
  · have : ∃ j, j < limit + 1 ∧ conv (iter step (j + 1) s0) = true := by
      by_contra hc
      apply h
      intro j hj
      cases hv : conv (iter step (j + 1) s0) with
      | false => rfl
      | true => exact absurd ⟨j, hj, hv⟩ hc
    obtain ⟨j, hj, hjc, hmin⟩ := Nat.find_spec this |>.1 |> fun h1 =>
      (⟨Nat.find this, (Nat.find_spec this).1, (Nat.find_spec this).2, fun i hi => by
        cases hv : conv (iter step (i + 1) s0) with
        | false => rfl
        | true => exact absurd ⟨(by have := (Nat.find_spec this).1; omega), hv⟩ (Nat.find_min this hi)⟩ :
        ∃ j, j < limit + 1 ∧ conv (iter step (j + 1) s0) = true ∧ ∀ i < j, conv (iter step (i + 1) s0) = false)
    rw [(loop_char step conv limit (limit + 1) 0 s0 rfl (by omega)).1 j hj hmin hjc]
    simp [Res.evals]; omega

/-- first-passing-iterate form of the result -/
theorem run_converged_of_first (step : σ → σ) (conv : σ → Bool) (limit : Nat) (s0 : σ) (j : Nat) (hj : j ≤ limit)
    (hmin : ∀ i < j, conv (iter step (i + 1) s0) = false) (hjc : conv (iter step (j + 1) s0) = true) :
    run step conv limit s0 = .converged (iter step (j + 1) s0) (j + 1) := by
  unfold run
  rw [(loop_char step conv limit (limit + 1) 0 s0 rfl (by omega)).1 j (by omega) hmin hjc]
  simp

theorem run_failed_of_none (step : σ → σ) (conv : σ → Bool) (limit : Nat) (s0 : σ)
    (h : ∀ j ≤ limit, conv (iter step (j + 1) s0) = false) : run step conv limit s0 = .failed (limit + 1) := by
  unfold run
  exact (loop_char step conv limit (limit + 1) 0 s0 rfl (by omega)).2 (fun j hj => h j (by omega))

theorem first_or_none (conv' : Nat → Bool) (limit : Nat) :
    (∃ j, j ≤ limit ∧ conv' j = true ∧ ∀ i < j, conv' i = false) ∨ (∀ j ≤ limit, conv' j = false) := by
  induction limit with
  | zero =>
    cases h : conv' 0 with
    | true => exact Or.inl ⟨0, by omega, h, by intro i hi; omega⟩
    | false =>
      refine Or.inr ?_
      intro j hj
      have hj0 : j = 0 := by omega
      subst hj0
      exact h
  | succ n ih =>
    rcases ih with ⟨j, hj, hc, hm⟩ | hnone
    · exact Or.inl ⟨j, by omega, hc, hm⟩
    · cases h : conv' (n + 1) with
      | true => exact Or.inl ⟨n + 1, by omega, h, by intro i hi; exact hnone i (by omega)⟩
      | false =>
        refine Or.inr ?_
        intro j hj
        by_cases hjn : j ≤ n
        · exact hnone j hjn
        · have : j = n + 1 := by omega
          subst this; exact h

/-- **a reported convergence is real**: the returned state passed the tolerance test and is an iterate of the step -/
theorem loop_converged_sound (step : σ → σ) (conv : σ → Bool) (limit : Nat) (s0 s : σ) (k : Nat)
    (h : run step conv limit s0 = .converged s k) : conv s = true ∧ s = iter step k s0 ∧ 1 ≤ k ∧ k ≤ limit + 1 := by
  rcases first_or_none (fun j => conv (iter step (j + 1) s0)) limit with ⟨j, hj, hc, hm⟩ | hnone
  · rw [run_converged_of_first step conv limit s0 j hj hm hc] at h
    injection h with h1 h2
    subst h1 h2
    exact ⟨hc, rfl, by omega, by omega⟩
  · rw [run_failed_of_none step conv limit s0 hnone] at h
    cases h

/-- **failure means what it says**: the solver reports non-convergence exactly when none of the iterates it is
    allowed to look at passes the tolerance test -/
theorem loop_fails_iff (step : σ → σ) (conv : σ → Bool) (limit : Nat) (s0 : σ) :
    (∃ k, run step conv limit s0 = .failed k) ↔ ∀ j ≤ limit, conv (iter step (j + 1) s0) = false := by
  constructor
  · rintro ⟨k, hk⟩
    rcases first_or_none (fun j => conv (iter step (j + 1) s0)) limit with ⟨j, hj, hc, hm⟩ | hnone
    · rw [run_converged_of_first step conv limit s0 j hj hm hc] at hk
      cases hk
    · exact hnone
  · intro h
    exact ⟨limit + 1, run_failed_of_none step conv limit s0 h⟩

/-- **raising the iteration limit never changes a result that converged** -/
theorem loop_limit_monotone (step : σ → σ) (conv : σ → Bool) (limit L : Nat) (s0 s : σ) (k : Nat) (hL : limit ≤ L)
    (h : run step conv limit s0 = .converged s k) : run step conv L s0 = .converged s k := by
  rcases first_or_none (fun j => conv (iter step (j + 1) s0)) limit with ⟨j, hj, hc, hm⟩ | hnone
  · rw [run_converged_of_first step conv limit s0 j hj hm hc] at h
    rw [run_converged_of_first step conv L s0 j (by omega) hm hc]
    exact h
  · rw [run_failed_of_none step conv limit s0 hnone] at h
    cases h

end Libvna.Iter

namespace Libvna.Cal
variable {R : Type} [Ring R]

/-- **the truth is a zero of what the solver minimises**: whatever values the unknown standard parameters have —
    here `S p` for the true parameter vector `p` — the measurement the physical E-network produces for the standard
    `S p` satisfies the T-form equation `M (Tx S + Tm) = Ts S + Ti` with the true error terms.  The residual
    vanishes at (true error terms, true parameters), so the true parameters are a fixed point candidate of the
    iteration; nothing is claimed about the basin of attraction. -/
theorem true_parameters_fit {P : Type} (S : P → R) (p : P) (El Er Et Em : R) [Invertible Et] [Invertible (1 - S p * Em)] :
    measure El Er Et Em (S p) * ((tOfE El Er Et Em).tx * S p + (tOfE El Er Et Em).tm)
      = (tOfE El Er Et Em).ts * S p + (tOfE El Er Et Em).ti :=
  e_to_t El Er Et Em (S p)

end Libvna.Cal
