/-
C08 — equivalent spellings of a Touchstone / NPD file load to the same network data: the logic behind the equivalences.
-/
import Libvna.Model.TsOption
import Libvna.Props.C06
import Mathlib.Data.List.Perm.Basic
import Mathlib.Data.List.Pairwise

namespace Libvna.TsOpt
variable {V : Type}

/-- items that set different fields commute -/
theorem step_comm (o : Opt V) (a b : Item V) (h : a.cat ≠ b.cat) : apply (apply o a) b = apply (apply o b) a := by
  cases a <;> cases b <;> simp_all [apply, Item.cat]

/-- **the order of the option-line items does not matter** as long as no field is given twice -/
theorem parse_perm (o : Opt V) (l₁ l₂ : List (Item V)) (hp : l₁.Perm l₂) (hd : l₁.Pairwise fun a b => a.cat ≠ b.cat) :
    parseItems o l₁ = parseItems o l₂ := by
  unfold parseItems
  refine List.Perm.foldl_eq' hp ?_ o
  intro x hx y hy z
  by_cases hxy : x = y
  · subst hxy; rfl
  · haveI : Std.Symm fun a b : Item V => a.cat ≠ b.cat := ⟨fun _ _ h => Ne.symm h⟩
    exact (step_comm z x y (hd.forall hx hy hxy))

/-- letter case is irrelevant: the scanner upper-cases every token (also the exponent letter of the R value) -/
theorem parse_case_insensitive (num? : String → Option V) (fifty : V) (toks : List String) (f : String → String)
    (hf : ∀ t, upper (f t) = upper t) : parse num? fifty (toks.map f) = parse num? fifty toks := by
  unfold parse
  have : (toks.map f).map upper = toks.map upper := by
    rw [List.map_map]; apply List.map_congr_left; intro t _; exact hf t
  rw [this]

/-- an empty option line means GHz S MA R 50 -/
theorem parse_defaults (num? : String → Option V) (fifty : V) : parse num? fifty [] = some (defaults fifty) := rfl

/-- frequencies written in a larger unit and multiplied back by the loader are unchanged (exact arithmetic) -/
theorem unit_scaling_exact {K : Type} [Field K] (f : K) (k : Nat) (h10 : (10 : K) ≠ 0) : (f / 10 ^ k) * 10 ^ k = f := by
  have : (10 : K) ^ k ≠ 0 := pow_ne_zero k h10
  field_simp

end Libvna.TsOpt

namespace Libvna.FF
variable {α : Type}

/-- Upper storage of a symmetric matrix loads to the same cells as Full storage -/
theorem upper_equiv_full (n : Nat) (M m0 m0' : Nat → Nat → α) (hM : ∀ a b, M a b = M b a) (r c : Nat) (hr : r < n) (hc : c < n) :
    load .upper false ((order n .upper).map fun p => (p, M p.1 p.2)) m0 r c =
    load .full false ((order n .full).map fun p => (p, M p.1 p.2)) m0' r c := by
  rw [tsCells_upper_spec n M m0 hM r c hr hc, tsCells_full_perm n M m0' r c hr hc]

theorem lower_equiv_full (n : Nat) (M m0 m0' : Nat → Nat → α) (hM : ∀ a b, M a b = M b a) (r c : Nat) (hr : r < n) (hc : c < n) :
    load .lower false ((order n .lower).map fun p => (p, M p.1 p.2)) m0 r c =
    load .full false ((order n .full).map fun p => (p, M p.1 p.2)) m0' r c := by
  rw [tsCells_lower_spec n M m0 hM r c hr hc, tsCells_full_perm n M m0' r c hr hc]

/-- the 12_21 and the 21_12 record of the same matrix load to the same cells -/
theorem orders_equivalent (n : Nat) (M m0 m0' : Nat → Nat → α) (r c : Nat) (hr : r < n) (hc : c < n) :
    load .full false ((order n .full).map fun p => (p, M p.1 p.2)) m0 r c =
    load .full true ((order n .full).map fun p => (p, M p.2 p.1)) m0' r c := by
  rw [tsCells_full_perm n M m0 r c hr hc, two_port_order_involutive n M m0' r c hr hc]

/-- the Touchstone 1 framing of a two-port (values in 11 21 12 22 order, divided by the reference resistance and
    multiplied back by the loader) and the Touchstone 2 framing (12_21, unnormalised) load to the same cells -/
theorem ts1_framing_equiv {K : Type} [Field K] (M m0 m0' : Nat → Nat → K) (R : K) (hR : R ≠ 0) (r c : Nat) (hr : r < 2) (hc : c < 2) :
    (load .full true ((order 2 .full).zip ((saveOrder 2 true).map fun p => M p.1 p.2 / R)) m0 r c) * R =
    load .full false ((order 2 .full).map fun p => (p, M p.1 p.2)) m0' r c := by
  rw [ts1_two_port_roundtrip (fun a b => M a b / R) m0 r c hr hc, tsCells_full_perm 2 M m0' r c hr hc]
  field_simp

end Libvna.FF
