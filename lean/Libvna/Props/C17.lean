/-
C17 — equivalent ways of describing the same calibration give the same result (algebraic part).
-/
import Libvna.Props.C01

namespace Libvna.Cal
variable {R : Type} [Ring R]

/-- a common scaling of simultaneous a and b readings (column-wise factors D) leaves the reduced
    measurement matrix M = B A⁻¹ unchanged -/
theorem ab_column_scaling (A B D : R) [Invertible A] [Invertible D] [Invertible (A * D)] :
    (B * D) * ⅟(A * D) = B * ⅟A := by
  have h : ⅟(A * D) = ⅟D * ⅟A := by
    apply invOf_eq_right_inv
    rw [mul_assoc, ← mul_assoc D, mul_invOf_self, one_mul, mul_invOf_self]
  rw [h, mul_assoc, ← mul_assoc D, mul_invOf_self, one_mul]

/-- the corrected result depends on the terms only through the equation they satisfy: two sets of terms
    (however they were entered, in whatever order the standards were added) that both satisfy the T
    equation for the device correct its measurement identically -/
theorem applyT_eq_of_both_satisfy (t1 t2 : TTerms R) (M S : R)
    [Invertible (M * t1.tx - t1.ts)] [Invertible (M * t2.tx - t2.ts)]
    (h1 : M * (t1.tx * S + t1.tm) = t1.ts * S + t1.ti) (h2 : M * (t2.tx * S + t2.tm) = t2.ts * S + t2.ti) :
    applyT t1 M = applyT t2 M := by
  rw [applyT_inverts t1 M S h1, applyT_inverts t2 M S h2]

end Libvna.Cal
