/-
C12 — any single allocation failure yields a clean ENOMEM failure (the vnadata part, on the model of C15).

What a failed allocation inside `vnadata_resize` leaves behind is a *partially extended* object: the
extensions that ran before the failure are complete, the failing one stopped half way (for the
per-frequency loops after some rows), and the logical dimensions are untouched.  The theorems say
that such an object still satisfies the invariant, answers every getter as before, and that running
the call again produces exactly the object the call would have produced without the fault.
-/
import Libvna.Props.C15

namespace Libvna.VD
variable {V F : Type}

theorem VData.ext' {a b : VData V F} (h1 : a.type = b.type) (h2 : a.rows = b.rows) (h3 : a.cols = b.cols)
    (h4 : a.freqs = b.freqs) (h5 : a.pAlloc = b.pAlloc) (h6 : a.fAlloc = b.fAlloc) (h7 : a.mAlloc = b.mAlloc)
    (h8 : a.fvec = b.fvec) (h9 : a.data = b.data) (h10 : a.perF = b.perF) (h11 : a.z0 = b.z0) (h12 : a.fz0 = b.fz0)
    (h13 : a.filetype = b.filetype) (h14 : a.format = b.format) (h15 : a.fprec = b.fprec) (h16 : a.dprec = b.dprec) :
    a = b := by
  cases a; cases b; simp_all

/-- extending in two steps (the first one being what a failed attempt completed) is extending once -/
theorem extendF_compose (c : Cfg V F) (s : VData V F) (m n : Nat) (hmn : m ≤ n) :
    (s.extendF c m).extendF c n = s.extendF c n := by
  by_cases h1 : m > s.fAlloc
  · have hn : n > s.fAlloc := by omega
    by_cases h2 : n > m
    · apply VData.ext' <;> simp only [VData.extendF, h1, hn, h2, ↓reduceIte]
      · funext f
        by_cases a : s.fAlloc ≤ f ∧ f < m
        · have b : ¬ (m ≤ f ∧ f < n) := by omega
          have d : s.fAlloc ≤ f ∧ f < n := by omega
          simp [a, b, d]
        · by_cases b : m ≤ f ∧ f < n
          · have d : s.fAlloc ≤ f ∧ f < n := by omega
            simp [a, b, d]
          · have d : ¬ (s.fAlloc ≤ f ∧ f < n) := by omega
            simp [a, b, d]
      · funext f k
        by_cases a : s.fAlloc ≤ f ∧ f < m ∧ k < s.mAlloc
        · have b : ¬ (m ≤ f ∧ f < n ∧ k < s.mAlloc) := by omega
          have d : s.fAlloc ≤ f ∧ f < n ∧ k < s.mAlloc := by omega
          simp [a, b, d]
        · by_cases b : m ≤ f ∧ f < n ∧ k < s.mAlloc
          · have d : s.fAlloc ≤ f ∧ f < n ∧ k < s.mAlloc := by omega
            simp [a, b, d]
          · have d : ¬ (s.fAlloc ≤ f ∧ f < n ∧ k < s.mAlloc) := by omega
            simp [a, b, d]
      · funext f p
        by_cases hp : s.perF = true
        · by_cases a : s.fAlloc ≤ f ∧ f < m ∧ p < s.pAlloc
          · have b : ¬ (m ≤ f ∧ f < n ∧ p < s.pAlloc) := by omega
            have d : s.fAlloc ≤ f ∧ f < n ∧ p < s.pAlloc := by omega
            simp [hp, a, b, d]
          · by_cases b : m ≤ f ∧ f < n ∧ p < s.pAlloc
            · have d : s.fAlloc ≤ f ∧ f < n ∧ p < s.pAlloc := by omega
              simp [hp, a, b, d]
            · have d : ¬ (s.fAlloc ≤ f ∧ f < n ∧ p < s.pAlloc) := by omega
              simp [hp, a, b, d]
        · simp [hp]
    · have : n = m := by omega
      subst this
      simp [VData.extendF, h1]
  · have : s.extendF c m = s := by simp [VData.extendF, h1]
    rw [this]

theorem extendM_compose (c : Cfg V F) (s : VData V F) (m n : Nat) (hmn : m ≤ n) :
    (s.extendM c m).extendM c n = s.extendM c n := by
  by_cases h1 : m > s.mAlloc
  · have hn : n > s.mAlloc := by omega
    by_cases h2 : n > m
    · apply VData.ext' <;> simp only [VData.extendM, h1, hn, h2, ↓reduceIte]
      funext f k
      by_cases a : f < s.fAlloc ∧ s.mAlloc ≤ k ∧ k < m
      · have b : ¬ (f < s.fAlloc ∧ m ≤ k ∧ k < n) := by omega
        have d : f < s.fAlloc ∧ s.mAlloc ≤ k ∧ k < n := by omega
        simp [a, b, d]
      · by_cases b : f < s.fAlloc ∧ m ≤ k ∧ k < n
        · have d : f < s.fAlloc ∧ s.mAlloc ≤ k ∧ k < n := by omega
          simp [a, b, d]
        · have d : ¬ (f < s.fAlloc ∧ s.mAlloc ≤ k ∧ k < n) := by omega
          simp [a, b, d]
    · have : n = m := by omega
      subst this
      simp [VData.extendM, h1]
  · have : s.extendM c m = s := by simp [VData.extendM, h1]
    rw [this]

theorem extendP_compose (c : Cfg V F) (s : VData V F) (m n : Nat) (hmn : m ≤ n) :
    (s.extendP c m).extendP c n = s.extendP c n := by
  by_cases h1 : m > s.pAlloc
  · have hn : n > s.pAlloc := by omega
    by_cases h2 : n > m
    · by_cases hp : s.perF = true
      · apply VData.ext' <;> simp only [VData.extendP, h1, hn, h2, hp, ↓reduceIte]
        funext f p
        by_cases a : f < s.fAlloc ∧ s.pAlloc ≤ p ∧ p < m
        · have b : ¬ (f < s.fAlloc ∧ m ≤ p ∧ p < n) := by omega
          have d : f < s.fAlloc ∧ s.pAlloc ≤ p ∧ p < n := by omega
          simp [a, b, d]
        · by_cases b : f < s.fAlloc ∧ m ≤ p ∧ p < n
          · have d : f < s.fAlloc ∧ s.pAlloc ≤ p ∧ p < n := by omega
            simp [a, b, d]
          · have d : ¬ (f < s.fAlloc ∧ s.pAlloc ≤ p ∧ p < n) := by omega
            simp [a, b, d]
      · apply VData.ext' <;> simp only [VData.extendP, h1, hn, h2, hp, Bool.false_eq_true, ↓reduceIte]
        funext p
        by_cases a : s.pAlloc ≤ p ∧ p < m
        · have b : ¬ (m ≤ p ∧ p < n) := by omega
          have d : s.pAlloc ≤ p ∧ p < n := by omega
          simp [a, b, d]
        · by_cases b : m ≤ p ∧ p < n
          · have d : s.pAlloc ≤ p ∧ p < n := by omega
            simp [a, b, d]
          · have d : ¬ (s.pAlloc ≤ p ∧ p < n) := by omega
            simp [a, b, d]
    · have : n = m := by omega
      subst this
      by_cases hp : s.perF = true <;> simp [VData.extendP, h1, hp]
  · have : s.extendP c m = s := by simp [VData.extendP, h1]
    rw [this]

/-- the object left behind by a failed `vnadata_resize` (extensions done up to some intermediate sizes
    p' ≤ p, q' ≤ q, m' ≤ m; logical sizes untouched) satisfies the invariant -/
theorem partial_extension_inv (c : Cfg V F) (s : VData V F) (p' q' m' : Nat) (h : Inv c s) :
    Inv c (((s.extendP c p').extendM c q').extendF c m') :=
  extendF_inv c _ m' (extendM_inv c _ q' (extendP_inv c s p' h))

/-- memory beyond the allocation sizes the object records (e.g. rows already grown by an extension that
    then failed before committing the new size) is invisible: every getter answers as before -/
theorem hidden_update_observes_same (s : VData V F) (d : Nat → Nat → V)
    (hd : ∀ f k, f < s.fAlloc → k < s.mAlloc → d f k = s.data f k) (hc : s.rows * s.cols ≤ s.mAlloc)
    (hf' : s.freqs ≤ s.fAlloc) :
    (∀ f r k, ({ s with data := d } : VData V F).getCell f r k = s.getCell f r k) ∧
    (∀ f, ({ s with data := d } : VData V F).getMatrix f = s.getMatrix f) := by
  constructor
  · intro f r k
    unfold VData.getCell
    simp only
    by_cases h1 : inRange f s.freqs = true
    · by_cases h2 : inRange r s.rows = true
      · by_cases h3 : inRange k s.cols = true
        · by_cases h4 : f.toNat < s.fAlloc ∧ r.toNat * s.cols + k.toNat < s.mAlloc
          · simp [h1, h2, h3, h4, hd _ _ h4.1 h4.2]
          · simp [h1, h2, h3, h4]
        · simp [h1, h2, h3]
      · simp [h1, h2]
    · simp [h1]
  · intro f
    unfold VData.getMatrix
    simp only [VData.cells]
    by_cases h1 : inRange f s.freqs = true
    · by_cases h4 : f.toNat < s.fAlloc ∧ s.rows * s.cols ≤ s.mAlloc
      · simp only [h1, not_true_eq_false, ↓reduceIte, h4, and_self]
        congr 1
        apply List.map_congr_left
        intro k hk
        have := List.mem_range.mp hk
        exact hd _ _ h4.1 (by omega)
      · simp [h1, h4]
    · simp [h1]

theorem extendP_of_le (c : Cfg V F) (s : VData V F) (n : Nat) (h : n ≤ s.pAlloc) : s.extendP c n = s := by
  have : ¬ n > s.pAlloc := by omega
  simp [VData.extendP, this]

theorem extendM_of_le (c : Cfg V F) (s : VData V F) (n : Nat) (h : n ≤ s.mAlloc) : s.extendM c n = s := by
  have : ¬ n > s.mAlloc := by omega
  simp [VData.extendM, this]

theorem extendP_pAlloc_ge (c : Cfg V F) (s : VData V F) (n : Nat) : n ≤ (s.extendP c n).pAlloc := by
  by_cases h : n > s.pAlloc
  · by_cases hp : s.perF = true <;> simp [VData.extendP, h, hp]
  · simp only [VData.extendP, h, ↓reduceIte]; omega

theorem extendM_mAlloc_ge (c : Cfg V F) (s : VData V F) (n : Nat) : n ≤ (s.extendM c n).mAlloc := by
  by_cases h : n > s.mAlloc
  · simp [VData.extendM, h]
  · simp only [VData.extendM, h, ↓reduceIte]; omega

/-- **retry equivalence**: `vnadata_resize` runs the three extensions in the order ports, cells, frequencies and
    stops at the first that fails.  Whatever stage the failed attempt reached (and however far, `p'`/`q'`/`m'`,
    the failing stage itself got), running the three extensions again gives exactly the object they produce on
    the original — "as if the fault had never happened". -/
theorem fault_retry_resize (c : Cfg V F) (s : VData V F) (P Q N p' q' m' : Nat)
    (hp : p' ≤ P) (hq : q' ≤ Q) (hm : m' ≤ N) :
    let full := ((s.extendP c P).extendM c Q).extendF c N
    ((((s.extendP c p').extendP c P).extendM c Q).extendF c N = full) ∧
    (((((s.extendP c P).extendM c q').extendP c P).extendM c Q).extendF c N = full) ∧
    ((((((s.extendP c P).extendM c Q).extendF c m').extendP c P).extendM c Q).extendF c N = full) := by
  refine ⟨?_, ?_, ?_⟩
  · rw [extendP_compose c s p' _ hp]
  · rw [extendP_of_le c _ P (by rw [extendM_pAlloc]; exact extendP_pAlloc_ge c s P), extendM_compose c _ q' _ hq]
  · rw [extendP_of_le c _ P (by rw [extendF_pAlloc, extendM_pAlloc]; exact extendP_pAlloc_ge c s P),
        extendM_of_le c _ Q (by rw [extendF_mAlloc]; exact extendM_mAlloc_ge c _ Q),
        extendF_compose c _ m' _ hm]

end Libvna.VD
